// fv: repository-specific static checkers for ysugimoto/falco.
//
//	fv check <id> [--tier quick|thorough]
//	fv replay <path>
//	fv list
package main

import (
	"encoding/json"
	"fmt"
	"os"
	"path/filepath"
	"runtime/pprof"
	"strconv"
	"time"

	"fv/internal/checks"
	"fv/internal/core"
)

func main() {
	// the default go (1.23.5) cannot load /repo under GOTOOLCHAIN=local: always use the newer local toolchain
	os.Setenv("PATH", "/opt/veriftools/go1.26.8/bin:"+os.Getenv("PATH"))
	for k, v := range map[string]string{"GOTOOLCHAIN": "local", "GOFLAGS": "-mod=mod", "GOPROXY": "off", "GOSUMDB": "off", "GOWORK": "off"} {
		os.Setenv(k, v)
	}
	os.Unsetenv("GOROOT")
	if len(os.Args) < 2 {
		usage()
	}
	switch os.Args[1] {
	case "list":
		for _, id := range checks.IDs() {
			fmt.Println(id)
		}
	case "check":
		if len(os.Args) < 3 {
			usage()
		}
		id := os.Args[2]
		tier := os.Getenv("VERIF_TIER")
		for i := 3; i < len(os.Args); i++ {
			if os.Args[i] == "--tier" && i+1 < len(os.Args) {
				tier = os.Args[i+1]
				i++
			}
		}
		if tier != "thorough" {
			tier = "quick"
		}
		os.Exit(run(id, tier, ""))
	case "inventory":
		// writes tool/func_baseline.json: the function inventory the restructuring tolerance compares with
		prog, err := core.Load(core.LoadOpts{SSA: true})
		if err != nil {
			fmt.Fprintln(os.Stderr, err)
			os.Exit(2)
		}
		b, _ := json.MarshalIndent(map[string]any{"_doc": "names of all functions of the module when the rules were confirmed by hand; see DESIGN.md §7 (restructuring tolerance)", "functions": prog.FunctionInventory()}, "", " ")
		if err := os.WriteFile(filepath.Join(core.VerifDir(), "tool", "func_baseline.json"), b, 0o644); err != nil {
			fmt.Fprintln(os.Stderr, err)
			os.Exit(2)
		}
		fmt.Println("wrote tool/func_baseline.json")
	case "replay":
		if len(os.Args) < 3 {
			usage()
		}
		b, err := os.ReadFile(os.Args[2])
		if err != nil {
			fmt.Fprintln(os.Stderr, err)
			os.Exit(2)
		}
		var r struct {
			Property, Rule, Key, Tier string
		}
		if err := json.Unmarshal(b, &r); err != nil {
			fmt.Fprintln(os.Stderr, err)
			os.Exit(2)
		}
		os.Exit(run(r.Property, r.Tier, r.Rule+"|"+r.Key))
	default:
		usage()
	}
}

func usage() {
	fmt.Fprintln(os.Stderr, "usage: fv check <id> [--tier quick|thorough] | fv replay <file> | fv list")
	os.Exit(2)
}

func run(id, tier, only string) int {
	start := time.Now()
	if pf := os.Getenv("FV_PROFILE"); pf != "" {
		f, _ := os.Create(pf)
		pprof.StartCPUProfile(f)
		defer pprof.StopCPUProfile()
	}
	ck := checks.Get(id)
	if ck == nil {
		fmt.Fprintf(os.Stderr, "no check for %s\n", id)
		return 2
	}
	seed := int64(1)
	if s := os.Getenv("VERIF_SEED"); s != "" {
		if v, err := strconv.ParseInt(s, 10, 64); err == nil {
			seed = v
		}
	}
	prog, err := core.Load(core.LoadOpts{SSA: ck.NeedSSA, Overlay: checks.CanaryOverlay(id)})
	if err != nil {
		// an analysis that cannot see the code must not say "holds"
		fmt.Printf("  load failed: %v\n", err)
		path := core.WriteLoadFailure(id, tier, seed, err, start)
		fmt.Printf("VIOLATION property=%s replay=%s\n", id, path)
		return 1
	}
	ctx := core.NewCtx(prog, id, tier, seed)
	func() {
		defer func() {
			if r := recover(); r != nil {
				ctx.Fatal("checker panicked: %v", r)
				if os.Getenv("FV_DEBUG") != "" {
					panic(r)
				}
			}
		}()
		ck.Run(ctx)
	}()
	if only != "" {
		ctx.OnlyKey(only)
	}
	return ctx.Finish(start)
}
