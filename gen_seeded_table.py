#!/usr/bin/env python3
"""Developer aid: writes the seeded-change table into DESIGN.md (between the marker and the end of file) from
seeded/*/meta.json and seeded/NOT_KEPT.json."""
import json, glob, os, re
rows = []
for d in sorted(glob.glob('/verif/seeded/C*-*')):
    m = json.load(open(os.path.join(d, 'meta.json')))
    name = os.path.basename(d)
    summ = re.split(r'(?<=[.;]) ', m.get('summary', '').strip())[0][:230]
    det = m.get('detected_by') or []
    rule = ''
    for cid, reps in (m.get('check_reports') or {}).items():
        if reps:
            r = re.search(r'\[([\w.]+)\]', reps[0])
            if r:
                rule = r.group(1); break
    rows.append((name, summ.replace('|', '/'), ', '.join(det) if det else '**missed**', rule))
out = []
n = len(rows); hit = len([r for r in rows if r[2] != '**missed**'])
out.append(f"**Result: {hit} of {n} kept changes are reported by a check — their own property's except where the third column names another** (quick tier, all 19 checks run by `reeval.py` on `/repo` with the patch applied; a patch that no longer applies to the repaired tree keeps its last result).\n")
out.append("| change | what was changed | reported by | first rule that fires |")
out.append("|---|---|---|---|")
for r in rows:
    out.append(f"| {r[0]} | {r[1]} | {r[2]} | {r[3]} |")
nk = '/verif/seeded/NOT_KEPT.json'
if os.path.exists(nk):
    out.append("\nNot kept (my verification did not confirm them on the current `/repo`):\n")
    for e in json.load(open(nk)):
        out.append(f"* {e['id']}: {e['why']}")
extra = '/verif/seeded/NOTES.md'
if os.path.exists(extra):
    out.append("\n" + open(extra).read())
p = '/verif/DESIGN.md'
s = open(p).read()
i = s.index('<!-- SEEDED-TABLE -->')
s = s[:i] + '<!-- SEEDED-TABLE -->\n' + '\n'.join(out) + '\n'
open(p, 'w').write(s)
print(hit, n)
