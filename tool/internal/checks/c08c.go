package checks

import (
	"fmt"
	"go/token"

	"fv/internal/core"

	"golang.org/x/tools/go/ssa"
)

// checkLibraryPreconditions2 (sim.libpre, continued):
//   - crypto/rand.Int(r, max) panics unless max > 0: max = big.NewInt(x) with x dominated by a test implying x > 0;
//   - cipher.BlockMode.CryptBlocks(dst, src) panics unless len(src) is a multiple of the block size: dominated by a
//     test of len(src) % K against 0;
//   - an allocation whose size comes from a VCL INTEGER (strings/bytes.Repeat count, make len/cap) needs an upper
//     bound: a dominating comparison of the size (or of the integer it is computed from) with a constant; a count
//     near 2^63 otherwise panics (Repeat: output length overflow; makeslice: cap out of range) or exhausts memory.
func checkLibraryPreconditions2(c *core.Ctx, funcs []*ssa.Function) {
	positive := func(op token.Token, k int64, isFloat, edgeTrue, left bool) bool {
		if isFloat {
			return false
		}
		lo, _, excl, ok := intervalOf(op, k, edgeTrue, left)
		return ok && excl == nil && lo > 0
	}
	bounded := func(op token.Token, k int64, isFloat, edgeTrue, left bool) bool {
		if isFloat {
			return false
		}
		_, hi, excl, ok := intervalOf(op, k, edgeTrue, left)
		return ok && excl == nil && hi < 1<<40
	}
	// tests of the integer the size is computed from must bound it on both sides (the size may be |x| or k - x)
	lowerBounded := func(op token.Token, k int64, isFloat, edgeTrue, left bool) bool {
		if isFloat {
			return false
		}
		lo, _, excl, ok := intervalOf(op, k, edgeTrue, left)
		return ok && excl == nil && lo > -(1<<40)
	}
	strip := func(v ssa.Value) ssa.Value {
		for {
			if cv, ok := v.(*ssa.Convert); ok {
				v = cv.X
				continue
			}
			return v
		}
	}
	// vclIntegers: loads of value.Integer.Value in the data slice of v (conversions, arithmetic, phis, math.Abs, max/min)
	var vclIntegers func(v ssa.Value, seen map[ssa.Value]bool, out *[]ssa.Value)
	vclIntegers = func(v ssa.Value, seen map[ssa.Value]bool, out *[]ssa.Value) {
		if v == nil || seen[v] {
			return
		}
		seen[v] = true
		switch t := v.(type) {
		case *ssa.Convert:
			vclIntegers(t.X, seen, out)
		case *ssa.BinOp:
			vclIntegers(t.X, seen, out)
			vclIntegers(t.Y, seen, out)
		case *ssa.Phi:
			for _, e := range t.Edges {
				vclIntegers(e, seen, out)
			}
		case *ssa.Call:
			if bi, ok := t.Common().Value.(*ssa.Builtin); ok && (bi.Name() == "max" || bi.Name() == "min") {
				for _, a := range t.Common().Args {
					vclIntegers(a, seen, out)
				}
			}
			if cal := t.Common().StaticCallee(); cal != nil && cal.Pkg != nil && cal.Pkg.Pkg.Path() == "math" {
				for _, a := range t.Common().Args {
					vclIntegers(a, seen, out)
				}
			}
		case *ssa.UnOp:
			if t.Op == token.MUL {
				if fa, ok := t.X.(*ssa.FieldAddr); ok {
					if f := core.FieldOf(fa); f != nil && f.Name() == "Value" && core.NamedTypeName(derefType(fa.X.Type())) == "Integer" {
						*out = append(*out, t)
					}
				}
			} else {
				vclIntegers(t.X, seen, out)
			}
		}
	}
	for _, fn := range funcs {
		perFn := map[string]int{}
		for _, b := range fn.Blocks {
			for _, in := range b.Instrs {
				keyOf := func(what string) string {
					perFn[what]++
					return fmt.Sprintf("%s|%s#%d", core.FnName(fn), what, perFn[what])
				}
				// size obligations
				var sizes []ssa.Value
				what := ""
				switch t := in.(type) {
				case *ssa.MakeSlice:
					sizes, what = []ssa.Value{t.Len}, "make"
					if t.Cap != t.Len {
						sizes = append(sizes, t.Cap)
					}
				case *ssa.Call:
					cal := t.Common().StaticCallee()
					if cal != nil && cal.Pkg != nil {
						switch cal.Pkg.Pkg.Path() + "." + cal.Name() {
						case "strings.Repeat", "bytes.Repeat":
							sizes, what = []ssa.Value{t.Common().Args[1]}, cal.Pkg.Pkg.Path()+".Repeat"
						case "crypto/rand.Int":
							key := keyOf("crypto/rand.Int")
							ok := false
							if nb, isCall := t.Common().Args[1].(*ssa.Call); isCall {
								if bc := nb.Common().StaticCallee(); bc != nil && bc.Name() == "NewInt" {
									x := nb.Common().Args[0]
									if k, isK := core.ConstIntValue(x); isK {
										ok = k > 0
									} else {
										ok = guardedValueCompare(fn, x, b, positive) || guardedCompare(fn, accessPath(x), b, positive)
									}
								}
							}
							if ok {
								c.Discharge("sim.libpre", key, in.Pos(), "the upper limit handed to crypto/rand.Int is dominated by a test implying it is positive")
							} else {
								c.Report("sim.libpre", key, in.Pos(), fmt.Sprintf("%s calls crypto/rand.Int with a limit that no dominating test shows to be positive: the call panics for a limit <= 0 and takes the simulator down", core.FnName(fn)))
							}
						}
					}
					if t.Common().IsInvoke() && t.Common().Method.Name() == "CryptBlocks" && len(t.Common().Args) == 2 {
						key := keyOf("CryptBlocks")
						if multipleTested(fn, t.Common().Args[1], b) {
							c.Discharge("sim.libpre", key, in.Pos(), "len(src) % block size is tested against 0 on every path to the call")
						} else {
							c.Report("sim.libpre", key, in.Pos(), fmt.Sprintf("%s calls CryptBlocks on input whose length no dominating test shows to be a multiple of the block size: CryptBlocks panics on a partial block", core.FnName(fn)))
						}
					}
				}
				for _, sz := range sizes {
					if sz == nil {
						continue
					}
					var srcs []ssa.Value
					vclIntegers(sz, map[ssa.Value]bool{}, &srcs)
					if len(srcs) == 0 {
						continue
					}
					key := keyOf(what + " size from a VCL integer")
					ok := guardedValueCompare(fn, sz, b, bounded) || guardedValueCompare(fn, strip(sz), b, bounded) || guardedCompare(fn, accessPath(strip(sz)), b, bounded)
					for _, s := range srcs {
						if guardedCompare(fn, accessPath(s), b, bounded) && guardedCompare(fn, accessPath(s), b, lowerBounded) {
							ok = true
						}
					}
					if ok {
						c.Discharge("sim.libpre", key, in.Pos(), "the size is compared with a constant upper bound before the allocation")
					} else {
						c.Report("sim.libpre", key, in.Pos(), fmt.Sprintf("%s allocates (%s) a size computed from a VCL INTEGER argument with no dominating comparison against an upper bound: an argument near 2^63 panics (Repeat: output length overflow / makeslice: cap out of range) or exhausts memory, and nothing recovers it", core.FnName(fn), what))
					}
				}
			}
		}
	}
}

// multipleTested: a comparison of len(src) % K with 0 dominates b on the edge where the remainder is 0.
func multipleTested(fn *ssa.Function, src ssa.Value, b *ssa.BasicBlock) bool {
	isRemOfLen := func(v ssa.Value) bool {
		bo, ok := v.(*ssa.BinOp)
		if !ok || bo.Op != token.REM {
			return false
		}
		if k, ok := core.ConstIntValue(bo.Y); !ok || k <= 1 {
			return false
		}
		call, ok := bo.X.(*ssa.Call)
		if !ok {
			return false
		}
		bi, ok := call.Common().Value.(*ssa.Builtin)
		return ok && bi.Name() == "len" && (call.Common().Args[0] == src || sameBaseValue(call.Common().Args[0], src))
	}
	for _, blk := range fn.Blocks {
		iff, ok := blk.Instrs[len(blk.Instrs)-1].(*ssa.If)
		if !ok {
			continue
		}
		bo, ok := iff.Cond.(*ssa.BinOp)
		if !ok || (bo.Op != token.EQL && bo.Op != token.NEQ) {
			continue
		}
		var other ssa.Value
		switch {
		case isRemOfLen(bo.X):
			other = bo.Y
		case isRemOfLen(bo.Y):
			other = bo.X
		default:
			continue
		}
		if k, ok := core.ConstIntValue(other); !ok || k != 0 {
			continue
		}
		edge := 0
		if bo.Op == token.NEQ {
			edge = 1
		}
		if core.EdgeDominates(blk, edge, b) {
			return true
		}
	}
	return false
}
