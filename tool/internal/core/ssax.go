package core

import (
	"go/constant"
	"go/token"
	"go/types"
	"sort"
	"strings"

	"golang.org/x/tools/go/ssa"
)

// ModuleFuncs returns every ssa function (including anonymous ones and methods) whose
// package belongs to the falco module, optionally restricted to module-relative package prefixes.
func (p *Program) ModuleFuncs(prefixes ...string) []*ssa.Function {
	if p.Queried == nil {
		p.Queried = map[string]bool{}
	}
	if len(prefixes) == 0 {
		p.Queried[""] = true
	}
	for _, pre := range prefixes {
		p.Queried[pre] = true
	}
	var out []*ssa.Function
	seen := map[*ssa.Function]bool{}
	var add func(f *ssa.Function)
	add = func(f *ssa.Function) {
		if f == nil || seen[f] {
			return
		}
		seen[f] = true
		if f.Blocks != nil {
			out = append(out, f)
		}
		for _, a := range f.AnonFuncs {
			add(a)
		}
	}
	for rel, sp := range p.SSAPkg {
		if len(prefixes) > 0 {
			ok := false
			for _, pre := range prefixes {
				if rel == pre || strings.HasPrefix(rel, pre+"/") {
					ok = true
				}
			}
			if !ok {
				continue
			}
		}
		for _, m := range sp.Members {
			switch m := m.(type) {
			case *ssa.Function:
				add(m)
			case *ssa.Type:
				for _, t := range []types.Type{m.Type(), types.NewPointer(m.Type())} {
					ms := p.SSA.MethodSets.MethodSet(t)
					for i := 0; i < ms.Len(); i++ {
						fn := p.SSA.MethodValue(ms.At(i))
						if fn != nil && fn.Pkg == sp && fn.Synthetic == "" {
							add(fn)
						}
					}
				}
			}
		}
	}
	sort.Slice(out, func(i, j int) bool {
		if out[i].Pos() != out[j].Pos() {
			return out[i].Pos() < out[j].Pos()
		}
		return out[i].String() < out[j].String()
	})
	return out
}

// FnName gives a stable readable name "pkgrel.(*T).M" / "pkgrel.F" / "pkgrel.F$1".
func FnName(f *ssa.Function) string {
	if f == nil {
		return "<nil>"
	}
	if f.Parent() != nil {
		return FnName(f.Parent()) + strings.TrimPrefix(f.Name(), f.Parent().Name())
	}
	if obj, ok := f.Object().(*types.Func); ok {
		return ShortFunc(obj)
	}
	return f.String()
}

// StaticCallee returns the static callee of a call instruction, or nil.
func StaticCallee(instr ssa.Instruction) *ssa.Function {
	if c, ok := instr.(ssa.CallInstruction); ok {
		return c.Common().StaticCallee()
	}
	return nil
}

// CalleeIs reports whether fn is pkgPath.name ("Recv.Method" for methods).
func CalleeIs(fn *ssa.Function, pkgPath, name string) bool {
	if fn == nil {
		return false
	}
	if o := fn.Origin(); o != nil {
		fn = o
	}
	obj, ok := fn.Object().(*types.Func)
	if !ok {
		return false
	}
	return IsFunc(obj, pkgPath, name)
}

// IsNilConst reports whether v is the nil constant.
func IsNilConst(v ssa.Value) bool {
	c, ok := v.(*ssa.Const)
	return ok && c.Value == nil
}

func ConstIntValue(v ssa.Value) (int64, bool) {
	c, ok := v.(*ssa.Const)
	if !ok || c.Value == nil || c.Value.Kind() != constant.Int {
		return 0, false
	}
	return constant.Int64Val(c.Value)
}

// NilTest describes an `If` on `v == nil` / `v != nil`.
type NilTest struct {
	If      *ssa.If
	NilSucc int // index of the successor taken when v is nil
}

// NilTestsOf finds the If instructions that test v (or an equivalent value) against nil.
func NilTestsOf(v ssa.Value) []NilTest {
	var out []NilTest
	refs := v.Referrers()
	if refs == nil {
		return nil
	}
	for _, r := range *refs {
		b, ok := r.(*ssa.BinOp)
		if !ok || (b.Op != token.EQL && b.Op != token.NEQ) {
			continue
		}
		other := b.Y
		if b.Y == v {
			other = b.X
		}
		if !IsNilConst(other) {
			continue
		}
		brefs := b.Referrers()
		if brefs == nil {
			continue
		}
		for _, br := range *brefs {
			if iff, ok := br.(*ssa.If); ok {
				nilSucc := 0 // v == nil true => succ 0
				if b.Op == token.NEQ {
					nilSucc = 1
				}
				out = append(out, NilTest{If: iff, NilSucc: nilSucc})
			}
		}
	}
	return out
}

// EdgeDominates reports whether the CFG edge from..from.Succs[idx] dominates block target.
func EdgeDominates(from *ssa.BasicBlock, idx int, target *ssa.BasicBlock) bool {
	s := from.Succs[idx]
	if from.Succs[0] == from.Succs[1] {
		return false
	}
	if !s.Dominates(target) {
		return false
	}
	// the edge dominates iff every other predecessor of s is itself dominated by s (back edges)
	for _, p := range s.Preds {
		if p == from {
			continue
		}
		if !s.Dominates(p) {
			return false
		}
	}
	return true
}

// DominatedByNil reports whether block b is only reachable when v was tested == nil (wantNil)
// or != nil (!wantNil).
func DominatedByNil(v ssa.Value, b *ssa.BasicBlock, wantNil bool) bool {
	return dominatedByNil(v, b, wantNil, 0)
}

func dominatedByNil(v ssa.Value, b *ssa.BasicBlock, wantNil bool, depth int) bool {
	for _, t := range NilTestsOf(v) {
		idx := t.NilSucc
		if !wantNil {
			idx = 1 - idx
		}
		if EdgeDominates(t.If.Block(), idx, b) {
			return true
		}
	}
	if !wantNil || depth > 3 || v.Referrers() == nil {
		return false
	}
	// errors merged into one variable and tested once (err = f(); if err == nil { err = g() }; if err != nil { return }):
	// on the nil edge of the merged value p, v is nil when every way into p either carries v itself, or comes from a
	// place where v is already known nil, or is an edge that is only taken when the value it carries is not nil
	for _, r := range *v.Referrers() {
		p, ok := r.(*ssa.Phi)
		if !ok || !dominatedByNil(p, b, true, depth+1) {
			continue
		}
		all := true
		for j, w := range p.Edges {
			if w == v {
				continue
			}
			pred := p.Block().Preds[j]
			if dominatedByNil(v, pred, true, depth+1) {
				continue
			}
			// the edge pred -> phi block is the not-nil edge of a test of w: it cannot carry a nil w
			contradicts := false
			for _, t := range NilTestsOf(w) {
				if t.If.Block() == pred && pred.Succs[1-t.NilSucc] == p.Block() && pred.Succs[0] != pred.Succs[1] {
					contradicts = true
				} else if EdgeDominates(t.If.Block(), 1-t.NilSucc, pred) {
					contradicts = true
				}
			}
			if !contradicts {
				all = false
				break
			}
		}
		if all {
			return true
		}
	}
	return false
}

// InstrDominates reports whether instruction a is executed before b on every path to b.
func InstrDominates(a, b ssa.Instruction) bool {
	if a.Block() == b.Block() {
		for _, i := range a.Block().Instrs {
			if i == a {
				return true
			}
			if i == b {
				return false
			}
		}
		return false
	}
	return a.Block().Dominates(b.Block())
}

// Reaches reports whether there is a CFG path from block a to block b (a==b counts).
func Reaches(a, b *ssa.BasicBlock) bool {
	seen := map[*ssa.BasicBlock]bool{}
	var dfs func(x *ssa.BasicBlock) bool
	dfs = func(x *ssa.BasicBlock) bool {
		if x == b {
			return true
		}
		if seen[x] {
			return false
		}
		seen[x] = true
		for _, s := range x.Succs {
			if dfs(s) {
				return true
			}
		}
		return false
	}
	return dfs(a)
}

// BackSlice computes the intra-procedural backward slice of v over SSA operands
// (through phis, conversions, binops, calls' arguments, field/index addressing and loads).
// Loads through an Alloc follow the stores into that Alloc.
//
// The slice looks into helpers: at a call of a function of the module (static callee with a body, not recursive on the
// way, at most sliceDepth levels deep) it continues with the values the callee returns - all results for a call used as
// a value, the selected result for an Extract - and a parameter of such a callee continues with the argument of the
// call through which the callee was entered. Extracting a helper from a function therefore does not cut the slice.
func BackSlice(v ssa.Value) map[ssa.Value]bool {
	seen := map[ssa.Value]bool{}
	type frame struct {
		call *ssa.Call
		fn   *ssa.Function
	}
	var stack []frame
	var walk func(x ssa.Value)
	enter := func(call *ssa.Call, results []int) {
		callee := call.Common().StaticCallee()
		if callee == nil || callee.Blocks == nil || callee.Pkg == nil || !strings.HasPrefix(callee.Pkg.Pkg.Path(), ModPath) || len(stack) >= sliceDepth {
			return
		}
		for _, f := range stack {
			if f.fn == callee {
				return
			}
		}
		stack = append(stack, frame{call, callee})
		for _, rs := range ReturnSites(callee) {
			for _, i := range results {
				if i < len(rs.Results) {
					walk(rs.Results[i])
				}
			}
		}
		stack = stack[:len(stack)-1]
	}
	walk = func(x ssa.Value) {
		if x == nil {
			return
		}
		if p, isParam := x.(*ssa.Parameter); isParam && len(stack) > 0 && stack[len(stack)-1].fn == p.Parent() {
			// a parameter of the helper we are in: the argument of the call we came through (not memoised per value: the
			// same parameter stands for another argument at another call)
			top := stack[len(stack)-1]
			seen[x] = true
			for i, q := range top.fn.Params {
				if q == p && i < len(top.call.Common().Args) {
					stack = stack[:len(stack)-1]
					walk(top.call.Common().Args[i])
					stack = append(stack, top)
				}
			}
			return
		}
		if seen[x] {
			return
		}
		seen[x] = true
		switch t := x.(type) {
		case *ssa.UnOp:
			walk(t.X)
			if t.Op == token.MUL {
				// load: follow stores to the same address value
				followStores(t.X, walk)
			}
		case *ssa.Alloc:
			followStores(t, walk)
		case *ssa.Extract:
			walk(t.Tuple)
			if call, ok := t.Tuple.(*ssa.Call); ok {
				enter(call, []int{t.Index})
			}
		case *ssa.Call:
			for _, op := range t.Operands(nil) {
				if *op != nil {
					walk(*op)
				}
			}
			if t.Common().Signature().Results().Len() == 1 {
				enter(t, []int{0})
			}
		case ssa.Instruction:
			for _, op := range t.Operands(nil) {
				if *op != nil {
					walk(*op)
				}
			}
		}
	}
	walk(v)
	return seen
}

// BackSliceLocal is the slice that stays inside the function of v (no look into callees): for rules that recognise a
// marker by its shape (a field of a given name) rather than by value identity - inside a callee the same shape means
// something else.
func BackSliceLocal(v ssa.Value) map[ssa.Value]bool {
	seen := map[ssa.Value]bool{}
	var walk func(x ssa.Value)
	walk = func(x ssa.Value) {
		if x == nil || seen[x] {
			return
		}
		seen[x] = true
		switch t := x.(type) {
		case *ssa.UnOp:
			walk(t.X)
			if t.Op == token.MUL {
				followStores(t.X, walk)
			}
		case *ssa.Alloc:
			followStores(t, walk)
		case ssa.Instruction:
			for _, op := range t.Operands(nil) {
				if *op != nil {
					walk(*op)
				}
			}
		}
	}
	walk(v)
	return seen
}

// sliceDepth bounds how many helpers deep BackSlice follows returned values.
const sliceDepth = 3

func followStores(addr ssa.Value, walk func(ssa.Value)) {
	refs := addr.Referrers()
	if refs == nil {
		return
	}
	for _, r := range *refs {
		if st, ok := r.(*ssa.Store); ok && st.Addr == addr {
			walk(st.Val)
		}
	}
}

// FieldOf returns the struct field selected by a FieldAddr/Field instruction.
func FieldOf(v ssa.Value) *types.Var {
	switch t := v.(type) {
	case *ssa.FieldAddr:
		st, _ := types.Unalias(t.X.Type()).Underlying().(*types.Pointer)
		if st == nil {
			return nil
		}
		s, _ := st.Elem().Underlying().(*types.Struct)
		if s == nil {
			return nil
		}
		return s.Field(t.Field)
	case *ssa.Field:
		s, _ := t.X.Type().Underlying().(*types.Struct)
		if s == nil {
			return nil
		}
		return s.Field(t.Field)
	}
	return nil
}

// FieldOwner returns "pkgpath.Type" of the struct a FieldAddr/Field selects from.
func FieldOwner(v ssa.Value) string {
	switch t := v.(type) {
	case *ssa.FieldAddr:
		return NamedTypePkgName(t.X.Type())
	case *ssa.Field:
		return NamedTypePkgName(t.X.Type())
	}
	return ""
}

// ExtractResult returns the call a value was extracted from and the result index
// (index 0 and the call itself for single-result calls).
func ExtractResult(v ssa.Value) (ssa.CallInstruction, int) {
	switch t := v.(type) {
	case *ssa.Extract:
		if c, ok := t.Tuple.(*ssa.Call); ok {
			return c, t.Index
		}
	case *ssa.Call:
		return t, 0
	}
	return nil, -1
}

// ErrorResults returns the SSA values holding the error-typed results of a call.
func ErrorResults(call *ssa.Call) []ssa.Value {
	var out []ssa.Value
	res := call.Common().Signature().Results()
	if res.Len() == 1 {
		if isErrorType(res.At(0).Type()) {
			out = append(out, call)
		}
		return out
	}
	refs := call.Referrers()
	if refs == nil {
		return nil
	}
	for _, r := range *refs {
		if ex, ok := r.(*ssa.Extract); ok && isErrorType(res.At(ex.Index).Type()) {
			out = append(out, ex)
		}
	}
	return out
}

func isErrorType(t types.Type) bool {
	return types.Identical(t, types.Universe.Lookup("error").Type())
}

func IsErrorType(t types.Type) bool { return isErrorType(t) }

// RetSite is one return of a function with the values it returns, with defer-spilled
// results (`*t0 = v; rundefers; t = *t0; return t`) resolved to the stored value.
type RetSite struct {
	Ret     *ssa.Return
	Results []ssa.Value
}

func ReturnSites(fn *ssa.Function) []RetSite {
	var out []RetSite
	for _, b := range fn.Blocks {
		if fn.Recover != nil && b == fn.Recover {
			continue
		}
		for _, in := range b.Instrs {
			r, ok := in.(*ssa.Return)
			if !ok {
				continue
			}
			rs := RetSite{Ret: r}
			for _, v := range r.Results {
				rs.Results = append(rs.Results, resolveSpill(v, b))
			}
			out = append(out, rs)
		}
	}
	return out
}

func resolveSpill(v ssa.Value, b *ssa.BasicBlock) ssa.Value {
	u, ok := v.(*ssa.UnOp)
	if !ok || u.Op != token.MUL {
		return v
	}
	al, ok := u.X.(*ssa.Alloc)
	if !ok {
		return v
	}
	// last store to al in block b before the load
	var last ssa.Value
	for _, in := range b.Instrs {
		if in == ssa.Instruction(u) {
			break
		}
		if st, ok := in.(*ssa.Store); ok && st.Addr == al {
			last = st.Val
		}
	}
	if last != nil {
		return last
	}
	// unique store anywhere
	var only ssa.Value
	n := 0
	if refs := al.Referrers(); refs != nil {
		for _, r := range *refs {
			if st, ok := r.(*ssa.Store); ok && st.Addr == al {
				only = st.Val
				n++
			}
		}
	}
	if n == 1 {
		return only
	}
	return v
}

// CallersOf returns the static call sites of fn inside the given functions.
func CallersOf(fn *ssa.Function, within []*ssa.Function) []ssa.CallInstruction {
	var out []ssa.CallInstruction
	for _, f := range within {
		for _, b := range f.Blocks {
			for _, in := range b.Instrs {
				if ci, ok := in.(ssa.CallInstruction); ok && ci.Common().StaticCallee() == fn {
					out = append(out, ci)
				}
			}
		}
	}
	return out
}

// DerivesFromCall reports whether v's backward slice contains a call to target, following
// parameters to the arguments of every static caller (all callers must agree), up to depth levels.
func DerivesFromCall(v ssa.Value, target *ssa.Function, within []*ssa.Function, depth int) bool {
	sl := BackSlice(v)
	for x := range sl {
		if c, ok := x.(*ssa.Call); ok && c.Common().StaticCallee() == target {
			return true
		}
	}
	if depth == 0 {
		return false
	}
	for x := range sl {
		p, ok := x.(*ssa.Parameter)
		if !ok {
			continue
		}
		fn := p.Parent()
		idx := -1
		for i, q := range fn.Params {
			if q == p {
				idx = i
			}
		}
		callers := CallersOf(fn, within)
		if idx < 0 || len(callers) == 0 {
			continue
		}
		all := true
		for _, cs := range callers {
			args := cs.Common().Args
			if idx >= len(args) || !DerivesFromCall(args[idx], target, within, depth-1) {
				all = false
			}
		}
		if all {
			return true
		}
	}
	return false
}

// IsAliasOf reports whether v is param itself, or a load from (or the address of) the cell the
// parameter was spilled to because a closure captures it (`t0 = new T (p); *t0 = p; t1 = *t0`).
func IsAliasOf(v ssa.Value, param ssa.Value) bool {
	if v == param {
		return true
	}
	switch t := v.(type) {
	case *ssa.UnOp:
		if t.Op == token.MUL {
			return isSpillCellOf(t.X, param)
		}
	case *ssa.ChangeType:
		return IsAliasOf(t.X, param)
	}
	return false
}

func isSpillCellOf(cell ssa.Value, param ssa.Value) bool {
	al, ok := cell.(*ssa.Alloc)
	if !ok {
		if fv, ok := cell.(*ssa.FreeVar); ok {
			_ = fv
		}
		return false
	}
	n := 0
	okStore := false
	if refs := al.Referrers(); refs != nil {
		for _, r := range *refs {
			if st, isSt := r.(*ssa.Store); isSt && st.Addr == ssa.Value(al) {
				n++
				if st.Val == param {
					okStore = true
				}
			}
		}
	}
	return n == 1 && okStore
}

// IsSpillCellOf reports whether cell is the Alloc a parameter was spilled to.
func IsSpillCellOf(cell ssa.Value, param ssa.Value) bool { return isSpillCellOf(cell, param) }

// FunctionInventory: the names of all functions of the module that have a body (FnName form), sorted.
func (p *Program) FunctionInventory() []string {
	q := map[string]bool{}
	for k, v := range p.Queried {
		q[k] = v
	}
	var out []string
	for _, fn := range p.ModuleFuncs() {
		out = append(out, FnName(fn))
	}
	p.Queried = q
	sort.Strings(out)
	return out
}

// NewFunctionsIn: functions whose name is not in the baseline inventory and whose package lies under one of the given
// module-relative prefixes ("" = whole module).
func (p *Program) NewFunctionsIn(baseline map[string]bool, prefixes map[string]bool) []string {
	q := map[string]bool{}
	for k, v := range p.Queried {
		q[k] = v
	}
	var out []string
	var pres []string
	all := false
	for pre := range prefixes {
		if pre == "" {
			all = true
		}
		pres = append(pres, pre)
	}
	var fns []*ssa.Function
	if all || len(pres) == 0 {
		fns = p.ModuleFuncs()
	} else {
		fns = p.ModuleFuncs(pres...)
	}
	for _, fn := range fns {
		if p.IsCanary(fn.Pos()) {
			continue // the known-bad examples overlaid for canary rules are not part of the tree
		}
		if n := FnName(fn); !baseline[n] {
			out = append(out, n)
		}
	}
	p.Queried = q
	sort.Strings(out)
	return out
}

// EqCond: v as an equality test. `x == y` is equal on the true edge (successor 0), `x != y` on the false edge
// (successor 1); eq is the index of the successor taken when the operands are equal, 1-eq the other one. Rules that
// look for "the arm where x equals K" use it so that an inverted test with swapped arms reads the same.
func EqCond(v ssa.Value) (bo *ssa.BinOp, eq int, ok bool) {
	bo, ok = v.(*ssa.BinOp)
	if !ok {
		return nil, 0, false
	}
	switch bo.Op {
	case token.EQL:
		return bo, 0, true
	case token.NEQ:
		return bo, 1, true
	}
	return nil, 0, false
}

// EqBranch: EqCond of the condition block b branches on.
func EqBranch(b *ssa.BasicBlock) (bo *ssa.BinOp, eq int, ok bool) {
	if len(b.Instrs) == 0 {
		return nil, 0, false
	}
	iff, isIf := b.Instrs[len(b.Instrs)-1].(*ssa.If)
	if !isIf {
		return nil, 0, false
	}
	return EqCond(iff.Cond)
}

// ZeroEdge: cond as an emptiness test of a non-negative quantity x (a len): the successor index taken when x is zero.
// x == 0, x <= 0, x < 1 are zero on the true edge; x != 0, x > 0, x >= 1 on the false edge (also with the operands swapped).
func ZeroEdge(cond ssa.Value) (x ssa.Value, idx int, ok bool) {
	bo, isBo := cond.(*ssa.BinOp)
	if !isBo {
		return nil, 0, false
	}
	op, l, r := bo.Op, bo.X, bo.Y
	if _, isK := ConstIntValue(l); isK {
		// K op x  ==  x op' K
		l, r = r, l
		switch op {
		case token.LSS:
			op = token.GTR
		case token.LEQ:
			op = token.GEQ
		case token.GTR:
			op = token.LSS
		case token.GEQ:
			op = token.LEQ
		}
	}
	k, isK := ConstIntValue(r)
	if !isK {
		return nil, 0, false
	}
	switch {
	case k == 0 && (op == token.EQL || op == token.LEQ), k == 1 && op == token.LSS:
		return l, 0, true
	case k == 0 && (op == token.NEQ || op == token.GTR), k == 1 && op == token.GEQ:
		return l, 1, true
	}
	return nil, 0, false
}

// DominatedByTrue: block b is executed only when the boolean value v was true: it is dominated by the true edge of a
// branch on v, by the false edge of a branch on !v, or (v && w lowered into control flow) v is tested on the way.
func DominatedByTrue(v ssa.Value, b *ssa.BasicBlock) bool {
	if v.Referrers() == nil {
		return false
	}
	for _, r := range *v.Referrers() {
		switch t := r.(type) {
		case *ssa.If:
			if EdgeDominates(t.Block(), 0, b) {
				return true
			}
		case *ssa.UnOp:
			if t.Op == token.NOT && t.Referrers() != nil {
				for _, r2 := range *t.Referrers() {
					if iff, ok := r2.(*ssa.If); ok && EdgeDominates(iff.Block(), 1, b) {
						return true
					}
				}
			}
		}
	}
	return false
}
