// Package checks holds one file per property; each registers its rules here.
package checks

import (
	"os"
	"path/filepath"
	"sort"
	"strings"

	"fv/internal/core"
)

type Check struct {
	ID      string
	NeedSSA bool
	Run     func(c *core.Ctx)
}

var registry = map[string]*Check{}

func register(c *Check) { registry[c.ID] = c }

func Get(id string) *Check { return registry[id] }

func IDs() []string {
	var ids []string
	for id := range registry {
		ids = append(ids, id)
	}
	sort.Strings(ids)
	return ids
}

// CanaryOverlay returns the in-memory overlay of canary files for a property:
// every file /verif/tool/canaries/<id>/<pkg path with __ for />/zz_fv_canary_*.go is
// added to /repo/<pkg path>/ (the files never exist under /repo).
func CanaryOverlay(id string) map[string][]byte {
	root := filepath.Join(core.VerifDir(), "tool", "canaries", id)
	ov := map[string][]byte{}
	ents, err := os.ReadDir(root)
	if err != nil {
		return nil
	}
	for _, d := range ents {
		if !d.IsDir() {
			continue
		}
		pkgdir := filepath.Join(core.RepoDir(), strings.ReplaceAll(d.Name(), "__", "/"))
		files, _ := os.ReadDir(filepath.Join(root, d.Name()))
		for _, f := range files {
			if strings.HasPrefix(f.Name(), core.CanaryPrefix) && strings.HasSuffix(f.Name(), ".go.txt") {
				b, err := os.ReadFile(filepath.Join(root, d.Name(), f.Name()))
				if err == nil {
					ov[filepath.Join(pkgdir, strings.TrimSuffix(f.Name(), ".txt"))] = b
				}
			}
		}
	}
	if len(ov) == 0 {
		return nil
	}
	return ov
}
