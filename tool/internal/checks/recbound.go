package checks

import (
	"fmt"
	"go/constant"
	"go/token"
	"go/types"
	"os"
	"sort"
	"strings"

	"fv/internal/core"

	"golang.org/x/tools/go/ssa"
)

// E9 recbound — every recursion is structurally descending or bound-guarded.
//
// Call graph of a package family (static callees, closures, bound methods). Each call edge inside a
// strongly connected component is classified from SSA:
//   descending  every AST-typed argument derives from an AST-typed parameter of the caller through at least one
//               field / index / range step (t.Left, stmt.Consequence.Statements, range element);
//   same        passes a parameter itself (possibly type-asserted);
//   re-entry    anything else: an AST value from a map lookup or a fresh parse, or no AST argument at all.
// A re-entry (or same) edge is guarded when its call site is dominated by
//   G1 the continuing edge of an integer comparison of a counter (field, or len of a field) with a constant, whose
//      other edge returns a non-nil error, the counter being advanced somewhere in the component; or
//   G2 the miss edge of a comma-ok lookup in a set (map field) whose hit edge returns, the set being inserted into
//      on the way (a MapUpdate of the same field that dominates the call).
// Obligation: after deleting descending and guarded edges every component is acyclic.
// AST values are finite trees (parser output).

type recEdge struct {
	from, to *ssa.Function
	site     ssa.CallInstruction
	class    string // descending | same | re-entry
	guard    string
}

var astTypeCache = map[types.Type]bool{}

func isASTType(t types.Type) bool {
	if v, ok := astTypeCache[t]; ok {
		return v
	}
	v := isASTTypeDepth(t, 0)
	astTypeCache[t] = v
	return v
}

func isASTTypeDepth(t types.Type, depth int) bool {
	if depth > 3 {
		return false
	}
	t = types.Unalias(t)
	switch u := t.(type) {
	case *types.Pointer:
		return isASTTypeDepth(u.Elem(), depth+1)
	case *types.Named:
		if strings.HasPrefix(core.NamedTypePkgName(u), astPkgPath+".") {
			// node kinds (structs embedding Meta), the root VCL, and the ast interfaces; not Meta/Comment(s)/Operator
			switch ut := u.Underlying().(type) {
			case *types.Interface:
				return true
			case *types.Struct:
				if u.Obj().Name() == "VCL" {
					return true
				}
				for i := 0; i < ut.NumFields(); i++ {
					if ut.Field(i).Embedded() && ut.Field(i).Name() == "Meta" && u.Obj().Name() != "Operator" {
						return true
					}
				}
			}
			return false
		}
		// carrier structs of the module (functionMeta, Series …): a struct with an AST-typed field
		if u.Obj().Pkg() != nil && strings.HasPrefix(u.Obj().Pkg().Path(), core.ModPath) {
			// only plain records (no methods): long-lived state holders such as Interpreter/Linter/Context are not arguments
			if u.NumMethods() > 0 || types.NewMethodSet(types.NewPointer(u)).Len() > 0 {
				return false
			}
			if st, ok := u.Underlying().(*types.Struct); ok {
				for i := 0; i < st.NumFields(); i++ {
					ft := st.Field(i).Type()
					if strings.HasPrefix(core.NamedTypePkgName(ft), astPkgPath+".") && isASTTypeDepth(ft, depth+1) {
						return true
					}
					if sl, ok := ft.Underlying().(*types.Slice); ok && strings.HasPrefix(core.NamedTypePkgName(sl.Elem()), astPkgPath+".") && isASTTypeDepth(sl.Elem(), depth+1) {
						return true
					}
				}
			}
			return false
		}
		return false
	case *types.Slice:
		return isASTTypeDepth(u.Elem(), depth+1)
	}
	return false
}

// classifyArg: how an AST-typed argument relates to the AST-typed parameters of the caller.
func classifyArg(fn *ssa.Function, arg ssa.Value) string { return (&recAnalysis{}).classOf(fn, arg) }

func (ra *recAnalysis) classOf(fn *ssa.Function, arg ssa.Value) string {
	seen := map[ssa.Value]bool{}
	var walk func(v ssa.Value, steps int) string
	storesInto := func(al *ssa.Alloc, steps int) string {
		// a local cell / composite under construction: what is stored into it (and into its fields / elements)
		res := ""
		var scan func(addr ssa.Value)
		scan = func(addr ssa.Value) {
			if addr.Referrers() == nil {
				return
			}
			for _, r := range *addr.Referrers() {
				switch t := r.(type) {
				case *ssa.Store:
					if t.Addr == addr && isASTType(t.Val.Type()) {
						res = worst(res, walk(t.Val, steps))
					}
				case *ssa.FieldAddr:
					scan(t)
				case *ssa.IndexAddr:
					scan(t)
				}
			}
		}
		scan(al)
		return res
	}
	walk = func(v ssa.Value, steps int) string {
		if seen[v] {
			return "cycle"
		}
		seen[v] = true
		defer delete(seen, v)
		switch t := v.(type) {
		case *ssa.Const:
			return "" // nil
		case *ssa.Parameter:
			if isASTType(t.Type()) {
				if steps > 0 {
					return "descending"
				}
				return "same"
			}
			return "re-entry"
		case *ssa.FreeVar:
			if isASTType(t.Type()) || isASTType(derefType(t.Type())) {
				if steps > 0 {
					return "descending"
				}
				return "same"
			}
			return "re-entry"
		case *ssa.TypeAssert:
			return walk(t.X, steps)
		case *ssa.MakeInterface:
			return walk(t.X, steps)
		case *ssa.ChangeInterface:
			return walk(t.X, steps)
		case *ssa.ChangeType:
			return walk(t.X, steps)
		case *ssa.Extract:
			if ta, ok := t.Tuple.(*ssa.TypeAssert); ok {
				return walk(ta.X, steps)
			}
			if nx, ok := t.Tuple.(*ssa.Next); ok {
				return walk(nx.Iter, steps+1)
			}
			return walk(t.Tuple, steps)
		case *ssa.Range:
			return walk(t.X, steps)
		case *ssa.Alloc:
			r := storesInto(t, steps)
			if r == "" {
				return "re-entry"
			}
			return r
		case *ssa.UnOp:
			if t.Op != token.MUL {
				return "re-entry"
			}
			switch a := t.X.(type) {
			case *ssa.FieldAddr:
				return walk(a.X, steps+1)
			case *ssa.IndexAddr:
				return walk(a.X, steps+1)
			case *ssa.Alloc:
				r := storesInto(a, steps)
				if r == "" {
					return "re-entry"
				}
				return r
			case *ssa.FreeVar:
				return walk(a, steps)
			}
			return "re-entry"
		case *ssa.Field:
			return walk(t.X, steps+1)
		case *ssa.Index:
			return walk(t.X, steps+1)
		case *ssa.Slice:
			return walk(t.X, steps)
		case *ssa.Phi:
			res := ""
			for _, e := range t.Edges {
				r := walk(e, steps)
				if r == "cycle" {
					continue
				}
				res = worst(res, r)
			}
			if res == "" {
				return "re-entry"
			}
			return res
		case *ssa.Call:
			cc := t.Common()
			if bi, ok := cc.Value.(*ssa.Builtin); ok && bi.Name() == "append" {
				res := ""
				for _, a := range cc.Args {
					r := walk(a, steps)
					if r == "cycle" {
						continue
					}
					res = worst(res, r)
				}
				if res == "" {
					return "descending"
				}
				return res
			}
			cal := cc.StaticCallee()
			if cal != nil && ra.in != nil && ra.in[cal] {
				switch ra.retClass[cal] {
				case "sub", "bounded":
					res := ""
					n := 0
					for _, a := range cc.Args {
						if !isASTType(a.Type()) {
							continue
						}
						n++
						r := walk(a, steps)
						if r == "cycle" {
							continue
						}
						res = worst(res, r)
					}
					if n == 0 || res == "" {
						if ra.retClass[cal] == "bounded" {
							return "descending"
						}
						return "re-entry"
					}
					return res
				}
			}
			return "re-entry"
		case *ssa.Lookup:
			return "re-entry"
		}
		return "re-entry"
	}
	r := walk(arg, 0)
	if r == "" || r == "cycle" {
		return "descending" // nil / purely self-referential
	}
	return r
}

func derefType(t types.Type) types.Type {
	if p, ok := t.Underlying().(*types.Pointer); ok {
		return p.Elem()
	}
	return t
}

func worst(a, b string) string {
	rank := map[string]int{"": 0, "descending": 1, "same": 2, "re-entry": 3, "cycle": 0}
	if rank[b] > rank[a] {
		return b
	}
	return a
}

type recAnalysis struct {
	prog     *core.Program
	funcs    []*ssa.Function
	in       map[*ssa.Function]bool
	edges    map[*ssa.Function][]*recEdge
	retClass map[*ssa.Function]string // sub | bounded | fresh : AST values a function returns, relative to its AST parameters
	allFuncs []*ssa.Function
}

// computeRetClass: greatest fixpoint from "sub"; a function is demoted when a returned AST value derives from a
// source that is not one of its parameters (fresh parse, map lookup): "bounded" if every such source is dominated by a
// bound guard in its function, "fresh" otherwise.
func (ra *recAnalysis) computeRetClass() {
	ra.retClass = map[*ssa.Function]string{}
	for _, fn := range ra.funcs {
		ra.retClass[fn] = "sub"
	}
	rank := map[string]int{"sub": 0, "bounded": 1, "fresh": 2}
	for changed := true; changed; {
		changed = false
		for _, fn := range ra.funcs {
			if ra.retClass[fn] == "fresh" {
				continue
			}
			cls := "sub"
			for _, rs := range core.ReturnSites(fn) {
				for _, r := range rs.Results {
					if !isASTType(r.Type()) || core.IsNilConst(r) {
						continue
					}
					if ra.classOf(fn, r) == "re-entry" {
						// which sources? if all fresh-producing calls in fn are guarded -> bounded
						if ra.freshSourcesGuarded(fn) {
							if rank[cls] < rank["bounded"] {
								cls = "bounded"
							}
						} else {
							cls = "fresh"
						}
					}
				}
			}
			// a callee that is bounded/fresh and whose result is returned is handled by classOf through retClass
			if rank[cls] > rank[ra.retClass[fn]] {
				ra.retClass[fn] = cls
				changed = true
			}
		}
	}
}

// freshSourcesGuarded: every call in fn that yields AST values not derived from fn's parameters is dominated by a guard.
func (ra *recAnalysis) freshSourcesGuarded(fn *ssa.Function) bool {
	found := false
	for _, b := range fn.Blocks {
		for _, in := range b.Instrs {
			call, ok := in.(*ssa.Call)
			if !ok {
				continue
			}
			res := call.Common().Signature().Results()
			yieldsAST := false
			for i := 0; i < res.Len(); i++ {
				if isASTType(res.At(i).Type()) {
					yieldsAST = true
				}
			}
			if !yieldsAST {
				continue
			}
			cal := call.Common().StaticCallee()
			if cal != nil && ra.in[cal] && ra.retClass[cal] == "sub" {
				continue
			}
			if bi, ok := call.Common().Value.(*ssa.Builtin); ok && bi.Name() == "append" {
				continue
			}
			found = true
			e := &recEdge{from: fn, to: cal, site: call}
			if ra.guardOf(e, nil) == "" {
				return false
			}
		}
	}
	return found
}

func newRecAnalysis(prog *core.Program, prefixes ...string) *recAnalysis {
	ra := &recAnalysis{prog: prog, in: map[*ssa.Function]bool{}, edges: map[*ssa.Function][]*recEdge{}}
	seen := map[*ssa.Function]bool{}
	var add func(fn *ssa.Function)
	add = func(fn *ssa.Function) {
		if fn == nil || seen[fn] || fn.Blocks == nil {
			return
		}
		seen[fn] = true
		ra.funcs = append(ra.funcs, fn)
		ra.in[fn] = true
		for _, b := range fn.Blocks {
			for _, in := range b.Instrs {
				if mc, ok := in.(*ssa.MakeClosure); ok {
					if f2, ok := mc.Fn.(*ssa.Function); ok && f2.Synthetic != "" {
						add(f2)
					}
				}
			}
		}
	}
	for _, fn := range prog.ModuleFuncs(prefixes...) {
		if !prog.IsCanary(fn.Pos()) || true {
			add(fn)
		}
	}
	ra.computeRetClass()
	for _, fn := range ra.funcs {
		for _, b := range fn.Blocks {
			for _, in := range b.Instrs {
				switch t := in.(type) {
				case ssa.CallInstruction:
					if _, isGo := in.(*ssa.Go); isGo {
						continue
					}
					cal := t.Common().StaticCallee()
					if cal == nil || !ra.in[cal] {
						continue
					}
					e := &recEdge{from: fn, to: cal, site: t}
					e.class = ra.classify(fn, t, cal)
					ra.edges[fn] = append(ra.edges[fn], e)
				case *ssa.MakeClosure:
					// a closure created in fn and called later (possibly elsewhere): edge fn -> closure, same arguments
					if f2, ok := t.Fn.(*ssa.Function); ok && ra.in[f2] && f2.Synthetic == "" {
						// only when the closure escapes: a closure that is just called in place is covered by its call edge
						escapes := false
						if t.Referrers() != nil {
							for _, r := range *t.Referrers() {
								if ci, ok := r.(ssa.CallInstruction); ok && ci.Common().Value == ssa.Value(t) {
									continue
								}
								if _, ok := r.(*ssa.DebugRef); ok {
									continue
								}
								escapes = true
							}
						}
						if escapes {
							ra.edges[fn] = append(ra.edges[fn], &recEdge{from: fn, to: f2, class: ra.callbackClass(fn, t)})
						}
					}
				}
			}
		}
	}
	return ra
}

func (ra *recAnalysis) classify(fn *ssa.Function, call ssa.CallInstruction, cal *ssa.Function) string {
	res := ""
	nAST, nDesc := 0, 0
	for _, a := range call.Common().Args {
		if !isASTType(a.Type()) {
			continue
		}
		nAST++
		cl := ra.classOf(fn, a)
		if cl == "descending" {
			nDesc++
		}
		res = worst(res, cl)
	}
	if nAST == 0 {
		return "re-entry"
	}
	// one argument strictly descends and no argument comes from elsewhere: the total size of the arguments decreases
	if nDesc > 0 && res != "re-entry" {
		return "descending"
	}
	return res
}

// callbackClass: a closure created in fn and handed to an interface method (node.Lint(func(n){…})): how do the
// implementations of that method in the module call it? "descending" if every call passes a value reached from the
// receiver through at least one field/index step.
func (ra *recAnalysis) callbackClass(fn *ssa.Function, mc *ssa.MakeClosure) string {
	if mc.Referrers() == nil {
		return "same"
	}
	for _, r := range *mc.Referrers() {
		call, ok := r.(ssa.CallInstruction)
		if !ok || !call.Common().IsInvoke() {
			continue
		}
		m := call.Common().Method
		argIdx := -1
		for i, a := range call.Common().Args {
			if a == ssa.Value(mc) {
				argIdx = i
			}
		}
		if argIdx < 0 {
			continue
		}
		res := ""
		n := 0
		impls := 0
		if ra.allFuncs == nil {
			ra.allFuncs = ra.prog.ModuleFuncs()
		}
		for _, impl := range ra.allFuncs {
			if impl.Name() != m.Name() || impl.Signature.Recv() == nil || impl.Parent() != nil {
				continue
			}
			if !types.Identical(impl.Signature.Params(), m.Type().(*types.Signature).Params()) {
				continue
			}
			impls++
			cb := impl.Params[argIdx+1]
			if cb.Referrers() == nil {
				continue
			}
			for _, r2 := range *cb.Referrers() {
				c2, ok := r2.(ssa.CallInstruction)
				if !ok || c2.Common().Value != ssa.Value(cb) {
					continue
				}
				n++
				for _, a := range c2.Common().Args {
					cl := (&recAnalysis{}).classOfRecv(impl, a)
					res = worst(res, cl)
				}
			}
		}
		if n > 0 && res == "descending" {
			return "descending"
		}
		if n > 0 {
			return res
		}
		if impls > 0 {
			return "descending" // no implementation in the module ever invokes the callback
		}
	}
	return "same"
}

// classOfRecv: like classOf, but the receiver of fn counts as the (AST) parameter.
func (ra *recAnalysis) classOfRecv(fn *ssa.Function, arg ssa.Value) string {
	steps := 0
	v := arg
	for i := 0; i < 12; i++ {
		switch t := v.(type) {
		case *ssa.MakeInterface:
			v = t.X
		case *ssa.ChangeInterface:
			v = t.X
		case *ssa.TypeAssert:
			v = t.X
		case *ssa.UnOp:
			if t.Op != token.MUL {
				return "re-entry"
			}
			switch a := t.X.(type) {
			case *ssa.FieldAddr:
				steps++
				v = a.X
			case *ssa.IndexAddr:
				steps++
				v = a.X
			default:
				return "re-entry"
			}
		case *ssa.Extract:
			if nx, ok := t.Tuple.(*ssa.Next); ok {
				if rg, ok := nx.Iter.(*ssa.Range); ok {
					steps++
					v = rg.X
					continue
				}
			}
			return "re-entry"
		case *ssa.Parameter:
			if len(fn.Params) > 0 && t == fn.Params[0] {
				if steps > 0 {
					return "descending"
				}
				return "same"
			}
			return "re-entry"
		default:
			return "re-entry"
		}
	}
	return "re-entry"
}

// sccs: strongly connected components with a cycle (Tarjan).
func (ra *recAnalysis) sccs(keep func(e *recEdge) bool) [][]*ssa.Function {
	index := map[*ssa.Function]int{}
	low := map[*ssa.Function]int{}
	on := map[*ssa.Function]bool{}
	var stack []*ssa.Function
	var out [][]*ssa.Function
	n := 0
	var strong func(v *ssa.Function)
	strong = func(v *ssa.Function) {
		n++
		index[v], low[v] = n, n
		stack = append(stack, v)
		on[v] = true
		for _, e := range ra.edges[v] {
			if !keep(e) {
				continue
			}
			w := e.to
			if index[w] == 0 {
				strong(w)
				if low[w] < low[v] {
					low[v] = low[w]
				}
			} else if on[w] && index[w] < low[v] {
				low[v] = index[w]
			}
		}
		if low[v] == index[v] {
			var comp []*ssa.Function
			for {
				w := stack[len(stack)-1]
				stack = stack[:len(stack)-1]
				on[w] = false
				comp = append(comp, w)
				if w == v {
					break
				}
			}
			cyc := len(comp) > 1
			if !cyc {
				for _, e := range ra.edges[v] {
					if keep(e) && e.to == v {
						cyc = true
					}
				}
			}
			if cyc {
				sort.Slice(comp, func(i, j int) bool { return comp[i].String() < comp[j].String() })
				out = append(out, comp)
			}
		}
	}
	fs := append([]*ssa.Function{}, ra.funcs...)
	sort.Slice(fs, func(i, j int) bool { return fs[i].String() < fs[j].String() })
	for _, f := range fs {
		if index[f] == 0 {
			strong(f)
		}
	}
	return out
}

// guardOf: is the call site dominated by a bound guard (G1/G2)?
func (ra *recAnalysis) guardOf(e *recEdge, comp map[*ssa.Function]bool) string {
	if e.site == nil {
		return ""
	}
	fn := e.from
	b := e.site.Block()
	if g := constantSelectorGuard(e); g != "" {
		return g
	}
	if g := ascendingParamGuard(e); g != "" {
		return g
	}
	if g := prefixSelectorGuard(e); g != "" {
		return g
	}
	for _, blk := range fn.Blocks {
		iff, ok := blk.Instrs[len(blk.Instrs)-1].(*ssa.If)
		if !ok {
			continue
		}
		// which edge dominates the call?
		idx := -1
		if core.EdgeDominates(blk, 0, b) {
			idx = 0
		} else if core.EdgeDominates(blk, 1, b) {
			idx = 1
		}
		if idx < 0 {
			continue
		}
		other := blk.Succs[1-idx]
		// the other edge leaves: it fails/returns without reaching the guarded call
		if !returnsErrorSoon(other) && core.Reaches(other, b) {
			continue
		}
		// G1: integer comparison of a counter with a constant
		if bo, ok := iff.Cond.(*ssa.BinOp); ok {
			switch bo.Op {
			case token.LSS, token.LEQ, token.GTR, token.GEQ:
				for _, pair := range [][2]ssa.Value{{bo.X, bo.Y}, {bo.Y, bo.X}} {
					if _, isConst := pair[1].(*ssa.Const); !isConst {
						continue
					}
					if name := counterName(pair[0]); name != "" && ra.counterAdvanced(name, comp) {
						return "G1: guarded by a bound on " + name + " at " + ra.prog.Loc(bo.Pos())
					}
				}
			}
		}
		// G1 through a helper: `if err := i.pushFrame(…); err != nil { return … }` / `if i.limitExceeded() { return … }` where
		// the helper compares a counter with a constant (the bound test was extracted into a function of its own)
		for x := range core.BackSliceLocal(iff.Cond) {
			call, ok := x.(*ssa.Call)
			if !ok {
				continue
			}
			h := call.Common().StaticCallee()
			if h == nil || h.Blocks == nil || !ra.in[h] || h == fn {
				continue
			}
			for _, hb := range h.Blocks {
				hif, ok := hb.Instrs[len(hb.Instrs)-1].(*ssa.If)
				if !ok {
					continue
				}
				bo, ok := hif.Cond.(*ssa.BinOp)
				if !ok {
					continue
				}
				switch bo.Op {
				case token.LSS, token.LEQ, token.GTR, token.GEQ:
					for _, pair := range [][2]ssa.Value{{bo.X, bo.Y}, {bo.Y, bo.X}} {
						if _, isConst := pair[1].(*ssa.Const); !isConst {
							continue
						}
						if name := counterName(pair[0]); name != "" && (ra.counterAdvanced(name, comp) || ra.counterAdvanced(name, map[*ssa.Function]bool{h: true})) {
							return "G1: guarded by a bound on " + name + " tested in the helper " + core.FnName(h) + " at " + ra.prog.Loc(bo.Pos())
						}
					}
				}
			}
		}
		// G2 through a helper: `if l.visited(x) { …leave… }` where the helper tests membership in a set (map field)
		// and inserts into the same set on its miss path
		{
			cond := iff.Cond
			missIdx := 1
			if un, ok := cond.(*ssa.UnOp); ok && un.Op == token.NOT {
				cond, missIdx = un.X, 0
			}
			if call, ok := cond.(*ssa.Call); ok && idx == missIdx {
				if h := call.Common().StaticCallee(); h != nil && ra.in[h] {
					if set := testAndInsertSet(h); set != "" {
						return "G2: guarded by the visited-set helper " + core.FnName(h) + " (" + set + ") at " + ra.prog.Loc(call.Pos())
					}
				}
			}
		}
		// G2: comma-ok membership test on a set that is inserted into before the call
		for x := range core.BackSlice(iff.Cond) {
			var lk *ssa.Lookup
			if ex, ok := x.(*ssa.Extract); ok && ex.Index == 1 {
				if l2, ok := ex.Tuple.(*ssa.Lookup); ok && l2.CommaOk {
					lk = l2
				}
			}
			if l2, ok := x.(*ssa.Lookup); ok && !l2.CommaOk {
				if bt, ok := l2.Type().Underlying().(*types.Basic); ok && bt.Kind() == types.Bool {
					lk = l2
				}
			}
			if lk == nil {
				continue
			}
			set := fieldNameOfLoad(lk.X)
			if set == "" {
				continue
			}
			// inserted into on the way: a MapUpdate of the same field dominating the call site
			for _, b2 := range fn.Blocks {
				for _, in := range b2.Instrs {
					mu, ok := in.(*ssa.MapUpdate)
					if ok && fieldNameOfLoad(mu.Map) == set && core.InstrDominates(mu, e.site.(ssa.Instruction)) {
						return "G2: guarded by the visited set " + set + " at " + ra.prog.Loc(iff.Cond.Pos())
					}
				}
			}
		}
	}
	return ""
}

func fieldNameOfLoad(v ssa.Value) string {
	if lk, ok := v.(*ssa.Lookup); ok {
		return fieldNameOfLoad(lk.X) // nested map: set of sets
	}
	if ex, ok := v.(*ssa.Extract); ok {
		if lk, ok := ex.Tuple.(*ssa.Lookup); ok {
			return fieldNameOfLoad(lk.X)
		}
	}
	ld, ok := v.(*ssa.UnOp)
	if !ok || ld.Op != token.MUL {
		return ""
	}
	fa, ok := ld.X.(*ssa.FieldAddr)
	if !ok || core.FieldOf(fa) == nil {
		return ""
	}
	return core.NamedTypeName(fa.X.Type()) + "." + core.FieldOf(fa).Name()
}

// counterName: v is a load of an integer field, or len() of a loaded field.
func counterName(v ssa.Value) string {
	switch t := v.(type) {
	case *ssa.UnOp:
		return fieldNameOfLoad(t)
	case *ssa.Call:
		if bi, ok := t.Common().Value.(*ssa.Builtin); ok && bi.Name() == "len" {
			if n := fieldNameOfLoad(t.Common().Args[0]); n != "" {
				return "len(" + n + ")"
			}
		}
	case *ssa.BinOp:
		if n := counterName(t.X); n != "" {
			return n
		}
		return counterName(t.Y)
	case *ssa.Convert:
		return counterName(t.X)
	}
	return ""
}

// counterAdvanced: somewhere in the module the counter field is incremented / the measured slice is appended to.
func (ra *recAnalysis) counterAdvanced(name string, comp map[*ssa.Function]bool) bool {
	field := strings.TrimSuffix(strings.TrimPrefix(name, "len("), ")")
	for _, fn := range ra.funcs {
		for _, b := range fn.Blocks {
			for _, in := range b.Instrs {
				st, ok := in.(*ssa.Store)
				if !ok {
					continue
				}
				fa, ok := st.Addr.(*ssa.FieldAddr)
				if !ok || core.FieldOf(fa) == nil || core.NamedTypeName(fa.X.Type())+"."+core.FieldOf(fa).Name() != field {
					continue
				}
				switch v := st.Val.(type) {
				case *ssa.BinOp:
					if v.Op == token.ADD {
						return true
					}
				case *ssa.Call:
					if bi, ok := v.Common().Value.(*ssa.Builtin); ok && bi.Name() == "append" {
						return true
					}
				}
			}
		}
	}
	return false
}

// returnsErrorSoon: the block (or its single successor chain) returns a non-nil error / panics.
func returnsErrorSoon(b *ssa.BasicBlock) bool {
	for i := 0; i < 4 && b != nil; i++ {
		for _, in := range b.Instrs {
			if r, ok := in.(*ssa.Return); ok {
				for _, v := range r.Results {
					if core.IsErrorType(v.Type()) && !core.IsNilConst(v) {
						return true
					}
				}
				// spilled results
				for _, rs := range core.ReturnSites(b.Parent()) {
					if rs.Ret == r {
						for _, v := range rs.Results {
							if core.IsErrorType(v.Type()) && !core.IsNilConst(v) {
								return true
							}
						}
					}
				}
				return len(r.Results) == 0 // a plain return (void function) also leaves the recursion
			}
		}
		if len(b.Succs) != 1 {
			return false
		}
		b = b.Succs[0]
	}
	return false
}

// checkRecursion reports components that stay cyclic after deleting descending and guarded edges.
func checkRecursion(c *core.Ctx, rule string, ra *recAnalysis) {
	all := ra.sccs(func(e *recEdge) bool { return true })
	c.Extra(rule+"_components", len(all))
	var rc []string
	for fn, cl := range ra.retClass {
		if cl != "sub" {
			rc = append(rc, core.FnName(fn)+": "+cl)
		}
	}
	sort.Strings(rc)
	c.Extra(rule+"_returns_not_subtree", rc)
	for _, comp := range all {
		set := map[*ssa.Function]bool{}
		for _, f := range comp {
			set[f] = true
		}
		// decide guards for non-descending edges inside the component
		for _, f := range comp {
			for _, e := range ra.edges[f] {
				if set[e.to] && e.guard == "" {
					e.guard = ra.guardOf(e, set)
				}
			}
		}
	}
	// (1) unguarded re-entry edges must not lie on any cycle of the graph without guarded edges: a re-entry resets the
	//     structural measure, so descending edges elsewhere on the cycle do not help.
	reach := func(from, to *ssa.Function, keep func(e *recEdge) bool) bool {
		seen := map[*ssa.Function]bool{}
		var dfs func(u *ssa.Function) bool
		dfs = func(u *ssa.Function) bool {
			if u == to {
				return true
			}
			if seen[u] {
				return false
			}
			seen[u] = true
			for _, e := range ra.edges[u] {
				if keep(e) && dfs(e.to) {
					return true
				}
			}
			return false
		}
		return dfs(from)
	}
	unguarded := func(e *recEdge) bool { return e.guard == "" }
	reported := map[string]bool{}
	badComp := map[*ssa.Function]bool{}
	var reEntries []*recEdge
	for _, f := range ra.funcs {
		for _, e := range ra.edges[f] {
			if e.class == "re-entry" && e.guard == "" {
				reEntries = append(reEntries, e)
			}
		}
	}
	sort.Slice(reEntries, func(i, j int) bool {
		return core.FnName(reEntries[i].from)+core.FnName(reEntries[i].to) < core.FnName(reEntries[j].from)+core.FnName(reEntries[j].to)
	})
	// report one cycle-closing edge per cycle family: prefer edges whose target is entered from outside the component
	onCycle := map[*recEdge]bool{}
	for _, e := range reEntries {
		if reach(e.to, e.from, unguarded) {
			onCycle[e] = true
		}
	}
	// among the re-entry edges on cycles, keep those that are back edges of a DFS from the externally entered functions
	back := map[*recEdge]bool{}
	{
		compOf := map[*ssa.Function]bool{}
		for e := range onCycle {
			compOf[e.from], compOf[e.to] = true, true
		}
		var entries []*ssa.Function
		for _, f := range ra.funcs {
			for _, e := range ra.edges[f] {
				if !compOf[f] && compOf[e.to] {
					entries = append(entries, e.to)
				}
			}
		}
		sort.Slice(entries, func(i, j int) bool { return entries[i].String() < entries[j].String() })
		var rest []*ssa.Function
		for f := range compOf {
			rest = append(rest, f)
		}
		sort.Slice(rest, func(i, j int) bool { return rest[i].String() < rest[j].String() })
		entries = append(entries, rest...)
		color := map[*ssa.Function]int{}
		var dfs func(u *ssa.Function)
		dfs = func(u *ssa.Function) {
			color[u] = 1
			es := append([]*recEdge{}, ra.edges[u]...)
			sort.SliceStable(es, func(i, j int) bool { return es[i].to.String() < es[j].to.String() })
			for _, e := range es {
				if e.guard != "" {
					continue
				}
				switch color[e.to] {
				case 1:
					back[e] = true
				case 0:
					dfs(e.to)
				}
			}
			color[u] = 2
		}
		for _, en := range entries {
			if color[en] == 0 {
				dfs(en)
			}
		}
	}
	anyBackReported := false
	for _, e := range reEntries {
		if !onCycle[e] {
			continue
		}
		badComp[e.from], badComp[e.to] = true, true
		if !back[e] {
			continue
		}
		anyBackReported = true
		key := core.FnName(e.from) + " -> " + core.FnName(e.to)
		if reported[key] {
			continue
		}
		reported[key] = true
		pos := token.NoPos
		if e.site != nil {
			pos = e.site.Pos()
		}
		c.Report(rule, key, pos, fmt.Sprintf("unbounded recursion: %s re-enters %s with a value that is not a sub-tree of its own argument (map lookup, fresh parse, or no AST argument) and no depth/visited guard dominates the call or the callee's recursive calls", core.FnName(e.from), core.FnName(e.to)))
	}
	if !anyBackReported {
		// cycles whose closing edge is not itself a re-entry: report the re-entry edges on them
		for _, e := range reEntries {
			if !onCycle[e] {
				continue
			}
			key := core.FnName(e.from) + " -> " + core.FnName(e.to)
			if reported[key] {
				continue
			}
			reported[key] = true
			pos := token.NoPos
			if e.site != nil {
				pos = e.site.Pos()
			}
			c.Report(rule, key, pos, fmt.Sprintf("unbounded recursion: %s re-enters %s with a value that is not a sub-tree of its own argument (map lookup, fresh parse, or no AST argument) and the cycle back to it has no depth/visited guard", core.FnName(e.from), core.FnName(e.to)))
		}
	}
	// (2) cycles made only of "same" edges (no descent at all)
	for _, comp := range ra.sccs(func(e *recEdge) bool { return e.class == "same" && e.guard == "" }) {
		var names []string
		for _, f := range comp {
			names = append(names, core.FnName(f))
			badComp[f] = true
		}
		key := "same-cycle:" + strings.Join(names, ",")
		c.Report(rule, key, comp[0].Pos(), "recursion that passes its argument on unchanged and never descends: "+strings.Join(names, " -> "))
	}
	// discharged: every component of the full graph whose cycles are broken
	for _, comp := range all {
		desc, guarded := 0, 0
		set := map[*ssa.Function]bool{}
		isBad := false
		for _, f := range comp {
			set[f] = true
			if badComp[f] {
				isBad = true
			}
		}
		if isBad && os.Getenv("FV_DEBUG_REC") != "" {
			for _, f := range comp {
				for _, e := range ra.edges[f] {
					if set[e.to] {
						fmt.Fprintf(os.Stderr, "BADEDGE %s -> %s class=%s guard=%q\n", core.FnName(e.from), core.FnName(e.to), e.class, e.guard)
					}
				}
			}
		}
		if isBad {
			continue
		}
		var gs []string
		for _, f := range comp {
			for _, e := range ra.edges[f] {
				if !set[e.to] {
					continue
				}
				if e.class == "descending" {
					desc++
				} else if e.guard != "" {
					guarded++
					gs = append(gs, core.FnName(e.from)+" -> "+core.FnName(e.to)+": "+e.guard)
				}
			}
		}
		sort.Strings(gs)
		if len(gs) > 6 {
			gs = gs[:6]
		}
		if os.Getenv("FV_DEBUG_REC") != "" {
			for _, f := range comp {
				for _, e := range ra.edges[f] {
					if set[e.to] {
						fmt.Fprintf(os.Stderr, "EDGE %s -> %s class=%s guard=%q\n", core.FnName(e.from), core.FnName(e.to), e.class, e.guard)
					}
				}
			}
		}
		c.Discharge(rule, fmt.Sprintf("component(%s,…%d)", core.FnName(comp[0]), len(comp)), comp[0].Pos(), fmt.Sprintf("%d descending edges, %d guarded edges %v", desc, guarded, gs))
	}
}

// testAndInsertSet: the function looks a key up in a map field and inserts into the same map field: returns the set name.
func testAndInsertSet(h *ssa.Function) string {
	looked := map[string]bool{}
	inserted := map[string]bool{}
	for _, b := range h.Blocks {
		for _, in := range b.Instrs {
			switch t := in.(type) {
			case *ssa.Lookup:
				if n := fieldNameOfLoad(t.X); n != "" {
					looked[n] = true
				}
			case *ssa.MapUpdate:
				if n := fieldNameOfLoad(t.Map); n != "" {
					inserted[n] = true
				}
			}
		}
	}
	res := h.Signature.Results()
	if res.Len() != 1 {
		return ""
	}
	if bt, ok := res.At(0).Type().Underlying().(*types.Basic); !ok || bt.Kind() != types.Bool {
		return ""
	}
	for n := range looked {
		if inserted[n] {
			return n
		}
	}
	return ""
}

// constantSelectorGuard (G3): a self call that passes a constant string for a parameter the function switches on, where
// the arm selected by that constant contains no self call: the alias resolves in one step.
func constantSelectorGuard(e *recEdge) string {
	if e.from != e.to || e.site == nil {
		return ""
	}
	fn := e.to
	args := e.site.Common().Args
	for i, a := range args {
		k, ok := a.(*ssa.Const)
		if !ok || k.Value == nil || k.Value.Kind() != constant.String || i >= len(fn.Params) {
			continue
		}
		p := fn.Params[i]
		if p.Referrers() == nil {
			continue
		}
		armFound := false
		selfInArm := false
		// the switched value: the parameter itself or strings.ToLower(parameter)
		type sw struct {
			v     ssa.Value
			lower bool
		}
		sws := []sw{{p, false}}
		for _, r := range *p.Referrers() {
			if call, ok := r.(*ssa.Call); ok {
				if cal := call.Common().StaticCallee(); cal != nil && cal.Pkg != nil && cal.Pkg.Pkg.Path() == "strings" && cal.Name() == "ToLower" {
					sws = append(sws, sw{call, true})
				}
			}
		}
		var cmps []*ssa.BinOp
		for _, w := range sws {
			if w.v.Referrers() == nil {
				continue
			}
			for _, r := range *w.v.Referrers() {
				bo, ok := r.(*ssa.BinOp)
				if !ok || (bo.Op != token.EQL && bo.Op != token.NEQ) {
					continue
				}
				other := bo.Y
				if bo.Y == w.v {
					other = bo.X
				}
				ko, ok := other.(*ssa.Const)
				if !ok || ko.Value == nil || ko.Value.Kind() != constant.String {
					continue
				}
				want := constant.StringVal(k.Value)
				if w.lower {
					want = strings.ToLower(want)
				}
				if constant.StringVal(ko.Value) == want {
					cmps = append(cmps, bo)
				}
			}
		}
		for _, bo := range cmps {
			if bo.Referrers() == nil {
				continue
			}
			for _, r2 := range *bo.Referrers() {
				iff, ok := r2.(*ssa.If)
				if !ok {
					continue
				}
				armFound = true
				_, eq, _ := core.EqCond(bo)
				for _, blk := range fn.Blocks {
					if !core.EdgeDominates(iff.Block(), eq, blk) {
						continue
					}
					for _, in := range blk.Instrs {
						if cal := core.StaticCallee(in); cal == fn {
							selfInArm = true
						}
					}
				}
			}
		}
		if armFound && !selfInArm {
			return "G3: alias with the constant selector " + k.Value.ExactString() + " whose arm does not recurse"
		}
	}
	return ""
}

// prefixSelectorGuard (G3b): self calls that re-enter the function with a string selector - a constant, or "P"+x - for
// a parameter the function selects on. Each self call is a node: the constants K of the `param == K` tests through
// which its arm is entered, and the pattern it passes on. Site A can be followed by site B when one of B's constants
// fits A's pattern (equal to the constant, starting with the prefix; a site outside any constant-selected arm fits
// every pattern, an argument of another shape fits every site). A site that lies on no cycle of this graph cannot
// recur for ever: aliases of aliases resolve after finitely many steps.
func prefixSelectorGuard(e *recEdge) string {
	if e.from != e.to || e.site == nil {
		return ""
	}
	fn := e.to
	for i := range e.site.Common().Args {
		if i >= len(fn.Params) {
			continue
		}
		p := fn.Params[i]
		if bt, ok := p.Type().Underlying().(*types.Basic); !ok || bt.Info()&types.IsString == 0 {
			continue
		}
		armConsts := func(b *ssa.BasicBlock) []string {
			for d := b; d != nil; d = d.Idom() {
				if len(d.Preds) == 0 {
					break
				}
				var ks []string
				all := true
				for _, pred := range d.Preds {
					bo, eq, isEq := core.EqBranch(pred)
					if !isEq || pred.Succs[eq] != d || pred.Succs[0] == pred.Succs[1] {
						all = false
						break
					}
					var other ssa.Value
					switch {
					case bo.X == ssa.Value(p):
						other = bo.Y
					case bo.Y == ssa.Value(p):
						other = bo.X
					}
					if other == nil {
						all = false
						break
					}
					ko, isK := other.(*ssa.Const)
					if !isK || ko.Value == nil || ko.Value.Kind() != constant.String {
						all = false
						break
					}
					ks = append(ks, constant.StringVal(ko.Value))
				}
				if all {
					return ks
				}
			}
			return nil
		}
		type node struct {
			call   ssa.CallInstruction
			consts []string // nil: not in a constant-selected arm
			kind   int      // 0 unknown argument, 1 constant, 2 prefix
			text   string
		}
		var nodes []*node
		var self *node
		for _, b := range fn.Blocks {
			for _, in := range b.Instrs {
				if core.StaticCallee(in) != fn {
					continue
				}
				ci := in.(ssa.CallInstruction)
				n := &node{call: ci, consts: armConsts(b)}
				arg := ci.Common().Args[i]
				if k, ok := arg.(*ssa.Const); ok && k.Value != nil && k.Value.Kind() == constant.String {
					n.kind, n.text = 1, constant.StringVal(k.Value)
				} else if cat, ok := arg.(*ssa.BinOp); ok && cat.Op == token.ADD {
					if k, ok := cat.X.(*ssa.Const); ok && k.Value != nil && k.Value.Kind() == constant.String && constant.StringVal(k.Value) != "" {
						n.kind, n.text = 2, constant.StringVal(k.Value)
					}
				}
				nodes = append(nodes, n)
				if in == e.site.(ssa.Instruction) {
					self = n
				}
			}
		}
		if self == nil || self.kind == 0 {
			continue
		}
		follows := func(a, b *node) bool {
			if a.kind == 0 || b.consts == nil {
				return true
			}
			for _, k := range b.consts {
				if (a.kind == 1 && k == a.text) || (a.kind == 2 && strings.HasPrefix(k, a.text)) {
					return true
				}
			}
			return false
		}
		// does self reach itself?
		seen := map[*node]bool{}
		var reach func(n *node) bool
		reach = func(n *node) bool {
			for _, m := range nodes {
				if !follows(n, m) {
					continue
				}
				if m == self {
					return true
				}
				if !seen[m] {
					seen[m] = true
					if reach(m) {
						return true
					}
				}
			}
			return false
		}
		if !reach(self) {
			what := "constant " + fmt.Sprintf("%q", self.text)
			if self.kind == 2 {
				what = "constant prefix " + fmt.Sprintf("%q", self.text)
			}
			return "G3b: alias by the " + what + ": no chain of selector-matched self calls leads back to this call"
		}
	}
	return ""
}

// ascendingParamGuard (G4): a self call that passes p+k (k>0) for an integer parameter p, dominated by the continuing
// edge of a comparison of p (or p+k) with a bound, whose other edge leaves.
func ascendingParamGuard(e *recEdge) string {
	if e.from != e.to || e.site == nil {
		return ""
	}
	fn := e.to
	b := e.site.Block()
	for i, a := range e.site.Common().Args {
		step, ok := a.(*ssa.BinOp)
		if !ok || step.Op != token.ADD || i >= len(fn.Params) || step.X != ssa.Value(fn.Params[i]) {
			continue
		}
		if k, ok := core.ConstIntValue(step.Y); !ok || k <= 0 {
			continue
		}
		for _, blk := range fn.Blocks {
			iff, ok := blk.Instrs[len(blk.Instrs)-1].(*ssa.If)
			if !ok {
				continue
			}
			bo, ok := iff.Cond.(*ssa.BinOp)
			if !ok {
				continue
			}
			switch bo.Op {
			case token.LSS, token.LEQ, token.GTR, token.GEQ:
			default:
				continue
			}
			involves := false
			for x := range core.BackSlice(bo) {
				if x == ssa.Value(fn.Params[i]) {
					involves = true
				}
			}
			if !involves {
				continue
			}
			for idx := 0; idx < 2; idx++ {
				if core.EdgeDominates(blk, idx, b) {
					other := blk.Succs[1-idx]
					if returnsErrorSoon(other) || !core.Reaches(other, b) {
						return "G4: integer parameter " + fn.Params[i].Name() + " ascends by a constant under a bound test at " + bo.Op.String()
					}
				}
			}
		}
	}
	return ""
}
