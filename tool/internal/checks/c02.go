package checks

import (
	"fmt"
	"go/constant"
	"go/token"
	"go/types"
	"sort"
	"strings"

	"fv/internal/core"

	"golang.org/x/tools/go/ssa"
)

// C02 — the parser builds the tree the grammar and precedence table dictate (structural part).
func init() {
	register(&Check{ID: "C02", NeedSSA: true, Run: runC02})
}

// Spec: binding-power classes, loosest to tightest, transcribed from the property statement
// (`||` loosest, then `&&`, `~ !~`, `== !=`, `< > <= >=`, string concatenation, then prefix).
var precClassOrder = []string{"OR", "AND", "REGEX", "EQUALS", "LESS_GREATER", "CONCAT", "PREFIX"}

// token constant (package token) -> class constant (package parser)
var precSpec = map[string]string{
	"OR": "OR", "AND": "AND",
	"REGEX_MATCH": "REGEX", "NOT_REGEX_MATCH": "REGEX",
	"EQUAL": "EQUALS", "NOT_EQUAL": "EQUALS",
	"LESS_THAN": "LESS_GREATER", "GREATER_THAN": "LESS_GREATER", "LESS_THAN_EQUAL": "LESS_GREATER", "GREATER_THAN_EQUAL": "LESS_GREATER",
	"PLUS": "CONCAT", "STRING": "CONCAT", "IDENT": "CONCAT", "IF": "CONCAT", "OPEN_LONG_STRING": "CONCAT",
	"LEFT_PAREN": "CALL", "PERCENT": "POSTFIX",
}

// Spec: operator spelling -> token constant (Fastly VCL operators reference cited by token/token.go).
var lexSpec = map[string]string{
	"||": "OR", "&&": "AND", "~": "REGEX_MATCH", "!~": "NOT_REGEX_MATCH", "==": "EQUAL", "!=": "NOT_EQUAL",
	"<": "LESS_THAN", ">": "GREATER_THAN", "<=": "LESS_THAN_EQUAL", ">=": "GREATER_THAN_EQUAL",
	"+": "PLUS", "-": "MINUS", "!": "NOT", "(": "LEFT_PAREN", ")": "RIGHT_PAREN", "%": "PERCENT",
	"=": "ASSIGN", "+=": "ADDITION", "-=": "SUBTRACTION", "*=": "MULTIPLICATION", "/=": "DIVISION", "%=": "REMAINDER",
	"|=": "BITWISE_OR", "&=": "BITWISE_AND", "^=": "BITWISE_XOR", "<<=": "LEFT_SHIFT", ">>=": "RIGHT_SHIFT",
	"&&=": "LOGICAL_AND", "||=": "LOGICAL_OR", "rol=": "LEFT_ROTATE", "ror=": "RIGHT_ROTATE",
	";": "SEMICOLON", ",": "COMMA", ".": "DOT", ":": "COLON", "{": "LEFT_BRACE", "}": "RIGHT_BRACE", "[": "LEFT_BRACKET", "]": "RIGHT_BRACKET", "/": "SLASH",
}

// Spec: Pratt registration (docs/parser.md expression grammar).
var prefixSpec = map[string]string{
	"IDENT": "ParseIdent", "STRING": "ParseString", "OPEN_LONG_STRING": "ParseLongString", "INT": "ParseInteger", "FLOAT": "ParseFloat",
	"RTIME": "ParseRTime", "NOT": "ParsePrefixExpression", "MINUS": "ParsePrefixExpression", "PLUS": "ParsePrefixExpression",
	"TRUE": "ParseBoolean", "FALSE": "ParseBoolean", "LEFT_PAREN": "ParseGroupedExpression", "IF": "ParseIfExpression",
	"ERROR": "ParseIdent", "RESTART": "ParseIdent",
}
var infixSpec = map[string]string{
	"PLUS": "ParseInfixStringConcatExpression", "IF": "ParseInfixStringConcatExpression", "STRING": "ParseInfixStringConcatExpression",
	"OPEN_LONG_STRING": "ParseInfixStringConcatExpression", "IDENT": "ParseInfixStringConcatExpression",
	"EQUAL": "ParseInfixExpression", "NOT_EQUAL": "ParseInfixExpression", "GREATER_THAN": "ParseInfixExpression", "GREATER_THAN_EQUAL": "ParseInfixExpression",
	"LESS_THAN": "ParseInfixExpression", "LESS_THAN_EQUAL": "ParseInfixExpression", "REGEX_MATCH": "ParseInfixExpression", "NOT_REGEX_MATCH": "ParseInfixExpression",
	"AND": "ParseInfixExpression", "OR": "ParseInfixExpression", "LEFT_PAREN": "ParseFunctionCallExpression",
	"MINUS": "ParseInfixExpression", // registered but dead: MINUS has no binding power (there is no binary minus in VCL)
}

// Spec: statement / declaration dispatch on the first token (docs/parser.md).
var stmtSpec = map[string]string{
	"LEFT_BRACE": "ParseBlockStatement", "SET": "ParseSetStatement", "UNSET": "ParseUnsetStatement", "REMOVE": "ParseRemoveStatement",
	"ADD": "ParseAddStatement", "CALL": "ParseCallStatement", "DECLARE": "ParseDeclareStatement", "ERROR": "ParseErrorStatement",
	"ESI": "ParseEsiStatement", "LOG": "ParseLogStatement", "RESTART": "ParseRestartStatement", "RETURN": "ParseReturnStatement",
	"SYNTHETIC": "ParseSyntheticStatement", "SYNTHETIC_BASE64": "ParseSyntheticBase64Statement", "IF": "ParseIfStatement",
	"SWITCH": "ParseSwitchStatement", "GOTO": "ParseGotoStatement", "INCLUDE": "ParseIncludeStatement", "BREAK": "ParseBreakStatement",
	"FALLTHROUGH": "ParseFallthroughStatement", "IDENT": "ParseFunctionCall+ParseGotoDestination",
}
var declSpec = map[string]string{
	"ACL": "ParseAclDeclaration", "IMPORT": "ParseImportStatement", "INCLUDE": "ParseIncludeStatement", "BACKEND": "ParseBackendDeclaration",
	"DIRECTOR": "ParseDirectorDeclaration", "TABLE": "ParseTableDeclaration", "SUBROUTINE": "ParseSubroutineDeclaration",
	"PENALTYBOX": "ParsePenaltyboxDeclaration", "RATECOUNTER": "ParseRatecounterDeclaration",
}

// Statement kinds ParseSnippetVCL does not dispatch, with reason.
var snippetMissing = map[string]string{
	"SWITCH": "", "BREAK": "", "FALLTHROUGH": "",
}

// Spec: keyword spelling -> token constant.
var keywordSpec = map[string]string{
	"acl": "ACL", "backend": "BACKEND", "director": "DIRECTOR", "table": "TABLE", "sub": "SUBROUTINE", "add": "ADD", "call": "CALL",
	"declare": "DECLARE", "error": "ERROR", "esi": "ESI", "include": "INCLUDE", "import": "IMPORT", "log": "LOG", "restart": "RESTART",
	"return": "RETURN", "set": "SET", "synthetic": "SYNTHETIC", "unset": "UNSET", "if": "IF", "else": "ELSE", "elseif": "ELSEIF", "elsif": "ELSIF",
	"true": "TRUE", "false": "FALSE", "remove": "REMOVE", "synthetic.base64": "SYNTHETIC_BASE64", "penaltybox": "PENALTYBOX",
	"ratecounter": "RATECOUNTER", "goto": "GOTO", "switch": "SWITCH", "case": "CASE", "default": "DEFAULT", "break": "BREAK",
	"fallthrough": "FALLTHROUGH", "pragma": "PRAGMA",
}

// Node fields the parser legitimately never stores (zero value is the meaning), one reason each.
var parserUnwrittenOK = map[string]string{}

func runC02(c *core.Ctx) {
	c.Explanation = "Structural necessary conditions of grammar-conformant parsing, decided by constant extraction and dominance on the SSA of parser/lexer/token: (prec.table) the compiled-in precedence map assigns every operator token to the binding-power class the property states, and the class constants are strictly ordered OR < AND < REGEX < EQUALS < LESS_GREATER < CONCAT < PREFIX (relations are compared, not numbers); (prec.pratt) ParseExpression continues its loop on the strict comparison `precedence < peekPrecedence()` with the caller's power on the smaller side (left associativity), curPrecedence/peekPrecedence index the table with the current/peek token, and every call of ParseExpression passes LOWEST, except ParsePrefixExpression (PREFIX) and the two infix parsers (the operator's own power taken before the token is advanced); (prec.register) the prefix/infix/postfix tables map each token to the parser function the grammar requires, explicit `+` is the only explicit concatenation, and every token with a binding power has a handler; (lex.operators) each operator spelling reaches newToken with its own token type (case chains on l.char/peekChar); (lex.keywords) keyword spellings map to their token constants; (dispatch) Parse/ParseStatement dispatch each first token to its parser, ParseSnippetVCL agrees with ParseStatement wherever both dispatch; (fields) every semantic field of every node kind the parser builds is stored somewhere in the parser; (escape) escape decoding is reachable only from ParseString under the double-quote test. The token-advance test of the infix parsers is may-precede (an advance on any path to the read spoils it); escape decoding depends on the double-quote test and at most on a `contains %` test; (dup.case) the duplicate-case rejection depends on both operator and label; (lex.step) every path around a scanning loop of the lexer consumes exactly one character, so each character is examined as the possible start of the terminator; (escape.bytes) no byte of the source text is converted to a string by code point (string(b) re-encodes bytes >= 0x80 as two bytes) unless constant or bounded below 0x80. (escape.scratch) a helper that appends to a buffer parameter and reads its whole content is not handed a buffer that outlives the call without a reset."
	c.NotCovered = []string{"literal values (strconv results, RTIME suffix arithmetic, escape decoding results)", "operand order inside a node and 'exactly once, in source order' as value properties", "whitespace/comment placement handled by the lexer between tokens"}
	prog := c.Prog
	pp, tp := prog.Pkg("parser"), prog.Pkg("token")
	if pp == nil || tp == nil {
		c.MissingAnchor("prec", "packages parser/token")
		return
	}
	tokVal := map[string]string{} // const name -> string value
	tokName := map[string]string{}
	for _, n := range tp.Types.Scope().Names() {
		if k, ok := tp.Types.Scope().Lookup(n).(*types.Const); ok && k.Val().Kind() == constant.String {
			tokVal[n] = constant.StringVal(k.Val())
			if _, dup := tokName[constant.StringVal(k.Val())]; !dup {
				tokName[constant.StringVal(k.Val())] = n
			}
		}
	}
	classVal := map[string]int64{}
	for _, n := range []string{"LOWEST", "OR", "AND", "REGEX", "EQUALS", "LESS_GREATER", "CONCAT", "PREFIX", "POSTFIX", "CALL"} {
		if k, ok := pp.Types.Scope().Lookup(n).(*types.Const); ok {
			v, _ := constant.Int64Val(k.Val())
			classVal[n] = v
		} else {
			c.MissingAnchor("prec.table", "parser."+n)
		}
	}
	className := map[int64]string{}
	for n, v := range classVal {
		className[v] = n
	}

	// ---- prec.table
	var initFn *ssa.Function
	if sp := prog.SSAPkg["parser"]; sp != nil {
		initFn = sp.Func("init")
	}
	precedences := map[string]int64{}
	var precPos token.Pos
	if initFn != nil {
		for _, b := range initFn.Blocks {
			for _, in := range b.Instrs {
				mu, ok := in.(*ssa.MapUpdate)
				if !ok {
					continue
				}
				// is this the map stored into global `precedences`?
				isPrec := false
				if mm, ok := mu.Map.(*ssa.MakeMap); ok && mm.Referrers() != nil {
					for _, r := range *mm.Referrers() {
						if st, ok := r.(*ssa.Store); ok {
							if g, ok := st.Addr.(*ssa.Global); ok && g.Name() == "precedences" {
								isPrec = true
							}
						}
					}
				}
				if !isPrec {
					continue
				}
				k, ok1 := mu.Key.(*ssa.Const)
				v, ok2 := core.ConstIntValue(mu.Value)
				if ok1 && ok2 && k.Value != nil {
					precedences[constant.StringVal(k.Value)] = v
					precPos = in.Pos()
				}
			}
		}
	}
	if len(precedences) < 10 {
		c.MissingAnchor("prec.table", "map literal `precedences` in parser (found "+fmt.Sprint(len(precedences))+" constant entries)")
	}
	for i := 0; i+1 < len(precClassOrder); i++ {
		a, b := precClassOrder[i], precClassOrder[i+1]
		if classVal[a] < classVal[b] && classVal["LOWEST"] < classVal[a] {
			c.Discharge("prec.table", "order|"+a+"<"+b, precPos, fmt.Sprintf("%s(%d) < %s(%d)", a, classVal[a], b, classVal[b]))
		} else {
			c.ReportAt("prec.table", "order|"+a+"<"+b, "parser/parser.go", prog.Line(precPos), fmt.Sprintf("binding powers are not ordered %s < %s (%d, %d): operators of these classes group the wrong way round", a, b, classVal[a], classVal[b]))
		}
	}
	var specToks []string
	for t := range precSpec {
		specToks = append(specToks, t)
	}
	sort.Strings(specToks)
	for _, t := range specToks {
		want := precSpec[t]
		got, has := precedences[tokVal[t]]
		switch {
		case !has:
			c.ReportAt("prec.table", "entry|"+t, "parser/parser.go", prog.Line(precPos), fmt.Sprintf("token %s has no binding power (expected class %s): the operator is never parsed as infix", t, want))
		case className[got] != want:
			c.ReportAt("prec.table", "entry|"+t, "parser/parser.go", prog.Line(precPos), fmt.Sprintf("token %s has binding power %s, the grammar requires %s", t, className[got], want))
		default:
			c.Discharge("prec.table", "entry|"+t, precPos, "class "+want)
		}
	}
	for tv, v := range precedences {
		if _, ok := precSpec[tokName[tv]]; !ok {
			c.ReportAt("prec.table", "extra|"+tokName[tv], "parser/parser.go", prog.Line(precPos), fmt.Sprintf("token %s has binding power %s but is not an operator of the grammar", tokName[tv], className[v]))
		}
	}
	c.Floor("prec.table", 20)

	// ---- prec.pratt
	pe := prog.SSAFunc("parser", "Parser.ParseExpression")
	peekPrec := prog.SSAFunc("parser", "Parser.peekPrecedence")
	curPrec := prog.SSAFunc("parser", "Parser.curPrecedence")
	nextTok := prog.SSAFunc("parser", "Parser.NextToken")
	if pe == nil || peekPrec == nil || curPrec == nil || nextTok == nil {
		c.MissingAnchor("prec.pratt", "ParseExpression / peekPrecedence / curPrecedence / NextToken")
		return
	}
	strict := false
	for _, b := range pe.Blocks {
		for _, in := range b.Instrs {
			bo, ok := in.(*ssa.BinOp)
			if !ok {
				continue
			}
			isPeek := func(v ssa.Value) bool {
				call, ok := v.(*ssa.Call)
				return ok && call.Common().StaticCallee() == peekPrec
			}
			isParam := func(v ssa.Value) bool { return len(pe.Params) == 2 && v == ssa.Value(pe.Params[1]) }
			var form string
			switch {
			case isParam(bo.X) && isPeek(bo.Y):
				form = "precedence " + bo.Op.String() + " peekPrecedence()"
			case isPeek(bo.X) && isParam(bo.Y):
				form = "peekPrecedence() " + bo.Op.String() + " precedence"
			default:
				continue
			}
			// the true edge must continue the loop (lead to a call of an infix/postfix parser)
			good := (isParam(bo.X) && bo.Op == token.LSS) || (isPeek(bo.X) && bo.Op == token.GTR)
			if good {
				strict = true
				c.Discharge("prec.pratt", "ParseExpression|comparison", in.Pos(), form+" (strict: operators of equal power group to the left)")
			} else {
				c.Report("prec.pratt", "ParseExpression|comparison", in.Pos(), "the Pratt loop continues on `"+form+"`: it must be the strict `precedence < peekPrecedence()`, otherwise operators of equal binding power group to the right (or the loop never binds)")
			}
		}
	}
	if !strict {
		c.Report("prec.pratt", "ParseExpression|comparison-missing", pe.Pos(), "ParseExpression no longer compares the caller's binding power with peekPrecedence()")
	}
	// curPrecedence / peekPrecedence index the table with their own token
	for fn, field := range map[*ssa.Function]string{curPrec: "curToken", peekPrec: "peekToken"} {
		ok := false
		for _, b := range fn.Blocks {
			for _, in := range b.Instrs {
				lk, isLk := in.(*ssa.Lookup)
				if !isLk {
					continue
				}
				fromPrec := false
				if ld, isLd := lk.X.(*ssa.UnOp); isLd {
					if g, isG := ld.X.(*ssa.Global); isG && g.Name() == "precedences" {
						fromPrec = true
					}
				}
				keyOK := false
				for x := range core.BackSlice(lk.Index) {
					if f := core.FieldOf(x); f != nil && f.Name() == field && core.FieldOwner(x) == parserPkg+".Parser" {
						keyOK = true
					}
				}
				if fromPrec && keyOK {
					ok = true
				}
			}
		}
		// fallback LOWEST
		lowest := false
		for _, rs := range core.ReturnSites(fn) {
			if v, isK := core.ConstIntValue(rs.Results[0]); isK && v == classVal["LOWEST"] {
				lowest = true
			}
		}
		if ok && lowest {
			c.Discharge("prec.pratt", fn.Name(), fn.Pos(), "looks up precedences[p."+field+".Token.Type], LOWEST otherwise")
		} else {
			c.Report("prec.pratt", fn.Name(), fn.Pos(), fmt.Sprintf("%s must return precedences[p.%s.Token.Type] and LOWEST for other tokens (table lookup with own token: %v, LOWEST fallback: %v)", fn.Name(), field, ok, lowest))
		}
	}
	// call sites of ParseExpression
	ownPower := map[string]bool{"ParseInfixExpression": true, "ParseInfixStringConcatExpression": true}
	for _, fn := range prog.ModuleFuncs("parser", "tester/syntax") {
		for _, b := range fn.Blocks {
			for _, in := range b.Instrs {
				call, ok := in.(*ssa.Call)
				if !ok || call.Common().StaticCallee() != pe {
					continue
				}
				c.CallSite()
				arg := call.Common().Args[1]
				key := core.FnName(fn) + "|ParseExpression-arg"
				top := fn
				for top.Parent() != nil {
					top = top.Parent()
				}
				switch {
				case top.Name() == "ParsePrefixExpression":
					if v, isK := core.ConstIntValue(arg); isK && v == classVal["PREFIX"] {
						c.Discharge("prec.pratt", key, in.Pos(), "PREFIX")
					} else {
						c.Report("prec.pratt", key, in.Pos(), "ParsePrefixExpression must parse its operand with binding power PREFIX (so that `!a == b` is `(!a) == b`)")
					}
				case ownPower[top.Name()]:
					cp, isCall := arg.(*ssa.Call)
					good := isCall && cp.Common().StaticCallee() == curPrec
					if good {
						// curPrecedence() is taken before the token window is advanced
						for _, b2 := range fn.Blocks {
							for _, i2 := range b2.Instrs {
								if c2, ok := i2.(*ssa.Call); ok && c2.Common().StaticCallee() == nextTok {
									// may-precede: a token advance on any path to the read spoils it (the explicit `+` is skipped conditionally)
									if core.InstrDominates(c2, cp) || (c2.Block() != cp.Block() && core.Reaches(c2.Block(), cp.Block())) {
										good = false
									}
								}
							}
						}
					}
					if good {
						c.Discharge("prec.pratt", key, in.Pos(), "the operator's own binding power, read before NextToken")
					} else {
						c.Report("prec.pratt", key, in.Pos(), top.Name()+" must parse its right operand with the operator's own binding power (curPrecedence() read before the token is advanced): otherwise `a == b && c` or `a b c` group wrongly")
					}
				default:
					if v, isK := core.ConstIntValue(arg); isK && v == classVal["LOWEST"] {
						c.Discharge("prec.pratt", key, in.Pos(), "LOWEST")
					} else {
						c.Report("prec.pratt", key, in.Pos(), "a sub-expression in "+core.FnName(fn)+" is not parsed from binding power LOWEST: operators looser than the argument would be cut off")
					}
				}
			}
		}
	}
	c.Floor("prec.pratt", 25)

	// ---- prec.register
	reg := prog.SSAFunc("parser", "Parser.registerExpressionParsers")
	if reg == nil {
		c.MissingAnchor("prec.register", "registerExpressionParsers")
	} else {
		tables := map[string]map[string]string{} // field -> token name -> target
		explicit := map[string]string{}
		for _, b := range reg.Blocks {
			for _, in := range b.Instrs {
				mu, ok := in.(*ssa.MapUpdate)
				if !ok {
					continue
				}
				field := ""
				if mm, ok := mu.Map.(*ssa.MakeMap); ok && mm.Referrers() != nil {
					for _, r := range *mm.Referrers() {
						if st, ok := r.(*ssa.Store); ok {
							if fa, ok := st.Addr.(*ssa.FieldAddr); ok && core.FieldOf(fa) != nil {
								field = core.FieldOf(fa).Name()
							}
						}
					}
				}
				k, ok := mu.Key.(*ssa.Const)
				if field == "" || !ok || k.Value == nil {
					continue
				}
				tn := tokName[constant.StringVal(k.Value)]
				target, exp := closureTarget(closureFunc(mu.Value))
				if tables[field] == nil {
					tables[field] = map[string]string{}
				}
				tables[field][tn] = target
				if field == "infixParsers" {
					explicit[tn] = exp
				}
			}
		}
		cmp := func(field string, spec map[string]string) {
			got := tables[field]
			var toks []string
			for t := range spec {
				toks = append(toks, t)
			}
			sort.Strings(toks)
			for _, t := range toks {
				if got[t] == spec[t] {
					c.Discharge("prec.register", field+"|"+t, reg.Pos(), t+" -> "+spec[t])
				} else if got[t] == "" {
					c.Report("prec.register", field+"|"+t, reg.Pos(), fmt.Sprintf("%s has no entry for token %s (the grammar needs %s)", field, t, spec[t]))
				} else {
					c.Report("prec.register", field+"|"+t, reg.Pos(), fmt.Sprintf("%s maps token %s to %s, the grammar requires %s", field, t, got[t], spec[t]))
				}
			}
			for t, target := range got {
				if _, ok := spec[t]; !ok {
					c.Report("prec.register", field+"|"+t+"|extra", reg.Pos(), fmt.Sprintf("%s has an entry for token %s (%s) that the grammar does not have", field, t, target))
				}
			}
		}
		cmp("prefixParsers", prefixSpec)
		cmp("infixParsers", infixSpec)
		cmp("postfixParsers", map[string]string{"PERCENT": "ParsePostfixExpression"})
		for t, e := range explicit {
			if infixSpec[t] != "ParseInfixStringConcatExpression" {
				continue
			}
			want := "false"
			if t == "PLUS" {
				want = "true"
			}
			if e == want {
				c.Discharge("prec.register", "explicit|"+t, reg.Pos(), "explicit="+e)
			} else {
				c.Report("prec.register", "explicit|"+t, reg.Pos(), fmt.Sprintf("concatenation through token %s is registered with explicit=%s (must be %s: only a written `+` is explicit, and the formatter/codec rely on it)", t, e, want))
			}
		}
		// every token with a binding power has a handler
		for t, cls := range precSpec {
			has := tables["infixParsers"][t] != "" || tables["postfixParsers"][t] != ""
			if has {
				c.Discharge("prec.register", "handler|"+t, reg.Pos(), "token with binding power "+cls+" has an infix/postfix handler")
			} else {
				c.Report("prec.register", "handler|"+t, reg.Pos(), "token "+t+" has binding power "+cls+" but no infix/postfix handler: ParseExpression returns early and the rest of the expression is a syntax error")
			}
		}
	}
	c.Floor("prec.register", 45)

	checkLexSpec(c, tokName)
	checkDispatchSpec(c, tokName)
	checkParserFields(c)
	checkEscapeReach(c)
	checkDuplicateCase(c)
	checkByteTranscode(c)
	checkScratchBuffers(c)
	checkScanStep(c, "lex.step", nil, 10)
}

// closureTarget: the Parser method a registered closure (or bound method wrapper) calls, and the constant bool it passes (if any).
func closureTarget(fn *ssa.Function) (string, string) {
	if fn == nil {
		return "", ""
	}
	for _, b := range fn.Blocks {
		for _, in := range b.Instrs {
			call, ok := in.(*ssa.Call)
			if !ok {
				continue
			}
			cal := call.Common().StaticCallee()
			if cal == nil || cal.Signature.Recv() == nil || core.NamedTypeName(cal.Signature.Recv().Type()) != "Parser" {
				continue
			}
			exp := ""
			for _, a := range call.Common().Args {
				if k, ok := a.(*ssa.Const); ok && k.Value != nil && k.Value.Kind() == constant.Bool {
					exp = fmt.Sprint(constant.BoolVal(k.Value))
				}
			}
			return cal.Name(), exp
		}
	}
	return "", ""
}

// checkLexSpec: case chains on l.char / peekChar() -> token type handed to newToken.
func checkLexSpec(c *core.Ctx, tokName map[string]string) {
	prog := c.Prog
	nt := prog.SSAFunc("lexer", "Lexer.NextToken")
	if nt == nil {
		c.MissingAnchor("lex.operators", "lexer.(*Lexer).NextToken")
		return
	}
	isCharRead := func(v ssa.Value) bool {
		switch t := v.(type) {
		case *ssa.UnOp:
			if fa, ok := t.X.(*ssa.FieldAddr); ok && core.FieldOf(fa) != nil && core.FieldOf(fa).Name() == "char" {
				return true
			}
		case *ssa.Call:
			if cal := t.Common().StaticCallee(); cal != nil && cal.Name() == "peekChar" {
				return true
			}
		}
		return false
	}
	// chain of dominating `read == 'c'` true edges, outermost first
	chainOf := func(b *ssa.BasicBlock) (string, bool) {
		var rs []rune
		for d := b; d.Idom() != nil; d = d.Idom() {
			id := d.Idom()
			iff, ok := id.Instrs[len(id.Instrs)-1].(*ssa.If)
			if !ok {
				continue
			}
			bo, ok := iff.Cond.(*ssa.BinOp)
			if !ok || (bo.Op != token.EQL && bo.Op != token.NEQ) {
				continue
			}
			// the edge on which the read equals the constant: true edge of `==`, false edge of `!=`
			eq := 0
			if bo.Op == token.NEQ {
				eq = 1
			}
			if ks, isStr := bo.Y.(*ssa.Const); isStr && ks.Value != nil && ks.Value.Kind() == constant.String && core.EdgeDominates(id, eq, b) {
				// a keyword-like prefix read as an identifier (`rol`, `ror`)
				rs = append([]rune(constant.StringVal(ks.Value)), rs...)
				continue
			}
			if !isCharRead(bo.X) {
				continue
			}
			k, ok := core.ConstIntValue(bo.Y)
			if !ok {
				continue
			}
			if core.EdgeDominates(id, eq, b) {
				rs = append([]rune{rune(k)}, rs...)
			}
		}
		if len(rs) == 0 {
			return "", false
		}
		return string(rs), true
	}
	got := map[string]string{}
	pos := map[string]token.Pos{}
	for _, b := range nt.Blocks {
		for _, in := range b.Instrs {
			call, ok := in.(*ssa.Call)
			if !ok || call.Common().StaticCallee() == nil || call.Common().StaticCallee().Name() != "newToken" {
				continue
			}
			k, ok := call.Common().Args[0].(*ssa.Const)
			if !ok || k.Value == nil {
				continue
			}
			chain, ok := chainOf(b)
			if !ok {
				continue
			}
			tn := tokName[constant.StringVal(k.Value)]
			if tn == "ILLEGAL" || tn == "COMMENT" || tn == "STRING" || tn == "OPEN_LONG_STRING" || tn == "CLOSE_LONG_STRING" || tn == "LF" || tn == "FASTLY_CONTROL" {
				continue
			}
			if prev, dup := got[chain]; dup && prev != tn {
				got[chain] = prev + "|" + tn
			} else {
				got[chain] = tn
			}
			pos[chain] = in.Pos()
		}
	}
	var sp []string
	for s := range lexSpec {
		sp = append(sp, s)
	}
	sort.Strings(sp)
	for _, s := range sp {
		if got[s] == lexSpec[s] {
			c.Discharge("lex.operators", s, pos[s], "`"+s+"` -> "+lexSpec[s])
		} else if got[s] == "" {
			c.Report("lex.operators", s, nt.Pos(), fmt.Sprintf("no lexer path produces token %s for the spelling `%s`", lexSpec[s], s))
		} else {
			c.Report("lex.operators", s, pos[s], fmt.Sprintf("the spelling `%s` is lexed as %s, must be %s", s, got[s], lexSpec[s]))
		}
	}
	c.Extra("lexer_spellings", got)
	c.Floor("lex.operators", 35)

	// keywords map
	kw := map[string]string{}
	if sp := prog.SSAPkg["token"]; sp != nil {
		if in := sp.Func("init"); in != nil {
			for _, b := range in.Blocks {
				for _, i := range b.Instrs {
					mu, ok := i.(*ssa.MapUpdate)
					if !ok {
						continue
					}
					isKw := false
					if mm, ok := mu.Map.(*ssa.MakeMap); ok && mm.Referrers() != nil {
						for _, r := range *mm.Referrers() {
							if st, ok := r.(*ssa.Store); ok {
								if g, ok := st.Addr.(*ssa.Global); ok && g.Name() == "keywords" {
									isKw = true
								}
							}
						}
					}
					k, ok1 := mu.Key.(*ssa.Const)
					v, ok2 := mu.Value.(*ssa.Const)
					if isKw && ok1 && ok2 && k.Value != nil && v.Value != nil {
						kw[constant.StringVal(k.Value)] = tokName[constant.StringVal(v.Value)]
					}
				}
			}
		}
	}
	for s, want := range keywordSpec {
		if kw[s] == want {
			c.Discharge("lex.keywords", s, token.NoPos, s+" -> "+want)
		} else {
			c.ReportAt("lex.keywords", s, "token/token.go", 0, fmt.Sprintf("keyword `%s` maps to token %q, must be %s", s, kw[s], want))
		}
	}
	for s, t := range kw {
		if _, ok := keywordSpec[s]; !ok {
			c.ReportAt("lex.keywords", s+"|extra", "token/token.go", 0, fmt.Sprintf("`%s` is a keyword (%s) that the grammar does not have: identifiers spelled like it can no longer be used", s, t))
		}
	}
	c.Floor("lex.keywords", 30)
}

// dispatchTable: token constant -> Parser methods called in the blocks dominated by the `curToken.Type == K` edge.
func dispatchTable(fn *ssa.Function, tokName map[string]string) map[string][]string {
	out := map[string][]string{}
	for _, b := range fn.Blocks {
		label := dominatingStringCase(b)
		if label == "" {
			continue
		}
		tn := tokName[label]
		if tn == "" {
			continue
		}
		// only the innermost token case counts: walk up to make sure the first string case found is the dispatch one
		for _, in := range b.Instrs {
			call, ok := in.(*ssa.Call)
			if !ok {
				continue
			}
			cal := call.Common().StaticCallee()
			if cal == nil || cal.Signature.Recv() == nil || core.NamedTypeName(cal.Signature.Recv().Type()) != "Parser" || !strings.HasPrefix(cal.Name(), "Parse") {
				continue
			}
			dup := false
			for _, x := range out[tn] {
				if x == cal.Name() {
					dup = true
				}
			}
			if !dup {
				out[tn] = append(out[tn], cal.Name())
			}
		}
	}
	for k := range out {
		sort.Strings(out[k])
	}
	return out
}

func checkDispatchSpec(c *core.Ctx, tokName map[string]string) {
	prog := c.Prog
	ps := prog.SSAFunc("parser", "Parser.ParseStatement")
	pd := prog.SSAFunc("parser", "Parser.Parse")
	sn := prog.SSAFunc("parser", "Parser.ParseSnippetVCL")
	if ps == nil || pd == nil || sn == nil {
		c.MissingAnchor("dispatch", "ParseStatement / Parse / ParseSnippetVCL")
		return
	}
	cmp := func(name string, fn *ssa.Function, spec map[string]string) map[string][]string {
		got := dispatchTable(fn, tokName)
		var toks []string
		for t := range spec {
			toks = append(toks, t)
		}
		sort.Strings(toks)
		for _, t := range toks {
			g := strings.Join(got[t], "+")
			if g == spec[t] {
				c.Discharge("dispatch", name+"|"+t, fn.Pos(), t+" -> "+spec[t])
			} else if g == "" {
				c.Report("dispatch", name+"|"+t, fn.Pos(), fmt.Sprintf("%s has no arm for a statement starting with token %s (expected %s): the construct is a syntax error", name, t, spec[t]))
			} else {
				c.Report("dispatch", name+"|"+t, fn.Pos(), fmt.Sprintf("%s sends a statement starting with token %s to %s, the grammar requires %s", name, t, g, spec[t]))
			}
		}
		for t, g := range got {
			if _, ok := spec[t]; !ok {
				c.Report("dispatch", name+"|"+t+"|extra", fn.Pos(), fmt.Sprintf("%s dispatches token %s to %s, which the grammar does not have", name, t, strings.Join(g, "+")))
			}
		}
		return got
	}
	stmtGot := cmp("ParseStatement", ps, stmtSpec)
	cmp("Parse", pd, declSpec)
	// sibling agreement: snippet entry point
	snGot := dispatchTable(sn, tokName)
	for t, g := range stmtGot {
		sg, has := snGot[t]
		if !has {
			if _, listed := snippetMissing[t]; listed {
				c.Info("ParseSnippetVCL has no arm for %s (ParseStatement has %s): statement-only snippets cannot contain it at top level", t, strings.Join(g, "+"))
			} else {
				c.Report("dispatch", "ParseSnippetVCL|"+t, sn.Pos(), fmt.Sprintf("ParseSnippetVCL has no arm for token %s although ParseStatement parses it with %s: the same statement parses inside a subroutine but not in a snippet", t, strings.Join(g, "+")))
			}
			continue
		}
		if strings.Join(sg, "+") == strings.Join(g, "+") {
			c.Discharge("dispatch", "ParseSnippetVCL|"+t, sn.Pos(), "agrees with ParseStatement")
		} else {
			c.Report("dispatch", "ParseSnippetVCL|"+t, sn.Pos(), fmt.Sprintf("ParseSnippetVCL sends token %s to %s but ParseStatement to %s", t, strings.Join(sg, "+"), strings.Join(g, "+")))
		}
	}
	c.Floor("dispatch", 40)
}

// checkParserFields: every semantic field of every constructible node kind is stored somewhere in the parser.
func checkParserFields(c *core.Ctx) {
	u := newAstUniverse(c.Prog)
	if u == nil {
		return
	}
	census := fieldCensus(c.Prog.ModuleFuncs("parser"))
	for _, n := range u.names {
		if _, ok := u.constructible[n]; !ok {
			continue
		}
		for _, f := range u.fields[n] {
			key := n + "." + f.Name()
			if why, ok := parserUnwrittenOK[key]; ok {
				c.Info("parser never stores %s: %s", key, why)
				continue
			}
			if fu := census[f]; fu != nil && len(fu.writes) > 0 {
				c.Discharge("fields", key, fu.writes[0].pos, "stored in "+core.FnName(fu.writes[0].fn))
			} else {
				c.Report("fields", key, f.Pos(), "the parser never stores "+key+": what the source says there is not in the tree")
			}
		}
	}
	c.Floor("fields", 80)
}

// checkEscapeReach: decodeStringEscapes is called only from ParseString, dominated by the double-quote test (Offset == 2).
func checkEscapeReach(c *core.Ctx) {
	prog := c.Prog
	dec := prog.SSAFunc("parser", "decodeStringEscapes")
	if dec == nil {
		c.MissingAnchor("escape", "parser.decodeStringEscapes")
		return
	}
	n := 0
	for _, fn := range prog.ModuleFuncs() {
		for _, b := range fn.Blocks {
			for _, in := range b.Instrs {
				call, ok := in.(*ssa.Call)
				if !ok || call.Common().StaticCallee() != dec {
					continue
				}
				n++
				key := core.FnName(fn) + "|decodeStringEscapes"
				if fn.Name() != "ParseString" {
					c.Report("escape", key, in.Pos(), "escape decoding is applied outside ParseString: `%XX` would be decoded in a context where the grammar keeps it literal")
					continue
				}
				// dominated by Offset == 2
				guarded := false
				for _, blk := range fn.Blocks {
					iff, ok := blk.Instrs[len(blk.Instrs)-1].(*ssa.If)
					if !ok {
						continue
					}
					bo, eq, ok := core.EqCond(iff.Cond)
					if !ok {
						continue
					}
					k, isK := core.ConstIntValue(bo.Y)
					fromOffset := false
					for x := range core.BackSlice(bo.X) {
						if f := core.FieldOf(x); f != nil && f.Name() == "Offset" {
							fromOffset = true
						}
					}
					if isK && k == 2 && fromOffset && core.EdgeDominates(blk, eq, b) {
						guarded = true
					}
				}
				// ... and under nothing else: every other condition the call depends on may only say "the literal contains a %"
				cd := core.NewCtrlDeps(fn)
				for _, e := range cd.Transitive(b) {
					cond := core.BranchCond(e.From)
					if cond == nil {
						continue
					}
					isOffset := false
					for x := range core.BackSlice(cond) {
						if f := core.FieldOf(x); f != nil && f.Name() == "Offset" {
							isOffset = true
						}
					}
					if isOffset {
						continue
					}
					k2 := key + "|extra-condition"
					if containsPercentTest(cond, e.Idx) {
						c.Discharge("escape", k2, cond.Pos(), "fast path: decoder skipped only when the literal has no `%`")
					} else {
						c.Report("escape", k2, cond.Pos(), "escape decoding of a double-quoted string depends on a further condition that is not `the literal contains %`: some double-quoted strings keep their escapes undecoded")
					}
				}
				if guarded {
					c.Discharge("escape", key, in.Pos(), "only under Token.Offset == 2 (double-quoted string)")
				} else {
					c.Report("escape", key, in.Pos(), "escape decoding is not restricted to double-quoted strings (Token.Offset == 2): long strings would be decoded too")
				}
			}
		}
	}
	if n == 0 {
		c.Report("escape", "no-call", dec.Pos(), "decodeStringEscapes is never called: escapes in double-quoted strings are not decoded")
	}
}

// containsPercentTest: cond, taken on the successor index succ, is exactly "the string contains '%'":
// strings.Contains/ContainsRune/ContainsAny(x, "%") == true, or strings.Index*(x, '%') >= 0 / != -1 / > -1.
func containsPercentTest(cond ssa.Value, succ int) bool {
	isPct := func(v ssa.Value) bool {
		k, ok := v.(*ssa.Const)
		if !ok || k.Value == nil {
			return false
		}
		if k.Value.Kind() == constant.String {
			return constant.StringVal(k.Value) == "%"
		}
		if n, ok := core.ConstIntValue(v); ok {
			return n == '%'
		}
		return false
	}
	stringsCall := func(v ssa.Value, prefix string) bool {
		call, ok := v.(*ssa.Call)
		if !ok {
			return false
		}
		cal := call.Common().StaticCallee()
		return cal != nil && cal.Pkg != nil && cal.Pkg.Pkg.Path() == "strings" && strings.HasPrefix(cal.Name(), prefix) && len(call.Common().Args) == 2 && isPct(call.Common().Args[1])
	}
	if stringsCall(cond, "Contains") {
		return succ == 0
	}
	bo, ok := cond.(*ssa.BinOp)
	if !ok || !stringsCall(bo.X, "Index") {
		return false
	}
	k, isK := core.ConstIntValue(bo.Y)
	if !isK {
		return false
	}
	switch {
	case bo.Op == token.GEQ && k == 0, bo.Op == token.GTR && k == -1, bo.Op == token.NEQ && k == -1:
		return succ == 0
	case bo.Op == token.LSS && k == 0, bo.Op == token.EQL && k == -1, bo.Op == token.LEQ && k == -1:
		return succ == 1
	}
	return false
}

// checkDuplicateCase (dup.case): two case clauses are duplicates only when operator AND label agree
// (`case "x":` and `case ~ "x":` are different tests); a rejection that ignores either makes a valid program unparseable.
func checkDuplicateCase(c *core.Ctx) {
	prog := c.Prog
	fn := prog.SSAFunc("parser", "Parser.ParseSwitchStatement")
	if fn == nil {
		c.MissingAnchor("dup.case", "Parser.ParseSwitchStatement")
		return
	}
	cd := core.NewCtrlDeps(fn)
	n := 0
	for _, b := range fn.Blocks {
		for _, in := range b.Instrs {
			call, ok := in.(*ssa.Call)
			if !ok {
				continue
			}
			cal := call.Common().StaticCallee()
			if cal == nil || cal.Name() != "DuplicateCase" {
				continue
			}
			n++
			hasOp, hasLabel := false, false
			for _, e := range cd.Transitive(b) {
				cond := core.BranchCond(e.From)
				if cond == nil {
					continue
				}
				for x := range core.BackSliceLocal(cond) {
					if f := core.FieldOf(x); f != nil && f.Name() == "Operator" {
						hasOp = true
					}
					if f := core.FieldOf(x); f != nil && f.Name() == "Right" {
						hasLabel = true
					}
				}
			}
			key := fmt.Sprintf("ParseSwitchStatement|DuplicateCase#%d", n)
			if hasOp && hasLabel {
				c.Discharge("dup.case", key, in.Pos(), "rejected only when operator and label both repeat")
			} else {
				c.Report("dup.case", key, in.Pos(), fmt.Sprintf("the duplicate-case rejection does not depend on both the case operator (%v) and the label (%v): `case \"x\":` next to `case ~ \"x\":` (or two different labels) is refused although the grammar allows it", hasOp, hasLabel))
			}
		}
	}
	if n == 0 {
		c.Discharge("dup.case", "ParseSwitchStatement|none", fn.Pos(), "no duplicate-case rejection (nothing valid can be refused by it)")
	}
}

// checkByteTranscode (escape.bytes): string(b) for a byte b encodes the code point U+00b as UTF-8 - for b >= 0x80 that is
// two bytes, not the byte read. A byte taken from the source text (ReadByte, indexing a string or []byte) must be
// copied with WriteByte / a slice, never converted by code point, or multi-byte characters of a literal are re-encoded
// byte by byte (Latin-1 mojibake). Decided for the lexer and the parser: every uint8→string and uint8→rune→string
// conversion has a constant operand or an operand bounded below 0x80 by a dominating comparison.
func checkByteTranscode(c *core.Ctx) {
	prog := c.Prog
	n := 0
	perFn := map[*ssa.Function]int{}
	for _, fn := range prog.ModuleFuncs("lexer", "parser", "token") {
		for _, b := range fn.Blocks {
			for _, in := range b.Instrs {
				cv, ok := in.(*ssa.Convert)
				if !ok {
					continue
				}
				if bt, ok := cv.Type().Underlying().(*types.Basic); !ok || bt.Kind() != types.String {
					continue
				}
				// operand: an integer; look through integer widenings to the original value
				x := cv.X
				for {
					if inner, ok := x.(*ssa.Convert); ok {
						if ib, ok := inner.X.Type().Underlying().(*types.Basic); ok && ib.Info()&types.IsInteger != 0 {
							x = inner.X
							continue
						}
					}
					break
				}
				xb, ok := x.Type().Underlying().(*types.Basic)
				if !ok || xb.Kind() != types.Uint8 {
					continue
				}
				n++
				perFn[fn]++
				key := core.FnName(fn) + "|string(byte)#" + fmt.Sprint(perFn[fn])
				if _, isConst := x.(*ssa.Const); isConst {
					c.Discharge("escape.bytes", key, in.Pos(), "constant operand")
					continue
				}
				if asciiBounded(x, b) {
					c.Discharge("escape.bytes", key, in.Pos(), "operand bounded below 0x80 by a dominating comparison")
					continue
				}
				c.Report("escape.bytes", key, in.Pos(), fmt.Sprintf("%s converts a byte to a string by code point (string(b)): a byte >= 0x80 of the source text becomes a two-byte sequence, so a multi-byte character read byte by byte is re-encoded as Latin-1 and the literal value differs from the text written", core.FnName(fn)))
			}
		}
	}
	if n == 0 {
		c.Discharge("escape.bytes", "none", token.NoPos, "lexer and parser contain no byte→string conversion by code point")
	}
}

// asciiBounded: a comparison of x with a constant dominates block b on the edge that implies x < 0x80.
func asciiBounded(x ssa.Value, b *ssa.BasicBlock) bool {
	if x.Referrers() == nil {
		return false
	}
	for _, r := range *x.Referrers() {
		bo, ok := r.(*ssa.BinOp)
		if !ok || bo.Referrers() == nil {
			continue
		}
		// (x & m) == 0 with bit 7 in m
		if bo.Op == token.AND {
			m, isK := core.ConstIntValue(bo.Y)
			if !isK {
				m, isK = core.ConstIntValue(bo.X)
			}
			if isK && m&0x80 != 0 && m&^0xff == 0 {
				for _, r2 := range *bo.Referrers() {
					cmp, ok := r2.(*ssa.BinOp)
					if !ok || (cmp.Op != token.EQL && cmp.Op != token.NEQ) || cmp.Referrers() == nil {
						continue
					}
					z, isZ := core.ConstIntValue(cmp.Y)
					if !isZ {
						z, isZ = core.ConstIntValue(cmp.X)
					}
					if !isZ || z != 0 {
						continue
					}
					for _, rr := range *cmp.Referrers() {
						if iff, ok := rr.(*ssa.If); ok {
							idx := 0
							if cmp.Op == token.NEQ {
								idx = 1
							}
							if core.EdgeDominates(iff.Block(), idx, b) {
								return true
							}
						}
					}
				}
			}
			continue
		}
		k, left := int64(0), true
		if kv, ok := core.ConstIntValue(bo.Y); ok && bo.X == x {
			k = kv
		} else if kv, ok := core.ConstIntValue(bo.X); ok && bo.Y == x {
			k, left = kv, false
		} else {
			continue
		}
		for _, rr := range *bo.Referrers() {
			iff, ok := rr.(*ssa.If)
			if !ok {
				continue
			}
			for idx, edgeTrue := range []bool{true, false} {
				_, hi, excl, ok := intervalOf(bo.Op, k, edgeTrue, left)
				if ok && excl == nil && hi < 0x80 && core.EdgeDominates(iff.Block(), idx, b) {
					return true
				}
			}
		}
	}
	return false
}

// checkLoopGuardToken (C04 verdict.lasttoken): a parser loop that goes on "while the next token is not X" has looked at the
// *peek* token; the token its body then reads through p.curToken is the one before it unless the parser advances
// first. Guard and dispatch must talk about the same token: on every path from the guard `PeekTokenIs(X)` into the
// body, an advance (a call that reaches NextToken) comes before the first read of p.curToken. A loop that tests the
// peek token and dispatches on the current one stops one token early: the last token of the input is never parsed,
// and whatever it is, the file is accepted.
func checkLoopGuardToken(c *core.Ctx) {
	prog := c.Prog
	next := prog.SSAFunc("parser", "Parser.NextToken")
	if next == nil {
		c.MissingAnchor("verdict.lasttoken", "parser.(*Parser).NextToken")
		return
	}
	funcs := prog.ModuleFuncs("parser")
	// functions that can advance the token stream
	adv := map[*ssa.Function]bool{next: true}
	for changed := true; changed; {
		changed = false
		for _, fn := range funcs {
			if adv[fn] {
				continue
			}
			for _, b := range fn.Blocks {
				for _, in := range b.Instrs {
					if cal := core.StaticCallee(in); cal != nil && adv[cal] && !adv[fn] {
						adv[fn] = true
						changed = true
					}
				}
			}
		}
	}
	readsCur := func(in ssa.Instruction) bool {
		ld, ok := in.(*ssa.UnOp)
		if !ok || ld.Op != token.MUL {
			return false
		}
		f := core.FieldOf(ld.X)
		return f != nil && f.Name() == "curToken" && strings.HasSuffix(core.FieldOwner(ld.X), "/parser.Parser")
	}
	for _, fn := range funcs {
		if fn.Pkg == nil || !strings.HasSuffix(fn.Pkg.Pkg.Path(), "/parser") {
			continue
		}
		for _, l := range naturalLoops(fn) {
			h := l.header
			iff, ok := h.Instrs[len(h.Instrs)-1].(*ssa.If)
			if !ok {
				continue
			}
			call, ok := iff.Cond.(*ssa.Call)
			if !ok || call.Common().StaticCallee() == nil || call.Common().StaticCallee().Name() != "PeekTokenIs" {
				continue
			}
			// which successor stays in the loop
			var entry *ssa.BasicBlock
			for _, s := range h.Succs {
				if l.body[s] && s != h {
					entry = s
				}
			}
			if entry == nil {
				continue
			}
			key := core.FnName(fn) + "|" + l.ord
			// walk from entry: a read of curToken before any advance?
			var bad ssa.Instruction
			seen := map[*ssa.BasicBlock]bool{}
			var walk func(b *ssa.BasicBlock)
			walk = func(b *ssa.BasicBlock) {
				if bad != nil || seen[b] || !l.body[b] || b == h {
					return
				}
				seen[b] = true
				for _, in := range b.Instrs {
					if cal := core.StaticCallee(in); cal != nil && adv[cal] {
						return
					}
					if readsCur(in) {
						bad = in
						return
					}
				}
				for _, s := range b.Succs {
					walk(s)
				}
			}
			walk(entry)
			if bad != nil {
				c.Report("verdict.lasttoken", key, bad.Pos(), fmt.Sprintf("loop #%s of %s goes on while the peek token is not the terminator, but reads p.curToken before advancing: guard and dispatch look at different tokens, the loop stops one token early and the last token of the input is never parsed (a stray token at the end is accepted)", l.ord, core.FnName(fn)))
			} else {
				c.Discharge("verdict.lasttoken", key, firstPos(h), "the parser advances before the body reads the current token")
			}
		}
	}
	c.Floor("verdict.lasttoken", 4)
}

// checkScratchBuffers (escape.scratch): a helper that gets a *bytes.Buffer / *strings.Builder from its caller, appends
// to it and then reads its *whole* content (Bytes, String, Len) computes its result from everything that was ever
// written to that buffer. Handing it a buffer that lives longer than one call - a variable declared outside the loop
// the call sits in - is only right when the helper (or the loop) resets the buffer first; otherwise the second call
// sees the bytes of the first (the second %XX sequence of a string decodes to the first one's character).
func checkScratchBuffers(c *core.Ctx) {
	isBuf := func(t types.Type) bool {
		n := core.NamedTypePkgName(t)
		if _, isPtr := t.Underlying().(*types.Pointer); !isPtr {
			return false
		}
		return n == "bytes.Buffer" || n == "strings.Builder"
	}
	funcs := c.Prog.ModuleFuncs("parser", "lexer")
	n := 0
	for _, fn := range funcs {
		for pi, p := range fn.Params {
			if !isBuf(p.Type()) || p.Referrers() == nil {
				continue
			}
			writes, reads, resets := false, false, false
			for _, r := range *p.Referrers() {
				call, ok := r.(*ssa.Call)
				if !ok || call.Common().StaticCallee() == nil || len(call.Common().Args) == 0 || call.Common().Args[0] != ssa.Value(p) {
					continue
				}
				switch call.Common().StaticCallee().Name() {
				case "Write", "WriteByte", "WriteRune", "WriteString":
					writes = true
				case "Bytes", "String", "Len":
					reads = true
				case "Reset", "Truncate":
					resets = true
				}
			}
			if !writes || !reads || resets {
				continue
			}
			// call sites: the buffer handed in outlives the call?
			for _, g := range funcs {
				loops := naturalLoops(g)
				for _, b := range g.Blocks {
					for _, in := range b.Instrs {
						call, ok := in.(*ssa.Call)
						if !ok || call.Common().StaticCallee() != fn || pi >= len(call.Common().Args) {
							continue
						}
						al, isAl := call.Common().Args[pi].(*ssa.Alloc)
						if !isAl {
							continue
						}
						n++
						key := fmt.Sprintf("%s|%s", core.FnName(g), fn.Name())
						shared := false
						for _, l := range loops {
							if l.body[b] && !l.body[al.Block()] {
								// reset inside the loop before the call?
								reset := false
								for lb := range l.body {
									for _, li := range lb.Instrs {
										if rc, isCall := li.(*ssa.Call); isCall && rc.Common().StaticCallee() != nil && (rc.Common().StaticCallee().Name() == "Reset" || rc.Common().StaticCallee().Name() == "Truncate") && len(rc.Common().Args) > 0 && rc.Common().Args[0] == ssa.Value(al) {
											reset = true
										}
									}
								}
								if !reset {
									shared = true
								}
							}
						}
						if shared {
							c.Report("escape.scratch", key, in.Pos(), fmt.Sprintf("%s hands %s a buffer declared outside the loop the call sits in, and %s appends to it and reads its whole content without resetting it: from the second call on the result is computed from the bytes of the earlier calls too", core.FnName(g), fn.Name(), fn.Name()))
						} else {
							c.Discharge("escape.scratch", key, in.Pos(), "the buffer is declared in the iteration, or reset in the loop")
						}
					}
				}
			}
		}
	}
	c.Instances("escape.scratch", 0)
	_ = n
}
