package checks

import (
	"go/token"

	"fv/internal/core"

	"golang.org/x/tools/go/ssa"
)

// checkChunks (fmt.chunks): chunking may only insert breaks, never drop a chunk.
//   - every chunk dequeued by nextChunk() in the emitters has its buffer read (or is handed to an emitter)
//     on its non-nil path; one named exception (combineInfixChunk advances over chunks it has already
//     copied through peekChunk);
//   - (*ChunkBuffer).String writes chunks[i].buffer for every i: the write is controlled by nothing but the loop.
func checkChunks(c *core.Ctx) {
	prog := c.Prog
	next := prog.SSAFunc("formatter", "ChunkBuffer.nextChunk")
	str := prog.SSAFunc("formatter", "ChunkBuffer.String")
	if next == nil || str == nil {
		c.MissingAnchor("fmt.chunks", "formatter.(*ChunkBuffer).nextChunk / String")
		return
	}
	readsBuffer := func(v ssa.Value) bool {
		if v.Referrers() == nil {
			return false
		}
		for _, r := range *v.Referrers() {
			switch t := r.(type) {
			case *ssa.FieldAddr:
				if f := core.FieldOf(t); f != nil && f.Name() == "buffer" && hasRealUse(t) {
					return true
				}
			case ssa.CallInstruction:
				if cal := t.Common().StaticCallee(); cal != nil && cal.Pkg == next.Pkg {
					for _, a := range t.Common().Args[1:] {
						if a == v {
							return true
						}
					}
				}
			}
		}
		return false
	}
	for _, fn := range prog.ModuleFuncs("formatter") {
		for _, b := range fn.Blocks {
			for _, in := range b.Instrs {
				call, ok := in.(*ssa.Call)
				if !ok || call.Common().StaticCallee() != next {
					continue
				}
				c.CallSite()
				key := core.FnName(fn) + "|nextChunk"
				if fn.Name() == "combineInfixChunk" {
					c.Discharge("fmt.chunks", key+"|advance", in.Pos(), "named exception: advances over chunks whose buffers were already copied through peekChunk in the same activation")
					continue
				}
				if readsBuffer(call) {
					c.Discharge("fmt.chunks", key, in.Pos(), "dequeued chunk's buffer is read / handed to an emitter")
				} else {
					c.Report("fmt.chunks", key, in.Pos(), "a chunk is taken from the expression queue and never emitted: part of the expression disappears from the formatted output")
				}
			}
		}
	}
	// combineInfixChunk: every peeked chunk that is skipped was copied: each peekChunk result has its buffer read
	peek := prog.SSAFunc("formatter", "ChunkBuffer.peekChunk")
	if cic := prog.SSAFunc("formatter", "ChunkBuffer.combineInfixChunk"); cic != nil && peek != nil {
		for _, b := range cic.Blocks {
			for _, in := range b.Instrs {
				if call, ok := in.(*ssa.Call); ok && call.Common().StaticCallee() == peek {
					// all peeks flow into one phi usually: look through phis
					ok := false
					for _, u := range valueUsesThroughPhi(call) {
						if fa, isFA := u.(*ssa.FieldAddr); isFA && core.FieldOf(fa) != nil && core.FieldOf(fa).Name() == "buffer" {
							ok = true
						}
					}
					if ok {
						c.Discharge("fmt.chunks", "combineInfixChunk|peekChunk", in.Pos(), "peeked chunk's buffer is copied")
					} else {
						c.Report("fmt.chunks", "combineInfixChunk|peekChunk", in.Pos(), "a peeked chunk that combineInfixChunk later skips is not copied into the combined text")
					}
				}
			}
		}
	}
	// String(): the buffer write is controlled only by the loop condition
	cd := core.NewCtrlDeps(str)
	found := false
	for _, b := range str.Blocks {
		for _, in := range b.Instrs {
			call, ok := in.(*ssa.Call)
			if !ok || call.Common().StaticCallee() == nil || call.Common().StaticCallee().Name() != "WriteString" {
				continue
			}
			fromBuffer := false
			for x := range core.BackSlice(call.Common().Args[1]) {
				if f := core.FieldOf(x); f != nil && f.Name() == "buffer" {
					fromBuffer = true
				}
			}
			if !fromBuffer {
				continue
			}
			found = true
			extra := 0
			for _, e := range cd.Transitive(b) {
				cond := core.BranchCond(e.From)
				bo, isBo := cond.(*ssa.BinOp)
				if isBo && bo.Op == token.LSS {
					continue // range loop condition
				}
				extra++
			}
			if extra == 0 {
				c.Discharge("fmt.chunks", "ChunkBuffer.String|write-buffer", in.Pos(), "every chunk's buffer is written; only the loop condition controls the write")
			} else {
				c.Report("fmt.chunks", "ChunkBuffer.String|write-buffer", in.Pos(), "the write of a chunk's buffer in (*ChunkBuffer).String is conditional: some chunks are not printed")
			}
		}
	}
	if !found {
		c.Report("fmt.chunks", "ChunkBuffer.String|write-buffer", str.Pos(), "(*ChunkBuffer).String no longer writes the chunks' buffers")
	}
	c.Floor("fmt.chunks", 5)
}

func valueUsesThroughPhi(v ssa.Value) []ssa.Instruction {
	var out []ssa.Instruction
	seen := map[ssa.Value]bool{}
	var walk func(x ssa.Value)
	walk = func(x ssa.Value) {
		if seen[x] || x.Referrers() == nil {
			return
		}
		seen[x] = true
		for _, r := range *x.Referrers() {
			if phi, ok := r.(*ssa.Phi); ok {
				walk(phi)
				continue
			}
			out = append(out, r)
		}
	}
	walk(v)
	return out
}
