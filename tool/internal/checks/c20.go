package checks

import (
	"fmt"
	"go/ast"
	"go/constant"
	"go/token"
	"go/types"
	"regexp"
	"sort"
	"strings"
	"text/template/parse"
	"unicode"

	"fv/internal/core"

	"golang.org/x/tools/go/ssa"
)

// C20 — VCL generated from remote and Terraform resources is valid and faithful.
func init() {
	register(&Check{ID: "C20", NeedSSA: true, Run: runC20})
}

// Fields that hold VCL source by Fastly's own definition (a header rule's source and destination, a condition
// statement): they are pasted as code on purpose.
var tmplCodeValued = map[string]string{
	"Header.Source":                      "Fastly defines a header rule's source as a VCL expression",
	"Header.Destination":                 "Fastly defines a header rule's destination as a VCL variable name (http.X)",
	"Header.ConditionExpression":         "a condition statement is VCL source by definition",
	"ResponseObject.ConditionExpression": "a condition statement is VCL source by definition",
}

// Names Fastly itself restricts to identifier characters (property statement: only backend and director names need
// sanitising).
var tmplIdentNames = map[string]string{
	"Dictionary.Name": "Fastly accepts only identifier characters in dictionary names",
	"Acl.Name":        "Fastly accepts only identifier characters in ACL names",
}

// Resource structs whose every field must travel (property statement: key, value, address, mask, negation, membership).
var tmplFaithful = map[string][]string{
	"Dictionary":     {"Name", "Items"},
	"DictionaryItem": {"Key", "Value"},
	"Acl":            {"Name", "Entries"},
	"AclEntry":       {"Ip", "Negated", "Subnet", "Comment"},
	"Backend":        {"Name", "Address"},
	"Director":       {"Type", "Name", "Backends", "Retries", "Quorum"},
}

type tmplInfo struct {
	varName string
	obj     types.Object
	name    string
	text    string
	funcs   bool
	pos     token.Pos
	data    types.Type
}

type helperClass struct {
	constOnly, identSan, dqEscape, nlSafe bool
	twoHex                                bool // percent-encodes with exactly two hex digits
	splitsUTF8                            bool // encodes some bytes >= 0x80 and leaves others
	byteExact                             bool // classified by enumerating all byte values
}

func runC20(c *core.Ctx) {
	c.Explanation = "Context analysis of the text/template sources compiled into snippet/template.go, decided without executing them: the template constants are extracted from the typed syntax, parsed with text/template/parse, and every path through their if/range structure is unrolled into a VCL skeleton whose lexical context (code, double-quoted string, long string, line/block comment) is tracked to each interpolation. (tmpl.escape) every interpolation of a string-kinded resource field inside a double-quoted string passes through a helper that encodes `\"` and `%` (classified from the helper's SSA), inside a line comment through a helper that removes line feeds, never inside a long string; (tmpl.ident) string fields interpolated as code are sanitised to identifier characters, or are one of the named code-valued / identifier-restricted fields; backend names are written with the same prefix and sanitiser where they are declared and where a director refers to them; (tmpl.fields) every field of the resource structs is interpolated by its template; (tmpl.acl) the `!` marker is printed exactly under `if .Negated` and the mask exactly under `if .Subnet`; (tmpl.map) both fetcher implementations (Terraform plan, Fastly API) fill every such field from the source field of the same name. Necessary for: arbitrary printable values cannot terminate a literal or be decoded into something else, and nothing of a resource is dropped or crossed. The escaping helper is classified by enumerating all byte values (bytes >= 0x80 treated alike); (tmpl.optptr) optional plan attributes are dereferenced behind a nil test."
	c.NotCovered = []string{"the text/template engine and the VCL parser's escape decoding (C01/C02)", "JSON decoding of plans and API responses", "user-written VCL snippets, which are VCL source by definition"}
	prog := c.Prog
	pk := prog.Pkg("snippet")
	if pk == nil {
		c.MissingAnchor("tmpl.escape", "package snippet")
		return
	}
	// ---- templates and the helper map from typed syntax
	var tmpls []*tmplInfo
	helperLits := map[string]*ast.FuncLit{}
	for _, f := range pk.Syntax {
		for _, d := range f.Decls {
			gd, ok := d.(*ast.GenDecl)
			if !ok || gd.Tok != token.VAR {
				continue
			}
			for _, sp := range gd.Specs {
				vs := sp.(*ast.ValueSpec)
				if len(vs.Names) != 1 || len(vs.Values) != 1 {
					continue
				}
				if cl, ok := vs.Values[0].(*ast.CompositeLit); ok && core.NamedTypeName(pk.TypesInfo.TypeOf(cl)) == "FuncMap" {
					for _, e := range cl.Elts {
						kv, ok := e.(*ast.KeyValueExpr)
						if !ok {
							continue
						}
						k, ok1 := core.ConstString(pk.TypesInfo, kv.Key)
						fl, ok2 := kv.Value.(*ast.FuncLit)
						if ok1 && ok2 {
							helperLits[k] = fl
						}
					}
					continue
				}
				ti := &tmplInfo{varName: vs.Names[0].Name, obj: pk.TypesInfo.Defs[vs.Names[0]], pos: vs.Pos()}
				ast.Inspect(vs.Values[0], func(n ast.Node) bool {
					call, ok := n.(*ast.CallExpr)
					if !ok {
						return true
					}
					fn := core.Callee(pk.TypesInfo, call)
					if fn == nil || fn.Pkg() == nil || fn.Pkg().Path() != "text/template" {
						return true
					}
					switch fn.Name() {
					case "Parse":
						if s, ok := core.ConstString(pk.TypesInfo, call.Args[0]); ok {
							ti.text = s
						}
					case "New":
						if s, ok := core.ConstString(pk.TypesInfo, call.Args[0]); ok {
							ti.name = s
						}
					case "Funcs":
						ti.funcs = true
					}
					return true
				})
				if ti.text != "" {
					tmpls = append(tmpls, ti)
				}
			}
		}
	}
	if len(tmpls) < 7 {
		c.MissingAnchor("tmpl.escape", fmt.Sprintf("template constants in snippet/template.go (found %d)", len(tmpls)))
	}
	// ---- helper classification on SSA
	helpers := map[string]helperClass{}
	for _, fn := range prog.ModuleFuncs("snippet") {
		for name, fl := range helperLits {
			if fn.Syntax() == ast.Node(fl) {
				helpers[name] = classifyHelper(prog, fn)
				c.Func(core.FnName(fn))
			}
		}
	}
	for n, h := range helpers {
		if !h.dqEscape {
			continue
		}
		if h.splitsUTF8 {
			c.Report("tmpl.hex", n+"|utf8", helperLits[n].Pos(), fmt.Sprintf("the escaping helper %q percent-encodes some of the bytes 0x80-0xFF and leaves the others: a multi-byte character comes out half encoded (`Ü` as \\xc3%%9C) and the parser rejects the generated VCL (utf-8 escape has invalid leading byte)", n))
		}
		if h.twoHex {
			c.Discharge("tmpl.hex", n, helperLits[n].Pos(), "percent-encodes each byte with exactly two hex digits")
		} else {
			c.Report("tmpl.hex", n, helperLits[n].Pos(), fmt.Sprintf("the escaping helper %q does not visibly encode a byte as a percent sign followed by exactly two hex digits (%%%%%%02X, a nibble table or encoding/hex): bytes below 0x10 come out as `%%9` / `%%A`, which the VCL parser rejects", n))
		}
	}
	var hdesc []string
	for n, h := range helpers {
		hdesc = append(hdesc, fmt.Sprintf("%s{const:%v ident:%v dq:%v nl:%v bytes-enumerated:%v}", n, h.constOnly, h.identSan, h.dqEscape, h.nlSafe, h.byteExact))
	}
	sort.Strings(hdesc)
	c.Info("helpers: %s", strings.Join(hdesc, " "))
	c.Extra("helper_classes", hdesc)

	// ---- data types: the argument of Execute
	byObj := map[types.Object]*tmplInfo{}
	for _, t := range tmpls {
		byObj[t.obj] = t
	}
	for _, fn := range prog.ModuleFuncs("snippet") {
		for _, b := range fn.Blocks {
			for _, in := range b.Instrs {
				call, ok := in.(*ssa.Call)
				if !ok {
					continue
				}
				cal := call.Common().StaticCallee()
				if cal == nil || cal.Name() != "Execute" || cal.Pkg == nil || cal.Pkg.Pkg.Path() != "text/template" {
					continue
				}
				var dt types.Type
				if mi, ok := call.Common().Args[2].(*ssa.MakeInterface); ok {
					dt = mi.X.Type()
				}
				for x := range core.BackSlice(call.Common().Args[0]) {
					if g, ok := x.(*ssa.Global); ok {
						if t := byObj[g.Object()]; t != nil {
							t.data = dt
						}
					}
				}
			}
		}
	}

	// ---- walk every template
	declForms := map[string]string{} // backend name spellings: role -> prefix|helpers
	fieldRefs := map[string]bool{}
	for _, t := range tmpls {
		if t.data == nil {
			c.Report("tmpl.escape", t.varName+"|data", t.pos, "template "+t.varName+" is never executed with a resource (cannot resolve field types)")
			continue
		}
		funcs := map[string]any{}
		for _, n := range []string{"and", "call", "html", "index", "slice", "js", "len", "not", "or", "print", "printf", "println", "urlquery", "eq", "ge", "gt", "le", "lt", "ne"} {
			funcs[n] = true
		}
		for n := range helpers {
			funcs[n] = true
		}
		trees, err := parse.Parse(t.name, t.text, "", "", funcs)
		if err != nil {
			c.Report("tmpl.escape", t.varName+"|parse", t.pos, "template "+t.varName+" does not parse: "+err.Error())
			continue
		}
		tree := trees[t.name]
		w := &tmplWalker{c: c, t: t, helpers: helpers, fieldRefs: fieldRefs, actions: map[parse.Node]*actionInfo{}}
		w.walkList(tree.Root, t.data, "", 0)
		// contexts per action over all unrolled paths
		var keys []*actionInfo
		for _, ai := range w.actions {
			keys = append(keys, ai)
		}
		sort.Slice(keys, func(i, j int) bool { return keys[i].ord < keys[j].ord })
		perField := map[string]int{}
		for _, ai := range keys {
			var ctxs []string
			for cx := range ai.contexts {
				ctxs = append(ctxs, cx)
			}
			sort.Strings(ctxs)
			perField[ai.field]++
			key := fmt.Sprintf("%s|%s#%d", t.varName, ai.field, perField[ai.field])
			where := fmt.Sprintf("%s (template %q, action %s)", prog.Loc(t.pos), t.name, ai.src)
			if !ai.stringy {
				c.Discharge("tmpl.escape", key, t.pos, "non-string value ("+ai.typ+") in "+strings.Join(ctxs, ","))
				continue
			}
			safeConst := false
			var hs []string
			cls := helperClass{}
			for _, h := range ai.helpers {
				hc := helpers[h]
				hs = append(hs, h)
				safeConst = safeConst || hc.constOnly
				cls.identSan = cls.identSan || hc.identSan
				cls.dqEscape = cls.dqEscape || hc.dqEscape
				cls.nlSafe = cls.nlSafe || hc.nlSafe
			}
			if safeConst {
				c.Discharge("tmpl.escape", key, t.pos, "mapped to constants by "+strings.Join(hs, ","))
				continue
			}
			for _, cx := range ctxs {
				k := key + "|" + cx
				switch cx {
				case "dq":
					if cls.dqEscape {
						c.Discharge("tmpl.escape", k, t.pos, "double-quoted string, encoded by "+strings.Join(hs, ","))
					} else {
						c.Report("tmpl.escape", k, t.pos, fmt.Sprintf("%s: .%s is pasted into a double-quoted VCL string without encoding `\"` and `%%`: a value containing `\"` breaks the generated VCL and `%%20` is decoded to a different value", where, ai.field))
					}
				case "long":
					c.Report("tmpl.escape", k, t.pos, fmt.Sprintf("%s: .%s is pasted into a long string {\"...\"}: a value containing `\"}` ends the literal", where, ai.field))
				case "linecomment":
					if cls.nlSafe {
						c.Discharge("tmpl.escape", k, t.pos, "line comment, line feeds removed by "+strings.Join(hs, ","))
					} else {
						c.Report("tmpl.escape", k, t.pos, fmt.Sprintf("%s: .%s is pasted into a line comment without removing line feeds: the rest of the value becomes VCL source", where, ai.field))
					}
				case "blockcomment":
					c.Report("tmpl.escape", k, t.pos, fmt.Sprintf("%s: .%s is pasted into a block comment: a value containing `*/` ends it", where, ai.field))
				case "code":
					switch {
					case cls.identSan:
						c.Discharge("tmpl.ident", k, t.pos, "code position, sanitised to identifier characters by "+strings.Join(hs, ","))
					case tmplCodeValued[ai.field] != "":
						c.Discharge("tmpl.ident", k, t.pos, "named exception: "+tmplCodeValued[ai.field])
					case tmplIdentNames[ai.field] != "":
						c.Discharge("tmpl.ident", k, t.pos, "named exception: "+tmplIdentNames[ai.field])
					default:
						c.Report("tmpl.ident", k, t.pos, fmt.Sprintf("%s: .%s is pasted as VCL code without being sanitised to identifier characters: a name containing `-` or a space makes the generated VCL unparseable or refer to something else", where, ai.field))
					}
				}
			}
			// backend naming agreement
			if ai.field == "Backend.Name" || ai.field == "Director.Backends[]" {
				form := ai.prefix + "|" + strings.Join(hs, ",")
				if t.varName == "shieldDirectorTemplate" {
					continue
				}
				declForms[ai.field] = form
			}
		}
	}
	if a, b := declForms["Backend.Name"], declForms["Director.Backends[]"]; a != "" || b != "" {
		if a == b {
			c.Discharge("tmpl.ident", "backend-name-agreement", token.NoPos, "backend declared and referenced as "+a)
		} else {
			c.ReportAt("tmpl.ident", "backend-name-agreement", "snippet/template.go", 0, fmt.Sprintf("a backend is declared as %q but a director refers to it as %q (prefix|helpers): a director's member does not name the backend that was generated (membership is lost for names that need sanitising)", a, b))
		}
	}
	c.Floor("tmpl.escape", 20)
	c.Floor("tmpl.ident", 8)

	// ---- tmpl.fields
	var structs []string
	for s := range tmplFaithful {
		structs = append(structs, s)
	}
	sort.Strings(structs)
	for _, s := range structs {
		for _, f := range tmplFaithful[s] {
			key := s + "." + f
			if fieldRefs[key] {
				c.Discharge("tmpl.fields", key, token.NoPos, "interpolated or tested by its template")
			} else {
				c.ReportAt("tmpl.fields", key, "snippet/template.go", 0, fmt.Sprintf("no template refers to %s.%s: that part of the resource never reaches the generated VCL", s, f))
			}
		}
	}
	c.Floor("tmpl.fields", 17)

	checkFetcherMapping(c)
}

func classifyHelper(prog *core.Program, fn *ssa.Function) helperClass {
	hc := helperClass{constOnly: true}
	hasQuote, hasPct, hasNL, hasCtl := false, false, false, false
	noteStr := func(s string) {
		if strings.Contains(s, "\"") {
			hasQuote = true
		}
		if s == "%" {
			hasPct = true
		}
		if strings.Contains(s, "\n") {
			hasNL = true
		}
	}
	for _, b := range fn.Blocks {
		for _, in := range b.Instrs {
			switch t := in.(type) {
			case *ssa.Return:
				for _, r := range t.Results {
					if _, ok := r.(*ssa.Const); !ok {
						hc.constOnly = false
					}
				}
			case *ssa.BinOp:
				// comparisons of a byte/rune of the input with a constant
				for _, v := range []ssa.Value{t.X, t.Y} {
					if k, ok := core.ConstIntValue(v); ok {
						switch {
						case (t.Op == token.EQL || t.Op == token.NEQ) && k == '"':
							hasQuote = true
						case (t.Op == token.EQL || t.Op == token.NEQ) && k == '%':
							hasPct = true
						case (t.Op == token.EQL || t.Op == token.NEQ) && k == '\n':
							hasNL = true
						case ((t.Op == token.LSS || t.Op == token.GEQ) && k == 0x20) || ((t.Op == token.LEQ || t.Op == token.GTR) && k == 0x1f):
							hasCtl = true
						}
					}
				}
			case *ssa.Call:
				cal := t.Common().StaticCallee()
				if cal == nil || cal.Pkg == nil {
					continue
				}
				switch cal.Pkg.Pkg.Path() {
				case "strings":
					if cal.Name() == "NewReplacer" || strings.HasPrefix(cal.Name(), "Replace") {
						for _, a := range t.Common().Args {
							for x := range core.BackSlice(a) {
								if k, ok := x.(*ssa.Const); ok && k.Value != nil && k.Value.Kind() == constant.String {
									noteStr(constant.StringVal(k.Value))
								}
							}
							for _, sv := range sliceLitStrings(a) {
								noteStr(sv)
							}
						}
					}
				case "regexp":
					if cal.Name() == "ReplaceAllString" {
						// receiver: a package-level regexp compiled from a non-identifier class
						for x := range core.BackSlice(t.Common().Args[0]) {
							g, ok := x.(*ssa.Global)
							if !ok {
								continue
							}
							if pat := globalRegexpPattern(prog, g); pat != "" && identClassPattern(pat) {
								if k, ok := t.Common().Args[2].(*ssa.Const); ok && k.Value != nil && regexp.MustCompile(`^\w*$`).MatchString(constant.StringVal(k.Value)) {
									hc.identSan = true
								}
							}
						}
					}
				}
			}
		}
	}
	hc.dqEscape = hasQuote && hasPct
	hc.nlSafe = hasNL || hasCtl
	// a helper that walks its argument byte by byte is classified exactly: the byte values that can reach a use of the
	// byte itself (anything but a comparison, a formatting call or a nibble extraction) are enumerated over all 256
	// values, whatever the shape of the tests
	if raw, ok := byteLoopRaw(fn); ok {
		hc.byteExact = true
		hc.dqEscape = !raw['"'] && !raw['%']
		hc.nlSafe = !raw['\n']
		// the parser decodes %XX with XX >= 0x80 as the start of a UTF-8 sequence: the bytes of a multi-byte character
		// must be treated alike (all left as they are, or all encoded); a helper that encodes the continuation bytes
		// 0x80-0x9F only turns `Ü` into `\xc3%9C`, which the parser rejects
		for k := 0x81; k < 0x100; k++ {
			if raw[k] != raw[0x80] {
				hc.splitsUTF8 = true
			}
		}
	}
	// exactly two hex digits per encoded byte: fmt verb %02X / %02x after a literal percent sign, a hex table indexed
	// by both nibbles, or encoding/hex
	for _, b := range fn.Blocks {
		for _, in := range b.Instrs {
			call, ok := in.(*ssa.Call)
			if !ok {
				continue
			}
			cal := call.Common().StaticCallee()
			if cal == nil || cal.Pkg == nil {
				continue
			}
			switch cal.Pkg.Pkg.Path() {
			case "fmt":
				for _, a := range call.Common().Args {
					if k, ok := a.(*ssa.Const); ok && k.Value != nil && k.Value.Kind() == constant.String {
						f := constant.StringVal(k.Value)
						if strings.Contains(f, "%%%02X") || strings.Contains(f, "%%%02x") {
							hc.twoHex = true
						}
					}
				}
			case "encoding/hex":
				hc.twoHex = true
			}
		}
	}
	nib := 0
	for _, b := range fn.Blocks {
		for _, in := range b.Instrs {
			if bo, ok := in.(*ssa.BinOp); ok {
				if k, isK := core.ConstIntValue(bo.Y); isK && ((bo.Op == token.SHR && k == 4) || (bo.Op == token.AND && k == 15)) {
					nib++
				}
			}
		}
	}
	if nib >= 2 {
		hc.twoHex = true
	}
	return hc
}

func identClassPattern(p string) bool {
	switch p {
	case `\W`, `\W+`, `[^a-zA-Z0-9_]`, `[^A-Za-z0-9_]`, `[^0-9A-Za-z_]`, `[^a-zA-Z0-9_]+`, `[^A-Za-z0-9_]+`, `[^\w]`:
		return true
	}
	return false
}

// globalRegexpPattern: the constant pattern a package-level *regexp.Regexp is compiled from in the package initialiser.
func globalRegexpPattern(prog *core.Program, g *ssa.Global) string {
	init := g.Pkg.Func("init")
	if init == nil {
		return ""
	}
	for _, b := range init.Blocks {
		for _, in := range b.Instrs {
			st, ok := in.(*ssa.Store)
			if !ok || st.Addr != ssa.Value(g) {
				continue
			}
			if call, ok := st.Val.(*ssa.Call); ok {
				if cal := call.Common().StaticCallee(); cal != nil && cal.Pkg != nil && cal.Pkg.Pkg.Path() == "regexp" && strings.HasPrefix(cal.Name(), "MustCompile") {
					if k, ok := call.Common().Args[0].(*ssa.Const); ok && k.Value != nil {
						return constant.StringVal(k.Value)
					}
				}
			}
		}
	}
	return ""
}

// ---------- template walker: unrolls control structure into skeleton paths

type actionInfo struct {
	ord      int
	src      string
	field    string // Struct.Field ("[]" for range elements)
	typ      string
	stringy  bool
	helpers  []string
	contexts map[string]bool
	prefix   string
}

type tmplWalker struct {
	c         *core.Ctx
	t         *tmplInfo
	helpers   map[string]helperClass
	fieldRefs map[string]bool
	actions   map[parse.Node]*actionInfo
	paths     int
}

// lexical state of the generated VCL
type vclState struct {
	mode string // code dq long linecomment blockcomment
	prev rune
}

func (s vclState) feed(text string) vclState {
	for _, r := range text {
		switch s.mode {
		case "", "code":
			s.mode = "code"
			switch {
			case r == '"' && s.prev == '{':
				s.mode = "long"
			case r == '"':
				s.mode = "dq"
			case r == '#':
				s.mode = "linecomment"
			case r == '/' && s.prev == '/':
				s.mode = "linecomment"
			case r == '*' && s.prev == '/':
				s.mode = "blockcomment"
			}
		case "dq":
			if r == '"' {
				s.mode = "code"
			}
		case "long":
			if r == '}' && s.prev == '"' {
				s.mode = "code"
			}
		case "linecomment":
			if r == '\n' {
				s.mode = "code"
			}
		case "blockcomment":
			if r == '/' && s.prev == '*' {
				s.mode = "code"
			}
		}
		s.prev = r
	}
	return s
}

var identTail = regexp.MustCompile(`[A-Za-z0-9_]*$`)

// walkList explores the node list from index i in state st with `dot` as the data type; tail holds the text emitted
// so far on this path (only its identifier tail matters). It returns the set of states at the end of the list.
func (w *tmplWalker) walkList(list *parse.ListNode, dot types.Type, tail string, depth int) {
	w.checkAclShape(list)
	w.walk(list.Nodes, dot, ".", vclState{mode: "code"}, tail, nil)
}

type cont struct {
	nodes []parse.Node
	dot   types.Type
	label string
	next  *cont
}

func (w *tmplWalker) walk(nodes []parse.Node, dot types.Type, dotLabel string, st vclState, tail string, k *cont) {
	w.paths++
	if w.paths > 200000 {
		return
	}
	for i, n := range nodes {
		switch t := n.(type) {
		case *parse.TextNode:
			st = st.feed(string(t.Text))
			tail = identTail.FindString(tail + string(t.Text))
		case *parse.ActionNode:
			if len(t.Pipe.Decl) > 0 {
				continue
			}
			if lit, ok := constPipe(t.Pipe); ok {
				st = st.feed(lit)
				tail = identTail.FindString(tail + lit)
				continue
			}
			ai := w.action(t, t.Pipe, dot, dotLabel)
			mode := st.mode
			if mode == "" {
				mode = "code"
			}
			ai.contexts[mode] = true
			if mode == "code" {
				ai.prefix = tail
			}
			// the value itself: an opaque token that does not change the lexical state when correctly encoded
			st.prev = 'x'
			tail = ""
		case *parse.IfNode:
			w.notePipe(t.Pipe, dot)
			rest := &cont{nodes: nodes[i+1:], dot: dot, label: dotLabel, next: k}
			w.walk(t.List.Nodes, dot, dotLabel, st, tail, rest)
			if t.ElseList != nil {
				w.walk(t.ElseList.Nodes, dot, dotLabel, st, tail, rest)
			} else {
				w.walk(nil, dot, dotLabel, st, tail, rest)
			}
			return
		case *parse.WithNode:
			nd, nl := w.pipeType(t.Pipe, dot)
			rest := &cont{nodes: nodes[i+1:], dot: dot, label: dotLabel, next: k}
			w.walk(t.List.Nodes, nd, nl, st, tail, rest)
			if t.ElseList != nil {
				w.walk(t.ElseList.Nodes, dot, dotLabel, st, tail, rest)
			} else {
				w.walk(nil, dot, dotLabel, st, tail, rest)
			}
			return
		case *parse.RangeNode:
			w.notePipe(t.Pipe, dot)
			pt, pl := w.pipeType(t.Pipe, dot)
			et, el := elemType(pt), pl+"[]"
			rest := &cont{nodes: nodes[i+1:], dot: dot, label: dotLabel, next: k}
			// zero, one and two iterations
			w.walk(nil, dot, dotLabel, st, tail, rest)
			w.walk(t.List.Nodes, et, el, st, tail, rest)
			two := &cont{nodes: t.List.Nodes, dot: et, label: el, next: rest}
			w.walk(t.List.Nodes, et, el, st, tail, two)
			return
		}
	}
	if k != nil {
		w.walk(k.nodes, k.dot, k.label, st, tail, k.next)
	}
}

// constPipe: {{"literal"}}
func constPipe(p *parse.PipeNode) (string, bool) {
	if len(p.Cmds) == 1 && len(p.Cmds[0].Args) == 1 {
		if s, ok := p.Cmds[0].Args[0].(*parse.StringNode); ok {
			return s.Text, true
		}
	}
	return "", false
}

func structName(t types.Type) string {
	for {
		if p, ok := t.Underlying().(*types.Pointer); ok {
			t = p.Elem()
			continue
		}
		break
	}
	return core.NamedTypeName(t)
}

func elemType(t types.Type) types.Type {
	if t == nil {
		return nil
	}
	switch u := t.Underlying().(type) {
	case *types.Slice:
		return u.Elem()
	case *types.Array:
		return u.Elem()
	case *types.Map:
		return u.Elem()
	case *types.Pointer:
		return elemType(u.Elem())
	}
	return nil
}

// fieldType resolves .A.B on dot; returns the type and "Struct.Field" of the last selection.
func (w *tmplWalker) fieldType(idents []string, dot types.Type) (types.Type, string) {
	cur := dot
	label := ""
	for _, id := range idents {
		if cur == nil {
			return nil, label
		}
		t := cur
		for {
			if p, ok := t.Underlying().(*types.Pointer); ok {
				t = p.Elem()
				continue
			}
			break
		}
		st, ok := t.Underlying().(*types.Struct)
		if !ok {
			return nil, label
		}
		var ft types.Type
		for i := 0; i < st.NumFields(); i++ {
			if st.Field(i).Name() == id {
				ft = st.Field(i).Type()
			}
		}
		label = core.NamedTypeName(t) + "." + id
		w.fieldRefs[label] = true
		cur = ft
	}
	return cur, label
}

func (w *tmplWalker) argType(a parse.Node, dot types.Type) (types.Type, string) {
	switch t := a.(type) {
	case *parse.FieldNode:
		return w.fieldType(t.Ident, dot)
	case *parse.DotNode:
		return dot, "."
	}
	return nil, ""
}

func (w *tmplWalker) pipeType(p *parse.PipeNode, dot types.Type) (types.Type, string) {
	if len(p.Cmds) == 0 || len(p.Cmds[0].Args) == 0 {
		return nil, ""
	}
	return w.argType(p.Cmds[0].Args[0], dot)
}

// notePipe records the fields a condition refers to.
func (w *tmplWalker) notePipe(p *parse.PipeNode, dot types.Type) {
	for _, cmd := range p.Cmds {
		for _, a := range cmd.Args {
			w.argType(a, dot)
		}
	}
}

func (w *tmplWalker) action(n parse.Node, p *parse.PipeNode, dot types.Type, dotLabel string) *actionInfo {
	if ai := w.actions[n]; ai != nil {
		return ai
	}
	ai := &actionInfo{ord: len(w.actions), src: n.String(), contexts: map[string]bool{}}
	w.actions[n] = ai
	var typ types.Type
	if len(p.Cmds) > 0 && len(p.Cmds[0].Args) > 0 {
		first := p.Cmds[0].Args[0]
		var label string
		typ, label = w.argType(first, dot)
		ai.field = label
		if id, ok := first.(*parse.IdentifierNode); ok {
			// function call form: f .X
			ai.helpers = append(ai.helpers, id.Ident)
			if len(p.Cmds[0].Args) > 1 {
				typ, ai.field = w.argType(p.Cmds[0].Args[1], dot)
			}
		}
		for _, cmd := range p.Cmds[1:] {
			if id, ok := cmd.Args[0].(*parse.IdentifierNode); ok {
				ai.helpers = append(ai.helpers, id.Ident)
			}
		}
	}
	if ai.field == "." {
		ai.field = dotLabel
	}
	if typ == nil {
		ai.stringy = true
		ai.typ = "unresolved"
		return ai
	}
	ai.typ = types.TypeString(typ, func(p *types.Package) string { return p.Name() })
	u := typ
	for {
		if pt, ok := u.Underlying().(*types.Pointer); ok {
			u = pt.Elem()
			continue
		}
		break
	}
	if b, ok := u.Underlying().(*types.Basic); ok && b.Info()&types.IsString == 0 {
		ai.stringy = false
	} else {
		ai.stringy = true
	}
	return ai
}

// checkAclShape (tmpl.acl): in the template that prints ACL entries, the `!` marker is the whole body of
// `if .Negated` (no else, no `not`), and the `/mask` is printed under `if .Subnet`.
func (w *tmplWalker) checkAclShape(list *parse.ListNode) {
	if structName(w.t.data) != "Acl" {
		return
	}
	neg, mask := "", ""
	var visit func(n parse.Node)
	visit = func(n parse.Node) {
		switch t := n.(type) {
		case *parse.ListNode:
			if t == nil {
				return
			}
			for _, x := range t.Nodes {
				visit(x)
			}
		case *parse.RangeNode:
			visit(t.List)
			visit(t.ElseList)
		case *parse.WithNode:
			visit(t.List)
			visit(t.ElseList)
		case *parse.IfNode:
			cond := strings.TrimSpace(t.Pipe.String())
			body := ""
			for _, x := range t.List.Nodes {
				body += x.String()
			}
			switch {
			case strings.Contains(cond, ".Negated"):
				if cond == ".Negated" && strings.TrimSpace(body) == "!" && t.ElseList == nil {
					neg = "ok"
				} else {
					neg = fmt.Sprintf("if %s prints %q (else: %v)", cond, body, t.ElseList != nil)
				}
			case strings.Contains(cond, ".Subnet"):
				if cond == ".Subnet" && strings.HasPrefix(strings.TrimSpace(body), "/") && strings.Contains(body, ".Subnet") && t.ElseList == nil {
					mask = "ok"
				} else {
					mask = fmt.Sprintf("if %s prints %q", cond, body)
				}
			}
			visit(t.List)
			visit(t.ElseList)
		}
	}
	visit(list)
	// `!` may appear nowhere else in the literal text
	bang := 0
	var count func(n parse.Node, inNeg bool)
	count = func(n parse.Node, inNeg bool) {
		switch t := n.(type) {
		case *parse.ListNode:
			if t == nil {
				return
			}
			for _, x := range t.Nodes {
				count(x, inNeg)
			}
		case *parse.TextNode:
			if !inNeg {
				bang += strings.Count(string(t.Text), "!")
			}
		case *parse.RangeNode:
			count(t.List, inNeg)
		case *parse.IfNode:
			count(t.List, inNeg || strings.TrimSpace(t.Pipe.String()) == ".Negated")
			count(t.ElseList, inNeg)
		}
	}
	count(list, false)
	if neg == "ok" && bang == 0 {
		w.c.Discharge("tmpl.acl", w.t.varName+"|negation", w.t.pos, "`!` is printed exactly when .Negated")
	} else {
		w.c.Report("tmpl.acl", w.t.varName+"|negation", w.t.pos, fmt.Sprintf("the ACL template does not print `!` exactly when an entry is negated (%s; %d stray `!`): negation of the resource is not what the generated ACL says", orNone(neg), bang))
	}
	if mask == "ok" {
		w.c.Discharge("tmpl.acl", w.t.varName+"|mask", w.t.pos, "`/mask` is printed exactly when .Subnet is present")
	} else {
		w.c.Report("tmpl.acl", w.t.varName+"|mask", w.t.pos, fmt.Sprintf("the ACL template does not print the mask exactly when the entry has one (%s)", orNone(mask)))
	}
}

// checkFetcherMapping (tmpl.map): both Fetcher implementations fill every faithful field from the source field of the
// same name.
func checkFetcherMapping(c *core.Ctx) {
	prog := c.Prog
	impls := map[string]string{"snippet/terraform": "TerraformFetcher", "snippet/remote": "FastlyApiFetcher"}
	methods := map[string][]string{"Dictionaries": {"Dictionary", "DictionaryItem"}, "Acls": {"Acl", "AclEntry"}, "Backends": {"Backend"}, "Directors": {"Director"}}
	var rels []string
	for r := range impls {
		rels = append(rels, r)
	}
	sort.Strings(rels)
	for _, rel := range rels {
		var ms []string
		for m := range methods {
			ms = append(ms, m)
		}
		sort.Strings(ms)
		for _, m := range ms {
			fn := prog.SSAFunc(rel, impls[rel]+"."+m)
			if fn == nil {
				c.MissingAnchor("tmpl.map", rel+"."+impls[rel]+"."+m)
				continue
			}
			c.Func(core.FnName(fn))
			got := map[string]string{} // Struct.Field -> source field name(s)
			// the method and the conversion helpers of its package it calls (two levels): where the records are built
			scan := []*ssa.Function{fn}
			inScan := map[*ssa.Function]bool{fn: true}
			for depth, frontier := 0, []*ssa.Function{fn}; depth < 2; depth++ {
				var next []*ssa.Function
				for _, g := range frontier {
					for _, gb := range g.Blocks {
						for _, gi := range gb.Instrs {
							if cal := core.StaticCallee(gi); cal != nil && cal.Pkg == fn.Pkg && cal.Blocks != nil && !inScan[cal] && cal.Signature.Recv() == nil {
								inScan[cal] = true
								scan = append(scan, cal)
								next = append(next, cal)
							}
						}
					}
				}
				frontier = next
			}
			var allBlocks []*ssa.BasicBlock
			for _, g := range scan {
				allBlocks = append(allBlocks, g.Blocks...)
			}
			for _, b := range allBlocks {
				for _, in := range b.Instrs {
					st, ok := in.(*ssa.Store)
					if !ok {
						continue
					}
					fa, ok := st.Addr.(*ssa.FieldAddr)
					if !ok || core.FieldOf(fa) == nil || !strings.HasSuffix(core.FieldOwner(fa), "/snippet."+core.NamedTypeName(derefType(fa.X.Type()))) {
						continue
					}
					owner := core.NamedTypeName(derefType(fa.X.Type()))
					key := owner + "." + core.FieldOf(fa).Name()
					var srcs []string
					for x := range core.BackSlice(st.Val) {
						if f := core.FieldOf(x); f != nil && !strings.HasSuffix(core.FieldOwner(x), "/snippet."+owner) && f.Pkg() != nil && strings.HasSuffix(f.Pkg().Path(), rel) {
							srcs = append(srcs, f.Name())
						}
					}
					sort.Strings(srcs)
					got[key] += strings.Join(srcs, ",") + ";"
				}
			}
			for _, sname := range methods[m] {
				for _, f := range tmplFaithful[sname] {
					key := fmt.Sprintf("%s.%s|%s.%s", impls[rel], m, sname, f)
					srcs, ok := got[sname+"."+f]
					switch {
					case !ok:
						c.Report("tmpl.map", key, fn.Pos(), fmt.Sprintf("%s.%s never fills %s.%s: that part of the resource is dropped before rendering", impls[rel], m, sname, f))
					case containsName(srcs, f):
						c.Discharge("tmpl.map", key, fn.Pos(), "filled from source field(s) "+strings.Trim(srcs, ";"))
					default:
						c.Report("tmpl.map", key, fn.Pos(), fmt.Sprintf("%s.%s fills %s.%s from source field(s) {%s}, not from the field of the same name: the generated VCL carries another part of the resource there", impls[rel], m, sname, f, strings.Trim(srcs, ";")))
					}
				}
			}
		}
	}
	c.Floor("tmpl.map", 30)
	checkLoopPointerAlias(c, c.Prog.ModuleFuncs("snippet"))
	checkFetcherFilters(c)
	checkOptionalPlanFields(c)
	checkStaleSliceCopies(c)
}

// checkFetcherFilters (tmpl.map): a faithful field is filled whenever the source has it; the store may depend on the
// source being present or parseable, never on the value itself (a `> 0` test drops the /0 mask).
func checkFetcherFilters(c *core.Ctx) {
	prog := c.Prog
	n := 0
	for _, fn := range prog.ModuleFuncs("snippet/terraform", "snippet/remote") {
		headers := map[*ssa.BasicBlock]bool{}
		for _, l := range naturalLoops(fn) {
			headers[l.header] = true
		}
		var cd *core.CtrlDeps
		for _, b := range fn.Blocks {
			for _, in := range b.Instrs {
				st, ok := in.(*ssa.Store)
				if !ok {
					continue
				}
				fa, ok := st.Addr.(*ssa.FieldAddr)
				if !ok || core.FieldOf(fa) == nil {
					continue
				}
				owner := core.NamedTypeName(derefType(fa.X.Type()))
				faithful := false
				for _, f := range tmplFaithful[owner] {
					if f == core.FieldOf(fa).Name() && strings.HasSuffix(core.FieldOwner(fa), "/snippet."+owner) {
						faithful = true
					}
				}
				if !faithful {
					continue
				}
				n++
				if cd == nil {
					cd = core.NewCtrlDeps(fn)
				}
				valSlice := core.BackSlice(st.Val)
				key := fmt.Sprintf("%s|%s.%s|filter", core.FnName(fn), owner, core.FieldOf(fa).Name())
				bad := ""
				for _, e := range cd.Transitive(b) {
					if headers[e.From] {
						continue
					}
					bo, ok := core.BranchCond(e.From).(*ssa.BinOp)
					if !ok {
						continue
					}
					switch bo.Op {
					case token.LSS, token.GTR, token.LEQ, token.GEQ:
					case token.EQL, token.NEQ:
						if core.IsNilConst(bo.X) || core.IsNilConst(bo.Y) {
							continue
						}
						if k, isK := bo.Y.(*ssa.Const); isK && k.Value != nil && k.Value.Kind() == constant.String && constant.StringVal(k.Value) == "" {
							continue // "field absent" in a plan is the empty string
						}
					default:
						continue
					}
					// does the test look at the value being stored?
					for x := range core.BackSlice(bo) {
						if _, isK := x.(*ssa.Const); isK {
							continue
						}
						if x == ssa.Value(bo) {
							continue
						}
						if valSlice[x] && !isIndexPhi(x) {
							if _, isParam := x.(*ssa.Parameter); !isParam {
								bad = c.Prog.Loc(bo.Pos())
							}
						}
					}
				}
				if bad == "" {
					c.Discharge("tmpl.map", key, in.Pos(), "filled whenever the source provides it")
				} else {
					c.Report("tmpl.map", key, in.Pos(), fmt.Sprintf("%s fills %s.%s only when a comparison of the value itself holds (%s): resources whose value fails the test (a /0 mask, an empty but present value) lose that part in the generated VCL", core.FnName(fn), owner, core.FieldOf(fa).Name(), bad))
				}
			}
		}
	}
	_ = n
}

func isIndexPhi(v ssa.Value) bool {
	phi, ok := v.(*ssa.Phi)
	if !ok {
		return false
	}
	b, ok := phi.Type().Underlying().(*types.Basic)
	return ok && b.Info()&types.IsInteger != 0
}

// checkStaleSliceCopies (tmpl.stale): a slice stored into a struct field is a copy of the slice header. If the slice
// variable is appended to afterwards and the field is not stored again, the struct misses what was appended later
// (resources of Terraform child modules, for example).
func checkStaleSliceCopies(c *core.Ctx) {
	prog := c.Prog
	n := 0
	for _, fn := range prog.ModuleFuncs("snippet") {
		for _, b := range fn.Blocks {
			for _, in := range b.Instrs {
				st, ok := in.(*ssa.Store)
				if !ok {
					continue
				}
				fa, ok := st.Addr.(*ssa.FieldAddr)
				if !ok || core.FieldOf(fa) == nil {
					continue
				}
				if _, isSlice := st.Val.Type().Underlying().(*types.Slice); !isSlice {
					continue
				}
				// the variable: phi web + append results
				web := map[ssa.Value]bool{}
				var grow func(v ssa.Value)
				grow = func(v ssa.Value) {
					if web[v] {
						return
					}
					web[v] = true
					if phi, ok := v.(*ssa.Phi); ok {
						for _, e := range phi.Edges {
							grow(e)
						}
					}
					if call, ok := v.(*ssa.Call); ok {
						if bi, ok := call.Common().Value.(*ssa.Builtin); ok && bi.Name() == "append" {
							grow(call.Common().Args[0])
						}
					}
					if refs := v.Referrers(); refs != nil {
						for _, r := range *refs {
							if phi, ok := r.(*ssa.Phi); ok {
								grow(phi)
							}
							if call, ok := r.(*ssa.Call); ok {
								if bi, ok := call.Common().Value.(*ssa.Builtin); ok && bi.Name() == "append" && call.Common().Args[0] == v {
									grow(call)
								}
							}
						}
					}
				}
				if _, isConst := st.Val.(*ssa.Const); isConst {
					continue
				}
				grow(st.Val)
				n++
				// an append of the same variable that can happen after this store
				var later *ssa.Call
				for v := range web {
					call, ok := v.(*ssa.Call)
					if !ok || v == st.Val {
						continue
					}
					if bi, ok := call.Common().Value.(*ssa.Builtin); !ok || bi.Name() != "append" {
						continue
					}
					after := false
					if call.Block() == b {
						after = core.InstrDominates(st, call)
					} else {
						after = core.Reaches(b, call.Block())
					}
					if after {
						later = call
					}
				}
				key := fmt.Sprintf("%s|%s.%s", core.FnName(fn), core.NamedTypeName(derefType(fa.X.Type())), core.FieldOf(fa).Name())
				if later == nil {
					continue
				}
				// stored again afterwards?
				restored := false
				for _, b2 := range fn.Blocks {
					for _, i2 := range b2.Instrs {
						st2, ok := i2.(*ssa.Store)
						if !ok || st2 == st {
							continue
						}
						fa2, ok := st2.Addr.(*ssa.FieldAddr)
						if !ok || core.FieldOf(fa2) != core.FieldOf(fa) || !web[st2.Val] {
							continue
						}
						if core.Reaches(later.Block(), b2) {
							restored = true
						}
					}
				}
				if restored {
					c.Discharge("tmpl.stale", key, in.Pos(), "the field is stored again after the later append")
				} else {
					c.Report("tmpl.stale", key, in.Pos(), fmt.Sprintf("%s copies a slice into %s and appends to the slice variable afterwards (%s) without storing it into the field again: what is appended later never reaches the struct that is returned", core.FnName(fn), key[strings.Index(key, "|")+1:], prog.Loc(later.Pos())))
				}
			}
		}
	}
	c.Extra("slice_field_stores_scanned", n)
}

func containsName(srcs, f string) bool {
	for _, part := range strings.FieldsFunc(srcs, func(r rune) bool { return r == ',' || r == ';' }) {
		if part == f {
			return true
		}
	}
	return false
}

// sliceLitStrings: the string constants stored into a variadic argument slice built at the call site.
func sliceLitStrings(v ssa.Value) []string {
	sl, ok := v.(*ssa.Slice)
	if !ok {
		return nil
	}
	al, ok := sl.X.(*ssa.Alloc)
	if !ok || al.Referrers() == nil {
		return nil
	}
	var out []string
	for _, r := range *al.Referrers() {
		ia, ok := r.(*ssa.IndexAddr)
		if !ok || ia.Referrers() == nil {
			continue
		}
		for _, rr := range *ia.Referrers() {
			if st, ok := rr.(*ssa.Store); ok {
				if k, ok := st.Val.(*ssa.Const); ok && k.Value != nil && k.Value.Kind() == constant.String {
					out = append(out, constant.StringVal(k.Value))
				}
			}
		}
	}
	return out
}

// checkLoopPointerAlias (tmpl.ptralias): the resource readers build one record per entry in a loop; optional values
// (an ACL entry's mask) are stored as pointers. The address of a variable that lives outside the loop, stored into a
// record built inside it, is the same pointer for every entry: all entries then show the value of the last one. Every
// address stored inside a loop into a field / element must be that of a variable allocated inside that loop.
func checkLoopPointerAlias(c *core.Ctx, funcs []*ssa.Function) {
	n := 0
	for _, fn := range funcs {
		loops := naturalLoops(fn)
		if len(loops) == 0 {
			continue
		}
		k := 0
		for _, b := range fn.Blocks {
			for _, in := range b.Instrs {
				st, ok := in.(*ssa.Store)
				if !ok {
					continue
				}
				al, ok := st.Val.(*ssa.Alloc)
				if !ok || !al.Heap {
					continue
				}
				switch st.Addr.(type) {
				case *ssa.FieldAddr, *ssa.IndexAddr:
				default:
					continue
				}
				// the store is in a loop the allocation is not in
				var outer *loopInfo
				for i := range loops {
					l := &loops[i]
					if (l.body[b] || l.header == b) && !(l.body[al.Block()] || l.header == al.Block()) {
						outer = l
					}
				}
				// only scalars / strings / small values taken by address matter (a record built outside and linked from
				// inside the loop would be a design, not a slip)
				if _, isBasic := al.Type().(*types.Pointer).Elem().Underlying().(*types.Basic); !isBasic {
					continue
				}
				n++
				k++
				key := fmt.Sprintf("%s|&%s#%d", core.FnName(fn), al.Comment, k)
				if outer != nil {
					c.Report("tmpl.ptralias", key, st.Pos(), fmt.Sprintf("%s stores the address of %s, a variable declared outside the loop, into a record built inside the loop: every record of the loop points at the same variable, so all of them show the value of the last iteration (all ACL entries get the last entry's mask)", core.FnName(fn), al.Comment))
				} else {
					c.Discharge("tmpl.ptralias", key, st.Pos(), "the variable is allocated in the same iteration")
				}
			}
		}
	}
	if n == 0 {
		c.Discharge("tmpl.ptralias", "none", token.NoPos, "no address of a scalar variable is stored into a record")
	}
}

// byteLoopRaw: for a helper that reads its string parameter one byte at a time (c := v[i], exactly one such read), the set
// of byte values for which some path from the read reaches a use of c that is neither a comparison, nor an argument of a
// fmt call, nor a nibble extraction (c>>4, c&15): those bytes can be copied to the output as they are. Every branch
// condition is evaluated for the concrete byte value; ok is false when the helper has no such shape or a condition on a
// path does not depend on c and constants alone in a way that can be evaluated (then nothing is concluded from it).
func byteLoopRaw(fn *ssa.Function) (raw [256]bool, ok bool) {
	var c ssa.Value
	for _, b := range fn.Blocks {
		for _, in := range b.Instrs {
			// v[i] on a string: ssa.Index (newer go/ssa) or ssa.Lookup
			var base ssa.Value
			var read ssa.Value
			switch t := in.(type) {
			case *ssa.Lookup:
				if !t.CommaOk {
					base, read = t.X, t
				}
			case *ssa.Index:
				base, read = t.X, t
			}
			if base == nil {
				continue
			}
			if _, isParam := base.(*ssa.Parameter); !isParam {
				continue
			}
			if bt, isB := base.Type().Underlying().(*types.Basic); !isB || bt.Info()&types.IsString == 0 {
				continue
			}
			if c != nil {
				return raw, false
			}
			c = read
		}
	}
	if c == nil {
		return raw, false
	}
	derived := func(v ssa.Value) bool {
		for {
			switch t := v.(type) {
			case *ssa.Convert:
				v = t.X
				continue
			case *ssa.ChangeType:
				v = t.X
				continue
			}
			break
		}
		return v == c
	}
	isRawUse := func(in ssa.Instruction) bool {
		uses := false
		for _, op := range in.Operands(nil) {
			if *op != nil && derived(*op) {
				uses = true
			}
		}
		if !uses {
			return false
		}
		switch t := in.(type) {
		case *ssa.Convert, *ssa.ChangeType, *ssa.DebugRef:
			return false
		case *ssa.MakeInterface:
			// boxed for a variadic fmt call: judged at the call
			return false
		case *ssa.BinOp:
			switch t.Op {
			case token.EQL, token.NEQ, token.LSS, token.LEQ, token.GTR, token.GEQ, token.SHR, token.AND:
				return false
			}
		case *ssa.Call:
			if cal := t.Common().StaticCallee(); cal != nil && cal.Pkg != nil && cal.Pkg.Pkg.Path() == "fmt" {
				return false
			}
			// a predicate on the byte (unicode.IsControl …) is a test, not a copy
			if res := t.Common().Signature().Results(); res.Len() == 1 {
				if bt, isB := res.At(0).Type().Underlying().(*types.Basic); isB && bt.Kind() == types.Bool {
					return false
				}
			}
		}
		return true
	}
	undecided := false
	for k := 0; k < 256; k++ {
		phiEnv := map[*ssa.Phi]int{}
		var eval func(v ssa.Value) (int64, bool)
		evaluating := map[ssa.Value]bool{}
		eval = func(v ssa.Value) (int64, bool) {
			if v == c {
				return int64(k), true
			}
			if evaluating[v] {
				return 0, false // a value carried round the loop (the index)
			}
			evaluating[v] = true
			defer delete(evaluating, v)
			switch t := v.(type) {
			case *ssa.Const:
				if t.Value != nil && t.Value.Kind() == constant.Bool {
					if constant.BoolVal(t.Value) {
						return 1, true
					}
					return 0, true
				}
				return core.ConstIntValue(t)
			case *ssa.Convert:
				if bt, isB := t.Type().Underlying().(*types.Basic); isB && bt.Info()&types.IsInteger != 0 {
					return eval(t.X)
				}
			case *ssa.ChangeType:
				return eval(t.X)
			case *ssa.UnOp:
				if t.Op == token.NOT {
					if x, ok := eval(t.X); ok {
						return 1 - x, true
					}
				}
			case *ssa.Phi:
				if e, has := phiEnv[t]; has {
					return eval(t.Edges[e])
				}
			case *ssa.Call:
				// the character classes of package unicode, applied to the enumerated value
				if cal := t.Common().StaticCallee(); cal != nil && cal.Pkg != nil && cal.Pkg.Pkg.Path() == "unicode" && len(t.Common().Args) == 1 {
					if x, ok := eval(t.Common().Args[0]); ok {
						var f func(rune) bool
						switch cal.Name() {
						case "IsControl":
							f = unicode.IsControl
						case "IsSpace":
							f = unicode.IsSpace
						case "IsPrint":
							f = unicode.IsPrint
						case "IsGraphic":
							f = unicode.IsGraphic
						case "IsLetter":
							f = unicode.IsLetter
						case "IsDigit":
							f = unicode.IsDigit
						case "IsPunct":
							f = unicode.IsPunct
						case "IsUpper":
							f = unicode.IsUpper
						case "IsLower":
							f = unicode.IsLower
						}
						if f != nil {
							if f(rune(x)) {
								return 1, true
							}
							return 0, true
						}
					}
				}
			case *ssa.BinOp:
				x, okx := eval(t.X)
				y, oky := eval(t.Y)
				if !okx || !oky {
					return 0, false
				}
				b2i := func(b bool) (int64, bool) {
					if b {
						return 1, true
					}
					return 0, true
				}
				switch t.Op {
				case token.EQL:
					return b2i(x == y)
				case token.NEQ:
					return b2i(x != y)
				case token.LSS:
					return b2i(x < y)
				case token.LEQ:
					return b2i(x <= y)
				case token.GTR:
					return b2i(x > y)
				case token.GEQ:
					return b2i(x >= y)
				case token.AND:
					return x & y, true
				case token.OR:
					return x | y, true
				case token.SUB:
					if bt, isB := t.Type().Underlying().(*types.Basic); isB && bt.Kind() == types.Uint8 {
						return (x - y) & 0xff, true
					}
					return x - y, true
				}
			}
			return 0, false
		}
		steps := 0
		onPath := map[*ssa.BasicBlock]bool{}
		var walk func(b *ssa.BasicBlock, from int)
		walk = func(b *ssa.BasicBlock, from int) {
			steps++
			if steps > 20000 {
				undecided = true
				return
			}
			if b == c.(ssa.Instruction).Block() && from >= 0 {
				return // next byte
			}
			if onPath[b] {
				return
			}
			onPath[b] = true
			defer func() { onPath[b] = false }()
			var saved []*ssa.Phi
			for _, in := range b.Instrs {
				if ph, isPhi := in.(*ssa.Phi); isPhi && from >= 0 {
					if _, had := phiEnv[ph]; !had {
						saved = append(saved, ph)
					}
					phiEnv[ph] = from
				}
			}
			defer func() {
				for _, ph := range saved {
					delete(phiEnv, ph)
				}
			}()
			after := b != c.(ssa.Instruction).Block()
			for _, in := range b.Instrs {
				if in == c.(ssa.Instruction) {
					after = true
					continue
				}
				if after && isRawUse(in) {
					raw[k] = true
				}
			}
			predIdx := func(s *ssa.BasicBlock) int {
				for i, p := range s.Preds {
					if p == b {
						return i
					}
				}
				return -1
			}
			if iff, isIf := b.Instrs[len(b.Instrs)-1].(*ssa.If); isIf {
				v, known := eval(iff.Cond)
				if !known {
					// a condition that does not concern the byte (a flag, the index): both ways
					for x := range core.BackSliceLocal(iff.Cond) {
						if x == c {
							undecided = true
						}
					}
					walk(b.Succs[0], predIdx(b.Succs[0]))
					walk(b.Succs[1], predIdx(b.Succs[1]))
					return
				}
				if v != 0 {
					walk(b.Succs[0], predIdx(b.Succs[0]))
				} else {
					walk(b.Succs[1], predIdx(b.Succs[1]))
				}
				return
			}
			for _, s := range b.Succs {
				walk(s, predIdx(s))
			}
		}
		walk(c.(ssa.Instruction).Block(), -1)
	}
	if undecided {
		return raw, false
	}
	return raw, true
}

// checkOptionalPlanFields (tmpl.optptr): the records a Terraform plan or the API is decoded into keep optional
// attributes as pointers (`Retries *int`): absent in the JSON, nil in the record. Every dereference of such a field in
// the resource readers is dominated by a non-nil test of the very value - otherwise a plan without the attribute
// crashes falco instead of producing VCL.
func checkOptionalPlanFields(c *core.Ctx) {
	for _, fn := range c.Prog.ModuleFuncs("snippet") {
		ord := map[string]int{}
		for _, b := range fn.Blocks {
			for _, in := range b.Instrs {
				ld, ok := in.(*ssa.UnOp)
				if !ok || ld.Op != token.MUL {
					continue
				}
				// *p where p = *(&rec.Field) and Field is a pointer to a basic type
				pl, ok := ld.X.(*ssa.UnOp)
				if !ok || pl.Op != token.MUL {
					continue
				}
				f := core.FieldOf(pl.X)
				if f == nil || !strings.HasPrefix(core.FieldOwner(pl.X), core.ModPath+"/snippet") {
					continue
				}
				pt, isPtr := f.Type().Underlying().(*types.Pointer)
				if !isPtr {
					continue
				}
				if _, isBasic := pt.Elem().Underlying().(*types.Basic); !isBasic {
					continue
				}
				name := core.FieldOwner(pl.X)[strings.LastIndex(core.FieldOwner(pl.X), ".")+1:] + "." + f.Name()
				ord[name]++
				key := fmt.Sprintf("%s|%s#%d", core.FnName(fn), name, ord[name])
				guarded := core.DominatedByNil(pl, b, false)
				if !guarded {
					// the test may have loaded the field separately: same field of the same base
					if fa, isFA := pl.X.(*ssa.FieldAddr); isFA {
						for _, b2 := range fn.Blocks {
							for _, i2 := range b2.Instrs {
								l2, isL := i2.(*ssa.UnOp)
								if !isL || l2.Op != token.MUL || l2 == pl {
									continue
								}
								if fa2, isFA2 := l2.X.(*ssa.FieldAddr); isFA2 && fa2.Field == fa.Field && sameBaseValue(fa2.X, fa.X) && core.DominatedByNil(l2, b, false) {
									guarded = true
								}
							}
						}
					}
				}
				if guarded {
					c.Discharge("tmpl.optptr", key, in.Pos(), "dereferenced behind a non-nil test")
				} else {
					c.Report("tmpl.optptr", key, in.Pos(), fmt.Sprintf("%s dereferences the optional attribute %s without testing it: a plan (or API answer) that does not carry the attribute makes falco crash instead of generating VCL", core.FnName(fn), name))
				}
			}
		}
	}
	c.Floor("tmpl.optptr", 2)
}
