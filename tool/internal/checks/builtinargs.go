package checks

import (
	"go/constant"
	"go/token"
	"strings"

	"fv/internal/core"

	"golang.org/x/tools/go/ssa"
)

// builtinArgTable: for the generated built-in functions F(ctx, args...), the declared argument type table
// F_ArgumentTypes and whether F_Validate checks `args[i].Type() != F_ArgumentTypes[i]` for every i.
type builtinArgTable struct {
	prog     *core.Program
	types    map[string][]string // function name prefix (Go identifier, e.g. "Accept_charset_lookup") -> kinds per index
	generic  map[string]bool     // Validate uses the generic loop over the table
	validate map[string]*ssa.Function
}

func newBuiltinArgTable(prog *core.Program) *builtinArgTable {
	t := &builtinArgTable{prog: prog, types: map[string][]string{}, generic: map[string]bool{}, validate: map[string]*ssa.Function{}}
	for _, rel := range []string{"interpreter/function/builtin", "tester/function"} {
		sp := prog.SSAPkg[rel]
		if sp == nil {
			continue
		}
		// tables from the package initialiser: slice literal of value.Type constants stored into *_ArgumentTypes
		if in := sp.Func("init"); in != nil {
			for _, b := range in.Blocks {
				for _, i := range b.Instrs {
					st, ok := i.(*ssa.Store)
					if !ok {
						continue
					}
					g, ok := st.Addr.(*ssa.Global)
					if !ok || !strings.HasSuffix(g.Name(), "_ArgumentTypes") {
						continue
					}
					sl, ok := st.Val.(*ssa.Slice)
					if !ok {
						continue
					}
					arr, ok := sl.X.(*ssa.Alloc)
					if !ok || arr.Referrers() == nil {
						continue
					}
					kinds := map[int64]string{}
					for _, r := range *arr.Referrers() {
						ia, ok := r.(*ssa.IndexAddr)
						if !ok || ia.Referrers() == nil {
							continue
						}
						idx, _ := core.ConstIntValue(ia.Index)
						for _, r2 := range *ia.Referrers() {
							if s2, ok := r2.(*ssa.Store); ok {
								if k, ok := s2.Val.(*ssa.Const); ok && k.Value != nil && k.Value.Kind() == constant.String {
									kinds[idx] = tagName(k)
								}
							}
						}
					}
					name := rel + "." + strings.TrimSuffix(g.Name(), "_ArgumentTypes")
					lst := make([]string, len(kinds))
					for i := range lst {
						lst[i] = kinds[int64(i)]
					}
					t.types[name] = lst
				}
			}
		}
		for _, m := range sp.Members {
			fn, ok := m.(*ssa.Function)
			if !ok || !strings.HasSuffix(fn.Name(), "_Validate") {
				continue
			}
			name := rel + "." + strings.TrimSuffix(fn.Name(), "_Validate")
			t.validate[name] = fn
			// generic loop: a comparison of args[i].Type() with <name>_ArgumentTypes[i]
			for _, b := range fn.Blocks {
				for _, i := range b.Instrs {
					bo, ok := i.(*ssa.BinOp)
					if !ok || (bo.Op != token.NEQ && bo.Op != token.EQL) {
						continue
					}
					fromTable := false
					for x := range core.BackSlice(bo.Y) {
						if g, ok := x.(*ssa.Global); ok && strings.HasSuffix(g.Name(), "_ArgumentTypes") {
							fromTable = true
						}
					}
					fromArgs := false
					for x := range core.BackSlice(bo.X) {
						if p, ok := x.(*ssa.Parameter); ok && p == fn.Params[0] {
							fromArgs = true
						}
					}
					if fromTable && fromArgs {
						t.generic[name] = true
					}
				}
			}
		}
	}
	return t
}

// guards: inside built-in F, Unwrap[*value.<want>](args[k]) after `F_Validate(args)` returned nil, where the generic
// Validate loop compares every args[i].Type() with F_ArgumentTypes[i] and F_ArgumentTypes[k] == want.
func (t *builtinArgTable) guards(fn *ssa.Function, unwrap *ssa.Call, v ssa.Value, want string) bool {
	if fn.Pkg == nil {
		return false
	}
	rel := strings.TrimPrefix(fn.Pkg.Pkg.Path(), core.ModPath+"/")
	top := fn
	for top.Parent() != nil {
		top = top.Parent()
	}
	name := rel + "." + top.Name()
	val := t.validate[name]
	if val == nil || !t.generic[name] {
		return false
	}
	// v must be args[k] with constant k
	ld, ok := v.(*ssa.UnOp)
	if !ok || ld.Op != token.MUL {
		return false
	}
	ia, ok := ld.X.(*ssa.IndexAddr)
	if !ok {
		return false
	}
	k, ok := core.ConstIntValue(ia.Index)
	if !ok || k < 0 || int(k) >= len(t.types[name]) || t.types[name][k] != want {
		return false
	}
	if len(top.Params) < 2 || ia.X != ssa.Value(top.Params[len(top.Params)-1]) {
		return false
	}
	// the Validate call's nil edge dominates
	for _, b := range top.Blocks {
		for _, in := range b.Instrs {
			call, ok := in.(*ssa.Call)
			if !ok || call.Common().StaticCallee() != val {
				continue
			}
			if core.DominatedByNil(call, unwrap.Block(), true) {
				return true
			}
		}
	}
	return false
}

// explicitCheck: F_Validate contains `args[k].Type() != <want>Type` (constant k) whose true edge returns an error, and
// the Validate call's nil edge dominates the Unwrap of args[k] in F.
func (t *builtinArgTable) explicitCheck(fn *ssa.Function, unwrap *ssa.Call, v ssa.Value, want string) bool {
	if fn.Pkg == nil {
		return false
	}
	rel := strings.TrimPrefix(fn.Pkg.Pkg.Path(), core.ModPath+"/")
	top := fn
	for top.Parent() != nil {
		top = top.Parent()
	}
	val := t.validate[rel+"."+top.Name()]
	if val == nil {
		return false
	}
	ld, ok := v.(*ssa.UnOp)
	if !ok || ld.Op != token.MUL {
		return false
	}
	ia, ok := ld.X.(*ssa.IndexAddr)
	if !ok || len(top.Params) < 2 || ia.X != ssa.Value(top.Params[len(top.Params)-1]) {
		return false
	}
	k, ok := core.ConstIntValue(ia.Index)
	if !ok {
		return false
	}
	// the check inside Validate
	found := false
	for _, b := range val.Blocks {
		iff, ok := b.Instrs[len(b.Instrs)-1].(*ssa.If)
		if !ok {
			continue
		}
		bo, ok := iff.Cond.(*ssa.BinOp)
		if !ok || (bo.Op != token.NEQ && bo.Op != token.EQL) {
			continue
		}
		kc, ok := bo.Y.(*ssa.Const)
		if !ok || kc.Value == nil || tagName(kc) != want {
			continue
		}
		tc, ok := bo.X.(*ssa.Call)
		if !ok || !tc.Common().IsInvoke() || tc.Common().Method.Name() != "Type" {
			continue
		}
		l2, ok := tc.Common().Value.(*ssa.UnOp)
		if !ok {
			continue
		}
		ia2, ok := l2.X.(*ssa.IndexAddr)
		if !ok || ia2.X != ssa.Value(val.Params[0]) {
			continue
		}
		k2, ok := core.ConstIntValue(ia2.Index)
		if !ok || k2 != k {
			continue
		}
		failEdge := 0
		if bo.Op == token.EQL {
			failEdge = 1
		}
		if returnsErrorSoon(b.Succs[failEdge]) {
			found = true
		}
	}
	if !found {
		return false
	}
	for _, b := range top.Blocks {
		for _, in := range b.Instrs {
			call, ok := in.(*ssa.Call)
			if !ok || call.Common().StaticCallee() != val {
				continue
			}
			if core.DominatedByNil(call, unwrap.Block(), true) {
				return true
			}
		}
	}
	return false
}
