#!/bin/bash
# usage: mut.sh <check id> <python-file-with-edits | patch>  — applies, runs the check, reverts. (developer aid)
id=$1; shift
cd /repo || exit 2
if [[ "$1" == *.diff || "$1" == *.patch ]]; then git apply "$1" || exit 2; else python3 "$1" || exit 2; fi
(cd /repo && PATH=/opt/veriftools/go1.26.8/bin:$PATH GOFLAGS=-mod=mod GOPROXY=off go build ./... 2>&1 | head -5)
for i in $id; do (cd /verif && ./bin/fv check $i | grep -v "^C.. quick" | head -${LINES_MAX:-14}); done
git -C /repo checkout -- .
