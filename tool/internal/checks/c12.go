package checks

import (
	"fmt"
	"go/constant"
	"go/token"
	"go/types"
	"sort"
	"strings"

	"fv/internal/core"

	"golang.org/x/tools/go/ssa"
)

// C12 — ignore comments suppress exactly what they cover (E14 ignore-typestate).
func init() {
	register(&Check{ID: "C12", NeedSSA: true, Run: runC12})
}

const linterPkg = core.ModPath + "/linter"

func runC12(c *core.Ctx) {
	c.Explanation = "Typestate of the linter's ignore sets, decided on SSA: (funnel) Linter.Errors is stored only in (*Linter).Error and the *LintError append is dominated by the false edge of ignore.IsEnable(le.Rule) on the same diagnostic; (pairing) every SetupStatement/SetupBlockStatement call is followed, with no intervening call that can lint, by a defer of the matching Teardown on the same node's meta, and sits in no loop of its function (a defer in a loop would postpone teardown to the end of the block — the leak the property fears); (symmetry) every (set, directive, comment list) a Setup variant fills is cleared by its Teardown variant under the same directive constant, falco-ignore-start/-end are handled in both variants, directive constants map to their own set; (filter) IsEnable reads `.all` and `.rules[rule]` of all three sets with the rule parameter, ignoreRules/unignoreRules store/delete per listed rule and reset on an empty list. Necessary for: a directive's effect ends with its statement/block and is limited to the named rules. (cover) every statement of a statement list is linted through lintStatement or a function that brackets it the same way; (slots) falco-ignore-end is honoured in every comment slot of a block the parser can fill (Leading, Trailing and — comments before the closing brace — Infix); (markers) parseIgnoreComment strips the leading #, //, /* and the closing */; with a rule list ignoreRules allocates the rule map only when there is none (two rule-listed directives accumulate)."
	c.NotCovered = []string{"the text parsing of the directive (parseIgnoreComment)", "which comments the parser attaches to which statement"}
	checkIgnoreCover(c, "ignore.cover")
	prog := c.Prog
	all := prog.ModuleFuncs()
	lfuncs := prog.ModuleFuncs("linter")

	// ---- funnel
	errFn := prog.SSAFunc("linter", "Linter.Error")
	isEnable := prog.SSAFunc("linter", "ignore.IsEnable")
	if errFn == nil || isEnable == nil {
		c.MissingAnchor("ignore.funnel", "linter.(*Linter).Error / (*ignore).IsEnable")
		return
	}
	for _, fn := range all {
		for _, b := range fn.Blocks {
			for _, in := range b.Instrs {
				if _, ok := isFieldStore(in, linterPkg+".Linter", "Errors"); !ok {
					continue
				}
				top := fn
				for top.Parent() != nil {
					top = top.Parent()
				}
				if top != errFn {
					c.Report("ignore.funnel", core.FnName(fn)+"|store-Errors", in.Pos(), "Linter.Errors is written outside (*Linter).Error: the diagnostic bypasses the ignore filter")
					continue
				}
				st := in.(*ssa.Store)
				// is the appended element a *LintError coming from the parameter (type assertion)?
				var ta *ssa.TypeAssert
				for x := range core.BackSlice(st.Val) {
					if t, ok := x.(*ssa.TypeAssert); ok && core.NamedTypePkgName(t.AssertedType) == linterPkg+".LintError" {
						ta = t
					}
				}
				if ta == nil {
					c.Discharge("ignore.funnel", "Error|non-LintError-arm", in.Pos(), "wraps a foreign error (no rule to ignore)")
					continue
				}
				ok := false
				for _, bb := range fn.Blocks {
					for _, i2 := range bb.Instrs {
						call, isCall := i2.(*ssa.Call)
						if !isCall || call.Common().StaticCallee() != isEnable {
							continue
						}
						// argument must be the Rule of the same asserted value
						argOK := false
						for x := range core.BackSlice(call.Common().Args[1]) {
							if fa, isFA := x.(*ssa.FieldAddr); isFA && core.FieldOf(fa) != nil && core.FieldOf(fa).Name() == "Rule" && core.BackSlice(fa.X)[ta] {
								argOK = true
							}
						}
						if !argOK {
							continue
						}
						// false edge of the If on the call dominates the store
						for _, r := range *call.Referrers() {
							switch t := r.(type) {
							case *ssa.If:
								if core.EdgeDominates(t.Block(), 1, b) {
									ok = true
								}
							case *ssa.UnOp:
								if t.Op == token.NOT {
									for _, r2 := range *t.Referrers() {
										if iff, isIf := r2.(*ssa.If); isIf && core.EdgeDominates(iff.Block(), 0, b) {
											ok = true
										}
									}
								}
							}
						}
					}
				}
				if ok {
					c.Discharge("ignore.funnel", "Error|LintError-arm", in.Pos(), "append dominated by !ignore.IsEnable(le.Rule)")
				} else {
					c.Report("ignore.funnel", "Error|LintError-arm", in.Pos(), "the *LintError append is not dominated by the false edge of ignore.IsEnable(le.Rule) for the same diagnostic")
				}
			}
		}
	}
	c.Floor("ignore.funnel", 2)

	// ---- pairing
	pairs := map[string]string{"SetupStatement": "TeardownStatement", "SetupBlockStatement": "TeardownBlockStatement"}
	for _, fn := range all {
		for _, b := range fn.Blocks {
			for idx, in := range b.Instrs {
				call, ok := in.(*ssa.Call)
				if !ok {
					continue
				}
				cal := call.Common().StaticCallee()
				if cal == nil || cal.Pkg == nil || cal.Pkg.Pkg.Path() != linterPkg {
					continue
				}
				want, isSetup := pairs[cal.Name()]
				if !isSetup || cal.Signature.Recv() == nil || core.NamedTypeName(cal.Signature.Recv().Type()) != "ignore" {
					continue
				}
				c.CallSite()
				key := core.FnName(fn) + "|" + cal.Name()
				// loop?
				inLoop := false
				for _, s := range b.Succs {
					if core.Reaches(s, b) {
						inLoop = true
					}
				}
				if inLoop {
					c.Report("ignore.pairing", key+"|loop", in.Pos(), cal.Name()+" is called inside a loop of its function: its deferred teardown would only run when the whole function returns, so the directive leaks onto the following statements")
					continue
				}
				// scan forward in the same block for the defer
				found := false
				reason := "no matching defer " + want + " follows in the same block"
				for _, nx := range b.Instrs[idx+1:] {
					if d, isDefer := nx.(*ssa.Defer); isDefer {
						dc := d.Common().StaticCallee()
						if dc != nil && dc.Name() == want && dc.Pkg == cal.Pkg {
							if sameMeta(call.Common().Args[1], d.Common().Args[1]) {
								found = true
							} else {
								reason = "the deferred " + want + " is applied to a different node's meta than the setup"
							}
							break
						}
						continue
					}
					if nc, isCall := nx.(*ssa.Call); isCall {
						if nc.Common().IsInvoke() && nc.Common().Method.Name() == "GetMeta" {
							continue
						}
						if sc := nc.Common().StaticCallee(); sc != nil && sc.Name() == "GetMeta" {
							continue
						}
						reason = "a call (" + nc.Common().String() + ") runs between the setup and the registration of its teardown"
						break
					}
				}
				if found {
					c.Discharge("ignore.pairing", key, in.Pos(), "immediately followed by defer "+want+" on the same meta; not in a loop")
				} else {
					c.Report("ignore.pairing", key, in.Pos(), reason)
				}
			}
		}
	}
	c.Floor("ignore.pairing", 3)

	// ---- symmetry
	ign := prog.SSAFunc("linter", "ignoreRules")
	unign := prog.SSAFunc("linter", "unignoreRules")
	if ign == nil || unign == nil {
		c.MissingAnchor("ignore.symmetry", "linter.ignoreRules / unignoreRules")
		return
	}
	consts := map[string]string{} // directive text -> const name
	if lp := prog.Pkg("linter"); lp != nil {
		for _, n := range []string{"falcoIgnoreNextLine", "falcoIgnoreThisLine", "falcoIgnoreStart", "falcoIgnoreEnd"} {
			if k := lp.Types.Scope().Lookup(n); k != nil {
				if kc, ok := k.(interface{ Val() constant.Value }); ok {
					consts[constant.StringVal(kc.Val())] = n
				}
			}
		}
	}
	type op struct {
		fn, op, field, label, list string
		pos                        token.Pos
	}
	var ops []op
	for _, name := range []string{"SetupStatement", "TeardownStatement", "SetupBlockStatement", "TeardownBlockStatement"} {
		fn := prog.SSAFunc("linter", "ignore."+name)
		if fn == nil {
			c.MissingAnchor("ignore.symmetry", "linter.(*ignore)."+name)
			continue
		}
		c.Func(core.FnName(fn))
		for _, b := range fn.Blocks {
			for _, in := range b.Instrs {
				call, ok := in.(*ssa.Call)
				if !ok {
					continue
				}
				cal := call.Common().StaticCallee()
				if cal != ign && cal != unign {
					continue
				}
				o := op{fn: name, op: "ignore", pos: in.Pos()}
				if cal == unign {
					o.op = "unignore"
				}
				if fa, ok := call.Common().Args[0].(*ssa.FieldAddr); ok && core.FieldOf(fa) != nil {
					o.field = core.FieldOf(fa).Name()
				}
				o.label = consts[dominatingStringCase(b)]
				for x := range core.BackSlice(call.Common().Args[1]) {
					if f := core.FieldOf(x); f != nil && core.FieldOwner(x) == core.ModPath+"/ast.Meta" {
						o.list = f.Name()
					}
				}
				ops = append(ops, o)
				// the operation may be controlled only by the comment loop and directive comparisons
				cd := core.NewCtrlDeps(fn)
				for _, e := range cd.Transitive(b) {
					cond := core.BranchCond(e.From)
					if cond == nil {
						continue
					}
					if bo, ok := cond.(*ssa.BinOp); ok {
						if bo.Op == token.LSS {
							if _, isPhiLoop := bo.X.(*ssa.BinOp); isPhiLoop {
								continue // rangeindex loop: i+1 < len
							}
						}
						if bo.Op == token.EQL {
							_, xs := bo.X.(*ssa.Const)
							_, ys := bo.Y.(*ssa.Const)
							if (xs || ys) && dominatingOrSelfStringConst(bo) != "" {
								continue
							}
						}
					}
					c.Report("ignore.symmetry", fmt.Sprintf("%s|%s|%s|extra-condition", o.fn, o.op, o.field), in.Pos(),
						fmt.Sprintf("%s(%s) in %s is additionally guarded by a condition that is neither the comment loop nor a directive comparison: setup and teardown can then disagree", o.op, o.field, o.fn),
						"condition at "+c.Prog.Loc(e.From.Instrs[len(e.From.Instrs)-1].Pos()))
				}
			}
		}
	}
	has := func(fn, opk, field, label, list string) bool {
		for _, o := range ops {
			if o.fn == fn && o.op == opk && o.field == field && o.label == label && (list == "" || o.list == list) {
				return true
			}
		}
		return false
	}
	var table []string
	for _, o := range ops {
		table = append(table, fmt.Sprintf("%s: %s(%s) under %s over %s", o.fn, o.op, o.field, o.label, o.list))
	}
	sort.Strings(table)
	c.Extra("ignore_ops", table)
	fieldOf := map[string]string{"falcoIgnoreNextLine": "ignoreNextLine", "falcoIgnoreThisLine": "ignoreThisLine", "falcoIgnoreStart": "ignoreRange", "falcoIgnoreEnd": "ignoreRange"}
	opOf := map[string]string{"falcoIgnoreNextLine": "", "falcoIgnoreThisLine": "", "falcoIgnoreStart": "ignore", "falcoIgnoreEnd": "unignore"}
	for _, o := range ops {
		key := fmt.Sprintf("%s|%s|%s|%s", o.fn, o.op, o.field, o.label)
		if o.label == "" || o.field == "" || o.list == "" {
			c.Report("ignore.symmetry", key+"|unresolved", o.pos, "cannot resolve directive constant / set / comment list of this ignore operation (undecided obligations fail)")
			continue
		}
		if fieldOf[o.label] != o.field || (opOf[o.label] != "" && opOf[o.label] != o.op) {
			c.Report("ignore.symmetry", key+"|wrong-set", o.pos, fmt.Sprintf("directive %s performs %s on set %s (expected set %s)", o.label, o.op, o.field, fieldOf[o.label]))
			continue
		}
		if strings.HasPrefix(o.fn, "Teardown") && o.op == "ignore" {
			c.Report("ignore.symmetry", key+"|teardown-sets", o.pos, "a Teardown function adds to an ignore set")
			continue
		}
		if strings.HasPrefix(o.fn, "Setup") && o.op == "ignore" && o.field != "ignoreRange" {
			td := "Teardown" + strings.TrimPrefix(o.fn, "Setup")
			if has(td, "unignore", o.field, o.label, o.list) {
				c.Discharge("ignore.symmetry", key, o.pos, td+" clears the same set under the same directive over Meta."+o.list)
			} else {
				c.Report("ignore.symmetry", key+"|no-teardown", o.pos, fmt.Sprintf("%s fills %s for directive %s from Meta.%s but %s does not clear it: the suppression outlives the statement", o.fn, o.field, o.label, o.list, td))
			}
			continue
		}
		c.Discharge("ignore.symmetry", key, o.pos, "directive/set/operation agree")
	}
	for _, variant := range []string{"Statement", "BlockStatement"} {
		startOK := has("Setup"+variant, "ignore", "ignoreRange", "falcoIgnoreStart", "")
		endOK := has("Setup"+variant, "unignore", "ignoreRange", "falcoIgnoreEnd", "") || has("Teardown"+variant, "unignore", "ignoreRange", "falcoIgnoreEnd", "")
		if startOK && endOK {
			c.Discharge("ignore.symmetry", variant+"|range", ign.Pos(), "falco-ignore-start fills and falco-ignore-end clears ignoreRange")
		} else {
			c.ReportAt("ignore.symmetry", variant+"|range", "linter/ignore.go", 0, fmt.Sprintf("%s variant: falco-ignore-start handled=%v, falco-ignore-end handled=%v", variant, startOK, endOK))
		}
	}
	c.Floor("ignore.symmetry", 10)

	// ---- slots: a range must be closable wherever the parser can put the closing comment of a block
	infixFilled := false
	for _, fn := range prog.ModuleFuncs("parser") {
		for _, b := range fn.Blocks {
			for _, in := range b.Instrs {
				call, ok := in.(*ssa.Call)
				if !ok {
					continue
				}
				if cal := call.Common().StaticCallee(); cal == nil || cal.Name() != "SwapLeadingInfix" {
					continue
				}
				for x := range core.BackSlice(call.Common().Args[1]) {
					if f := core.FieldOf(x); f != nil && f.Name() == "Meta" && core.FieldOwner(x) == core.ModPath+"/ast.BlockStatement" {
						infixFilled = true
					}
				}
			}
		}
	}
	if infixFilled {
		if has("TeardownBlockStatement", "unignore", "ignoreRange", "falcoIgnoreEnd", "Infix") {
			c.Discharge("ignore.slots", "BlockStatement|Infix|falcoIgnoreEnd", ign.Pos(), "falco-ignore-end written before the closing brace (Meta.Infix of the block) closes the range")
		} else {
			c.ReportAt("ignore.slots", "BlockStatement|Infix|falcoIgnoreEnd", "linter/ignore.go", 0, "the parser attaches a comment written before a block's closing brace to the block's Meta.Infix, but TeardownBlockStatement never looks for falco-ignore-end there: a range closed at the end of a block stays open and hides every later diagnostic of the file")
		}
	} else {
		c.MissingAnchor("ignore.slots", "parser call SwapLeadingInfix(_, <BlockStatement>.Meta)")
	}
	for _, l := range []string{"Leading", "Trailing"} {
		if has("SetupBlockStatement", "unignore", "ignoreRange", "falcoIgnoreEnd", l) || has("TeardownBlockStatement", "unignore", "ignoreRange", "falcoIgnoreEnd", l) {
			c.Discharge("ignore.slots", "BlockStatement|"+l+"|falcoIgnoreEnd", ign.Pos(), "falco-ignore-end is honoured in Meta."+l+" of a block")
		} else {
			c.ReportAt("ignore.slots", "BlockStatement|"+l+"|falcoIgnoreEnd", "linter/ignore.go", 0, "falco-ignore-end in Meta."+l+" of a block does not close the range")
		}
	}

	// ---- markers: the directive parser strips every comment marker the lexer produces (#, //, /* ... */)
	if pic := prog.SSAFunc("linter", "parseIgnoreComment"); pic != nil {
		lead, tail := "", false
		for _, b := range pic.Blocks {
			for _, in := range b.Instrs {
				call, ok := in.(*ssa.Call)
				if !ok {
					continue
				}
				cal := call.Common().StaticCallee()
				if cal == nil || cal.Pkg == nil || cal.Pkg.Pkg.Path() != "strings" || len(call.Common().Args) < 2 {
					continue
				}
				k, ok := call.Common().Args[1].(*ssa.Const)
				if !ok || k.Value == nil || k.Value.Kind() != constant.String {
					continue
				}
				cs := constant.StringVal(k.Value)
				switch cal.Name() {
				case "TrimLeft":
					lead += cs
				case "TrimSuffix":
					if cs == "*/" {
						tail = true
					}
				case "TrimRight", "Trim":
					if strings.Contains(cs, "*") && strings.Contains(cs, "/") {
						tail = true
					}
					if cal.Name() == "Trim" {
						lead += cs
					}
				}
			}
		}
		if strings.Contains(lead, "#") && strings.Contains(lead, "/") && strings.Contains(lead, "*") && tail {
			c.Discharge("ignore.markers", "parseIgnoreComment", pic.Pos(), "leading #, //, /* and the closing */ are stripped")
		} else {
			c.Report("ignore.markers", "parseIgnoreComment", pic.Pos(), fmt.Sprintf("parseIgnoreComment does not strip every comment marker (leading cutset %q, closing */ stripped: %v): a directive written as /* ... */ gets `*/` as a rule name and ignores nothing", lead, tail))
		}
	} else {
		c.MissingAnchor("ignore.markers", "linter.parseIgnoreComment")
	}

	// ---- filter
	sets := map[string][2]int{} // field -> {all reads, rules lookups by param}
	var ruleParam *ssa.Parameter
	if len(isEnable.Params) == 2 {
		ruleParam = isEnable.Params[1]
	}
	for _, b := range isEnable.Blocks {
		for _, in := range b.Instrs {
			fa, ok := in.(*ssa.FieldAddr)
			if !ok || core.FieldOwner(fa) != linterPkg+".ignoredRules" {
				continue
			}
			outer, ok := fa.X.(*ssa.FieldAddr)
			if !ok || core.FieldOf(outer) == nil {
				continue
			}
			set := core.FieldOf(outer).Name()
			v := sets[set]
			switch core.FieldOf(fa).Name() {
			case "all":
				v[0]++
			case "rules":
				// load -> Lookup with key == param
				for _, r := range *fa.Referrers() {
					if ld, ok := r.(*ssa.UnOp); ok {
						for _, r2 := range *ld.Referrers() {
							if lk, ok := r2.(*ssa.Lookup); ok && lk.Index == ssa.Value(ruleParam) {
								v[1]++
							}
						}
					}
				}
			}
			sets[set] = v
		}
	}
	for _, set := range []string{"ignoreNextLine", "ignoreThisLine", "ignoreRange"} {
		v := sets[set]
		if v[0] >= 1 && v[1] >= 1 {
			c.Discharge("ignore.filter", "IsEnable|"+set, isEnable.Pos(), "reads .all and .rules[rule]")
		} else {
			c.Report("ignore.filter", "IsEnable|"+set, isEnable.Pos(), fmt.Sprintf("IsEnable does not consult %s (.all reads=%d, .rules[rule] lookups=%d): a listed rule is not matched against the diagnostic's rule", set, v[0], v[1]))
		}
	}
	// every read must be able to make the result true: the result is the OR of all reads (no negation, no AND)
	for _, b := range isEnable.Blocks {
		for _, in := range b.Instrs {
			switch t := in.(type) {
			case *ssa.UnOp:
				if t.Op == token.NOT {
					c.Report("ignore.filter", "IsEnable|negation", in.Pos(), "IsEnable negates one of its reads")
				}
			case *ssa.BinOp:
				c.Report("ignore.filter", "IsEnable|binop", in.Pos(), "IsEnable combines its reads with an operator other than short-circuit OR")
			}
		}
	}
	checkOrChain(c, isEnable)
	// ignoreRules / unignoreRules bodies
	checkRuleSetBodies(c, ign, unign)
	c.Floor("ignore.filter", 5)
	_ = lfuncs
}

// checkOrChain: every If in IsEnable sends its true edge to a block whose phi operand is the constant true
// (a || b || c lowering), so any single read can enable the result.
func checkOrChain(c *core.Ctx, fn *ssa.Function) {
	for _, b := range fn.Blocks {
		iff, ok := b.Instrs[len(b.Instrs)-1].(*ssa.If)
		if !ok {
			continue
		}
		t := b.Succs[0]
		good := false
		for _, in := range t.Instrs {
			phi, ok := in.(*ssa.Phi)
			if !ok {
				break
			}
			for i, p := range t.Preds {
				if p == b {
					if k, ok := phi.Edges[i].(*ssa.Const); ok && k.Value != nil && k.Value.Kind() == constant.Bool && constant.BoolVal(k.Value) {
						good = true
					}
				}
			}
		}
		if !good {
			c.Report("ignore.filter", "IsEnable|or-chain", iff.Pos(), "a read in IsEnable does not short-circuit the result to true")
		}
	}
}

func checkRuleSetBodies(c *core.Ctx, ign, unign *ssa.Function) {
	// ignoreRules: MapUpdate(rules[r] = true) in a loop over the rules param; on empty list all=true
	type facts struct{ mapTrue, del, allTrue, allFalse, makeMap int }
	get := func(fn *ssa.Function) facts {
		var f facts
		for _, b := range fn.Blocks {
			for _, in := range b.Instrs {
				switch t := in.(type) {
				case *ssa.MapUpdate:
					if k, ok := t.Value.(*ssa.Const); ok && k.Value != nil && k.Value.Kind() == constant.Bool && constant.BoolVal(k.Value) {
						f.mapTrue++
					}
				case *ssa.Call:
					if bi, ok := t.Common().Value.(*ssa.Builtin); ok && bi.Name() == "delete" {
						f.del++
					}
				case *ssa.Store:
					if fa, ok := t.Addr.(*ssa.FieldAddr); ok && core.FieldOf(fa) != nil {
						switch core.FieldOf(fa).Name() {
						case "all":
							if k, ok := t.Val.(*ssa.Const); ok && k.Value != nil && k.Value.Kind() == constant.Bool {
								if constant.BoolVal(k.Value) {
									f.allTrue++
								} else {
									f.allFalse++
								}
							}
						case "rules":
							if _, ok := t.Val.(*ssa.MakeMap); ok {
								f.makeMap++
							}
						}
					}
				}
			}
		}
		return f
	}
	fi, fu := get(ign), get(unign)
	// accumulation: with a rule list, ignoreRules may replace the rule map only when there is none yet — two directives
	// of the same form with different lists (falco-ignore-start A ... falco-ignore-start B) must both stay in force
	{
		var rulesParam *ssa.Parameter
		for _, p := range ign.Params {
			if _, ok := p.Type().Underlying().(*types.Slice); ok {
				rulesParam = p
			}
		}
		for _, b := range ign.Blocks {
			for _, in := range b.Instrs {
				st, ok := in.(*ssa.Store)
				if !ok {
					continue
				}
				fa, ok := st.Addr.(*ssa.FieldAddr)
				if !ok || core.FieldOf(fa) == nil || core.FieldOf(fa).Name() != "rules" {
					continue
				}
				if _, ok := st.Val.(*ssa.MakeMap); !ok {
					continue
				}
				// on the empty-list path (len(rules) == 0) a reset is the documented meaning
				emptyPath, nilGuard := false, false
				for _, blk := range ign.Blocks {
					iff, ok := blk.Instrs[len(blk.Instrs)-1].(*ssa.If)
					if !ok {
						continue
					}
					bo, ok := iff.Cond.(*ssa.BinOp)
					if !ok {
						continue
					}
					if bo.Op == token.EQL {
						if k, isK := core.ConstIntValue(bo.Y); isK && k == 0 && rulesParam != nil && core.BackSlice(bo.X)[rulesParam] && core.EdgeDominates(blk, 0, b) {
							emptyPath = true
						}
						if core.IsNilConst(bo.Y) && core.EdgeDominates(blk, 0, b) {
							for x := range core.BackSlice(bo.X) {
								if f := core.FieldOf(x); f != nil && f.Name() == "rules" {
									nilGuard = true
								}
							}
						}
					}
				}
				key := "ignoreRules|fresh-map@" + fmt.Sprint(b.Index)
				switch {
				case emptyPath:
					c.Discharge("ignore.filter", "ignoreRules|reset-on-empty-list", in.Pos(), "a directive without rules replaces the set")
				case nilGuard:
					c.Discharge("ignore.filter", "ignoreRules|allocate-when-nil", in.Pos(), "the rule map is only created when there is none")
				default:
					c.Report("ignore.filter", key, in.Pos(), "ignoreRules replaces the rule map although rules are listed and a map may already hold rules: an earlier rule-listed directive of the same form is forgotten, its diagnostics reappear in the covered statements")
				}
			}
		}
	}
	if fi.mapTrue >= 1 && fi.allTrue >= 1 && fi.del == 0 {
		c.Discharge("ignore.filter", "ignoreRules|body", ign.Pos(), "rules[r]=true per listed rule; all=true for an empty list")
	} else {
		c.Report("ignore.filter", "ignoreRules|body", ign.Pos(), fmt.Sprintf("ignoreRules no longer records each listed rule / the all flag (%+v)", fi))
	}
	if fu.del >= 1 && fu.allFalse >= 1 && fu.makeMap >= 1 && fu.allTrue == 0 && fu.mapTrue == 0 {
		c.Discharge("ignore.filter", "unignoreRules|body", unign.Pos(), "delete per listed rule; all=false and a fresh map for an empty list")
	} else {
		c.Report("ignore.filter", "unignoreRules|body", unign.Pos(), fmt.Sprintf("unignoreRules no longer clears each listed rule / resets on an empty list (%+v)", fu))
	}
}

// sameMeta: both values are X.GetMeta() on the same receiver value, or the same value.
func sameMeta(a, b ssa.Value) bool {
	if a == b {
		return true
	}
	ca, ok1 := a.(*ssa.Call)
	cb, ok2 := b.(*ssa.Call)
	if !ok1 || !ok2 {
		return false
	}
	if ca.Common().IsInvoke() && cb.Common().IsInvoke() {
		return ca.Common().Method == cb.Common().Method && ca.Common().Value == cb.Common().Value
	}
	if ca.Common().StaticCallee() != nil && ca.Common().StaticCallee() == cb.Common().StaticCallee() {
		aa, ba := ca.Common().Args, cb.Common().Args
		if len(aa) != len(ba) {
			return false
		}
		for i := range aa {
			if aa[i] != ba[i] {
				return false
			}
		}
		return true
	}
	return false
}

func dominatingOrSelfStringConst(bo *ssa.BinOp) string {
	for _, o := range []ssa.Value{bo.X, bo.Y} {
		if k, ok := o.(*ssa.Const); ok && k.Value != nil && k.Value.Kind() == constant.String {
			return constant.StringVal(k.Value)
		}
	}
	return ""
}

// checkIgnoreCover: a statement taken from a statement list is linted through lintStatement, the only place that
// brackets the statement with the ignore setup/teardown; linting it directly bypasses its ignore comments.
func checkIgnoreCover(c *core.Ctx, rule string) {
	prog := c.Prog
	lint := prog.SSAFunc("linter", "Linter.lint")
	if lint == nil {
		c.MissingAnchor(rule, "linter.(*Linter).lint")
		return
	}
	n := 0
	for _, fn := range prog.ModuleFuncs("linter") {
		for _, b := range fn.Blocks {
			for _, in := range b.Instrs {
				call, ok := in.(*ssa.Call)
				if !ok || call.Common().StaticCallee() != lint {
					continue
				}
				ci, ok := call.Common().Args[1].(*ssa.ChangeInterface)
				if !ok || core.NamedTypeName(ci.X.Type()) != "Statement" {
					continue
				}
				n++
				top := fn
				for top.Parent() != nil {
					top = top.Parent()
				}
				key := core.FnName(fn) + "|lint(Statement)"
				// accepted idioms: lintStatement itself, or a function that brackets the call the same way
				brackets := false
				var setup, teardown bool
				for _, bb := range fn.Blocks {
					for _, i2 := range bb.Instrs {
						if cal := core.StaticCallee(i2); cal != nil {
							if _, isDefer := i2.(*ssa.Defer); isDefer && cal.Name() == "TeardownStatement" {
								teardown = true
							} else if cal.Name() == "SetupStatement" {
								setup = true
							}
						}
					}
				}
				brackets = setup && teardown
				if top.Name() == "lintStatement" || brackets {
					c.Discharge(rule, key, in.Pos(), "bracketed by SetupStatement / deferred TeardownStatement")
				} else {
					c.Report(rule, key, in.Pos(), core.FnName(fn)+" lints a statement of a statement list directly instead of through lintStatement: falco-ignore comments on those statements have no effect (their diagnostics are counted although ignored)")
				}
			}
		}
	}
	if n == 0 {
		c.MissingAnchor(rule, "no call lints an ast.Statement")
	}
}
