package checks

import (
	"fmt"
	"go/constant"
	"go/token"
	"go/types"
	"strings"

	"fv/internal/core"

	"golang.org/x/tools/go/ssa"
)

// ---------- acl.*

func fieldAddrsNamed(fn *ssa.Function, owner, name string) []*ssa.FieldAddr {
	var out []*ssa.FieldAddr
	for _, b := range fn.Blocks {
		for _, in := range b.Instrs {
			if fa, ok := in.(*ssa.FieldAddr); ok {
				if f := core.FieldOf(fa); f != nil && f.Name() == name && strings.HasSuffix(core.FieldOwner(fa), owner) {
					out = append(out, fa)
				}
			}
		}
	}
	return out
}

func checkAcl(c *core.Ctx) {
	prog := c.Prog
	fn := prog.SSAFunc("interpreter/operator", "matchesAcl")
	if fn == nil {
		c.MissingAnchor("acl.order", "interpreter/operator.matchesAcl")
		return
	}
	c.Func(core.FnName(fn))
	var contains *ssa.Call
	sorted := false
	for _, b := range fn.Blocks {
		for _, in := range b.Instrs {
			call, ok := in.(*ssa.Call)
			if !ok {
				continue
			}
			cal := call.Common().StaticCallee()
			if cal == nil || cal.Pkg == nil {
				continue
			}
			switch {
			case cal.Name() == "Contains" && cal.Pkg.Pkg.Path() == "net":
				contains = call
			case cal.Pkg.Pkg.Path() == "sort" || (cal.Pkg.Pkg.Path() == "slices" && strings.HasPrefix(cal.Name(), "Sort")):
				sorted = true
			}
		}
	}
	if contains == nil {
		c.Report("acl.order", "matchesAcl|contains", fn.Pos(), "matchesAcl does not test containment with (*net.IPNet).Contains; the ACL rules cannot be decided")
		return
	}
	var loop *loopInfo
	for _, l := range naturalLoops(fn) {
		l := l
		if l.body[contains.Block()] && (loop == nil || len(l.body) > len(loop.body)) {
			loop = &l
		}
	}
	if loop == nil {
		c.Report("acl.order", "matchesAcl|loop", fn.Pos(), "matchesAcl does not scan the ACL entries in a loop")
		return
	}
	// order independence: no verdict from inside the scan
	early := 0
	for _, rs := range core.ReturnSites(fn) {
		// a return block is never part of the natural loop (it cannot reach the back edge): it leaves from inside the
		// scan when a body block other than the header dominates it
		inside := false
		for bb := range loop.body {
			if bb != loop.header && bb.Dominates(rs.Ret.Block()) {
				inside = true
			}
		}
		if !inside || !core.IsNilConst(rs.Results[1]) {
			continue
		}
		early++
		if sorted {
			c.Discharge("acl.order", fmt.Sprintf("matchesAcl|early-return#%d", early), rs.Ret.Pos(), "entries are sorted before the scan")
		} else {
			c.Report("acl.order", fmt.Sprintf("matchesAcl|early-return#%d", early), rs.Ret.Pos(), "matchesAcl returns a verdict at the first entry that decides it: with overlapping entries (a negated range inside an allowed one) the result depends on the order of the entries instead of the most specific one")
		}
	}
	if early == 0 {
		c.Discharge("acl.order", "matchesAcl|scan", loop.header.Instrs[0].Pos(), "the verdict is returned after all entries were seen")
	}
	// negation is consulted only for an entry containing the address
	var condIf *ssa.BasicBlock
	if contains.Referrers() != nil {
		for _, r := range *contains.Referrers() {
			if iff, ok := r.(*ssa.If); ok {
				condIf = iff.Block()
			}
		}
	}
	inv := fieldAddrsNamed(fn, "ast.AclCidr", "Inverse")
	if len(inv) == 0 {
		c.Report("acl.neg", "matchesAcl|Inverse", fn.Pos(), "matchesAcl never reads AclCidr.Inverse: negated entries match like plain ones")
	}
	for i, fa := range inv {
		key := fmt.Sprintf("matchesAcl|Inverse#%d", i+1)
		if condIf != nil && core.EdgeDominates(condIf, 0, fa.Block()) {
			c.Discharge("acl.neg", key, fa.Pos(), "read under Contains(ip) == true")
		} else {
			c.Report("acl.neg", key, fa.Pos(), "the negation flag of an ACL entry is consulted for an entry that does not contain the address: a negated entry then affects addresses outside its range")
		}
	}
	// the verdict depends on containment and negation
	cd := core.NewCtrlDeps(fn)
	for _, rs := range core.ReturnSites(fn) {
		if !core.IsNilConst(rs.Results[1]) {
			continue
		}
		if k, ok := rs.Results[0].(*ssa.Const); ok && k.Value != nil && !constant.BoolVal(k.Value) && !loop.body[rs.Ret.Block()] && early > 0 {
			continue // `return false` after an early-returning scan, reported above
		}
		sl := core.DepSlice(cd, rs.Results[0])
		hasC, hasI := sl[contains], false
		for _, fa := range inv {
			if sl[fa] {
				hasI = true
			}
		}
		key := "matchesAcl|verdict@" + retLabel(fn, rs.Ret)
		if hasC && hasI {
			c.Discharge("acl.neg", key, rs.Ret.Pos(), "verdict depends on containment and on the entry's negation")
		} else if !loop.body[rs.Ret.Block()] {
			c.Report("acl.neg", key, rs.Ret.Pos(), fmt.Sprintf("the verdict returned by matchesAcl does not depend on containment (%v) and negation (%v) of the entries", hasC, hasI))
		}
	}
	// default prefix length depends on the address family
	masks := fieldAddrsNamed(fn, "ast.AclCidr", "Mask")
	consts := map[int64]bool{}
	var maskVals []ssa.Value
	for _, b := range fn.Blocks {
		for _, in := range b.Instrs {
			phi, ok := in.(*ssa.Phi)
			if !ok {
				continue
			}
			sl := core.BackSlice(phi)
			fromMask := false
			for _, fa := range masks {
				if sl[fa] {
					fromMask = true
				}
			}
			if !fromMask {
				continue
			}
			maskVals = append(maskVals, phi)
			seen := map[*ssa.Phi]bool{}
			var walk func(p *ssa.Phi)
			walk = func(p *ssa.Phi) {
				if seen[p] {
					return
				}
				seen[p] = true
				for _, e := range p.Edges {
					if k, ok := core.ConstIntValue(e); ok {
						consts[k] = true
					}
					if pp, ok := e.(*ssa.Phi); ok {
						walk(pp)
					}
				}
			}
			walk(phi)
		}
	}
	if consts[32] && consts[128] {
		c.Discharge("acl.mask", "matchesAcl|default-mask", fn.Pos(), "an entry without mask is /32 or /128 depending on its family")
	} else {
		c.Report("acl.mask", "matchesAcl|default-mask", fn.Pos(), "an ACL entry without a mask gets one fixed prefix length for both address families: an IPv6 host entry such as \"::1\" becomes a /32 network (or an IPv4 entry fails to parse)")
	}
	// most specific entry wins
	cmp := false
	for b := range loop.body {
		for _, in := range b.Instrs {
			bo, ok := in.(*ssa.BinOp)
			if !ok {
				continue
			}
			if _, rel := mirrored[bo.Op]; !rel {
				continue
			}
			for _, pr := range [][2]ssa.Value{{bo.X, bo.Y}, {bo.Y, bo.X}} {
				isMask := false
				for _, mv := range maskVals {
					if core.BackSlice(pr[0])[mv] || pr[0] == mv {
						isMask = true
					}
				}
				carried := false
				for x := range core.BackSlice(pr[1]) {
					if phi, ok := x.(*ssa.Phi); ok && phi.Block() == loop.header {
						carried = true
					}
				}
				if isMask && carried {
					cmp = true
				}
			}
		}
	}
	switch {
	case cmp:
		c.Discharge("acl.longest", "matchesAcl|longest-prefix", fn.Pos(), "prefix lengths of containing entries are compared with the best so far")
	case sorted:
		c.Discharge("acl.longest", "matchesAcl|longest-prefix", fn.Pos(), "entries are sorted before the scan")
	default:
		c.Report("acl.longest", "matchesAcl|longest-prefix", fn.Pos(), "matchesAcl never compares the prefix length of a containing entry with the best seen so far (and does not sort the entries): it cannot pick the most specific entry")
	}
}

// ---------- rot.*

func checkRotate(c *core.Ctx) {
	prog := c.Prog
	negated := func(v ssa.Value) bool {
		for {
			switch t := v.(type) {
			case *ssa.Convert:
				v = t.X
				continue
			case *ssa.ChangeType:
				v = t.X
				continue
			case *ssa.UnOp:
				return t.Op == token.SUB
			case *ssa.BinOp:
				if t.Op == token.SUB {
					_, isK := core.ConstIntValue(t.X)
					return isK
				}
				return false
			}
			return false
		}
	}
	for _, name := range []string{"LeftRotate", "RightRotate"} {
		fn := prog.SSAFunc("interpreter/assign", name)
		if fn == nil {
			c.MissingAnchor("rot.signed", "interpreter/assign."+name)
			continue
		}
		c.Func(core.FnName(fn))
		left := name == "LeftRotate"
		signedShr := false
		dirKnown, dirOK := false, false
		for _, b := range fn.Blocks {
			for _, in := range b.Instrs {
				switch t := in.(type) {
				case *ssa.BinOp:
					if t.Op == token.SHR {
						if bt, ok := t.X.Type().Underlying().(*types.Basic); ok && bt.Info()&types.IsUnsigned == 0 {
							signedShr = true
							c.Report("rot.signed", name+"|signed>>", t.Pos(), name+" shifts a signed integer right: the sign bit is smeared into the rotated value for every negative operand")
						}
					}
					if t.Op == token.OR {
						shl, ok1 := t.X.(*ssa.BinOp)
						shr, ok2 := t.Y.(*ssa.BinOp)
						if ok1 && ok2 && shl.Op == token.SHR && shr.Op == token.SHL {
							shl, shr = shr, shl
						}
						if ok1 && ok2 && shl.Op == token.SHL && shr.Op == token.SHR {
							dirKnown = true
							// rotate left by n: (x << n) | (x >> (w-n))
							dirOK = (negated(shr.Y) && !negated(shl.Y)) == left && (negated(shl.Y) && !negated(shr.Y)) == !left
						}
					}
				case *ssa.Call:
					if cal := t.Common().StaticCallee(); cal != nil && cal.Pkg != nil && cal.Pkg.Pkg.Path() == "math/bits" && strings.HasPrefix(cal.Name(), "RotateLeft") {
						dirKnown = true
						dirOK = negated(t.Common().Args[1]) == !left
					}
				}
			}
		}
		if !signedShr {
			c.Discharge("rot.signed", name, fn.Pos(), "no signed right shift")
		}
		switch {
		case !dirKnown:
			c.Report("rot.direction", name, fn.Pos(), name+" uses neither bits.RotateLeft nor the (x<<a)|(x>>b) form: rotation direction undecided")
		case dirOK:
			c.Discharge("rot.direction", name, fn.Pos(), "rotates "+map[bool]string{true: "left", false: "right"}[left])
		default:
			c.Report("rot.direction", name, fn.Pos(), name+" rotates in the opposite direction")
		}
	}
}

// ---------- branch.*

// chainOf strips loads and field selections: root value and the field names from the root outwards.
func chainOf(v ssa.Value) (ssa.Value, []string) {
	var path []string
	for {
		switch t := v.(type) {
		case *ssa.UnOp:
			if t.Op == token.MUL {
				v = t.X
				continue
			}
		case *ssa.ChangeInterface:
			v = t.X
			continue
		case *ssa.FieldAddr:
			if f := core.FieldOf(t); f != nil {
				path = append([]string{f.Name()}, path...)
			}
			v = t.X
			continue
		case *ssa.Field:
			if f := core.FieldOf(t); f != nil {
				path = append([]string{f.Name()}, path...)
			}
			v = t.X
			continue
		}
		return v, path
	}
}

func checkBranching(c *core.Ctx) {
	prog := c.Prog
	pbs := prog.SSAFunc("interpreter", "Interpreter.ProcessBlockStatement")
	pex := prog.SSAFunc("interpreter", "Interpreter.ProcessExpression")
	ifFn := prog.SSAFunc("interpreter", "Interpreter.ProcessIfStatement")
	if pbs == nil || pex == nil || ifFn == nil {
		c.MissingAnchor("branch.if", "Interpreter.ProcessIfStatement / ProcessBlockStatement / ProcessExpression")
		return
	}
	c.Func(core.FnName(ifFn))
	// conditions: root -> extracted condition value
	type condInfo struct {
		root ssa.Value
		val  ssa.Value
	}
	var conds []condInfo
	var blocks []*ssa.Call
	for _, b := range ifFn.Blocks {
		for _, in := range b.Instrs {
			call, ok := in.(*ssa.Call)
			if !ok {
				continue
			}
			switch call.Common().StaticCallee() {
			case pex:
				root, path := chainOf(call.Common().Args[1])
				if len(path) == 1 && path[0] == "Condition" && call.Referrers() != nil {
					for _, r := range *call.Referrers() {
						if ex, ok := r.(*ssa.Extract); ok && ex.Index == 0 {
							conds = append(conds, condInfo{root, ex})
						}
					}
				}
			case pbs:
				blocks = append(blocks, call)
			}
		}
	}
	var loop *loopInfo
	for _, l := range naturalLoops(ifFn) {
		l := l
		if loop == nil || len(l.body) > len(loop.body) {
			loop = &l
		}
	}
	nb := map[string]int{}
	for _, call := range blocks {
		root, path := chainOf(call.Common().Args[1])
		what := strings.Join(path, ".")
		nb[what]++
		key := fmt.Sprintf("ProcessIfStatement|%s#%d", what, nb[what])
		switch what {
		case "Consequence.Statements":
			var cond ssa.Value
			for _, ci := range conds {
				if ci.root == root {
					cond = ci.val
				}
			}
			if cond == nil {
				c.Report("branch.if", key, call.Pos(), "a consequence block is executed whose own condition is not evaluated (the block belongs to another branch of the chain)")
				continue
			}
			// a dominating truth edge of this condition
			ok := false
			for _, d := range ifFn.Blocks {
				iff, isIf := d.Instrs[len(d.Instrs)-1].(*ssa.If)
				if !isIf {
					continue
				}
				ld, isLd := iff.Cond.(*ssa.UnOp)
				if !isLd || ld.Op != token.MUL {
					continue
				}
				f := core.FieldOf(ld.X)
				if f == nil || !core.BackSlice(ld.X)[cond] {
					continue
				}
				switch f.Name() {
				case "Value":
					ok = ok || core.EdgeDominates(d, 0, call.Block())
				case "IsNotSet":
					ok = ok || core.EdgeDominates(d, 1, call.Block())
				}
			}
			if ok {
				c.Discharge("branch.if", key, call.Pos(), "runs under the truth edge of its own condition")
			} else {
				c.Report("branch.if", key, call.Pos(), "a consequence block of the if/else-if chain does not run under the truth edge of its own condition (BOOL true / STRING set): the wrong branch is taken")
			}
		case "Alternative.Consequence.Statements":
			after := loop != nil && !loop.body[call.Block()] && loop.header.Dominates(call.Block())
			if after {
				c.Discharge("branch.if", key, call.Pos(), "else runs after every else-if was tested")
			} else {
				c.Report("branch.if", key, call.Pos(), "the else block can run before all else-if conditions were tested")
			}
		default:
			c.Report("branch.if", key, call.Pos(), "ProcessIfStatement executes statements that are neither a consequence nor the else block: "+what)
		}
	}
	if nb["Consequence.Statements"] < 2 || nb["Alternative.Consequence.Statements"] < 1 {
		c.Report("branch.if", "ProcessIfStatement|blocks", ifFn.Pos(), "ProcessIfStatement does not execute if-, else-if- and else-blocks")
	}
	// at most one block per chain
	if maxCalls(ifFn, pbs) > 1 {
		c.Report("branch.if", "ProcessIfStatement|one-block", ifFn.Pos(), "a path through ProcessIfStatement executes two blocks of one if/else-if/else chain")
	} else {
		c.Discharge("branch.if", "ProcessIfStatement|one-block", ifFn.Pos(), "at most one block per chain on every path")
	}
	c.Floor("branch.if", 5)

	// ---- switch
	caseFn := prog.SSAFunc("interpreter", "Interpreter.ProcessCaseStatement")
	swFn := prog.SSAFunc("interpreter", "Interpreter.ProcessSwitchStatement")
	if caseFn == nil || swFn == nil {
		c.MissingAnchor("branch.switch", "Interpreter.ProcessCaseStatement / ProcessSwitchStatement")
		return
	}
	c.Func(core.FnName(caseFn))
	c.Func(core.FnName(swFn))
	for _, b := range caseFn.Blocks {
		for _, in := range b.Instrs {
			call, ok := in.(*ssa.Call)
			if !ok {
				continue
			}
			switch call.Common().StaticCallee() {
			case pbs:
				// dominated by the true edge of `matched`, which derives from the Equal/Regex result or constant true
				ok := false
				for _, d := range caseFn.Blocks {
					iff, isIf := d.Instrs[len(d.Instrs)-1].(*ssa.If)
					if !isIf || !core.EdgeDominates(d, 0, call.Block()) {
						continue
					}
					phi, isPhi := iff.Cond.(*ssa.Phi)
					if !isPhi {
						continue
					}
					good := true
					for _, e := range phi.Edges {
						if k, isK := e.(*ssa.Const); isK {
							if k.Value == nil || !constant.BoolVal(k.Value) {
								good = false
							}
							continue
						}
						fromTest := false
						for x := range core.BackSlice(e) {
							if cl, isC := x.(*ssa.Call); isC {
								if cal := cl.Common().StaticCallee(); cal != nil && (cal.Name() == "Equal" || cal.Name() == "Regex") {
									fromTest = true
								}
							}
						}
						if !fromTest {
							good = false
						}
					}
					ok = ok || good
				}
				if ok {
					c.Discharge("branch.switch", "ProcessCaseStatement|exec", call.Pos(), "case body runs only when the case matched (test result, default, or fallthrough)")
				} else {
					c.Report("branch.switch", "ProcessCaseStatement|exec", call.Pos(), "the body of a switch case does not run under the truth edge of its own match test")
				}
			case caseFn:
				// fallthrough: next case, unconditionally, same control
				args := call.Common().Args
				next := false
				if bo, ok := args[2].(*ssa.BinOp); ok && bo.Op == token.ADD {
					p, isP := bo.X.(*ssa.Parameter)
					k, isK := core.ConstIntValue(bo.Y)
					next = isP && p.Name() == "offset" && isK && k == 1
				}
				ctl, _ := args[3].(*ssa.Parameter)
				ft, isK := args[4].(*ssa.Const)
				underFT := false
				for _, d := range caseFn.Blocks {
					iff, isIf := d.Instrs[len(d.Instrs)-1].(*ssa.If)
					if !isIf || !core.EdgeDominates(d, 0, call.Block()) {
						continue
					}
					if ld, ok := iff.Cond.(*ssa.UnOp); ok && ld.Op == token.MUL {
						if f := core.FieldOf(ld.X); f != nil && f.Name() == "Fallthrough" {
							underFT = true
						}
					}
				}
				if next && ctl != nil && ctl.Name() == "control" && isK && ft.Value != nil && constant.BoolVal(ft.Value) && underFT {
					c.Discharge("branch.switch", "ProcessCaseStatement|fallthrough", call.Pos(), "fallthrough continues with case offset+1 unconditionally under the case's Fallthrough flag")
				} else {
					c.Report("branch.switch", "ProcessCaseStatement|fallthrough", call.Pos(), fmt.Sprintf("fallthrough does not continue with the next case unconditionally (next case: %v, forced match: %v, under Fallthrough flag: %v)", next, isK && ft.Value != nil && constant.BoolVal(ft.Value), underFT))
				}
			}
		}
	}
	// first matching case wins; default only after all cases
	var swLoop *loopInfo
	for _, l := range naturalLoops(swFn) {
		l := l
		if swLoop == nil || len(l.body) > len(swLoop.body) {
			swLoop = &l
		}
	}
	inLoop, afterLoop := 0, 0
	for _, b := range swFn.Blocks {
		for _, in := range b.Instrs {
			call, ok := in.(*ssa.Call)
			if !ok || call.Common().StaticCallee() != caseFn || swLoop == nil {
				continue
			}
			args := call.Common().Args
			if swLoop.body[b] {
				inLoop++
				// forced match must be false and a match returns
				ft, isK := args[4].(*ssa.Const)
				forced := !isK || ft.Value == nil || constant.BoolVal(ft.Value)
				returns := false
				if call.Referrers() != nil {
					for _, r := range *call.Referrers() {
						ex, ok := r.(*ssa.Extract)
						if !ok || ex.Index != 2 || ex.Referrers() == nil {
							continue
						}
						for _, rr := range *ex.Referrers() {
							if iff, ok := rr.(*ssa.If); ok {
								t := iff.Block().Succs[0]
								if _, isRet := t.Instrs[len(t.Instrs)-1].(*ssa.Return); isRet {
									returns = true
								}
							}
						}
					}
				}
				// the default case is skipped inside the scan
				skipsDefault := false
				for d := range swLoop.body {
					iff, isIf := d.Instrs[len(d.Instrs)-1].(*ssa.If)
					if !isIf {
						continue
					}
					bo, isBo := iff.Cond.(*ssa.BinOp)
					if !isBo || (bo.Op != token.EQL && bo.Op != token.NEQ) {
						continue
					}
					// the edge on which the index differs from the default's: false edge of `==`, true edge of `!=`
					ne := 1
					if bo.Op == token.NEQ {
						ne = 0
					}
					for _, v := range []ssa.Value{bo.X, bo.Y} {
						if ld, ok := v.(*ssa.UnOp); ok && ld.Op == token.MUL {
							if f := core.FieldOf(ld.X); f != nil && f.Name() == "Default" && core.EdgeDominates(d, ne, b) {
								skipsDefault = true
							}
						}
					}
				}
				if !forced && returns && skipsDefault {
					c.Discharge("branch.switch", "ProcessSwitchStatement|scan", call.Pos(), "cases are tested in order, the default is skipped, the first match ends the switch")
				} else {
					c.Report("branch.switch", "ProcessSwitchStatement|scan", call.Pos(), fmt.Sprintf("the case scan of a switch is wrong (match forced: %v, first match returns: %v, default skipped: %v)", forced, returns, skipsDefault))
				}
			} else if swLoop.header.Dominates(b) {
				afterLoop++
				_, path := chainOf(args[2])
				if len(path) == 1 && path[0] == "Default" {
					c.Discharge("branch.switch", "ProcessSwitchStatement|default", call.Pos(), "the default case runs after no case matched")
				} else {
					c.Report("branch.switch", "ProcessSwitchStatement|default", call.Pos(), "after the scan something other than the default case is executed")
				}
			} else {
				c.Report("branch.switch", "ProcessSwitchStatement|early", call.Pos(), "a case is executed before the case scan")
			}
		}
	}
	if inLoop != 1 || afterLoop != 1 {
		c.Report("branch.switch", "ProcessSwitchStatement|shape", swFn.Pos(), fmt.Sprintf("ProcessSwitchStatement has %d case calls in the scan and %d after it (expected 1 and 1)", inLoop, afterLoop))
	}
	c.Floor("branch.switch", 4)
}

// maxCalls: the maximum number (capped at 2) of calls of callee on any path through fn.
func maxCalls(fn, callee *ssa.Function) int {
	in := map[*ssa.BasicBlock]int{fn.Blocks[0]: 1}
	max := 0
	for changed := true; changed; {
		changed = false
		for _, b := range fn.Blocks {
			m := in[b]
			if m == 0 {
				continue
			}
			k := 0
			for _, i := range b.Instrs {
				if cl, ok := i.(*ssa.Call); ok && cl.Common().StaticCallee() == callee {
					k++
				}
			}
			out := 0
			for bit := 0; bit < 3; bit++ {
				if m&(1<<bit) != 0 {
					n := bit + k
					if n > 2 {
						n = 2
					}
					if n > max {
						max = n
					}
					out |= 1 << n
				}
			}
			for _, s := range b.Succs {
				if in[s]|out != in[s] {
					in[s] |= out
					changed = true
				}
			}
		}
	}
	return max
}
