package checks

// C08, rule sim.errvalue: a stated belief. A call returns (value, error); the code throws the error away ("cannot
// happen") and goes on to use the value. When the value is a pointer or interface that the callee returns as nil
// together with the error, the belief had better be right: a dereference of it - in the function, or, when the
// function hands it back, in its callers - without a nil test crashes the simulator on the input that makes the call
// fail.

import (
	"fmt"
	"go/types"

	"fv/internal/core"

	"golang.org/x/tools/go/ssa"
)

func checkDiscardedErrorValue(c *core.Ctx, funcs []*ssa.Function) {
	isErr := func(t types.Type) bool {
		return types.Identical(t, types.Universe.Lookup("error").Type())
	}
	nilableT := func(t types.Type) bool {
		switch t.Underlying().(type) {
		case *types.Pointer, *types.Interface:
			return !isErr(t)
		}
		return false
	}
	// value results whose error twin is never looked at
	type belief struct {
		fn   *ssa.Function
		call *ssa.Call
		val  *ssa.Extract
	}
	var beliefs []belief
	for _, fn := range funcs {
		for _, b := range fn.Blocks {
			for _, in := range b.Instrs {
				call, ok := in.(*ssa.Call)
				if !ok || call.Referrers() == nil {
					continue
				}
				res := call.Common().Signature().Results()
				if res.Len() != 2 || !isErr(res.At(1).Type()) || !nilableT(res.At(0).Type()) {
					continue
				}
				var val *ssa.Extract
				errUsed := false
				for _, r := range *call.Referrers() {
					if ex, isEx := r.(*ssa.Extract); isEx {
						if ex.Index == 1 && ex.Referrers() != nil && len(*ex.Referrers()) > 0 {
							errUsed = true
						}
						if ex.Index == 0 {
							val = ex
						}
					}
				}
				if errUsed || val == nil {
					continue
				}
				beliefs = append(beliefs, belief{fn, call, val})
			}
		}
	}
	callersOf := func(f *ssa.Function) []*ssa.Call {
		var out []*ssa.Call
		for _, g := range c.Prog.ModuleFuncs() {
			for _, b := range g.Blocks {
				for _, in := range b.Instrs {
					if call, ok := in.(*ssa.Call); ok && call.Common().StaticCallee() == f {
						out = append(out, call)
					}
				}
			}
		}
		return out
	}
	// uses of v that crash on nil: derefs, and arguments of library functions that dereference (method value receivers
	// of net/http: AddCookie)
	crashUses := func(v ssa.Value) []ssa.Instruction {
		out := derefUses(nil, v)
		if v.Referrers() != nil {
			for _, r := range *v.Referrers() {
				ci, ok := r.(ssa.CallInstruction)
				if !ok {
					continue
				}
				cal := ci.Common().StaticCallee()
				if cal == nil || cal.Pkg == nil {
					continue
				}
				if cal.Blocks == nil {
					// a library function whose body is not loaded: it is not known to tolerate nil
					for _, a := range ci.Common().Args {
						if a == v {
							out = append(out, r)
						}
					}
					continue
				}
				for j, a := range ci.Common().Args {
					if a != v || j >= len(cal.Params) {
						continue
					}
					// a library callee: does it dereference the parameter at once?
					if len(derefUses(nil, cal.Params[j])) > 0 {
						uncond := false
						for _, u := range derefUses(nil, cal.Params[j]) {
							if !core.DominatedByNil(cal.Params[j], u.Block(), false) {
								uncond = true
							}
						}
						if uncond {
							out = append(out, r)
						}
					}
				}
			}
		}
		return out
	}
	ord := map[string]int{}
	for _, bl := range beliefs {
		name := "?"
		if cal := bl.call.Common().StaticCallee(); cal != nil {
			name = cal.Name()
		} else if bl.call.Common().IsInvoke() {
			name = bl.call.Common().Method.Name()
		}
		key := fmt.Sprintf("%s|%s", core.FnName(bl.fn), name)
		ord[key]++
		if ord[key] > 1 {
			key = fmt.Sprintf("%s#%d", key, ord[key])
		}
		var bad ssa.Instruction
		for _, u := range crashUses(bl.val) {
			if !core.DominatedByNil(bl.val, u.Block(), false) {
				bad = u
			}
		}
		// handed back to the callers
		if bad == nil {
			returned := false
			for _, rs := range core.ReturnSites(bl.fn) {
				for _, r := range rs.Results {
					if r == ssa.Value(bl.val) {
						returned = true
					}
				}
			}
			if returned && bl.fn.Signature.Results().Len() == 1 {
				for _, call := range callersOf(bl.fn) {
					for _, u := range crashUses(call) {
						if !core.DominatedByNil(call, u.Block(), false) {
							bad = u
						}
					}
				}
			}
		}
		if bad != nil {
			c.Report("sim.errvalue", key, bad.Pos(), fmt.Sprintf("%s discards the error of %s and its value (nil when the call fails) is dereferenced here without a nil test: the input that makes the call fail crashes the simulator", core.FnName(bl.fn), name))
		} else {
			c.Discharge("sim.errvalue", key, bl.call.Pos(), "the value is not dereferenced, or only behind a nil test")
		}
	}
}
