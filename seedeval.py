#!/usr/bin/env python3
"""Developer aid: verifies a seeded change produced in /tmp/seed_out/<ID>/ and records how the checks respond.

usage: seedeval.py <ID> [--all-checks] [--skip-suite]
For each patch<k>.diff: apply to /repo, build, run the demonstration (expected to fail), run the test suite without the
demonstration (expected to pass), run the property's check (and optionally all checks), revert, run the demonstration on
the clean tree (expected to pass). Results are stored in /verif/seeded/<ID>-<k>/ (patch.diff, demo, meta.json).
/repo is always left as it was (git checkout + removal of the demo file)."""
import json, os, re, shutil, subprocess, sys, glob

ENV = dict(os.environ, WT="/repo", REPO="/repo", PATH="/opt/veriftools/go1.26.8/bin:" + os.environ["PATH"], GOTOOLCHAIN="local", GOFLAGS="-mod=mod", GOPROXY="off", GOSUMDB="off", GOWORK="off")
REPO = "/repo"

def sh(cmd, cwd=REPO, timeout=1800):
    p = subprocess.run(cmd, shell=True, cwd=cwd, env=ENV, stdout=subprocess.PIPE, stderr=subprocess.STDOUT, text=True, errors="replace", timeout=timeout)
    return p.returncode, p.stdout

def demo_target(path):
    head = open(path).read(2000)
    if path.endswith(".sh"):
        return None, None
    m = re.search(r"copy (?:it |this file )?(?:in)?to\s+`?([\w/.\-]+?)/?`?\s+(?:as|\()", head) or re.search(r"copy (?:it |this file )?(?:in)?to\s+`?([\w/.\-]+)`?", head)
    d = m.group(1).rstrip("/") if m else None
    if d and d.endswith(".go"):
        d = os.path.dirname(d)
    m2 = re.search(r"-run\s+'?\"?([\w^$|()]+)", head)
    return d, (m2.group(1) if m2 else None)

def run_demo(demo, k):
    if demo.endswith(".sh"):
        rc, out = sh("bash %s /repo" % demo)
        return rc, out[-1500:]
    d, run = demo_target(demo)
    if not d or not os.path.isdir(os.path.join(REPO, d)):
        return None, "cannot determine demo package dir (%s)" % d
    dst = os.path.join(REPO, d, "zz_seed_demo%s_test.go" % k)
    shutil.copy(demo, dst)
    try:
        rc, out = sh("go test -vet=off -count=1 %s ./%s/" % (("-run '%s'" % run) if run else "", d), timeout=900)
    finally:
        os.remove(dst)
    return rc, out[-1500:]

def main():
    pid = sys.argv[1]
    allchecks = "--all-checks" in sys.argv
    skipsuite = "--skip-suite" in sys.argv
    srcroot = "/tmp/seed_out"
    offset = 0
    for i, a in enumerate(sys.argv):
        if a == "--src":
            srcroot = sys.argv[i + 1]
        if a == "--offset":
            offset = int(sys.argv[i + 1])
    src = "%s/%s" % (srcroot, pid)
    ids = [pid]
    if allchecks:
        ids = [c["property_id"] for c in json.load(open("/verif/MANIFEST.json"))["checks"]]
    summary = []
    for patch in sorted(glob.glob(src + "/patch*.diff")):
        k = re.search(r"patch(\d+)\.diff", patch).group(1)
        demo = None
        for cand in ("demo%s_test.go" % k, "demo%s.sh" % k):
            if os.path.exists(os.path.join(src, cand)):
                demo = os.path.join(src, cand)
        meta = {}
        mp = os.path.join(src, "meta%s.json" % k)
        if os.path.exists(mp):
            try:
                meta = json.load(open(mp))
            except Exception as e:
                meta = {"meta_parse_error": str(e)}
        res = {"property": pid, "k": k}
        rc, out = sh("git status --porcelain")
        if out.strip():
            print("repo not clean, abort:", out); sys.exit(2)
        rc, out = sh("git apply %s" % patch)
        if rc != 0:
            res["applies"] = False; res["note"] = out[-400:]; summary.append(res); continue
        try:
            res["applies"] = True
            rc, out = sh("go build ./...")
            res["builds"] = rc == 0
            if demo:
                rc, out = run_demo(demo, k)
                res["demo_fails_when_patched"] = (rc not in (0, None))
                res["demo_patched_tail"] = out[-600:]
            if not skipsuite:
                rc, out = sh("go test -vet=off -count=1 ./...", timeout=2400)
                res["suite_passes"] = rc == 0
                if rc != 0:
                    res["suite_tail"] = "\n".join(l for l in out.splitlines() if not l.startswith("ok") and "no test files" not in l)[-800:]
            det = {}
            for cid in ids:
                rc, out = sh("./bin/fv check %s" % cid, cwd="/verif", timeout=900)
                lines = [l for l in out.splitlines() if l.startswith("  ") and "[" in l and "key:" not in l]
                det[cid] = {"exit": rc, "violations": len([l for l in out.splitlines() if l.startswith("VIOLATION")]), "first": [l.strip()[:300] for l in lines if "KNOWN" not in l][:3]}
            res["checks"] = det
            res["detected_by"] = sorted(c for c, d in det.items() if d["violations"] > 0)
        finally:
            sh("git checkout -- . && git clean -fdq")
        if demo:
            rc, out = run_demo(demo, k)
            res["demo_passes_on_clean"] = rc == 0
            if rc != 0:
                res["demo_clean_tail"] = out[-600:]
        keep = res.get("builds") and res.get("demo_fails_when_patched") and res.get("demo_passes_on_clean") and (skipsuite or res.get("suite_passes"))
        res["kept"] = bool(keep)
        dst = "/verif/seeded/%s-%s" % (pid, int(k) + offset)
        if keep:
            os.makedirs(dst, exist_ok=True)
            shutil.copy(patch, os.path.join(dst, "patch.diff"))
            if demo:
                shutil.copy(demo, os.path.join(dst, os.path.basename(demo).replace("demo%s" % k, "demo")))
            for extra in glob.glob(os.path.join(src, "demo%s*" % k)):
                nb = os.path.basename(extra).replace("demo%s" % k, "demo", 1)
                if not os.path.exists(os.path.join(dst, nb)):
                    if os.path.isdir(extra):
                        shutil.copytree(extra, os.path.join(dst, nb))
                    else:
                        shutil.copy(extra, os.path.join(dst, nb))
            meta["verification"] = {x: res.get(x) for x in ("builds", "suite_passes", "demo_fails_when_patched", "demo_passes_on_clean")}
            meta["detected_by"] = res.get("detected_by")
            meta["check_reports"] = {c: d["first"] for c, d in res.get("checks", {}).items() if d["violations"] > 0}
            json.dump(meta, open(os.path.join(dst, "meta.json"), "w"), indent=1)
        summary.append(res)
        print(json.dumps({x: res.get(x) for x in ("property", "k", "builds", "suite_passes", "demo_fails_when_patched", "demo_passes_on_clean", "kept", "detected_by")}))
        sys.stdout.flush()
    json.dump(summary, open("%s/eval.json" % src, "w"), indent=1)

if __name__ == "__main__":
    main()
