package checks

import (
	"fmt"
	"go/token"
	"go/types"
	"sort"
	"strings"

	"fv/internal/core"

	"golang.org/x/tools/go/ssa"
)

// E9 recbound — every recursion is structurally descending or bound-guarded.
//
// Call graph of a package family (static callees, closures, bound methods). Each call edge inside a
// strongly connected component is classified from SSA:
//   descending  every AST-typed argument derives from an AST-typed parameter of the caller through at least one
//               field / index / range step (t.Left, stmt.Consequence.Statements, range element);
//   same        passes a parameter itself (possibly type-asserted);
//   re-entry    anything else: an AST value from a map lookup or a fresh parse, or no AST argument at all.
// A re-entry (or same) edge is guarded when its call site is dominated by
//   G1 the continuing edge of an integer comparison of a counter (field, or len of a field) with a constant, whose
//      other edge returns a non-nil error, the counter being advanced somewhere in the component; or
//   G2 the miss edge of a comma-ok lookup in a set (map field) whose hit edge returns, the set being inserted into
//      on the way (a MapUpdate of the same field that dominates the call).
// Obligation: after deleting descending and guarded edges every component is acyclic.
// AST values are finite trees (parser output).

type recEdge struct {
	from, to *ssa.Function
	site     ssa.CallInstruction
	class    string // descending | same | re-entry
	guard    string
}

func isASTType(t types.Type) bool { return isASTTypeDepth(t, 0) }

func isASTTypeDepth(t types.Type, depth int) bool {
	if depth > 3 {
		return false
	}
	t = types.Unalias(t)
	switch u := t.(type) {
	case *types.Pointer:
		return isASTTypeDepth(u.Elem(), depth+1)
	case *types.Named:
		if strings.HasPrefix(core.NamedTypePkgName(u), astPkgPath+".") {
			// node kinds (structs embedding Meta), the root VCL, and the ast interfaces; not Meta/Comment(s)/Operator
			switch ut := u.Underlying().(type) {
			case *types.Interface:
				return true
			case *types.Struct:
				if u.Obj().Name() == "VCL" {
					return true
				}
				for i := 0; i < ut.NumFields(); i++ {
					if ut.Field(i).Embedded() && ut.Field(i).Name() == "Meta" && u.Obj().Name() != "Operator" {
						return true
					}
				}
			}
			return false
		}
		// carrier structs of the module (functionMeta, Series …): a struct with an AST-typed field
		if u.Obj().Pkg() != nil && strings.HasPrefix(u.Obj().Pkg().Path(), core.ModPath) {
			if st, ok := u.Underlying().(*types.Struct); ok {
				for i := 0; i < st.NumFields(); i++ {
					ft := st.Field(i).Type()
					if strings.HasPrefix(core.NamedTypePkgName(ft), astPkgPath+".") && isASTTypeDepth(ft, depth+1) {
						return true
					}
					if sl, ok := ft.Underlying().(*types.Slice); ok && strings.HasPrefix(core.NamedTypePkgName(sl.Elem()), astPkgPath+".") && isASTTypeDepth(sl.Elem(), depth+1) {
						return true
					}
				}
			}
			return false
		}
		return false
	case *types.Slice:
		return isASTTypeDepth(u.Elem(), depth+1)
	}
	return false
}

// classifyArg: how an AST-typed argument relates to the AST-typed parameters of the caller.
func classifyArg(fn *ssa.Function, arg ssa.Value) string { return (&recAnalysis{}).classOf(fn, arg) }

func (ra *recAnalysis) classOf(fn *ssa.Function, arg ssa.Value) string {
	seen := map[ssa.Value]bool{}
	var walk func(v ssa.Value, steps int) string
	storesInto := func(al *ssa.Alloc, steps int) string {
		// a local cell / composite under construction: what is stored into it (and into its fields / elements)
		res := ""
		var scan func(addr ssa.Value)
		scan = func(addr ssa.Value) {
			if addr.Referrers() == nil {
				return
			}
			for _, r := range *addr.Referrers() {
				switch t := r.(type) {
				case *ssa.Store:
					if t.Addr == addr && isASTType(t.Val.Type()) {
						res = worst(res, walk(t.Val, steps))
					}
				case *ssa.FieldAddr:
					scan(t)
				case *ssa.IndexAddr:
					scan(t)
				}
			}
		}
		scan(al)
		return res
	}
	walk = func(v ssa.Value, steps int) string {
		if seen[v] {
			return "cycle"
		}
		seen[v] = true
		defer delete(seen, v)
		switch t := v.(type) {
		case *ssa.Const:
			return "" // nil
		case *ssa.Parameter:
			if isASTType(t.Type()) {
				if steps > 0 {
					return "descending"
				}
				return "same"
			}
			return "re-entry"
		case *ssa.FreeVar:
			if isASTType(t.Type()) || isASTType(derefType(t.Type())) {
				if steps > 0 {
					return "descending"
				}
				return "same"
			}
			return "re-entry"
		case *ssa.TypeAssert:
			return walk(t.X, steps)
		case *ssa.MakeInterface:
			return walk(t.X, steps)
		case *ssa.ChangeInterface:
			return walk(t.X, steps)
		case *ssa.ChangeType:
			return walk(t.X, steps)
		case *ssa.Extract:
			if ta, ok := t.Tuple.(*ssa.TypeAssert); ok {
				return walk(ta.X, steps)
			}
			if nx, ok := t.Tuple.(*ssa.Next); ok {
				return walk(nx.Iter, steps+1)
			}
			return walk(t.Tuple, steps)
		case *ssa.Range:
			return walk(t.X, steps)
		case *ssa.Alloc:
			r := storesInto(t, steps)
			if r == "" {
				return "re-entry"
			}
			return r
		case *ssa.UnOp:
			if t.Op != token.MUL {
				return "re-entry"
			}
			switch a := t.X.(type) {
			case *ssa.FieldAddr:
				return walk(a.X, steps+1)
			case *ssa.IndexAddr:
				return walk(a.X, steps+1)
			case *ssa.Alloc:
				r := storesInto(a, steps)
				if r == "" {
					return "re-entry"
				}
				return r
			case *ssa.FreeVar:
				return walk(a, steps)
			}
			return "re-entry"
		case *ssa.Field:
			return walk(t.X, steps+1)
		case *ssa.Index:
			return walk(t.X, steps+1)
		case *ssa.Slice:
			return walk(t.X, steps)
		case *ssa.Phi:
			res := ""
			for _, e := range t.Edges {
				r := walk(e, steps)
				if r == "cycle" {
					continue
				}
				res = worst(res, r)
			}
			if res == "" {
				return "re-entry"
			}
			return res
		case *ssa.Call:
			cc := t.Common()
			if bi, ok := cc.Value.(*ssa.Builtin); ok && bi.Name() == "append" {
				res := ""
				for _, a := range cc.Args {
					r := walk(a, steps)
					if r == "cycle" {
						continue
					}
					res = worst(res, r)
				}
				if res == "" {
					return "descending"
				}
				return res
			}
			cal := cc.StaticCallee()
			if cal != nil && ra.in != nil && ra.in[cal] {
				switch ra.retClass[cal] {
				case "sub", "bounded":
					res := ""
					n := 0
					for _, a := range cc.Args {
						if !isASTType(a.Type()) {
							continue
						}
						n++
						r := walk(a, steps)
						if r == "cycle" {
							continue
						}
						res = worst(res, r)
					}
					if n == 0 || res == "" {
						if ra.retClass[cal] == "bounded" {
							return "descending"
						}
						return "re-entry"
					}
					return res
				}
			}
			return "re-entry"
		case *ssa.Lookup:
			return "re-entry"
		}
		return "re-entry"
	}
	r := walk(arg, 0)
	if r == "" || r == "cycle" {
		return "descending" // nil / purely self-referential
	}
	return r
}

func derefType(t types.Type) types.Type {
	if p, ok := t.Underlying().(*types.Pointer); ok {
		return p.Elem()
	}
	return t
}

func worst(a, b string) string {
	rank := map[string]int{"": 0, "descending": 1, "same": 2, "re-entry": 3, "cycle": 0}
	if rank[b] > rank[a] {
		return b
	}
	return a
}

type recAnalysis struct {
	prog     *core.Program
	funcs    []*ssa.Function
	in       map[*ssa.Function]bool
	edges    map[*ssa.Function][]*recEdge
	retClass map[*ssa.Function]string // sub | bounded | fresh : AST values a function returns, relative to its AST parameters
}

// computeRetClass: greatest fixpoint from "sub"; a function is demoted when a returned AST value derives from a
// source that is not one of its parameters (fresh parse, map lookup): "bounded" if every such source is dominated by a
// bound guard in its function, "fresh" otherwise.
func (ra *recAnalysis) computeRetClass() {
	ra.retClass = map[*ssa.Function]string{}
	for _, fn := range ra.funcs {
		ra.retClass[fn] = "sub"
	}
	rank := map[string]int{"sub": 0, "bounded": 1, "fresh": 2}
	for changed := true; changed; {
		changed = false
		for _, fn := range ra.funcs {
			if ra.retClass[fn] == "fresh" {
				continue
			}
			cls := "sub"
			for _, rs := range core.ReturnSites(fn) {
				for _, r := range rs.Results {
					if !isASTType(r.Type()) || core.IsNilConst(r) {
						continue
					}
					if ra.classOf(fn, r) == "re-entry" {
						// which sources? if all fresh-producing calls in fn are guarded -> bounded
						if ra.freshSourcesGuarded(fn) {
							if rank[cls] < rank["bounded"] {
								cls = "bounded"
							}
						} else {
							cls = "fresh"
						}
					}
				}
			}
			// a callee that is bounded/fresh and whose result is returned is handled by classOf through retClass
			if rank[cls] > rank[ra.retClass[fn]] {
				ra.retClass[fn] = cls
				changed = true
			}
		}
	}
}

// freshSourcesGuarded: every call in fn that yields AST values not derived from fn's parameters is dominated by a guard.
func (ra *recAnalysis) freshSourcesGuarded(fn *ssa.Function) bool {
	found := false
	for _, b := range fn.Blocks {
		for _, in := range b.Instrs {
			call, ok := in.(*ssa.Call)
			if !ok {
				continue
			}
			res := call.Common().Signature().Results()
			yieldsAST := false
			for i := 0; i < res.Len(); i++ {
				if isASTType(res.At(i).Type()) {
					yieldsAST = true
				}
			}
			if !yieldsAST {
				continue
			}
			cal := call.Common().StaticCallee()
			if cal != nil && ra.in[cal] && ra.retClass[cal] == "sub" {
				continue
			}
			if bi, ok := call.Common().Value.(*ssa.Builtin); ok && bi.Name() == "append" {
				continue
			}
			found = true
			e := &recEdge{from: fn, to: cal, site: call}
			if ra.guardOf(e, nil) == "" {
				return false
			}
		}
	}
	return found
}

func newRecAnalysis(prog *core.Program, prefixes ...string) *recAnalysis {
	ra := &recAnalysis{prog: prog, in: map[*ssa.Function]bool{}, edges: map[*ssa.Function][]*recEdge{}}
	seen := map[*ssa.Function]bool{}
	var add func(fn *ssa.Function)
	add = func(fn *ssa.Function) {
		if fn == nil || seen[fn] || fn.Blocks == nil {
			return
		}
		seen[fn] = true
		ra.funcs = append(ra.funcs, fn)
		ra.in[fn] = true
		for _, b := range fn.Blocks {
			for _, in := range b.Instrs {
				if mc, ok := in.(*ssa.MakeClosure); ok {
					if f2, ok := mc.Fn.(*ssa.Function); ok && f2.Synthetic != "" {
						add(f2)
					}
				}
			}
		}
	}
	for _, fn := range prog.ModuleFuncs(prefixes...) {
		if !prog.IsCanary(fn.Pos()) || true {
			add(fn)
		}
	}
	ra.computeRetClass()
	for _, fn := range ra.funcs {
		for _, b := range fn.Blocks {
			for _, in := range b.Instrs {
				switch t := in.(type) {
				case ssa.CallInstruction:
					if _, isGo := in.(*ssa.Go); isGo {
						continue
					}
					cal := t.Common().StaticCallee()
					if cal == nil || !ra.in[cal] {
						continue
					}
					e := &recEdge{from: fn, to: cal, site: t}
					e.class = ra.classify(fn, t, cal)
					ra.edges[fn] = append(ra.edges[fn], e)
				case *ssa.MakeClosure:
					// a closure created in fn and called later (possibly elsewhere): edge fn -> closure, same arguments
					if f2, ok := t.Fn.(*ssa.Function); ok && ra.in[f2] && f2.Synthetic == "" {
						ra.edges[fn] = append(ra.edges[fn], &recEdge{from: fn, to: f2, class: "same"})
					}
				}
			}
		}
	}
	return ra
}

func (ra *recAnalysis) classify(fn *ssa.Function, call ssa.CallInstruction, cal *ssa.Function) string {
	res := ""
	nAST := 0
	for _, a := range call.Common().Args {
		if !isASTType(a.Type()) {
			continue
		}
		nAST++
		res = worst(res, ra.classOf(fn, a))
	}
	if nAST == 0 {
		return "re-entry"
	}
	return res
}

// sccs: strongly connected components with a cycle (Tarjan).
func (ra *recAnalysis) sccs(keep func(e *recEdge) bool) [][]*ssa.Function {
	index := map[*ssa.Function]int{}
	low := map[*ssa.Function]int{}
	on := map[*ssa.Function]bool{}
	var stack []*ssa.Function
	var out [][]*ssa.Function
	n := 0
	var strong func(v *ssa.Function)
	strong = func(v *ssa.Function) {
		n++
		index[v], low[v] = n, n
		stack = append(stack, v)
		on[v] = true
		for _, e := range ra.edges[v] {
			if !keep(e) {
				continue
			}
			w := e.to
			if index[w] == 0 {
				strong(w)
				if low[w] < low[v] {
					low[v] = low[w]
				}
			} else if on[w] && index[w] < low[v] {
				low[v] = index[w]
			}
		}
		if low[v] == index[v] {
			var comp []*ssa.Function
			for {
				w := stack[len(stack)-1]
				stack = stack[:len(stack)-1]
				on[w] = false
				comp = append(comp, w)
				if w == v {
					break
				}
			}
			cyc := len(comp) > 1
			if !cyc {
				for _, e := range ra.edges[v] {
					if keep(e) && e.to == v {
						cyc = true
					}
				}
			}
			if cyc {
				sort.Slice(comp, func(i, j int) bool { return comp[i].String() < comp[j].String() })
				out = append(out, comp)
			}
		}
	}
	fs := append([]*ssa.Function{}, ra.funcs...)
	sort.Slice(fs, func(i, j int) bool { return fs[i].String() < fs[j].String() })
	for _, f := range fs {
		if index[f] == 0 {
			strong(f)
		}
	}
	return out
}

// guardOf: is the call site dominated by a bound guard (G1/G2)?
func (ra *recAnalysis) guardOf(e *recEdge, comp map[*ssa.Function]bool) string {
	if e.site == nil {
		return ""
	}
	fn := e.from
	b := e.site.Block()
	for _, blk := range fn.Blocks {
		iff, ok := blk.Instrs[len(blk.Instrs)-1].(*ssa.If)
		if !ok {
			continue
		}
		// which edge dominates the call?
		idx := -1
		if core.EdgeDominates(blk, 0, b) {
			idx = 0
		} else if core.EdgeDominates(blk, 1, b) {
			idx = 1
		}
		if idx < 0 {
			continue
		}
		other := blk.Succs[1-idx]
		// the other edge leaves: it fails/returns without reaching the guarded call
		if !returnsErrorSoon(other) && core.Reaches(other, b) {
			continue
		}
		// G1: integer comparison of a counter with a constant
		if bo, ok := iff.Cond.(*ssa.BinOp); ok {
			switch bo.Op {
			case token.LSS, token.LEQ, token.GTR, token.GEQ:
				for _, pair := range [][2]ssa.Value{{bo.X, bo.Y}, {bo.Y, bo.X}} {
					if _, isConst := pair[1].(*ssa.Const); !isConst {
						continue
					}
					if name := counterName(pair[0]); name != "" && ra.counterAdvanced(name, comp) {
						return "G1: guarded by a bound on " + name + " at " + ra.prog.Loc(bo.Pos())
					}
				}
			}
		}
		// G2 through a helper: `if l.visited(x) { …leave… }` where the helper tests membership in a set (map field)
		// and inserts into the same set on its miss path
		{
			cond := iff.Cond
			missIdx := 1
			if un, ok := cond.(*ssa.UnOp); ok && un.Op == token.NOT {
				cond, missIdx = un.X, 0
			}
			if call, ok := cond.(*ssa.Call); ok && idx == missIdx {
				if h := call.Common().StaticCallee(); h != nil && ra.in[h] {
					if set := testAndInsertSet(h); set != "" {
						return "G2: guarded by the visited-set helper " + core.FnName(h) + " (" + set + ") at " + ra.prog.Loc(call.Pos())
					}
				}
			}
		}
		// G2: comma-ok membership test on a set that is inserted into before the call
		for x := range core.BackSlice(iff.Cond) {
			var lk *ssa.Lookup
			if ex, ok := x.(*ssa.Extract); ok && ex.Index == 1 {
				if l2, ok := ex.Tuple.(*ssa.Lookup); ok && l2.CommaOk {
					lk = l2
				}
			}
			if l2, ok := x.(*ssa.Lookup); ok && !l2.CommaOk {
				if bt, ok := l2.Type().Underlying().(*types.Basic); ok && bt.Kind() == types.Bool {
					lk = l2
				}
			}
			if lk == nil {
				continue
			}
			set := fieldNameOfLoad(lk.X)
			if set == "" {
				continue
			}
			// inserted into on the way: a MapUpdate of the same field dominating the call site
			for _, b2 := range fn.Blocks {
				for _, in := range b2.Instrs {
					mu, ok := in.(*ssa.MapUpdate)
					if ok && fieldNameOfLoad(mu.Map) == set && core.InstrDominates(mu, e.site.(ssa.Instruction)) {
						return "G2: guarded by the visited set " + set + " at " + ra.prog.Loc(iff.Cond.Pos())
					}
				}
			}
		}
	}
	return ""
}

func fieldNameOfLoad(v ssa.Value) string {
	if lk, ok := v.(*ssa.Lookup); ok {
		return fieldNameOfLoad(lk.X) // nested map: set of sets
	}
	if ex, ok := v.(*ssa.Extract); ok {
		if lk, ok := ex.Tuple.(*ssa.Lookup); ok {
			return fieldNameOfLoad(lk.X)
		}
	}
	ld, ok := v.(*ssa.UnOp)
	if !ok || ld.Op != token.MUL {
		return ""
	}
	fa, ok := ld.X.(*ssa.FieldAddr)
	if !ok || core.FieldOf(fa) == nil {
		return ""
	}
	return core.NamedTypeName(fa.X.Type()) + "." + core.FieldOf(fa).Name()
}

// counterName: v is a load of an integer field, or len() of a loaded field.
func counterName(v ssa.Value) string {
	switch t := v.(type) {
	case *ssa.UnOp:
		return fieldNameOfLoad(t)
	case *ssa.Call:
		if bi, ok := t.Common().Value.(*ssa.Builtin); ok && bi.Name() == "len" {
			if n := fieldNameOfLoad(t.Common().Args[0]); n != "" {
				return "len(" + n + ")"
			}
		}
	case *ssa.BinOp:
		if n := counterName(t.X); n != "" {
			return n
		}
		return counterName(t.Y)
	case *ssa.Convert:
		return counterName(t.X)
	}
	return ""
}

// counterAdvanced: somewhere in the module the counter field is incremented / the measured slice is appended to.
func (ra *recAnalysis) counterAdvanced(name string, comp map[*ssa.Function]bool) bool {
	field := strings.TrimSuffix(strings.TrimPrefix(name, "len("), ")")
	for _, fn := range ra.funcs {
		for _, b := range fn.Blocks {
			for _, in := range b.Instrs {
				st, ok := in.(*ssa.Store)
				if !ok {
					continue
				}
				fa, ok := st.Addr.(*ssa.FieldAddr)
				if !ok || core.FieldOf(fa) == nil || core.NamedTypeName(fa.X.Type())+"."+core.FieldOf(fa).Name() != field {
					continue
				}
				switch v := st.Val.(type) {
				case *ssa.BinOp:
					if v.Op == token.ADD {
						return true
					}
				case *ssa.Call:
					if bi, ok := v.Common().Value.(*ssa.Builtin); ok && bi.Name() == "append" {
						return true
					}
				}
			}
		}
	}
	return false
}

// returnsErrorSoon: the block (or its single successor chain) returns a non-nil error / panics.
func returnsErrorSoon(b *ssa.BasicBlock) bool {
	for i := 0; i < 4 && b != nil; i++ {
		for _, in := range b.Instrs {
			if r, ok := in.(*ssa.Return); ok {
				for _, v := range r.Results {
					if core.IsErrorType(v.Type()) && !core.IsNilConst(v) {
						return true
					}
				}
				// spilled results
				for _, rs := range core.ReturnSites(b.Parent()) {
					if rs.Ret == r {
						for _, v := range rs.Results {
							if core.IsErrorType(v.Type()) && !core.IsNilConst(v) {
								return true
							}
						}
					}
				}
				return len(r.Results) == 0 // a plain return (void function) also leaves the recursion
			}
		}
		if len(b.Succs) != 1 {
			return false
		}
		b = b.Succs[0]
	}
	return false
}

// checkRecursion reports components that stay cyclic after deleting descending and guarded edges.
func checkRecursion(c *core.Ctx, rule string, ra *recAnalysis) {
	all := ra.sccs(func(e *recEdge) bool { return true })
	c.Extra(rule+"_components", len(all))
	var rc []string
	for fn, cl := range ra.retClass {
		if cl != "sub" {
			rc = append(rc, core.FnName(fn)+": "+cl)
		}
	}
	sort.Strings(rc)
	c.Extra(rule+"_returns_not_subtree", rc)
	for _, comp := range all {
		set := map[*ssa.Function]bool{}
		for _, f := range comp {
			set[f] = true
		}
		// decide guards for non-descending edges inside the component
		for _, f := range comp {
			for _, e := range ra.edges[f] {
				if set[e.to] && e.class != "descending" && e.guard == "" {
					e.guard = ra.guardOf(e, set)
				}
			}
		}
	}
	rest := ra.sccs(func(e *recEdge) bool { return e.class != "descending" && e.guard == "" })
	reported := map[string]bool{}
	for _, comp := range rest {
		set := map[*ssa.Function]bool{}
		var names []string
		for _, f := range comp {
			set[f] = true
			names = append(names, core.FnName(f))
		}
		// the offending edges: re-entry first
		var offending []*recEdge
		for _, f := range comp {
			for _, e := range ra.edges[f] {
				if set[e.to] && e.class != "descending" && e.guard == "" {
					offending = append(offending, e)
				}
			}
		}
		sort.Slice(offending, func(i, j int) bool {
			ri, rj := offending[i].class == "re-entry", offending[j].class == "re-entry"
			if ri != rj {
				return ri
			}
			return core.FnName(offending[i].from)+core.FnName(offending[i].to) < core.FnName(offending[j].from)+core.FnName(offending[j].to)
		})
		for _, e := range offending {
			if e.class != "re-entry" {
				continue
			}
			key := core.FnName(e.from) + " -> " + core.FnName(e.to)
			if reported[key] {
				continue
			}
			reported[key] = true
			pos := token.NoPos
			if e.site != nil {
				pos = e.site.Pos()
			}
			var wit []string
			for _, n := range names {
				wit = append(wit, "in component: "+n)
			}
			if len(wit) > 10 {
				wit = append(wit[:10], fmt.Sprintf("… %d functions in the component", len(names)))
			}
			c.Report(rule, key, pos, fmt.Sprintf("unbounded recursion: %s re-enters %s with a value that is not a sub-tree of its own argument (map lookup, fresh parse, or no AST argument) and no depth/visited guard dominates the call", core.FnName(e.from), core.FnName(e.to)), wit...)
		}
	}
	// discharged: every component of the full graph whose cycles are broken
	for _, comp := range all {
		desc, guarded := 0, 0
		set := map[*ssa.Function]bool{}
		for _, f := range comp {
			set[f] = true
		}
		var gs []string
		for _, f := range comp {
			for _, e := range ra.edges[f] {
				if !set[e.to] {
					continue
				}
				if e.class == "descending" {
					desc++
				} else if e.guard != "" {
					guarded++
					gs = append(gs, core.FnName(e.from)+" -> "+core.FnName(e.to)+": "+e.guard)
				}
			}
		}
		sort.Strings(gs)
		if len(gs) > 6 {
			gs = gs[:6]
		}
		c.Discharge(rule, fmt.Sprintf("component(%s,…%d)", core.FnName(comp[0]), len(comp)), comp[0].Pos(), fmt.Sprintf("%d descending edges, %d guarded edges %v", desc, guarded, gs))
	}
}

// testAndInsertSet: the function looks a key up in a map field and inserts into the same map field: returns the set name.
func testAndInsertSet(h *ssa.Function) string {
	looked := map[string]bool{}
	inserted := map[string]bool{}
	for _, b := range h.Blocks {
		for _, in := range b.Instrs {
			switch t := in.(type) {
			case *ssa.Lookup:
				if n := fieldNameOfLoad(t.X); n != "" {
					looked[n] = true
				}
			case *ssa.MapUpdate:
				if n := fieldNameOfLoad(t.Map); n != "" {
					inserted[n] = true
				}
			}
		}
	}
	res := h.Signature.Results()
	if res.Len() != 1 {
		return ""
	}
	if bt, ok := res.At(0).Type().Underlying().(*types.Basic); !ok || bt.Kind() != types.Bool {
		return ""
	}
	for n := range looked {
		if inserted[n] {
			return n
		}
	}
	return ""
}
