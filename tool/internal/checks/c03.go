package checks

import (
	"fmt"
	"go/token"
	"go/types"
	"sort"
	"strings"

	"fv/internal/core"

	"golang.org/x/tools/go/ssa"
)

// C03 — formatting preserves meaning (E1 astcov, E5 lossy-render, E2 optnil).
func init() {
	register(&Check{ID: "C03", NeedSSA: true, Run: runC03})
}

// Fields a documented formatter option normalises, or that are derived from other fields: one reason each.
var formatterExemptFields = map[string]string{
	"InfixExpression.Explicit":       "option explicit_string_concat decides whether `+` is printed",
	"ReturnStatement.HasParenthesis": "option return_statement_parenthesis decides the parentheses",
	"SwitchStatement.Default":        "derived: index of the case whose Test is nil",
	"CaseStatement.Fallthrough":      "derived: the last statement of the case is a FallthroughStatement, which is printed",
	"TableProperty.HasComma":         "trailing table commas are normalised (documented rewrite)",
}

// Expression kinds that only occur as properties of one declaration kind and are printed by that
// declaration printer's own type switch rather than by formatExpression.
var declPropertyKinds = map[string]string{
	"DirectorProperty":      "only built by ParseDirectorDeclaration for DirectorDeclaration.Properties",
	"DirectorBackendObject": "only built by ParseDirectorDeclaration for DirectorDeclaration.Properties",
	"BackendProbeObject":    "only built by ParseBackendProperty as BackendProperty.Value",
}

// Renderers of package ast that must not be used to print: listed with reason (the rest is computed).
var listedLossy = map[string]string{
	"String": "(*ast.String).String prints the decoded value, not the source literal: `%` escapes are lost",
}

func runC03(c *core.Ctx) {
	c.Explanation = "Structural necessary conditions of meaning preservation, decided on the typed AST and SSA of formatter/ast/parser: (fmt.dispatch) every node kind the parser can construct is handled by a type-switch arm of Format/formatStatement/formatExpression or by a printer that reads its fields; (fmt.fields) every semantic field of every constructible node kind (struct fields identified by *types.Var; the embedded Meta and the option-normalised/derived fields excepted, one reason each) is read by the formatter or by a non-lossy ast renderer it calls statically — a field nobody reads cannot survive formatting; (fmt.lossy) the formatter prints nothing through a lossy ast renderer: no dynamic String() on ast.Expression/Statement/Node, and static String() only on node types whose renderer reads all semantic fields and itself calls only such renderers ((*ast.String).String is listed: it prints the decoded value); (fmt.optnil) fields the grammar leaves nil are tested before being handed to a printer that dereferences them; (fmt.chunks) chunk conservation in the line-breaking pass: every chunk dequeued by nextChunk() and every *Chunk parameter of a text-returning function has, on every path to the next dequeue / return, its text written, or is handed to an emitter, or was compared equal to the constant written in its place; String() writes every chunk unconditionally. (fmt.linecmt) wherever the line-breaking pass writes the text of a chunk that may be a line comment (no dominating isLineComment()/type test, also through *Chunk parameters judged over all call sites), a line feed follows in the same block; (fmt.inlinecmt) comments are rendered only by the formatter's own comment printer (no call of a comment-bearing ast renderer, whose inline mode joins with a blank), that printer writes the caller's separator only behind a test for the block-comment marker / the line-break switch (a line comment gets a line feed), and only two named callers switch the line feed off; (fmt.juxta) the `+` of a concatenation is omitted (explicit_string_concat off) only under a predicate over the right operand that answers true only for node kinds starting with a token the parser registers for implicit concatenation (tables extracted from registerExpressionParsers on every run). Decides which information the printers touch on every path, not the text they produce. (fmt.alias) no slice is emptied with [:0] and refilled while an earlier value of the same variable is retained elsewhere (shared backing array; a known-bad canary must fire on every run); (fmt.deadfield) every field of a formatter-local record that is written is also read. (fmt.textrewrite) no replacement and no split-into-lines-and-reindent runs over rendered code, which would rewrite the inside of long strings and block comments (three recorded findings); the line-comment predicate of a chunk scans its whole text."
	c.NotCovered = []string{"that inserted line breaks are legal at their position", "SortDeclaration semantics", "a field read in one printing context but dropped in another (IfStatement as head and as Another[i]) is masked", "value-level errors in a printer that still reads the field"}
	prog := c.Prog
	u := newAstUniverse(prog)
	if u == nil {
		c.MissingAnchor("fmt", "package ast")
		return
	}
	c.Extra("node_kinds", len(u.names))
	c.Extra("constructible_node_kinds", len(u.constructible))

	fmtFuncs := prog.ModuleFuncs("formatter")
	withAst := staticClosure(fmtFuncs, map[string]bool{core.ModPath + "/formatter": true, astPkgPath: true})
	for _, f := range fmtFuncs {
		c.Func(core.FnName(f))
	}
	census := fieldCensus(withAst)

	// ---- lossy renderers (computed)
	lossy := computeLossyRenderers(prog, u)
	var lossyNames []string
	for n, why := range lossy {
		lossyNames = append(lossyNames, n+": "+why)
	}
	sort.Strings(lossyNames)
	c.Extra("lossy_ast_renderers", lossyNames)

	// ---- fmt.lossy: calls from formatter
	for _, fn := range fmtFuncs {
		for _, b := range fn.Blocks {
			for _, in := range b.Instrs {
				ci, ok := in.(ssa.CallInstruction)
				if !ok {
					continue
				}
				cc := ci.Common()
				if cc.IsInvoke() {
					if cc.Method.Name() != "String" {
						continue
					}
					tn := core.NamedTypePkgName(cc.Value.Type())
					if !strings.HasPrefix(tn, astPkgPath+".") {
						continue
					}
					c.CallSite()
					what := describeValue(cc.Value)
					c.Report("fmt.lossy", core.FnName(fn)+"|dynamic-String|"+what, in.Pos(),
						fmt.Sprintf("the formatter prints %s through the dynamic %s.String(): for an infix expression that renderer drops the operator (`return a == b;` becomes `return (a \"b\")`), for strings it prints the decoded value", what, strings.TrimPrefix(tn, astPkgPath+".")))
					continue
				}
				cal := cc.StaticCallee()
				if cal == nil || cal.Name() != "String" || cal.Signature.Recv() == nil {
					continue
				}
				tn := core.NamedTypePkgName(cal.Signature.Recv().Type())
				if !strings.HasPrefix(tn, astPkgPath+".") {
					continue
				}
				short := strings.TrimPrefix(tn, astPkgPath+".")
				if _, isNode := u.nodes[short]; !isNode {
					continue
				}
				c.CallSite()
				what := describeValue(cc.Args[0])
				if why, bad := lossy[short]; bad {
					c.Report("fmt.lossy", core.FnName(fn)+"|String|"+what, in.Pos(), fmt.Sprintf("the formatter prints %s through (*ast.%s).String(), a lossy renderer: %s", what, short, why))
				} else {
					c.Discharge("fmt.lossy", core.FnName(fn)+"|String|"+what, in.Pos(), "(*ast."+short+").String reads every semantic field and calls only such renderers")
				}
			}
		}
	}
	// the formatter may print nothing through ast renderers at all (then there is nothing to judge); blindness is
	// excluded by the sizes of the two sets the rule relates
	if len(fmtFuncs) < 60 || len(u.nodes) < 40 {
		c.MissingAnchor("fmt.lossy", fmt.Sprintf("formatter functions (%d) / ast node kinds (%d)", len(fmtFuncs), len(u.nodes)))
	} else {
		c.Discharge("fmt.lossy", "census", token.NoPos, fmt.Sprintf("%d formatter functions scanned for String() calls on %d ast node kinds", len(fmtFuncs), len(u.nodes)))
	}

	// ---- fmt.dispatch
	arms, missing := typeSwitchArms(prog, "formatter", "Formatter.Format", "Formatter.formatStatement", "Formatter.formatExpression")
	for _, m := range missing {
		c.MissingAnchor("fmt.dispatch", m)
	}
	readsOfType := func(n string) int {
		k := 0
		for _, f := range u.fields[n] {
			if fu := census[f]; fu != nil {
				for _, r := range fu.reads {
					if r.fn.Pkg != nil && r.fn.Pkg.Pkg.Path() == core.ModPath+"/formatter" {
						k++
					}
				}
			}
		}
		return k
	}
	stmtArms, _ := typeSwitchArms(prog, "formatter", "Formatter.Format", "Formatter.formatStatement")
	exprArms, _ := typeSwitchArms(prog, "formatter", "Formatter.formatExpression")
	asStmt, asExpr := parserInterfaceConversions(prog, u)
	var allFmtFuncNames []string
	if fp := prog.Pkg("formatter"); fp != nil {
		for _, fd := range core.FuncDecls(fp) {
			name := fd.Name.Name
			if fd.Recv != nil && len(fd.Recv.List) == 1 {
				name = core.RecvTypeName(fd.Recv.List[0].Type) + "." + name
			}
			allFmtFuncNames = append(allFmtFuncNames, name)
		}
	}
	allArms, _ := typeSwitchArms(prog, "formatter", allFmtFuncNames...)
	for _, n := range u.names {
		pos, ok := u.constructible[n]
		if !ok {
			continue
		}
		switch {
		case asExpr[n] && declPropertyKinds[n] != "":
			if p, has := allArms[n]; has {
				c.Discharge("fmt.dispatch", n, p, "declaration-property kind ("+declPropertyKinds[n]+"): arm in the declaration printer's own type switch")
			} else {
				c.Report("fmt.dispatch", n, pos, fmt.Sprintf("no formatter type switch has an arm for the declaration-property kind *ast.%s", n))
			}
		case asExpr[n]:
			if p, has := exprArms[n]; has {
				c.Discharge("fmt.dispatch", n, p, "arm of formatExpression (the parser hands this kind out as ast.Expression)")
			} else {
				c.Report("fmt.dispatch", n, pos, fmt.Sprintf("the parser hands out *ast.%s as an ast.Expression but formatExpression has no arm for it: such an operand is silently dropped from the output", n))
			}
		case asStmt[n]:
			if p, has := stmtArms[n]; has {
				c.Discharge("fmt.dispatch", n, p, "arm of Format/formatStatement (the parser hands this kind out as ast.Statement)")
			} else if readsOfType(n) > 0 {
				c.Discharge("fmt.dispatch", n, pos, "statement kind printed through typed fields of its parent (fields read in formatter)")
			} else {
				c.Report("fmt.dispatch", n, pos, fmt.Sprintf("the parser hands out *ast.%s as an ast.Statement but neither Format nor formatStatement has an arm for it and no printer reads its fields", n))
			}
		case readsOfType(n) > 0 || len(u.fields[n]) == 0:
			if _, has := arms[n]; has {
				c.Discharge("fmt.dispatch", n, arms[n], "type-switch arm")
			} else {
				c.Discharge("fmt.dispatch", n, pos, "typed child printed by the printer of its parent (fields read in formatter)")
			}
		default:
			c.Report("fmt.dispatch", n, pos, fmt.Sprintf("the parser builds *ast.%s but the formatter neither dispatches on it nor reads any of its fields", n))
		}
	}
	c.Floor("fmt.dispatch", 40)

	// ---- fmt.fields
	for _, n := range u.names {
		if _, ok := u.constructible[n]; !ok {
			continue
		}
		for _, f := range u.fields[n] {
			key := n + "." + f.Name()
			if why, ex := formatterExemptFields[key]; ex {
				c.Info("exempt field %s: %s", key, why)
				continue
			}
			fu := census[f]
			good := false
			var where fieldSite
			if fu != nil {
				for _, r := range fu.reads {
					// reads inside a lossy renderer of another type do not count; reads inside formatter always count
					if r.fn.Pkg.Pkg.Path() == astPkgPath {
						if recvName := recvTypeName(r.fn); recvName != "" {
							if _, bad := lossy[recvName]; bad {
								continue
							}
						}
					}
					good = true
					where = r
					break
				}
			}
			if good {
				c.Discharge("fmt.fields", key, where.pos, "read in "+core.FnName(where.fn))
			} else {
				c.Report("fmt.fields", key, f.Pos(), fmt.Sprintf("no printer reads %s: whatever the source says there cannot appear in the formatted output", key))
			}
		}
	}
	c.Floor("fmt.fields", 60)

	// ---- fmt.literal: literals are printed from the source token, not from the decoded value
	for _, tn := range []string{"String", "Integer", "Float"} {
		ok := false
		var pos = u.nodes[tn].Obj().Pos()
		for _, fn := range fmtFuncs {
			takes := false
			for _, p := range fn.Params {
				if core.NamedTypePkgName(p.Type()) == astPkgPath+"."+tn {
					takes = true
				}
			}
			if !takes {
				continue
			}
			for _, b := range fn.Blocks {
				for _, in := range b.Instrs {
					if fa, isFA := in.(*ssa.FieldAddr); isFA {
						if f := core.FieldOf(fa); f != nil && f.Name() == "Literal" && core.FieldOwner(fa) == core.ModPath+"/token.Token" && hasReturnFlow(fa) {
							ok = true
							pos = in.Pos()
						}
					}
					if fa, isF := in.(*ssa.Field); isF {
						if f := core.FieldOf(fa); f != nil && f.Name() == "Literal" && core.FieldOwner(fa) == core.ModPath+"/token.Token" {
							ok = true
							pos = in.Pos()
						}
					}
				}
			}
		}
		if ok {
			c.Discharge("fmt.literal", tn, pos, "the leaf printer of *ast."+tn+" reads Token.Literal (source text)")
		} else {
			c.Report("fmt.literal", tn, pos, "no leaf printer of *ast."+tn+" reads Token.Literal: the literal is re-rendered from its decoded value (escapes / exact numeric spelling are lost)")
		}
	}
	c.Floor("fmt.literal", 3)

	// ---- fmt.optnil
	checkOptNil(c, "fmt.optnil", u, fmtFuncs)

	// ---- fmt.chunks
	checkChunks(c)

	// ---- fmt.juxta
	checkJuxtaposition(c)

	// ---- fmt.linecmt
	checkChunkLineComments(c)
	checkTextRewrite(c)

	// ---- fmt.inlinecmt
	checkInlineComments(c)

	// ---- fmt.alias / fmt.deadfield
	checkSliceReuse(c, "fmt.alias", fmtFuncs)
	checkDeadRecordFields(c, "fmt.deadfield", "formatter", fmtFuncs)
}

// checkSliceReuse: `x = x[:0]` keeps the backing array. When an earlier value of the same variable was retained
// (stored as an element of another slice, in a field or a map), refilling x overwrites what was retained: pieces of
// the program printed from the retained value are replaced by later ones.
func checkSliceReuse(c *core.Ctx, rule string, funcs []*ssa.Function) {
	c.ExpectCanary(rule)
	n := 0
	for _, fn := range funcs {
		for _, b := range fn.Blocks {
			for _, in := range b.Instrs {
				sl, ok := in.(*ssa.Slice)
				if !ok || sl.High == nil {
					continue
				}
				if k, isK := core.ConstIntValue(sl.High); !isK || k != 0 {
					continue
				}
				if _, isSlice := sl.X.Type().Underlying().(*types.Slice); !isSlice {
					continue
				}
				n++
				// the variable: phi web around sl.X
				web := map[ssa.Value]bool{}
				var grow func(v ssa.Value)
				grow = func(v ssa.Value) {
					if web[v] {
						return
					}
					web[v] = true
					if phi, ok := v.(*ssa.Phi); ok {
						for _, e := range phi.Edges {
							grow(e)
						}
					}
					// results of append(v, ...) are the same variable
					if call, ok := v.(*ssa.Call); ok {
						if bi, ok := call.Common().Value.(*ssa.Builtin); ok && bi.Name() == "append" {
							grow(call.Common().Args[0])
						}
					}
					if refs := v.Referrers(); refs != nil {
						for _, r := range *refs {
							if phi, ok := r.(*ssa.Phi); ok {
								grow(phi)
							}
							if call, ok := r.(*ssa.Call); ok {
								if bi, ok := call.Common().Value.(*ssa.Builtin); ok && bi.Name() == "append" && call.Common().Args[0] == v {
									grow(call)
								}
							}
						}
					}
				}
				grow(sl.X)
				var retained ssa.Instruction
				var retention func(v ssa.Value, depth int)
				retention = func(v ssa.Value, depth int) {
					if v.Referrers() == nil || depth > 3 {
						return
					}
					for _, r := range *v.Referrers() {
						switch rt := r.(type) {
						case *ssa.Store:
							if rt.Val != v {
								continue
							}
							switch rt.Addr.(type) {
							case *ssa.IndexAddr, *ssa.FieldAddr:
								retained = rt
							}
						case *ssa.MakeInterface:
							retention(rt, depth+1) // the same slice header boxed in an interface
						case *ssa.ChangeType:
							retention(rt, depth+1)
						case *ssa.MapUpdate:
							if rt.Value == v {
								retained = rt
							}
						}
					}
				}
				for v := range web {
					if v == ssa.Value(sl) {
						continue
					}
					retention(v, 0)
				}
				key := fmt.Sprintf("%s|reslice#%s", core.FnName(fn), describeValue(sl.X))
				if retained != nil && web[ssa.Value(sl)] {
					c.Report(rule, key, in.Pos(), fmt.Sprintf("%s empties a slice with [:0] and refills it although an earlier value of the same variable is still referenced (stored at %s): both share one backing array, so what was kept is overwritten", core.FnName(fn), c.Prog.Loc(retained.Pos())))
				} else {
					c.Discharge(rule, key, in.Pos(), "no earlier value of the variable is retained")
				}
			}
		}
	}
	_ = n
}

// checkDeadRecordFields: a field of a package-local record type that is written but never read carries a piece of the
// program nowhere.
func checkDeadRecordFields(c *core.Ctx, rule, rel string, funcs []*ssa.Function) {
	pk := c.Prog.Pkg(rel)
	if pk == nil {
		return
	}
	census := fieldCensus(funcs)
	for _, name := range pk.Types.Scope().Names() {
		tn, ok := pk.Types.Scope().Lookup(name).(*types.TypeName)
		if !ok {
			continue
		}
		st, ok := tn.Type().Underlying().(*types.Struct)
		if !ok {
			continue
		}
		for i := 0; i < st.NumFields(); i++ {
			f := st.Field(i)
			fu := census[f]
			if fu == nil || len(fu.writes) == 0 {
				continue
			}
			key := name + "." + f.Name()
			if len(fu.reads) > 0 {
				c.Discharge(rule, key, f.Pos(), "written and read")
			} else {
				c.Report(rule, key, fu.writes[0].pos, fmt.Sprintf("%s.%s is filled in by the %s but never read: whatever part of the program it carries does not reach the output", name, f.Name(), rel))
			}
		}
	}
}

func recvTypeName(fn *ssa.Function) string {
	for fn.Parent() != nil {
		fn = fn.Parent()
	}
	if fn.Signature.Recv() == nil {
		return ""
	}
	return core.NamedTypeName(fn.Signature.Recv().Type())
}

func describeValue(v ssa.Value) string {
	switch t := v.(type) {
	case *ssa.UnOp:
		return describeValue(t.X)
	case *ssa.FieldAddr:
		if f := core.FieldOf(t); f != nil {
			return core.NamedTypeName(t.X.Type()) + "." + f.Name()
		}
	case *ssa.Field:
		if f := core.FieldOf(t); f != nil {
			return core.NamedTypeName(t.X.Type()) + "." + f.Name()
		}
	case *ssa.MakeInterface:
		return describeValue(t.X)
	case *ssa.ChangeInterface:
		return describeValue(t.X)
	case *ssa.TypeAssert:
		return describeValue(t.X)
	case *ssa.Parameter:
		return "param " + t.Name()
	case *ssa.Phi:
		return "phi"
	case *ssa.Call:
		if cal := t.Common().StaticCallee(); cal != nil {
			return cal.Name() + "()"
		}
	case *ssa.IndexAddr:
		return describeValue(t.X) + "[i]"
	case *ssa.Extract:
		return describeValue(t.Tuple)
	}
	return v.Name()
}

// computeLossyRenderers: node types whose String() must not be used for printing.
// T is lossy if it is listed, if (*T).String does not read some semantic field of T, if it reads a
// semantic field only under a condition on another field (InfixExpression prints Operator only if Explicit),
// or if it calls String() dynamically or on a lossy type.
func computeLossyRenderers(prog *core.Program, u *astUniverse) map[string]string {
	lossy := map[string]string{}
	for n, why := range listedLossy {
		lossy[n] = why
	}
	strFn := map[string]*ssa.Function{}
	for _, n := range u.names {
		if fn := prog.SSAFunc("ast", n+".String"); fn != nil {
			strFn[n] = fn
		}
	}
	// local facts
	dynamic := map[string]bool{}
	callsStatic := map[string][]string{}
	for n, fn := range strFn {
		census := fieldCensus([]*ssa.Function{fn})
		cd := core.NewCtrlDeps(fn)
		for _, f := range u.fields[n] {
			fu := census[f]
			if fu == nil || len(fu.reads) == 0 {
				if _, l := lossy[n]; !l {
					lossy[n] = "does not read " + n + "." + f.Name()
				}
				continue
			}
		}
		// conditional print: a read of field g that is control dependent on a test of field f (f != g) of the same node
		for _, b := range fn.Blocks {
			for _, in := range b.Instrs {
				fa, ok := in.(*ssa.FieldAddr)
				if !ok || u.fieldOwner[core.FieldOf(fa)] != n {
					continue
				}
				for _, e := range cd.Transitive(b) {
					cond := core.BranchCond(e.From)
					if cond == nil {
						continue
					}
					for x := range core.BackSlice(cond) {
						if g := core.FieldOf(x); g != nil && u.fieldOwner[g] == n && g != core.FieldOf(fa) {
							// is it a nil/len test of an optional field guarding itself? those are on the same field: excluded by g != f
							if _, isBool := g.Type().Underlying().(*types.Basic); isBool && g.Type().Underlying().(*types.Basic).Kind() == types.Bool {
								if _, l := lossy[n]; !l {
									lossy[n] = fmt.Sprintf("prints %s.%s only when %s.%s is set", n, core.FieldOf(fa).Name(), n, g.Name())
								}
							}
						}
					}
				}
			}
		}
		for _, b := range fn.Blocks {
			for _, in := range b.Instrs {
				ci, ok := in.(ssa.CallInstruction)
				if !ok {
					continue
				}
				cc := ci.Common()
				if cc.IsInvoke() && cc.Method.Name() == "String" && strings.HasPrefix(core.NamedTypePkgName(cc.Value.Type()), astPkgPath+".") {
					dynamic[n] = true
				}
				if cal := cc.StaticCallee(); cal != nil && cal.Name() == "String" && cal.Signature.Recv() != nil {
					if t := core.NamedTypeName(cal.Signature.Recv().Type()); u.nodes[t] != nil && cal.Pkg != nil && cal.Pkg.Pkg.Path() == astPkgPath {
						callsStatic[n] = append(callsStatic[n], t)
					}
				}
			}
		}
	}
	for n := range dynamic {
		if _, l := lossy[n]; !l {
			lossy[n] = "renders a child through the dynamic Expression/Statement.String() (which may be a lossy renderer)"
		}
	}
	for changed := true; changed; {
		changed = false
		for n, cs := range callsStatic {
			if _, l := lossy[n]; l {
				continue
			}
			for _, t := range cs {
				if _, l := lossy[t]; l {
					lossy[n] = "renders a child through the lossy (*ast." + t + ").String"
					changed = true
					break
				}
			}
		}
	}
	return lossy
}

func hasReturnFlow(v ssa.Value) bool { return hasRealUse(v) }

// parserInterfaceConversions: node kinds the parser converts to the ast.Statement / ast.Expression interfaces.
func parserInterfaceConversions(prog *core.Program, u *astUniverse) (map[string]bool, map[string]bool) {
	asStmt, asExpr := map[string]bool{}, map[string]bool{}
	for _, fn := range prog.ModuleFuncs("parser") {
		if prog.IsCanary(fn.Pos()) {
			continue
		}
		for _, b := range fn.Blocks {
			for _, in := range b.Instrs {
				mi, ok := in.(*ssa.MakeInterface)
				if !ok {
					continue
				}
				n := strings.TrimPrefix(core.NamedTypePkgName(mi.X.Type()), astPkgPath+".")
				if u.nodes[n] == nil {
					continue
				}
				switch core.NamedTypePkgName(mi.Type()) {
				case astPkgPath + ".Statement":
					asStmt[n] = true
				case astPkgPath + ".Expression":
					asExpr[n] = true
				}
			}
		}
	}
	return asStmt, asExpr
}
