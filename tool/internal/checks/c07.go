package checks

import (
	"fmt"
	"go/ast"
	"go/constant"
	"go/token"
	"go/types"
	"sort"
	"strings"

	"fv/internal/core"

	"golang.org/x/tools/go/packages"
	"golang.org/x/tools/go/ssa"
)

// C07 — expressions and assignments compute what VCL semantics prescribe.
func init() {
	register(&Check{ID: "C07", NeedSSA: true, Run: runC07})
}

// VCL operator -> implementing function, transcribed from the property statement (operator list) and the Fastly
// operator reference.
var assignDispatchSpec = map[string]string{
	"+=": "Addition", "-=": "Subtraction", "*=": "Multiplication", "/=": "Division", "%=": "Remainder",
	"|=": "BitwiseOR", "&=": "BitwiseAND", "^=": "BitwiseXOR", "<<=": "LeftShift", ">>=": "RightShift",
	"rol=": "LeftRotate", "ror=": "RightRotate", "||=": "LogicalOR", "&&=": "LogicalAND", "default": "Assign",
}

var infixDispatchSpec = map[string]string{
	"==": "Equal", "!=": "NotEqual", ">": "GreaterThan", "<": "LessThan", ">=": "GreaterThanEqual", "<=": "LessThanEqual",
	"~": "Regex", "!~": "NotRegex", "||": "LogicalOr", "&&": "LogicalAnd",
}

// implementing function -> the Go operator that must combine the left and the right operand
var kernelSpec = map[string]map[string]token.Token{
	"interpreter/assign": {
		"Addition": token.ADD, "Subtraction": token.SUB, "Multiplication": token.MUL, "Division": token.QUO, "Remainder": token.REM,
		"BitwiseOR": token.OR, "BitwiseAND": token.AND, "BitwiseXOR": token.XOR, "LeftShift": token.SHL, "RightShift": token.SHR,
		"LogicalOR": token.LOR, "LogicalAND": token.LAND,
	},
	"interpreter/operator": {
		"Equal": token.EQL, "GreaterThan": token.GTR, "LessThan": token.LSS, "GreaterThanEqual": token.GEQ, "LessThanEqual": token.LEQ,
		"LogicalAnd": token.LAND, "LogicalOr": token.LOR, "Concat": token.ADD,
	},
}

var commutative = map[token.Token]bool{token.ADD: true, token.MUL: true, token.OR: true, token.AND: true, token.XOR: true, token.LOR: true, token.LAND: true, token.EQL: true, token.NEQ: true}
var mirrored = map[token.Token]token.Token{token.GTR: token.LSS, token.LSS: token.GTR, token.GEQ: token.LEQ, token.LEQ: token.GEQ}
var opAssign = map[token.Token]token.Token{token.ADD_ASSIGN: token.ADD, token.SUB_ASSIGN: token.SUB, token.MUL_ASSIGN: token.MUL, token.QUO_ASSIGN: token.QUO, token.REM_ASSIGN: token.REM, token.OR_ASSIGN: token.OR, token.AND_ASSIGN: token.AND, token.XOR_ASSIGN: token.XOR, token.SHL_ASSIGN: token.SHL, token.SHR_ASSIGN: token.SHR}

func runC07(c *core.Ctx) {
	c.Explanation = "Structural necessary conditions of the evaluator's semantics, decided on typed syntax and SSA of interpreter, interpreter/assign, interpreter/operator and interpreter/variable: (ops.dispatch) the compiled operator→implementation tables of doAssign, ProcessInfixExpression and ProcessCaseStatement equal the VCL operator table, with operands passed left-then-right; (ops.kernel) in every implementing function each Go expression that combines a value derived from the left operand with one derived from the right operand uses that function's own operator, left operand first for the non-commutative ones (one swapped token in one type cell changes the result for all operands of those types); (ops.sibling) the four ordering comparisons have the same (left type, right type) cells with the same conversions and differ only in the operator, and `<`/`>` and `<=`/`>=` are mirror images cell by cell (duality); (ops.negate) != and !~ are the negation of == and ~ on the same operands; (ops.notset) string equality and truthiness consult the not-set flag, and LocalVariables.Set clears the flag of a STRING local after every successful assignment whatever the operator and value; (acl.*) the ACL verdict is returned after the scan (order independence) unless entries are sorted, negation is consulted only for a containing entry, prefix lengths are compared, and the default mask depends on the address family; (rot.*) rotation never shifts a signed value right and rotates in the stated direction; (branch.*) a block of an if/else-if/else chain or a switch case runs only under the truth edge of its own condition, at most one block per chain, else after all tests, first matching case wins, fallthrough continues with the next case unconditionally."
	c.NotCovered = []string{"numeric results for particular operands (saturation thresholds, float rounding)", "regular expression matching itself (pcre library)", "string conversion of values (value.String methods)", "header sub-field algebra (C17)"}
	checkDispatchTables(c)
	checkKernels(c)
	checkNegations(c)
	checkAcl(c)
	checkRotate(c)
	checkBranching(c)
}

// ---------- ops.dispatch

// stringSwitch extracts, for the switch over string constants compiled into fn, constant -> set of callees (in the
// given packages) called in the arm. "default" is the arm reached when every test fails.
type armInfo struct {
	callees []string
	calls   []*ssa.Call
}

func stringSwitch(fn *ssa.Function, tag func(ssa.Value) bool, pkgSuffix ...string) map[string]*armInfo {
	out := map[string]*armInfo{}
	inPkg := func(f *ssa.Function) bool {
		if f == nil || f.Pkg == nil {
			return false
		}
		for _, s := range pkgSuffix {
			if strings.HasSuffix(f.Pkg.Pkg.Path(), s) {
				return true
			}
		}
		return false
	}
	collect := func(head *ssa.BasicBlock) *armInfo {
		ai := &armInfo{}
		seen := map[string]bool{}
		for _, b := range fn.Blocks {
			if !head.Dominates(b) {
				continue
			}
			for _, in := range b.Instrs {
				if call, ok := in.(*ssa.Call); ok && inPkg(call.Common().StaticCallee()) {
					n := call.Common().StaticCallee().Name()
					if !seen[n] {
						seen[n] = true
						ai.callees = append(ai.callees, n)
					}
					ai.calls = append(ai.calls, call)
				}
			}
		}
		sort.Strings(ai.callees)
		return ai
	}
	chain := map[*ssa.BasicBlock]bool{}
	neEdge := map[*ssa.BasicBlock]int{}
	var last *ssa.BasicBlock
	for _, b := range fn.Blocks {
		iff, ok := b.Instrs[len(b.Instrs)-1].(*ssa.If)
		if !ok {
			continue
		}
		bo, ok := iff.Cond.(*ssa.BinOp)
		if !ok || (bo.Op != token.EQL && bo.Op != token.NEQ) || !tag(bo.X) {
			continue
		}
		k, ok := bo.Y.(*ssa.Const)
		if !ok || k.Value == nil || k.Value.Kind() != constant.String {
			continue
		}
		// the edge on which the tag equals the constant: true edge of `==`, false edge of `!=`
		eq := 0
		if bo.Op == token.NEQ {
			eq = 1
		}
		chain[b] = true
		neEdge[b] = 1 - eq
		last = b
		// the arm: the equal successor; with `case A, B:` several tests jump to one body block
		out[constant.StringVal(k.Value)] = collect(b.Succs[eq])
	}
	if last != nil {
		// default: follow the not-equal edges from the first test until leaving the chain
		for _, b := range fn.Blocks {
			if chain[b] && !chain[b.Succs[neEdge[b]]] {
				out["default"] = collect(b.Succs[neEdge[b]])
			}
		}
	}
	return out
}

func checkDispatchTables(c *core.Ctx) {
	prog := c.Prog
	type tbl struct {
		rel, fn string
		spec    map[string]string
		tag     func(fn *ssa.Function) func(ssa.Value) bool
		pkgs    []string
	}
	isLoadOfField := func(name string) func(ssa.Value) bool {
		return func(v ssa.Value) bool {
			ld, ok := v.(*ssa.UnOp)
			if !ok || ld.Op != token.MUL {
				return false
			}
			f := core.FieldOf(ld.X)
			return f != nil && f.Name() == name
		}
	}
	tables := []tbl{
		{"interpreter/variable", "doAssign", assignDispatchSpec, func(fn *ssa.Function) func(ssa.Value) bool {
			return func(v ssa.Value) bool { p, ok := v.(*ssa.Parameter); return ok && p.Name() == "operator" }
		}, []string{"interpreter/assign"}},
		{"interpreter", "Interpreter.ProcessInfixExpression", infixDispatchSpec, func(fn *ssa.Function) func(ssa.Value) bool { return isLoadOfField("Operator") }, []string{"interpreter/operator"}},
	}
	for _, t := range tables {
		fn := prog.SSAFunc(t.rel, t.fn)
		if fn == nil {
			c.MissingAnchor("ops.dispatch", t.rel+"."+t.fn)
			continue
		}
		c.Func(core.FnName(fn))
		got := stringSwitch(fn, t.tag(fn), t.pkgs...)
		var ops []string
		for op := range t.spec {
			ops = append(ops, op)
		}
		for op := range got {
			if _, ok := t.spec[op]; !ok {
				ops = append(ops, op)
			}
		}
		sort.Strings(ops)
		for _, op := range ops {
			key := t.fn + "|" + op
			want := t.spec[op]
			g := ""
			if got[op] != nil {
				g = strings.Join(got[op].callees, ",")
			}
			if t.fn != "doAssign" && op == "default" {
				if g == "" {
					continue
				}
			}
			switch {
			case want == "":
				c.Report("ops.dispatch", key, fn.Pos(), fmt.Sprintf("%s dispatches an operator %q that VCL does not define (to %s)", t.fn, op, g))
			case g == want:
				c.Discharge("ops.dispatch", key, fn.Pos(), op+" -> "+want)
				// operand order
				for _, call := range got[op].calls {
					args := call.Common().Args
					if len(args) < 2 {
						continue
					}
					l, r := args[len(args)-2], args[len(args)-1]
					if why := operandOrder(fn, l, r); why != "" {
						c.Report("ops.dispatch", key+"|operands", call.Pos(), fmt.Sprintf("%s calls %s with its operands out of order: %s", t.fn, want, why))
					} else {
						c.Discharge("ops.dispatch", key+"|operands", call.Pos(), "left, right")
					}
				}
			default:
				c.Report("ops.dispatch", key, fn.Pos(), fmt.Sprintf("%s dispatches %q to %s, VCL semantics require %s", t.fn, op, orNone(g), want))
			}
		}
	}
	c.Floor("ops.dispatch", 45)

	// switch case test: `~` -> Regex, otherwise Equal, on (control, case value)
	if fn := prog.SSAFunc("interpreter", "Interpreter.ProcessCaseStatement"); fn != nil {
		got := stringSwitch(fn, isLoadOfField("Operator"), "interpreter/operator")
		g1, g2 := "", ""
		if got["~"] != nil {
			g1 = strings.Join(got["~"].callees, ",")
		}
		if got["default"] != nil {
			g2 = strings.Join(got["default"].callees, ",")
		}
		if g1 == "Regex" && g2 == "Equal" {
			c.Discharge("ops.dispatch", "ProcessCaseStatement|test", fn.Pos(), "~ -> Regex, otherwise Equal")
		} else {
			c.Report("ops.dispatch", "ProcessCaseStatement|test", fn.Pos(), fmt.Sprintf("a switch case is tested with %s for `~` and %s otherwise (expected Regex / Equal)", orNone(g1), orNone(g2)))
		}
		for _, ai := range got {
			for _, call := range ai.calls {
				args := call.Common().Args
				l, r := args[len(args)-2], args[len(args)-1]
				p, isP := l.(*ssa.Parameter)
				fromRight := false
				for x := range core.BackSlice(r) {
					if f := core.FieldOf(x); f != nil && f.Name() == "Right" {
						fromRight = true
					}
				}
				key := "ProcessCaseStatement|operands|" + call.Common().StaticCallee().Name()
				if isP && p.Name() == "control" && fromRight {
					c.Discharge("ops.dispatch", key, call.Pos(), "control, case value")
				} else {
					c.Report("ops.dispatch", key, call.Pos(), "the switch case test does not compare (control value, case value) in that order")
				}
			}
		}
	} else {
		c.MissingAnchor("ops.dispatch", "Interpreter.ProcessCaseStatement")
	}
}

func orNone(s string) string {
	if s == "" {
		return "nothing"
	}
	return s
}

// operandOrder: in a function that evaluates exp.Left / exp.Right (or receives left/right parameters), the two call
// arguments must derive from Left then Right.
func operandOrder(fn *ssa.Function, l, r ssa.Value) string {
	side := func(v ssa.Value) string {
		if p, ok := v.(*ssa.Parameter); ok {
			return p.Name()
		}
		s := ""
		for x := range core.BackSliceLocal(v) {
			if f := core.FieldOf(x); f != nil && (f.Name() == "Left" || f.Name() == "Right") {
				if s != "" && s != strings.ToLower(f.Name()) {
					return "both"
				}
				s = strings.ToLower(f.Name())
			}
			if p, ok := x.(*ssa.Parameter); ok && (p.Name() == "left" || p.Name() == "right") {
				s = p.Name()
			}
		}
		return s
	}
	ls, rs := side(l), side(r)
	if ls == "left" && rs == "right" {
		return ""
	}
	return fmt.Sprintf("first operand derives from %q, second from %q", ls, rs)
}

// ---------- ops.kernel / ops.sibling / ops.notset (typed syntax)

type sideInfo struct {
	side map[types.Object]string // "L" / "R"
	info *types.Info
}

func (s *sideInfo) of(e ast.Expr) string {
	out := ""
	ast.Inspect(e, func(n ast.Node) bool {
		id, ok := n.(*ast.Ident)
		if !ok {
			return true
		}
		if sd := s.side[s.info.Uses[id]]; sd != "" {
			if out == "" {
				out = sd
			} else if out != sd {
				out = "LR"
			}
		}
		return true
	})
	return out
}

func newSideInfo(pk *packages.Package, fd *ast.FuncDecl) *sideInfo {
	s := &sideInfo{side: map[types.Object]string{}, info: pk.TypesInfo}
	// the last two parameters of interface type value.Value are left, right
	var vals []types.Object
	for _, f := range fd.Type.Params.List {
		for _, n := range f.Names {
			obj := pk.TypesInfo.Defs[n]
			if obj != nil && core.NamedTypeName(obj.Type()) == "Value" {
				vals = append(vals, obj)
			}
		}
	}
	if len(vals) < 2 {
		return nil
	}
	s.side[vals[len(vals)-2]] = "L"
	s.side[vals[len(vals)-1]] = "R"
	for changed := true; changed; {
		changed = false
		ast.Inspect(fd.Body, func(n ast.Node) bool {
			as, ok := n.(*ast.AssignStmt)
			if ok && len(as.Rhs) == 1 && len(as.Lhs) > 1 {
				// lv, rv, err := helper(left, right, …): the results of a helper of the same package carry the side of the
				// parameter they are returned from
				if call, isCall := as.Rhs[0].(*ast.CallExpr); isCall {
					for i, sd := range s.calleeResultSides(pk, call) {
						if i >= len(as.Lhs) || sd == "" {
							continue
						}
						if id, isID := as.Lhs[i].(*ast.Ident); isID {
							obj := pk.TypesInfo.Defs[id]
							if obj == nil {
								obj = pk.TypesInfo.Uses[id]
							}
							if obj != nil && s.side[obj] == "" {
								s.side[obj] = sd
								changed = true
							}
						}
					}
				}
				return true
			}
			if !ok || len(as.Lhs) != len(as.Rhs) {
				return true
			}
			for i, lhs := range as.Lhs {
				id, ok := lhs.(*ast.Ident)
				if !ok {
					continue
				}
				obj := pk.TypesInfo.Defs[id]
				if obj == nil {
					obj = pk.TypesInfo.Uses[id]
				}
				if obj == nil || s.side[obj] != "" {
					continue
				}
				if sd := s.of(as.Rhs[i]); sd == "L" || sd == "R" {
					s.side[obj] = sd
					changed = true
				}
			}
			return true
		})
	}
	return s
}

// calleeResultSides: for a call of a function declared in the same package, the side ("L"/"R"/"") each result derives
// from, computed on the callee's body with its parameters bound to the sides of the arguments.
func (s *sideInfo) calleeResultSides(pk *packages.Package, call *ast.CallExpr) []string {
	var fobj types.Object
	switch f := call.Fun.(type) {
	case *ast.Ident:
		fobj = pk.TypesInfo.Uses[f]
	case *ast.SelectorExpr:
		fobj = pk.TypesInfo.Uses[f.Sel]
	}
	if fobj == nil || fobj.Pkg() != pk.Types {
		return nil
	}
	var decl *ast.FuncDecl
	for _, file := range pk.Syntax {
		for _, d := range file.Decls {
			if fd, ok := d.(*ast.FuncDecl); ok && pk.TypesInfo.Defs[fd.Name] == fobj {
				decl = fd
			}
		}
	}
	if decl == nil || decl.Body == nil || decl.Type.Results == nil {
		return nil
	}
	sub := &sideInfo{side: map[types.Object]string{}, info: pk.TypesInfo}
	i := 0
	for _, f := range decl.Type.Params.List {
		for _, n := range f.Names {
			if i < len(call.Args) {
				if sd := s.of(call.Args[i]); sd == "L" || sd == "R" {
					sub.side[pk.TypesInfo.Defs[n]] = sd
				}
			}
			i++
		}
	}
	var named []types.Object
	nres := 0
	for _, f := range decl.Type.Results.List {
		if len(f.Names) == 0 {
			nres++
		}
		for _, n := range f.Names {
			named = append(named, pk.TypesInfo.Defs[n])
			nres++
		}
	}
	for changed := true; changed; {
		changed = false
		ast.Inspect(decl.Body, func(n ast.Node) bool {
			as, ok := n.(*ast.AssignStmt)
			if !ok || len(as.Lhs) != len(as.Rhs) {
				return true
			}
			for i, lhs := range as.Lhs {
				id, ok := lhs.(*ast.Ident)
				if !ok {
					continue
				}
				obj := pk.TypesInfo.Defs[id]
				if obj == nil {
					obj = pk.TypesInfo.Uses[id]
				}
				if obj == nil || sub.side[obj] != "" {
					continue
				}
				if sd := sub.of(as.Rhs[i]); sd == "L" || sd == "R" {
					sub.side[obj] = sd
					changed = true
				}
			}
			return true
		})
	}
	out := make([]string, nres)
	ast.Inspect(decl.Body, func(n ast.Node) bool {
		if _, isLit := n.(*ast.FuncLit); isLit {
			return false
		}
		rs, ok := n.(*ast.ReturnStmt)
		if !ok {
			return true
		}
		if len(rs.Results) == nres {
			for i, e := range rs.Results {
				if sd := sub.of(e); (sd == "L" || sd == "R") && out[i] == "" {
					out[i] = sd
				}
			}
		} else if len(rs.Results) == 0 {
			for i, o := range named {
				if sd := sub.side[o]; sd != "" && out[i] == "" {
					out[i] = sd
				}
			}
		}
		return true
	})
	return out
}

// render prints e with side-carrying identifiers replaced by side and type, so siblings can be compared up to renaming.
func (s *sideInfo) render(e ast.Expr, swap bool) string {
	switch t := e.(type) {
	case *ast.Ident:
		if obj := s.info.Uses[t]; obj != nil && s.side[obj] != "" {
			sd := s.side[obj]
			if swap {
				sd = map[string]string{"L": "R", "R": "L"}[sd]
			}
			return sd + ":" + types.TypeString(obj.Type(), func(p *types.Package) string { return p.Name() })
		}
		return t.Name
	case *ast.SelectorExpr:
		return s.render(t.X, swap) + "." + t.Sel.Name
	case *ast.CallExpr:
		var as []string
		for _, a := range t.Args {
			as = append(as, s.render(a, swap))
		}
		return s.render(t.Fun, swap) + "(" + strings.Join(as, ",") + ")"
	case *ast.BinaryExpr:
		return "(" + s.render(t.X, swap) + " " + t.Op.String() + " " + s.render(t.Y, swap) + ")"
	case *ast.UnaryExpr:
		return t.Op.String() + s.render(t.X, swap)
	case *ast.ParenExpr:
		return s.render(t.X, swap)
	case *ast.BasicLit:
		return t.Value
	case *ast.StarExpr:
		return "*" + s.render(t.X, swap)
	case *ast.IndexExpr:
		return s.render(t.X, swap) + "[" + s.render(t.Index, swap) + "]"
	}
	return types.ExprString(e)
}

type combine struct {
	pos      token.Pos
	op       token.Token
	leftSide string // side of the first operand
	x, y     ast.Expr
	cell     string
	how      string
}

// combines lists the expressions of fd that combine an L-derived with an R-derived operand.
func combines(pk *packages.Package, fd *ast.FuncDecl, s *sideInfo) []combine {
	var out []combine
	// cell = enclosing case constants of switches over left.Type()/right.Type()
	var stack []ast.Node
	cellOf := func() string {
		l, r := "*", "*"
		for i := 0; i < len(stack); i++ {
			cc, ok := stack[i].(*ast.CaseClause)
			if !ok || i < 2 {
				continue
			}
			sw, ok := stack[i-2].(*ast.SwitchStmt)
			if !ok || sw.Tag == nil {
				continue
			}
			call, ok := sw.Tag.(*ast.CallExpr)
			if !ok {
				continue
			}
			sel, ok := call.Fun.(*ast.SelectorExpr)
			if !ok || sel.Sel.Name != "Type" {
				continue
			}
			var names []string
			for _, e := range cc.List {
				names = append(names, strings.TrimSuffix(types.ExprString(e), "Type"))
			}
			if cc.List == nil {
				names = []string{"default"}
			}
			switch s.of(sel.X) {
			case "L":
				l = strings.Join(names, "+")
			case "R":
				r = strings.Join(names, "+")
			}
		}
		return l + "/" + r
	}
	isZero := func(e ast.Expr) bool {
		bl, ok := e.(*ast.BasicLit)
		return ok && bl.Value == "0"
	}
	ast.Inspect(fd.Body, func(n ast.Node) bool {
		if n == nil {
			stack = stack[:len(stack)-1]
			return true
		}
		stack = append(stack, n)
		switch t := n.(type) {
		case *ast.BinaryExpr:
			xs, ys := s.of(t.X), s.of(t.Y)
			if (xs == "L" && ys == "R") || (xs == "R" && ys == "L") {
				out = append(out, combine{pos: t.OpPos, op: t.Op, leftSide: xs, x: t.X, y: t.Y, cell: cellOf(), how: "binary"})
				return true
			}
			// a.Compare(b) <op> 0
			for _, pr := range [][2]ast.Expr{{t.X, t.Y}, {t.Y, t.X}} {
				call, ok := pr[0].(*ast.CallExpr)
				if !ok || !isZero(pr[1]) || len(call.Args) != 1 {
					continue
				}
				sel, ok := call.Fun.(*ast.SelectorExpr)
				if !ok || sel.Sel.Name != "Compare" {
					continue
				}
				rs, as := s.of(sel.X), s.of(call.Args[0])
				if (rs == "L" && as == "R") || (rs == "R" && as == "L") {
					op := t.Op
					if pr[0] == t.Y { // 0 <op> a.Compare(b)
						if m, ok := mirrored[op]; ok {
							op = m
						}
					}
					out = append(out, combine{pos: t.OpPos, op: op, leftSide: rs, x: sel.X, y: call.Args[0], cell: cellOf(), how: "Compare"})
				}
			}
		case *ast.AssignStmt:
			if op, ok := opAssign[t.Tok]; ok && len(t.Lhs) == 1 {
				xs, ys := s.of(t.Lhs[0]), s.of(t.Rhs[0])
				if (xs == "L" && ys == "R") || (xs == "R" && ys == "L") {
					out = append(out, combine{pos: t.TokPos, op: op, leftSide: xs, x: t.Lhs[0], y: t.Rhs[0], cell: cellOf(), how: "op-assign"})
				}
			}
		case *ast.CallExpr:
			// a.M(b) for the library methods that are themselves operators
			sel, ok := t.Fun.(*ast.SelectorExpr)
			if !ok {
				return true
			}
			var op token.Token
			switch sel.Sel.Name {
			case "Equal":
				op = token.EQL
			case "Add":
				op = token.ADD
			case "Sub":
				op = token.SUB
			case "Mod":
				op = token.REM
			default:
				return true
			}
			if sel.Sel.Name == "Mod" && len(t.Args) == 2 { // math.Mod(a, b)
				xs, ys := s.of(t.Args[0]), s.of(t.Args[1])
				if (xs == "L" && ys == "R") || (xs == "R" && ys == "L") {
					out = append(out, combine{pos: t.Lparen, op: op, leftSide: xs, x: t.Args[0], y: t.Args[1], cell: cellOf(), how: "math.Mod"})
				}
				return true
			}
			if len(t.Args) != 1 {
				return true
			}
			rs, as := s.of(sel.X), s.of(t.Args[0])
			if (rs == "L" && as == "R") || (rs == "R" && as == "L") {
				arg := t.Args[0]
				if u, ok := arg.(*ast.UnaryExpr); ok && u.Op == token.SUB && op == token.ADD {
					op = token.SUB // a.Add(-b)
				}
				out = append(out, combine{pos: t.Lparen, op: op, leftSide: rs, x: sel.X, y: arg, cell: cellOf(), how: "method " + sel.Sel.Name})
			}
		}
		return true
	})
	return out
}

// tagOnly: the operand values occur in e only as receivers of Type()/IsLiteral() calls.
func (s *sideInfo) tagOnly(e ast.Expr) bool {
	ok := true
	ast.Inspect(e, func(n ast.Node) bool {
		switch t := n.(type) {
		case *ast.CallExpr:
			if sel, isSel := t.Fun.(*ast.SelectorExpr); isSel && len(t.Args) == 0 && (sel.Sel.Name == "Type" || sel.Sel.Name == "IsLiteral") {
				return false
			}
		case *ast.Ident:
			if s.side[s.info.Uses[t]] != "" {
				ok = false
			}
		}
		return true
	})
	return ok
}

func checkKernels(c *core.Ctx) {
	prog := c.Prog
	type cellMap map[string][]string
	sib := map[string]cellMap{}
	sibDual := map[string]cellMap{}
	sibPos := map[string]token.Pos{}
	n := 0
	for _, rel := range []string{"interpreter/assign", "interpreter/operator"} {
		pk := prog.Pkg(rel)
		if pk == nil {
			c.MissingAnchor("ops.kernel", "package "+rel)
			continue
		}
		var names []string
		for fnName := range kernelSpec[rel] {
			names = append(names, fnName)
		}
		sort.Strings(names)
		for _, fnName := range names {
			want := kernelSpec[rel][fnName]
			_, fd := prog.FindFunc(rel, fnName)
			if fd == nil || fd.Body == nil {
				c.MissingAnchor("ops.kernel", rel+"."+fnName)
				continue
			}
			c.Func(rel + "." + fnName)
			s := newSideInfo(pk, fd)
			if s == nil {
				c.MissingAnchor("ops.kernel", rel+"."+fnName+": left/right parameters")
				continue
			}
			cs := combines(pk, fd, s)
			if len(cs) == 0 {
				c.Report("ops.kernel", fnName+"|none", fd.Pos(), fmt.Sprintf("%s never combines its left and right operand with %s", fnName, want))
				continue
			}
			ord := map[string]int{}
			for _, cb := range cs {
				// boolean plumbing of saturation/not-a-number flags and type-tag comparisons are not value kernels
				if (cb.op == token.LOR || cb.op == token.LAND) && want != token.LOR && want != token.LAND {
					continue
				}
				if s.tagOnly(cb.x) && s.tagOnly(cb.y) {
					continue
				}
				n++
				ord[cb.cell]++
				key := fmt.Sprintf("%s|%s#%d", fnName, cb.cell, ord[cb.cell])
				op, ls := cb.op, cb.leftSide
				if ls == "R" {
					if m, ok := mirrored[op]; ok {
						op, ls = m, "L"
					} else if commutative[op] {
						ls = "L"
					}
				}
				switch {
				case op == want && ls == "L":
					c.Discharge("ops.kernel", key, cb.pos, fmt.Sprintf("%s: left %s right (%s)", cb.cell, want, cb.how))
				case op == want:
					c.Report("ops.kernel", key, cb.pos, fmt.Sprintf("%s computes right %s left in the %s cell: the operands of a non-commutative operator are swapped", fnName, want, cb.cell))
				default:
					c.Report("ops.kernel", key, cb.pos, fmt.Sprintf("%s combines its operands with %q in the %s cell, the operator it implements is %q", fnName, cb.op, cb.cell, want))
				}
				if _, isOrd := mirrored[want]; isOrd {
					if sib[fnName] == nil {
						sib[fnName], sibDual[fnName] = cellMap{}, cellMap{}
						sibPos[fnName] = fd.Pos()
					}
					sib[fnName][cb.cell] = append(sib[fnName][cb.cell], s.render(cb.x, false)+" ⋈ "+s.render(cb.y, false))
					parts := strings.SplitN(cb.cell, "/", 2)
					sibDual[fnName][parts[1]+"/"+parts[0]] = append(sibDual[fnName][parts[1]+"/"+parts[0]], s.render(cb.y, true)+" ⋈ "+s.render(cb.x, true))
				}
			}
		}
	}
	c.Floor("ops.kernel", 120)

	// siblings: same cells, same conversions
	ref := "GreaterThan"
	for _, other := range []string{"LessThan", "GreaterThanEqual", "LessThanEqual"} {
		if sib[ref] == nil || sib[other] == nil {
			c.MissingAnchor("ops.sibling", ref+"/"+other)
			continue
		}
		cells := map[string]bool{}
		for k := range sib[ref] {
			cells[k] = true
		}
		for k := range sib[other] {
			cells[k] = true
		}
		var ks []string
		for k := range cells {
			ks = append(ks, k)
		}
		sort.Strings(ks)
		for _, k := range ks {
			a, b := strings.Join(sib[ref][k], " ; "), strings.Join(sib[other][k], " ; ")
			key := fmt.Sprintf("%s~%s|%s", ref, other, k)
			if a == b {
				c.Discharge("ops.sibling", key, sibPos[other], a)
			} else {
				c.Report("ops.sibling", key, sibPos[other], fmt.Sprintf("%s and %s disagree in the %s cell: %s compares {%s}, %s compares {%s}; the ordering operators must treat the same operand types alike", ref, other, k, ref, a, other, b))
			}
		}
	}
	// duality: a < b exactly when b > a
	for _, pr := range [][2]string{{"GreaterThan", "LessThan"}, {"GreaterThanEqual", "LessThanEqual"}} {
		a, b := sib[pr[0]], sibDual[pr[1]]
		if a == nil || b == nil {
			continue
		}
		var ks []string
		for k := range a {
			if _, ok := b[k]; ok {
				ks = append(ks, k)
			}
		}
		sort.Strings(ks)
		for _, k := range ks {
			x, y := strings.Join(a[k], " ; "), strings.Join(b[k], " ; ")
			key := fmt.Sprintf("%s/%s|dual|%s", pr[0], pr[1], k)
			if x == y {
				c.Discharge("ops.sibling", key, sibPos[pr[1]], "mirror image: "+x)
			} else {
				c.Report("ops.sibling", key, sibPos[pr[1]], fmt.Sprintf("`a %s b` and `b %s a` convert their operands differently for types %s: {%s} vs mirrored {%s}; the duality law fails for these types", map[string]string{"GreaterThan": ">", "GreaterThanEqual": ">="}[pr[0]], map[string]string{"LessThan": "<", "LessThanEqual": "<="}[pr[1]], k, x, y))
			}
		}
	}
	c.Floor("ops.sibling", 30)

	// not-set handling in equality and truthiness
	if pk := prog.Pkg("interpreter/operator"); pk != nil {
		for _, fnName := range []string{"Equal", "LogicalAnd", "LogicalOr"} {
			_, fd := prog.FindFunc("interpreter/operator", fnName)
			if fd == nil {
				continue
			}
			s := newSideInfo(pk, fd)
			seen := map[string]bool{}
			ast.Inspect(fd.Body, func(n ast.Node) bool {
				sel, ok := n.(*ast.SelectorExpr)
				if ok && sel.Sel.Name == "IsNotSet" {
					if tv, ok := pk.TypesInfo.Types[sel.X]; ok && core.NamedTypeName(tv.Type) == "String" {
						seen[s.of(sel.X)] = true
					}
				}
				return true
			})
			if seen["L"] && seen["R"] {
				c.Discharge("ops.notset", fnName, fd.Pos(), "the not-set flag of both string operands is consulted")
			} else {
				c.Report("ops.notset", fnName, fd.Pos(), fmt.Sprintf("%s does not consult String.IsNotSet of both operands: a not-set string would compare/evaluate like the empty string", fnName))
			}
		}
	}
	_ = n
	checkLocalNotSet(c)
}

// checkLocalNotSet (ops.notset): "a not-set string reads as empty once assigned to a local" - LocalVariables.Set clears
// String.IsNotSet of the assigned local after every successful assignment: the store exists and is controlled only by
// the success of the assignment and by the local being a STRING, never by the operator or the assigned value.
func checkLocalNotSet(c *core.Ctx) {
	prog := c.Prog
	fn := prog.SSAFunc("interpreter/variable", "LocalVariables.Set")
	if fn == nil {
		c.MissingAnchor("ops.notset", "interpreter/variable.(LocalVariables).Set")
		return
	}
	cd := core.NewCtrlDeps(fn)
	found := false
	for _, b := range fn.Blocks {
		for _, in := range b.Instrs {
			st, ok := in.(*ssa.Store)
			if !ok {
				continue
			}
			f := core.FieldOf(st.Addr)
			if f == nil || f.Name() != "IsNotSet" {
				continue
			}
			if k, ok := st.Val.(*ssa.Const); !ok || k.Value == nil || constant.BoolVal(k.Value) {
				continue
			}
			found = true
			var culprit string
			for _, e := range cd.Transitive(b) {
				cond := core.BranchCond(e.From)
				if cond == nil {
					continue
				}
				// the condition's own operands, not looking into calls (the error of doAssign is the success test)
				seen := map[ssa.Value]bool{}
				var walk func(x ssa.Value)
				walk = func(x ssa.Value) {
					if seen[x] {
						return
					}
					seen[x] = true
					if p, ok := x.(*ssa.Parameter); ok && (p.Name() == "operator" || p.Name() == "val") {
						culprit = p.Name()
					}
					if _, isCall := x.(ssa.CallInstruction); isCall {
						return
					}
					if in, ok := x.(ssa.Instruction); ok {
						for _, op := range in.Operands(nil) {
							if *op != nil {
								walk(*op)
							}
						}
					}
				}
				walk(cond)
			}
			key := "LocalVariables.Set|clear"
			if culprit == "" {
				c.Discharge("ops.notset", key, st.Pos(), "the not-set flag of a STRING local is cleared after every successful assignment, whatever the operator and value")
			} else {
				c.Report("ops.notset", key, st.Pos(), fmt.Sprintf("LocalVariables.Set clears the not-set flag of a STRING local only under a condition on %q: after some assignments the local holds text but still reads as not set (falsy, equal to nothing, not-set when copied to a header)", culprit))
			}
		}
	}
	if !found {
		c.Report("ops.notset", "LocalVariables.Set|clear", fn.Pos(), "LocalVariables.Set never clears String.IsNotSet: a local assigned from a not-set value stays not set instead of reading as empty")
	}
}

// ---------- ops.negate
func checkNegations(c *core.Ctx) {
	prog := c.Prog
	for _, pr := range [][2]string{{"NotEqual", "Equal"}, {"NotRegex", "Regex"}} {
		fn := prog.SSAFunc("interpreter/operator", pr[0])
		pos := prog.SSAFunc("interpreter/operator", pr[1])
		if fn == nil || pos == nil {
			c.MissingAnchor("ops.negate", "operator."+pr[0])
			continue
		}
		var call *ssa.Call
		for _, b := range fn.Blocks {
			for _, in := range b.Instrs {
				if cl, ok := in.(*ssa.Call); ok && cl.Common().StaticCallee() == pos {
					call = cl
				}
			}
		}
		key := pr[0]
		if call == nil {
			c.Report("ops.negate", key, fn.Pos(), fmt.Sprintf("%s is not defined through %s: the two can drift apart", pr[0], pr[1]))
			continue
		}
		same := len(call.Common().Args) == len(fn.Params)
		for i := range call.Common().Args {
			if same && call.Common().Args[i] != ssa.Value(fn.Params[i]) {
				same = false
			}
		}
		// every successful return carries the negation of the positive result
		neg := true
		nret := 0
		for _, rs := range core.ReturnSites(fn) {
			if !core.IsNilConst(rs.Results[1]) {
				continue
			}
			nret++
			found := false
			for x := range core.BackSlice(rs.Results[0]) {
				if al, ok := x.(*ssa.Alloc); ok && al.Referrers() != nil {
					for _, r := range *al.Referrers() {
						fa, ok := r.(*ssa.FieldAddr)
						if !ok || fa.Referrers() == nil {
							continue
						}
						for _, rr := range *fa.Referrers() {
							if st, ok := rr.(*ssa.Store); ok {
								if u, ok := st.Val.(*ssa.UnOp); ok && u.Op == token.NOT && core.BackSlice(u.X)[call] {
									found = true
								}
							}
						}
					}
				}
			}
			if !found {
				neg = false
			}
		}
		if same && neg && nret > 0 {
			c.Discharge("ops.negate", key, fn.Pos(), fmt.Sprintf("%s(l, r) = !%s(l, r)", pr[0], pr[1]))
		} else {
			c.Report("ops.negate", key, fn.Pos(), fmt.Sprintf("%s does not return the negation of %s on the same operands in the same order (same operands: %v, negated: %v)", pr[0], pr[1], same, neg && nret > 0))
		}
	}
}
