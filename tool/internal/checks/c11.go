package checks

import (
	"fmt"
	"go/constant"
	"go/token"
	"go/types"
	"sort"
	"strings"

	"fv/internal/core"

	"golang.org/x/tools/go/ssa"
)

// C11 — linting is total and deterministic.
func init() {
	register(&Check{ID: "C11", NeedSSA: true, Run: runC11})
}

func runC11(c *core.Ctx) {
	c.Explanation = "Structural necessary conditions of total, deterministic linting, decided on SSA of linter/**: (lint.recursion) every recursion of the linter is structurally descending on the syntax tree or guarded by a depth/visited bound (E9: call-graph SCCs, edges classified descending/same/re-entry, guards recognised by dominance) — include expansion is the re-entry edge that needs a visited set; (lint.optnil) fields the grammar leaves nil are tested before being dereferenced (E2); (lint.hoist) in lintVCL the registration of root declarations dominates the linting of any body, and include expansion dominates the registration; (lint.maporder) no range over a map in the linter leaves its loop early (break/return inside the body), the shape that makes *which* diagnostics are produced depend on Go's randomised map order; (lint.monotone) the scope-inference fixed point only ORs bits into subroutine scope masks, so its result is independent of iteration order. A map created outside a map-range loop that is both consulted for a branch and updated inside the loop (directly or in closures created there) is reported: the outcome for one entry then depends on the entries visited before it. (lint.fixpoint) in a `for changed { changed = false … }` loop every update of heap state reaches the next iteration only over an edge that sets the flag, so the loop cannot stop before the fixed point at a place that depends on map order; (lint.lastwins) a table keyed by a declaration name and filled in a loop merges with, or tests for, the entry already stored under the name; (lint.scopeentry) every function of linter/context that enters a subroutine scope (stores curMode from a parameter) calls the same per-subroutine reset methods as its siblings. (lint.mapderef) a context table entry is read without comma-ok only when its registrar cannot fail without leaving an entry."
	c.NotCovered = []string{"diagnostic text that embeds a value computed in map order", "equality of messages across runs beyond these shape arguments", "stack depth of descending recursion on pathologically deep trees"}
	prog := c.Prog
	u := newAstUniverse(prog)
	if u == nil {
		c.MissingAnchor("lint", "package ast")
		return
	}
	lfuncs := prog.ModuleFuncs("linter")
	for _, f := range lfuncs {
		c.Func(core.FnName(f))
	}

	// ---- recursion
	ra := newRecAnalysis(prog, "linter", "resolver")
	checkRecursion(c, "lint.recursion", ra)
	c.Floor("lint.recursion", 3)

	// ---- optnil
	checkOptNil(c, "lint.optnil", u, lfuncs)
	checkFixpointLoops(c, lfuncs)
	checkLastWriterWins(c, lfuncs)
	c.Floor("lint.optnil", 20)
	checkMapDeref(c, lfuncs)

	// ---- hoist
	lv := prog.SSAFunc("linter", "Linter.lintVCL")
	if lv == nil {
		c.MissingAnchor("lint.hoist", "linter.(*Linter).lintVCL")
	} else {
		var resolve, factory, lintStmt []ssa.Instruction
		for _, b := range lv.Blocks {
			for _, in := range b.Instrs {
				cal := core.StaticCallee(in)
				if cal == nil {
					continue
				}
				switch cal.Name() {
				case "resolveIncludeStatements":
					resolve = append(resolve, in)
				case "factoryRootDeclarations":
					factory = append(factory, in)
				case "lintStatement", "lint":
					lintStmt = append(lintStmt, in)
				}
			}
		}
		if len(factory) == 0 || len(lintStmt) == 0 || len(resolve) == 0 {
			c.Report("lint.hoist", "lintVCL|anchors", lv.Pos(), fmt.Sprintf("lintVCL no longer has the three phases include expansion (%d) / root declaration registration (%d) / body linting (%d)", len(resolve), len(factory), len(lintStmt)))
		} else {
			ok := true
			for _, ls := range lintStmt {
				// snippet branch returns before: only statements reachable after the factory call matter
				if !core.InstrDominates(factory[0], ls) {
					if core.Reaches(factory[0].Block(), ls.Block()) || !core.Reaches(ls.Block(), factory[0].Block()) {
						// a lint call that is neither dominated by the registration nor on the separate snippet path
						if core.Reaches(lv.Blocks[0], ls.Block()) && core.Reaches(factory[0].Block(), ls.Block()) {
							ok = false
						}
					}
				}
			}
			dominatedSome := false
			for _, ls := range lintStmt {
				if core.InstrDominates(factory[0], ls) {
					dominatedSome = true
				}
			}
			if ok && dominatedSome && core.InstrDominates(resolve[0], factory[0]) {
				c.Discharge("lint.hoist", "lintVCL", factory[0].Pos(), "include expansion -> registration of root declarations -> linting of bodies, by dominance")
			} else {
				c.Report("lint.hoist", "lintVCL", factory[0].Pos(), "the registration of root declarations (factoryRootDeclarations) does not dominate the linting of statements, or include expansion does not precede it: the diagnostics then depend on declaration order (a subroutine used before its declaration is reported undefined)")
			}
		}
	}

	// ---- maporder
	nMapRanges := 0
	for _, fn := range lfuncs {
		for _, l := range naturalLoops(fn) {
			// map range: header does `next` on a Range over a map
			var rng *ssa.Range
			for _, in := range l.header.Instrs {
				if nx, ok := in.(*ssa.Next); ok {
					if r, ok := nx.Iter.(*ssa.Range); ok {
						if _, isMap := r.X.Type().Underlying().(*types.Map); isMap {
							rng = r
						}
					}
				}
			}
			if rng == nil {
				continue
			}
			nMapRanges++
			key := core.FnName(fn) + "|maprange@" + l.ord
			// exits other than the header's own "done" edge
			early := false
			var where token.Pos
			for b := range l.body {
				if b == l.header {
					continue
				}
				for _, s := range b.Succs {
					if !l.body[s] {
						early = true
						where = firstPos(s)
						if !where.IsValid() {
							where = firstPos(b)
						}
					}
				}
				for _, in := range b.Instrs {
					if _, ok := in.(*ssa.Return); ok {
						early = true
						where = in.Pos()
					}
				}
			}
			// state carried from one entry to the next that is both consulted and updated makes the outcome for an entry
			// depend on which entries came before it
			if cs := carriedTestAndSet(fn, l); cs != "" {
				c.Report("lint.maporder", key+"|carried", firstPos(l.header), "a range over a map in "+core.FnName(fn)+" consults and updates "+cs+", which lives across iterations: what is computed for one entry depends on the entries Go's randomised map order happened to visit before it")
			} else {
				c.Discharge("lint.maporder", key+"|carried", firstPos(l.header), "no map created outside the loop is both tested and updated inside it")
			}
			if !early {
				c.Discharge("lint.maporder", key, firstPos(l.header), "no early exit: every entry is visited, only the order of appends varies")
			} else if isSearchLoop(fn, l) {
				c.Discharge("lint.maporder", key, firstPos(l.header), "early exit of a pure search (the result is a boolean/any-match, the same whichever matching entry is found first)")
			} else {
				c.Report("lint.maporder", key, where, "a range over a map in "+core.FnName(fn)+" leaves the loop early: which entry is handled (and so which diagnostics are produced) depends on Go's randomised map iteration order")
			}
		}
	}
	// ---- scope entry siblings: every way of entering a subroutine scope resets the same per-subroutine state
	{
		type entry struct {
			fn    *ssa.Function
			calls map[string]bool
		}
		var entries []entry
		union := map[string]bool{}
		for _, fn := range prog.ModuleFuncs("linter/context") {
			if fn.Signature.Recv() == nil || core.NamedTypeName(derefType(fn.Signature.Recv().Type())) != "Context" {
				continue
			}
			setsMode := false
			calls := map[string]bool{}
			for _, b := range fn.Blocks {
				for _, in := range b.Instrs {
					if st, ok := in.(*ssa.Store); ok {
						if fa, ok := st.Addr.(*ssa.FieldAddr); ok && core.FieldOf(fa) != nil && core.FieldOf(fa).Name() == "curMode" {
							if _, isP := st.Val.(*ssa.Parameter); isP {
								setsMode = true
							}
						}
					}
					if cal := core.StaticCallee(in); cal != nil && cal.Signature.Recv() != nil && core.NamedTypeName(derefType(cal.Signature.Recv().Type())) == "Context" {
						calls[cal.Name()] = true
					}
				}
			}
			if setsMode {
				entries = append(entries, entry{fn, calls})
				for n := range calls {
					union[n] = true
				}
			}
		}
		if len(entries) < 2 {
			c.MissingAnchor("lint.scopeentry", "linter/context scope entry functions (stores of curMode from a parameter)")
		}
		for _, e := range entries {
			var missing []string
			for n := range union {
				if !e.calls[n] {
					missing = append(missing, n)
				}
			}
			sort.Strings(missing)
			key := core.FnName(e.fn)
			if len(missing) == 0 {
				c.Discharge("lint.scopeentry", key, e.fn.Pos(), "resets the same per-subroutine state as its siblings")
			} else {
				c.Report("lint.scopeentry", key, e.fn.Pos(), fmt.Sprintf("%s enters a subroutine scope without %s, which the other scope entry points call: state of the previously linted subroutine leaks in, so the diagnostics depend on the order of the declarations", key, strings.Join(missing, ", ")))
			}
		}
	}
	c.Extra("map_ranges_in_linter", nMapRanges)
	c.Floor("lint.maporder", 8)

	// ---- monotone
	checkScopeMonotone(c)
}

// isSearchLoop: the early exit returns a constant bool (any-match search): order cannot change the result.
func isSearchLoop(fn *ssa.Function, l loopInfo) bool {
	ok := false
	for b := range l.body {
		for _, in := range b.Instrs {
			if r, isRet := in.(*ssa.Return); isRet {
				if len(r.Results) == 1 {
					if k, isK := r.Results[0].(*ssa.Const); isK && k.Value != nil {
						ok = true
						continue
					}
				}
				return false
			}
		}
		for _, s := range b.Succs {
			if !l.body[s] && b != l.header {
				// break: the block outside must return a constant or fall to a constant return
				okBreak := false
				for _, in := range s.Instrs {
					if r, isRet := in.(*ssa.Return); isRet && len(r.Results) == 1 {
						if _, isK := r.Results[0].(*ssa.Const); isK {
							okBreak = true
						}
					}
				}
				if !okBreak {
					return false
				}
				ok = true
			}
		}
	}
	return ok
}

// checkScopeMonotone: stores to the inferred scope of a subroutine are of the form old | x.
func checkScopeMonotone(c *core.Ctx) {
	fn := c.Prog.SSAFunc("linter", "Linter.inferSubroutineScopes")
	if fn == nil {
		c.MissingAnchor("lint.monotone", "linter.(*Linter).inferSubroutineScopes")
		return
	}
	n := 0
	// blocks inside the fixed-point loop (non-range loops)
	inFix := map[*ssa.BasicBlock]bool{}
	for _, l := range naturalLoops(fn) {
		if isRangeLoop(l.header) {
			continue
		}
		for b := range l.body {
			inFix[b] = true
		}
	}
	for _, f := range append([]*ssa.Function{fn}, fn.AnonFuncs...) {
		for _, b := range f.Blocks {
			if !inFix[b] {
				continue
			}
			for _, in := range b.Instrs {
				st, ok := in.(*ssa.Store)
				if !ok {
					continue
				}
				fa, ok := st.Addr.(*ssa.FieldAddr)
				if !ok || core.FieldOf(fa) == nil {
					continue
				}
				name := core.FieldOf(fa).Name()
				if name != "Scopes" && name != "Scope" && name != "InferredScopes" {
					continue
				}
				n++
				mono := false
				if bo, ok := st.Val.(*ssa.BinOp); ok && bo.Op == token.OR {
					mono = true
				}
				key := "inferSubroutineScopes|store " + name
				if mono {
					c.Discharge("lint.monotone", key, in.Pos(), "old | x")
				} else {
					c.Report("lint.monotone", key, in.Pos(), "scope inference overwrites a subroutine's scope mask instead of OR-ing into it: the fixed point then depends on the order in which callers are visited (map order)")
				}
			}
		}
	}
	// also map updates of a scopes map with an OR value
	for _, f := range append([]*ssa.Function{fn}, fn.AnonFuncs...) {
		for _, b := range f.Blocks {
			for _, in := range b.Instrs {
				mu, ok := in.(*ssa.MapUpdate)
				if !ok {
					continue
				}
				if bt, ok := mu.Value.Type().Underlying().(*types.Basic); !ok || bt.Info()&types.IsInteger == 0 {
					continue
				}
				n++
				key := "inferSubroutineScopes|mapupdate"
				if bo, ok := mu.Value.(*ssa.BinOp); ok && bo.Op == token.OR {
					c.Discharge("lint.monotone", key, in.Pos(), "scopes[name] = old | x")
				} else if _, isConst := mu.Value.(*ssa.Const); isConst {
					c.Discharge("lint.monotone", key+"|init", in.Pos(), "constant initialisation")
				} else if isLoadedOrParam(mu.Value) {
					c.Discharge("lint.monotone", key+"|seed", in.Pos(), "seeded from a declared scope")
				} else {
					c.Report("lint.monotone", key, in.Pos(), "scope inference stores a mask that is not `old | x`: the fixed point depends on visiting order")
				}
			}
		}
	}
	if n == 0 {
		c.Info("inferSubroutineScopes has no recognisable scope-mask store (field Scopes/Scope or integer map update); the monotonicity rule matched nothing")
	}
}

func isLoadedOrParam(v ssa.Value) bool {
	switch v.(type) {
	case *ssa.UnOp, *ssa.Parameter, *ssa.Call, *ssa.Extract, *ssa.Phi, *ssa.Lookup:
		return true
	}
	return false
}

// carriedTestAndSet: a map allocated outside loop l (in fn) that inside the loop body — directly or in closures
// created there — is both looked up to decide a branch and updated. Returns a description or "".
func carriedTestAndSet(fn *ssa.Function, l loopInfo) string {
	isMapT := func(t types.Type) bool { _, ok := t.Underlying().(*types.Map); return ok }
	// candidate roots: map values or cells of map type defined outside the loop body
	outside := func(v ssa.Value) bool {
		in, ok := v.(ssa.Instruction)
		if !ok {
			return false
		}
		return in.Block() != nil && in.Parent() == fn && !l.body[in.Block()]
	}
	type usage struct{ test, update bool }
	use := map[ssa.Value]*usage{}
	note := func(root ssa.Value) *usage {
		if use[root] == nil {
			use[root] = &usage{}
		}
		return use[root]
	}
	// resolve a map-typed value to its root (outside definition), following loads of cells and free variables
	var rootOf func(f *ssa.Function, v ssa.Value, bind map[*ssa.FreeVar]ssa.Value, depth int) ssa.Value
	rootOf = func(f *ssa.Function, v ssa.Value, bind map[*ssa.FreeVar]ssa.Value, depth int) ssa.Value {
		if depth > 6 {
			return nil
		}
		switch t := v.(type) {
		case *ssa.UnOp:
			if t.Op == token.MUL {
				return rootOf(f, t.X, bind, depth+1)
			}
		case *ssa.FreeVar:
			if b, ok := bind[t]; ok {
				return b
			}
		case *ssa.MakeMap, *ssa.Alloc:
			if f == fn && outside(v) {
				return v
			}
		case *ssa.Phi:
			for _, e := range t.Edges {
				if r := rootOf(f, e, bind, depth+1); r != nil {
					return r
				}
			}
		}
		return nil
	}
	var scan func(f *ssa.Function, blocks func(b *ssa.BasicBlock) bool, bind map[*ssa.FreeVar]ssa.Value, depth int)
	scan = func(f *ssa.Function, blocks func(b *ssa.BasicBlock) bool, bind map[*ssa.FreeVar]ssa.Value, depth int) {
		if depth > 4 {
			return
		}
		for _, b := range f.Blocks {
			if !blocks(b) {
				continue
			}
			for _, in := range b.Instrs {
				switch t := in.(type) {
				case *ssa.Lookup:
					if !isMapT(t.X.Type()) {
						continue
					}
					if r := rootOf(f, t.X, bind, 0); r != nil {
						// does the lookup decide a branch?
						decides := false
						var follow func(v ssa.Value, d int)
						follow = func(v ssa.Value, d int) {
							if d > 4 || v.Referrers() == nil {
								return
							}
							for _, ref := range *v.Referrers() {
								switch rt := ref.(type) {
								case *ssa.If:
									decides = true
								case *ssa.Extract:
									follow(rt, d+1)
								case *ssa.UnOp:
									follow(rt, d+1)
								case *ssa.BinOp:
									follow(rt, d+1)
								case *ssa.Phi:
									follow(rt, d+1)
								}
							}
						}
						follow(t, 0)
						if decides {
							note(r).test = true
						}
					}
				case *ssa.MapUpdate:
					if r := rootOf(f, t.Map, bind, 0); r != nil {
						note(r).update = true
					}
				case *ssa.MakeClosure:
					cf := t.Fn.(*ssa.Function)
					nb := map[*ssa.FreeVar]ssa.Value{}
					for i, fv := range cf.FreeVars {
						if i < len(t.Bindings) {
							if r := rootOf(f, t.Bindings[i], bind, 0); r != nil {
								nb[fv] = r
							} else if al, ok := t.Bindings[i].(*ssa.Alloc); ok && f == fn && outside(al) {
								nb[fv] = al
							}
						}
					}
					if len(nb) > 0 {
						scan(cf, func(*ssa.BasicBlock) bool { return true }, nb, depth+1)
					}
				}
			}
		}
	}
	scan(fn, func(b *ssa.BasicBlock) bool { return l.body[b] }, map[*ssa.FreeVar]ssa.Value{}, 0)
	for r, u := range use {
		if u.test && u.update {
			name := r.Name()
			if al, ok := r.(*ssa.Alloc); ok && al.Comment != "" {
				name = al.Comment
			}
			return "the map `" + name + "`"
		}
	}
	return ""
}

// checkFixpointLoops (lint.fixpoint): `for changed { changed = false; … }` iterates to a fixed point only if every
// update of the computed state raises the flag. When an update can reach the end of the iteration without the flag
// being set, the loop may stop before the fixed point, and because such loops range over maps the stopping point -
// and with it the linter's result - depends on Go's map iteration order. Decided per loop whose header branches on a
// bool phi that receives the constant true somewhere in the body: every block of the body that stores through a
// pointer or updates a map (the computed state lives on the heap) reaches the loop header only over an edge that
// carries `true` into the flag.
func checkFixpointLoops(c *core.Ctx, funcs []*ssa.Function) {
	n := 0
	for _, fn := range funcs {
		k := 0
		for _, l := range naturalLoops(fn) {
			iff, ok := l.header.Instrs[len(l.header.Instrs)-1].(*ssa.If)
			if !ok {
				continue
			}
			flag, ok := iff.Cond.(*ssa.Phi)
			if !ok || flag.Block() != l.header {
				continue
			}
			if bt, ok := flag.Type().Underlying().(*types.Basic); !ok || bt.Kind() != types.Bool {
				continue
			}
			// the phi web of the flag inside the loop and the edges that carry the constant true into it
			web := map[*ssa.Phi]bool{flag: true}
			trueEdge := map[[2]*ssa.BasicBlock]bool{}
			for changed := true; changed; {
				changed = false
				for phi := range web {
					for i, e := range phi.Edges {
						pred := phi.Block().Preds[i]
						if !l.body[pred] && pred != l.header {
							continue
						}
						switch t := e.(type) {
						case *ssa.Phi:
							if !web[t] && (l.body[t.Block()] || t.Block() == l.header) {
								web[t] = true
								changed = true
							}
						case *ssa.Const:
							if t.Value != nil && constant.BoolVal(t.Value) {
								trueEdge[[2]*ssa.BasicBlock{pred, phi.Block()}] = true
							}
						}
					}
				}
			}
			if len(trueEdge) == 0 {
				continue // not a raise-the-flag loop
			}
			k++
			// heap updates in the body
			for b := range l.body {
				updates := false
				for _, in := range b.Instrs {
					switch t := in.(type) {
					case *ssa.MapUpdate:
						updates = true
					case *ssa.Store:
						root, path := chainOf(t.Addr)
						if _, isAlloc := root.(*ssa.Alloc); isAlloc && len(path) == 0 {
							continue
						}
						if _, isAlloc := root.(*ssa.Alloc); isAlloc {
							if al := root.(*ssa.Alloc); !al.Heap {
								continue
							}
						}
						updates = true
					}
				}
				if !updates {
					continue
				}
				n++
				key := fmt.Sprintf("%s|fixpoint loop#%d|%s", core.FnName(fn), k, b.Comment+fmt.Sprint(len(b.Preds)))
				// can b reach the header without crossing a true-edge?
				seen := map[*ssa.BasicBlock]bool{b: true}
				stack := []*ssa.BasicBlock{b}
				escapes := false
				for len(stack) > 0 && !escapes {
					x := stack[len(stack)-1]
					stack = stack[:len(stack)-1]
					for _, s := range x.Succs {
						if trueEdge[[2]*ssa.BasicBlock{x, s}] {
							continue
						}
						if s == l.header {
							escapes = true
							break
						}
						if l.body[s] && !seen[s] {
							seen[s] = true
							stack = append(stack, s)
						}
					}
				}
				var pos token.Pos
				for _, in := range b.Instrs {
					if in.Pos() != token.NoPos {
						pos = in.Pos()
					}
				}
				if escapes {
					c.Report("lint.fixpoint", key, pos, fmt.Sprintf("%s updates the state its fixed-point loop computes and can finish the iteration without raising the loop's flag: the loop may stop before the fixed point, and since it ranges over a map where it stops depends on the map's iteration order - the same program gets different diagnostics from run to run", core.FnName(fn)))
				} else {
					c.Discharge("lint.fixpoint", key, pos, "every path from this update to the next iteration raises the flag")
				}
			}
		}
	}
	c.Floor("lint.fixpoint", 1)
}

// checkLastWriterWins (lint.lastwins): a table filled in a loop over the declarations and keyed by a declaration's name
// keeps, for a name declared twice, whatever the last declaration wrote - unless the value merges what was there
// (it depends on a lookup of the same map) or a lookup of the map for that key guards the update (duplicate check).
// Which declaration is last is exactly what permuting the declarations changes.
func checkLastWriterWins(c *core.Ctx, funcs []*ssa.Function) {
	n := 0
	for _, fn := range funcs {
		loops := naturalLoops(fn)
		k := 0
		for _, b := range fn.Blocks {
			inLoop := false
			for _, l := range loops {
				if l.body[b] {
					inLoop = true
				}
			}
			if !inLoop {
				continue
			}
			for _, in := range b.Instrs {
				mu, ok := in.(*ssa.MapUpdate)
				if !ok {
					continue
				}
				// key: the Value of a Name / Ident of a declaration
				isDeclName := false
				for x := range core.BackSlice(mu.Key) {
					if f := core.FieldOf(x); f != nil && f.Name() == "Value" && strings.HasSuffix(core.FieldOwner(x), "/ast.Ident") {
						isDeclName = true
					}
				}
				if !isDeclName {
					continue
				}
				// a set (struct{} / constant members) is the same whoever writes last
				if st, ok := mu.Value.Type().Underlying().(*types.Struct); ok && st.NumFields() == 0 {
					continue
				}
				if _, isConst := mu.Value.(*ssa.Const); isConst {
					continue
				}
				n++
				k++
				key := fmt.Sprintf("%s|map update#%d", core.FnName(fn), k)
				merged, guarded := false, false
				for x := range core.BackSlice(mu.Value) {
					if lk, ok := x.(*ssa.Lookup); ok && sameBaseValue(lk.X, mu.Map) {
						merged = true
					}
				}
				// a lookup of the same map controls the update
				cd := core.NewCtrlDeps(fn)
				for _, e := range cd.Transitive(b) {
					cond := core.BranchCond(e.From)
					if cond == nil {
						continue
					}
					for x := range core.BackSlice(cond) {
						if lk, ok := x.(*ssa.Lookup); ok && (lk.X == mu.Map || sameBaseValue(lk.X, mu.Map)) {
							guarded = true
						}
					}
				}
				switch {
				case merged:
					c.Discharge("lint.lastwins", key, in.Pos(), "the new entry is built from the entry already stored for the name")
				case guarded:
					c.Discharge("lint.lastwins", key, in.Pos(), "the update is controlled by a lookup of the same table (duplicate check)")
				default:
					c.Report("lint.lastwins", key, in.Pos(), fmt.Sprintf("%s stores an entry keyed by a declaration's name inside a loop, neither merging with nor testing for an entry already stored under that name: for a name declared twice the last declaration wins, so the result depends on the order of the declarations", core.FnName(fn)))
				}
			}
		}
	}
	c.Floor("lint.lastwins", 1)
}

// checkMapDeref (lint.mapderef): the linter registers every root declaration in a table of the context before it lints
// the bodies, and later reads the table entry of the declaration in hand without a comma-ok test
// (`ctx.Acls[name].IsUsed = true`). That is only safe when the registration cannot fail *without* leaving an entry:
// every error return of the function that fills the table must lie behind the found edge of a lookup in the very same
// table (a duplicate: the first declaration is there). A registrar that also refuses a name for another reason (a
// subroutine named like a built-in function) leaves no entry, the declaration is still linted, and the read
// dereferences nil.
func checkMapDeref(c *core.Ctx, lfuncs []*ssa.Function) {
	prog := c.Prog
	ctxType := core.ModPath + "/linter/context.Context"
	tableOf := func(m ssa.Value) string {
		ld, ok := m.(*ssa.UnOp)
		if !ok || ld.Op != token.MUL {
			return ""
		}
		if f := core.FieldOf(ld.X); f != nil && core.FieldOwner(ld.X) == ctxType {
			return f.Name()
		}
		return ""
	}
	// registrars: methods of Context that update the table; may they fail leaving no entry?
	unsafe := map[string]string{} // table -> registrar that can fail without an entry
	registrars := map[string]int{}
	for _, fn := range prog.ModuleFuncs("linter/context") {
		tables := map[string]bool{}
		for _, b := range fn.Blocks {
			for _, in := range b.Instrs {
				if mu, ok := in.(*ssa.MapUpdate); ok {
					// the element handed in by the caller (AddDirector also files a backend it makes itself: not the
					// registration of a backend declaration)
					if _, isParam := mu.Value.(*ssa.Parameter); !isParam {
						continue
					}
					if t := tableOf(mu.Map); t != "" {
						tables[t] = true
					}
				}
			}
		}
		if len(tables) == 0 || fn.Signature.Results().Len() == 0 {
			continue
		}
		res := fn.Signature.Results()
		if !types.Identical(res.At(res.Len()-1).Type(), types.Universe.Lookup("error").Type()) {
			continue
		}
		for t := range tables {
			registrars[t]++
			for _, rs := range core.ReturnSites(fn) {
				if len(rs.Results) == 0 || core.IsNilConst(rs.Results[len(rs.Results)-1]) {
					continue
				}
				// an error return: behind the found edge of a lookup in table t?
				behind := false
				for _, b := range fn.Blocks {
					for _, in := range b.Instrs {
						lk, ok := in.(*ssa.Lookup)
						if !ok || !lk.CommaOk || tableOf(lk.X) != t || lk.Referrers() == nil {
							continue
						}
						for _, r := range *lk.Referrers() {
							if ex, isEx := r.(*ssa.Extract); isEx && ex.Index == 1 && core.DominatedByTrue(ex, rs.Ret.Block()) {
								behind = true
							}
						}
					}
				}
				// the entry may also have been stored before the failing return
				for _, b := range fn.Blocks {
					for _, in := range b.Instrs {
						if mu, ok := in.(*ssa.MapUpdate); ok && tableOf(mu.Map) == t && core.InstrDominates(mu, rs.Ret) {
							behind = true
						}
					}
				}
				if !behind {
					unsafe[t] = core.FnName(fn)
				}
			}
		}
	}
	n := 0
	for _, fn := range lfuncs {
		if fn.Pkg == nil || fn.Pkg.Pkg.Path() != core.ModPath+"/linter" {
			continue
		}
		ord := map[string]int{}
		for _, b := range fn.Blocks {
			for _, in := range b.Instrs {
				lk, ok := in.(*ssa.Lookup)
				if !ok || lk.CommaOk {
					continue
				}
				t := tableOf(lk.X)
				if t == "" || registrars[t] == 0 {
					continue
				}
				if _, isPtr := lk.Type().Underlying().(*types.Pointer); !isPtr {
					continue
				}
				var bad ssa.Instruction
				for _, use := range derefUses(nil, lk) {
					if !core.DominatedByNil(lk, use.Block(), false) {
						bad = use
					}
				}
				if bad == nil {
					continue
				}
				ord[t]++
				key := fmt.Sprintf("%s|%s#%d", core.FnName(fn), t, ord[t])
				n++
				if r, isUnsafe := unsafe[t]; isUnsafe {
					c.Report("lint.mapderef", key, bad.Pos(), fmt.Sprintf("%s dereferences ctx.%s[…] without a comma-ok test, and %s can refuse a declaration without leaving an entry (an error return that is not behind a lookup in the same table): the declaration is linted all the same and the read is a nil dereference", core.FnName(fn), t, r))
				} else {
					c.Discharge("lint.mapderef", key, bad.Pos(), "every failing registration of ctx."+t+" is a duplicate: the entry of the first declaration is there")
				}
			}
		}
	}
	c.Floor("lint.mapderef", 2)
	_ = n
}
