package checks

import (
	"fmt"
	"go/constant"
	"go/token"
	"go/types"
	"strings"

	"fv/internal/core"

	"golang.org/x/tools/go/ssa"
)

// C04 — the lint verdict is consistent.
func init() {
	register(&Check{ID: "C04", NeedSSA: true, Run: runC04})
}

const mainPkg = core.ModPath + "/cmd/falco"

// isFlagLoad: a value that reads an output-mode/verbosity flag.
func isFlagLoad(v ssa.Value) string {
	f := core.FieldOf(v)
	if f == nil {
		return ""
	}
	owner := core.FieldOwner(v)
	switch {
	case owner == core.ModPath+"/config.Config" && f.Name() == "Json":
		return "config.Json"
	case owner == core.ModPath+"/config.LinterConfig" && (f.Name() == "VerboseInfo" || f.Name() == "VerboseWarning" || f.Name() == "VerboseLevel"):
		return "config.Linter." + f.Name()
	case owner == mainPkg+".Runner" && f.Name() == "level":
		return "Runner.level"
	}
	return ""
}

func flagIn(slice map[ssa.Value]bool) string {
	for x := range slice {
		if s := isFlagLoad(x); s != "" {
			return s
		}
	}
	return ""
}

func isFieldStore(in ssa.Instruction, owner string, names ...string) (string, bool) {
	st, ok := in.(*ssa.Store)
	if !ok {
		return "", false
	}
	fa, ok := st.Addr.(*ssa.FieldAddr)
	if !ok {
		return "", false
	}
	f := core.FieldOf(fa)
	if f == nil || core.FieldOwner(fa) != owner {
		return "", false
	}
	for _, n := range names {
		if f.Name() == n {
			return n, true
		}
	}
	return "", false
}

func runC04(c *core.Ctx) {
	c.Explanation = "Structural clauses of the lint verdict, decided on SSA of cmd/falco and linter: (R-indicators) runLint returns nil only after the zero-edge of a test of every failure indicator that Run can leave populated while returning a nil error (Errors; ParseErrors when Run swallows the parser error under -json); (R-NI) no store to the error/warning/info counters, no append to Linter.Errors, no call on the chain Run→run→printLinterError and no severity argument is control- or data-dependent (post-dominator control dependence, phi-implicit flows) on -json / -v / -vv / Runner.level; (R-severity) each counter is incremented exactly under its own severity case of the severity parameter, the severity passed is the override lookup falling back to the diagnostic's own, and NewRunner maps the names ERROR/WARNING/INFO/IGNORE to the constants of the same name; (R-exit) in main, an ErrExit from runLint reaches os.Exit(non-zero) on every path (phi-constant path walk). Decides the control structure of the verdict, not the printed numbers. (R-recorded) the only error of r.run that Run drops under -json is ErrParser (walk assuming the error is neither nil nor ErrParser), every return of ErrParser in cmd/falco is preceded on every -json path by a store into Runner.parseErrors — the `.(*parser.ParseError)` assertions on the way hold because the asserted value is errors.Cause of a parser error (C01 err.located) or Linter.FatalError.Error, which the linter fills only with errors.Cause(parser error); (R-ignorecover) every statement of a statement list is linted through lintStatement (ignore setup/teardown), so ignored diagnostics are not counted. (verdict.lasttoken) a parser loop guarded by PeekTokenIs advances before its body reads the current token, so the last token of a file is parsed; (verdict.overrides) LinterConfig.Rules is given a fresh map only behind a nil test."
	c.NotCovered = []string{"that the printed numbers equal the counted numbers", ".falco.yml parsing", "what the linter itself reports (C05/C11/C12)"}
	c.Assumptions = []string{"the exit status is produced only by os.Exit calls in cmd/falco.main"}
	prog := c.Prog
	mainFuncs := prog.ModuleFuncs("cmd/falco")
	if len(mainFuncs) == 0 {
		c.MissingAnchor("C04", "package cmd/falco")
		return
	}
	cds := map[*ssa.Function]*core.CtrlDeps{}
	cdOf := func(fn *ssa.Function) *core.CtrlDeps {
		if cds[fn] == nil {
			cds[fn] = core.NewCtrlDeps(fn)
		}
		return cds[fn]
	}
	checkNI := func(fn *ssa.Function, in ssa.Instruction, what string) {
		cd := cdOf(fn)
		for _, e := range cd.Transitive(in.Block()) {
			cond := core.BranchCond(e.From)
			if cond == nil {
				continue
			}
			if fl := flagIn(core.DepSlice(cd, cond)); fl != "" {
				c.Report("verdict.NI", core.FnName(fn)+"|"+what+"|"+fl, in.Pos(),
					fmt.Sprintf("%s is control dependent on a branch that reads %s: counts/verdict would differ between output modes or verbosity levels", what, fl),
					"branch: "+c.Prog.Loc(e.From.Instrs[len(e.From.Instrs)-1].Pos()))
				return
			}
		}
		c.Discharge("verdict.NI", core.FnName(fn)+"|"+what, in.Pos(), "no controlling branch depends on -json/-v/-vv/level")
	}

	// ---- R-NI: counters
	counterFuncs := map[*ssa.Function]bool{}
	for _, fn := range mainFuncs {
		c.Func(core.FnName(fn))
		for _, b := range fn.Blocks {
			for _, in := range b.Instrs {
				if name, ok := isFieldStore(in, mainPkg+".Runner", "errors", "warnings", "infos"); ok {
					counterFuncs[fn] = true
					checkNI(fn, in, "store to Runner."+name)
				}
			}
		}
	}
	c.Floor("verdict.NI", 5)
	// call chain to counter functions inside package main
	for changed := true; changed; {
		changed = false
		for _, fn := range mainFuncs {
			if counterFuncs[fn] {
				continue
			}
			for _, b := range fn.Blocks {
				for _, in := range b.Instrs {
					if cal := core.StaticCallee(in); cal != nil && counterFuncs[cal] && fn.Name() != "main" {
						// only the lint chain: functions that are methods of Runner
						if fn.Signature.Recv() != nil && core.NamedTypeName(fn.Signature.Recv().Type()) == "Runner" {
							counterFuncs[fn] = true
							changed = true
						}
					}
				}
			}
		}
	}
	for _, fn := range mainFuncs {
		for _, b := range fn.Blocks {
			for _, in := range b.Instrs {
				cal := core.StaticCallee(in)
				if cal == nil || !counterFuncs[cal] || !counterFuncs[fn] {
					continue
				}
				c.CallSite()
				checkNI(fn, in, "call of "+cal.Name())
			}
		}
	}
	// Linter.Errors appends
	for _, fn := range prog.ModuleFuncs("linter") {
		for _, b := range fn.Blocks {
			for _, in := range b.Instrs {
				if _, ok := isFieldStore(in, core.ModPath+"/linter.Linter", "Errors"); ok {
					checkNI(fn, in, "store to Linter.Errors")
				}
			}
		}
	}

	// ---- R-severity
	sevConst := map[string]constant.Value{}
	if lp := prog.Pkg("linter"); lp != nil {
		for _, n := range []string{"ERROR", "WARNING", "INFO", "IGNORE"} {
			if k, ok := lp.Types.Scope().Lookup(n).(*types.Const); ok {
				sevConst[n] = k.Val()
			}
		}
	}
	if len(sevConst) != 4 {
		c.MissingAnchor("verdict.severity", "linter.ERROR/WARNING/INFO/IGNORE constants")
	}
	ple := prog.SSAFunc("cmd/falco", "Runner.printLinterError")
	if ple == nil {
		c.MissingAnchor("verdict.severity", "cmd/falco.(*Runner).printLinterError")
	} else {
		var sevParam *ssa.Parameter
		for _, p := range ple.Params {
			if core.NamedTypePkgName(p.Type()) == core.ModPath+"/linter.Severity" {
				sevParam = p
			}
		}
		want := map[string]string{"errors": "ERROR", "warnings": "WARNING", "infos": "INFO"}
		found := map[string]bool{}
		for _, b := range ple.Blocks {
			for _, in := range b.Instrs {
				name, ok := isFieldStore(in, mainPkg+".Runner", "errors", "warnings", "infos")
				if !ok {
					continue
				}
				found[name] = true
				if sevParam != nil && underSeverityCase(sevParam, sevConst[want[name]], in.Block()) {
					c.Discharge("verdict.severity", "printLinterError|"+name, in.Pos(), "dominated by the case severity == linter."+want[name])
				} else {
					c.Report("verdict.severity", "printLinterError|"+name, in.Pos(),
						fmt.Sprintf("Runner.%s is incremented outside the `severity == linter.%s` case of the severity parameter", name, want[name]))
				}
				// increment by exactly one
				if !isIncrementByOne(in.(*ssa.Store)) {
					c.Report("verdict.severity", "printLinterError|"+name+"|+1", in.Pos(), "counter store is not `field = field + 1`")
				}
			}
		}
		for n := range want {
			if !found[n] {
				c.Report("verdict.severity", "printLinterError|"+n+"|missing", ple.Pos(), "no increment of Runner."+n+" in printLinterError")
			}
		}
		// call sites: severity argument
		for _, fn := range mainFuncs {
			for _, b := range fn.Blocks {
				for _, in := range b.Instrs {
					call, ok := in.(*ssa.Call)
					if !ok || call.Common().StaticCallee() != ple {
						continue
					}
					args := call.Common().Args
					idx := -1
					for i, p := range ple.Params {
						if p == sevParam {
							idx = i
						}
					}
					if idx < 0 || idx >= len(args) {
						continue
					}
					sl := core.DepSlice(cdOf(fn), args[idx])
					hasOverride, hasOwn := false, false
					// data dependence only: a value that merely sits behind a test of the override is not the override
					for x := range core.BackSlice(args[idx]) {
						if lk, ok := x.(*ssa.Lookup); ok {
							for y := range core.BackSlice(lk.X) {
								if f := core.FieldOf(y); f != nil && f.Name() == "overrides" {
									hasOverride = true
								}
							}
						}
						if f := core.FieldOf(x); f != nil && f.Name() == "Severity" && core.FieldOwner(x) == core.ModPath+"/linter.LintError" {
							hasOwn = true
						}
					}
					key := core.FnName(fn) + "|severity-arg"
					if fl := flagIn(sl); fl != "" {
						c.Report("verdict.NI", key+"|"+fl, in.Pos(), "the severity passed to printLinterError depends on "+fl)
					} else if !hasOverride || !hasOwn {
						c.Report("verdict.severity", key, in.Pos(),
							fmt.Sprintf("the severity passed to printLinterError must be the override lookup falling back to the diagnostic's own severity (override read: %v, LintError.Severity read: %v)", hasOverride, hasOwn))
					} else {
						c.Discharge("verdict.severity", key, in.Pos(), "phi(overrides[rule], le.Severity), no flag dependence")
					}
				}
			}
		}
	}
	// NewRunner: names map to constants of the same name
	if nr := prog.SSAFunc("cmd/falco", "NewRunner"); nr == nil {
		c.MissingAnchor("verdict.severity", "cmd/falco.NewRunner")
	} else {
		n := 0
		for _, b := range nr.Blocks {
			for _, in := range b.Instrs {
				mu, ok := in.(*ssa.MapUpdate)
				if !ok {
					continue
				}
				isOv := false
				for y := range core.BackSlice(mu.Map) {
					if f := core.FieldOf(y); f != nil && f.Name() == "overrides" {
						isOv = true
					}
				}
				if !isOv {
					continue
				}
				n++
				label := dominatingStringCase(b)
				cname := ""
				if kv, isConst := mu.Value.(*ssa.Const); isConst && kv.Value != nil {
					for k, v := range sevConst {
						if v.Kind() == kv.Value.Kind() && constant.Compare(v, token.EQL, kv.Value) {
							cname = k
						}
					}
				}
				if label != "" && cname == label {
					c.Discharge("verdict.severity", "NewRunner|override:"+label, in.Pos(), "case \""+label+"\" stores linter."+cname)
				} else {
					c.Report("verdict.severity", "NewRunner|override:"+label, in.Pos(),
						fmt.Sprintf("rule override %q is mapped to linter.%s", label, cname))
				}
			}
		}
		if n < 4 {
			c.Report("verdict.severity", "NewRunner|override-count", nr.Pos(), fmt.Sprintf("expected the four severities to be mapped in NewRunner, found %d", n))
		}
	}
	c.Floor("verdict.severity", 8)

	// ---- R-indicators
	checkIndicators(c, mainFuncs)
	checkRecorded(c, mainFuncs)
	checkIgnoreCover(c, "verdict.ignorecover")

	// ---- R-exit
	checkExitOnErrExit(c, "verdict.exit", "runLint")
	// a syntax error the parser does not see cannot make the exit status non-zero
	checkLoopGuardToken(c)
	checkRuleOverridesKept(c)
}

func underSeverityCase(param *ssa.Parameter, want constant.Value, b *ssa.BasicBlock) bool {
	if want == nil {
		return false
	}
	refs := param.Referrers()
	if refs == nil {
		return false
	}
	for _, r := range *refs {
		rv, isV := r.(ssa.Value)
		if !isV {
			continue
		}
		bo, eq, ok := core.EqCond(rv)
		if !ok {
			continue
		}
		other := bo.Y
		if bo.Y == ssa.Value(param) {
			other = bo.X
		}
		k, ok := other.(*ssa.Const)
		if !ok || k.Value == nil || k.Value.Kind() != want.Kind() || !constant.Compare(k.Value, token.EQL, want) {
			continue
		}
		for _, br := range *bo.Referrers() {
			if iff, ok := br.(*ssa.If); ok && core.EdgeDominates(iff.Block(), eq, b) {
				return true
			}
		}
	}
	return false
}

func isIncrementByOne(st *ssa.Store) bool {
	bo, ok := st.Val.(*ssa.BinOp)
	if !ok || bo.Op != token.ADD {
		return false
	}
	one, ok := core.ConstIntValue(bo.Y)
	if !ok || one != 1 {
		return false
	}
	ld, ok := bo.X.(*ssa.UnOp)
	if !ok || ld.Op != token.MUL {
		return false
	}
	a, ok1 := ld.X.(*ssa.FieldAddr)
	b, ok2 := st.Addr.(*ssa.FieldAddr)
	return ok1 && ok2 && a.Field == b.Field && a.X == b.X
}

// dominatingStringCase returns the string constant S such that block b is dominated by the true edge of `x == S`.
func dominatingStringCase(b *ssa.BasicBlock) string {
	for d := b; d != nil; d = d.Idom() {
		id := d.Idom()
		if id == nil {
			break
		}
		iff, ok := id.Instrs[len(id.Instrs)-1].(*ssa.If)
		if !ok {
			continue
		}
		bo, ok := iff.Cond.(*ssa.BinOp)
		if !ok || (bo.Op != token.EQL && bo.Op != token.NEQ) {
			continue
		}
		// the edge on which the operands are equal: true edge of `==`, false edge of `!=`
		eq := 0
		if bo.Op == token.NEQ {
			eq = 1
		}
		for _, o := range []ssa.Value{bo.X, bo.Y} {
			if k, ok := o.(*ssa.Const); ok && k.Value != nil && k.Value.Kind() == constant.String {
				if core.EdgeDominates(id, eq, b) {
					return constant.StringVal(k.Value)
				}
			}
		}
	}
	return ""
}

// checkIndicators: runLint returns nil only behind the zero-edge of every live failure indicator.
func checkIndicators(c *core.Ctx, mainFuncs []*ssa.Function) {
	prog := c.Prog
	runLint := prog.SSAFunc("cmd/falco", "runLint")
	run := prog.SSAFunc("cmd/falco", "Runner.Run")
	if runLint == nil || run == nil {
		c.MissingAnchor("verdict.indicators", "cmd/falco.runLint / (*Runner).Run")
		return
	}
	// Is ParseErrors live: can Run return a nil error although r.run / r.parseVCL failed?
	swallow := false
	for _, rs := range core.ReturnSites(run) {
		if len(rs.Results) != 2 || !core.IsNilConst(rs.Results[1]) {
			continue
		}
		// a nil-error return: it must be dominated by the nil edge of every error produced by a module call before it
		for _, b := range run.Blocks {
			for _, in := range b.Instrs {
				call, ok := in.(*ssa.Call)
				if !ok {
					continue
				}
				cal := call.Common().StaticCallee()
				if cal == nil || cal.Pkg == nil || cal.Pkg.Pkg.Path() != mainPkg {
					continue
				}
				if !core.Reaches(call.Block(), rs.Ret.Block()) {
					continue
				}
				for _, e := range core.ErrorResults(call) {
					if !core.DominatedByNil(e, rs.Ret.Block(), true) {
						swallow = true
						c.Info("Run returns a nil error at %s although the error of %s may be non-nil (swallowed): RunnerResult.ParseErrors is a live failure indicator", prog.Loc(rs.Ret.Pos()), cal.Name())
					}
				}
			}
		}
	}
	c.Extra("run_swallows_parser_error", swallow)
	indicators := []string{"Errors"}
	if swallow {
		indicators = append(indicators, "ParseErrors")
	}
	// the result value in runLint
	var result ssa.Value
	for _, b := range runLint.Blocks {
		for _, in := range b.Instrs {
			if call, ok := in.(*ssa.Call); ok && call.Common().StaticCallee() == run {
				if refs := call.Referrers(); refs != nil {
					for _, r := range *refs {
						if ex, ok := r.(*ssa.Extract); ok && ex.Index == 0 {
							result = ex
						}
					}
				}
			}
		}
	}
	if result == nil {
		c.MissingAnchor("verdict.indicators", "call of (*Runner).Run in runLint")
		return
	}
	// zero tests per indicator
	type zeroEdge struct {
		from *ssa.BasicBlock
		idx  int
	}
	zero := map[string][]zeroEdge{}
	for _, b := range runLint.Blocks {
		for _, in := range b.Instrs {
			iff, ok := in.(*ssa.If)
			if !ok {
				continue
			}
			bo, ok := iff.Cond.(*ssa.BinOp)
			if !ok {
				continue
			}
			k, isK := core.ConstIntValue(bo.Y)
			if !isK || k != 0 {
				continue
			}
			// which field does bo.X read?
			field := ""
			for x := range core.BackSlice(bo.X) {
				if fa, ok := x.(*ssa.FieldAddr); ok && fa.X == result {
					if f := core.FieldOf(fa); f != nil {
						field = f.Name()
					}
				}
			}
			if field == "" {
				continue
			}
			switch bo.Op {
			case token.GTR, token.NEQ: // x > 0 / x != 0: zero edge is the false successor
				zero[field] = append(zero[field], zeroEdge{b, 1})
			case token.EQL, token.LEQ: // x == 0 / x <= 0
				zero[field] = append(zero[field], zeroEdge{b, 0})
			}
		}
	}
	for _, rs := range core.ReturnSites(runLint) {
		if len(rs.Results) != 1 || !core.IsNilConst(rs.Results[0]) {
			continue
		}
		for _, ind := range indicators {
			ok := false
			for _, z := range zero[ind] {
				if core.EdgeDominates(z.from, z.idx, rs.Ret.Block()) {
					ok = true
				}
			}
			key := "runLint|return-nil|" + ind
			if ok {
				c.Discharge("verdict.indicators", key, rs.Ret.Pos(), "dominated by the zero edge of a test of result."+ind)
			} else {
				msg := fmt.Sprintf("runLint returns nil (exit 0) on a path that never tests result.%s", ind)
				if ind == "ParseErrors" {
					msg += ": under -json Run records the syntax error there and returns a nil error, so `falco lint -json` on a file with a syntax error exits 0"
				}
				c.Report("verdict.indicators", key, rs.Ret.Pos(), msg)
			}
		}
	}
	c.Floor("verdict.indicators", 1)
}

// checkExitOnErrExit: in main.main, when the result of <runner func> equals ErrExit, every path reaches os.Exit(non-zero).
func checkExitOnErrExit(c *core.Ctx, rule, callee string) {
	prog := c.Prog
	mainFn := prog.SSAFunc("cmd/falco", "main")
	target := prog.SSAFunc("cmd/falco", callee)
	if mainFn == nil || target == nil {
		c.MissingAnchor(rule, "cmd/falco.main / "+callee)
		return
	}
	var callVal ssa.Value
	for _, b := range mainFn.Blocks {
		for _, in := range b.Instrs {
			if call, ok := in.(*ssa.Call); ok && call.Common().StaticCallee() == target {
				callVal = call
			}
		}
	}
	if callVal == nil {
		c.MissingAnchor(rule, "call of "+callee+" in main")
		return
	}
	// the comparison with ErrExit
	var tests []*ssa.If
	trueIdx := map[*ssa.If]int{}
	for _, b := range mainFn.Blocks {
		for _, in := range b.Instrs {
			iff, ok := in.(*ssa.If)
			if !ok {
				continue
			}
			bo, ok := iff.Cond.(*ssa.BinOp)
			if !ok || (bo.Op != token.EQL && bo.Op != token.NEQ) {
				continue
			}
			var other ssa.Value
			if core.BackSlice(bo.X)[callVal] {
				other = bo.Y
			} else if core.BackSlice(bo.Y)[callVal] {
				other = bo.X
			} else {
				continue
			}
			isErrExit := false
			if ld, ok := other.(*ssa.UnOp); ok {
				if g, ok := ld.X.(*ssa.Global); ok && g.Name() == "ErrExit" {
					isErrExit = true
				}
			}
			if core.IsNilConst(other) && bo.Op == token.NEQ {
				isErrExit = true // `exitErr != nil` is at least as strict
			}
			if !isErrExit {
				continue
			}
			tests = append(tests, iff)
			if bo.Op == token.EQL {
				trueIdx[iff] = 0
			} else if core.IsNilConst(other) {
				trueIdx[iff] = 0
			} else {
				trueIdx[iff] = 1
			}
		}
	}
	if len(tests) == 0 {
		c.Report(rule, "main|no-ErrExit-test|"+callee, callVal.(*ssa.Call).Pos(), "the error returned by "+callee+" is never compared with ErrExit in main: the verdict cannot reach the exit status")
		return
	}
	for _, iff := range tests {
		bad := exitWalk(iff.Block().Succs[trueIdx[iff]], iff.Block())
		if bad != "" {
			c.Report(rule, "main|ErrExit-path|"+callee, iff.Pos(), "after "+callee+" returned ErrExit a path "+bad+" without os.Exit(non-zero)")
		} else {
			c.Discharge(rule, "main|ErrExit|"+callee, iff.Pos(), "every path from the ErrExit edge reaches os.Exit(non-zero) (phi constants resolved per incoming edge)")
		}
	}
}

// exitWalk explores paths from block b (entered from pred) resolving boolean phis whose operand on
// the taken edge is constant. It returns "" when every path reaches os.Exit(c != 0), else a description.
func exitWalk(start, pred *ssa.BasicBlock) string {
	type state struct {
		b   *ssa.BasicBlock
		env string
	}
	seen := map[state]bool{}
	var walk func(b, pred *ssa.BasicBlock, env map[ssa.Value]bool) string
	walk = func(b, pred *ssa.BasicBlock, env map[ssa.Value]bool) string {
		// resolve phis
		nenv := map[ssa.Value]bool{}
		for k, v := range env {
			nenv[k] = v
		}
		pi := -1
		for i, p := range b.Preds {
			if p == pred {
				pi = i
			}
		}
		for _, in := range b.Instrs {
			phi, ok := in.(*ssa.Phi)
			if !ok {
				break
			}
			delete(nenv, phi)
			if pi >= 0 {
				op := phi.Edges[pi]
				if k, ok := op.(*ssa.Const); ok && k.Value != nil && k.Value.Kind() == constant.Bool {
					nenv[phi] = constant.BoolVal(k.Value)
				} else if v, ok := env[op]; ok {
					nenv[phi] = v
				}
			}
		}
		var keys []string
		for k, v := range nenv {
			keys = append(keys, fmt.Sprintf("%s=%v", k.Name(), v))
		}
		sortStrings(keys)
		st := state{b, strings.Join(keys, ",")}
		if seen[st] {
			return ""
		}
		seen[st] = true
		for _, in := range b.Instrs {
			switch t := in.(type) {
			case *ssa.Call:
				if core.CalleeIs(t.Common().StaticCallee(), "os", "Exit") {
					if v, ok := core.ConstIntValue(t.Common().Args[0]); ok && v != 0 {
						return ""
					}
					return "reaches os.Exit(0)"
				}
			case *ssa.Return:
				return "returns from main (exit status 0)"
			case *ssa.Panic:
				return ""
			case *ssa.If:
				var known *bool
				if v, ok := nenv[t.Cond]; ok {
					known = &v
				} else if k, ok := t.Cond.(*ssa.Const); ok && k.Value != nil && k.Value.Kind() == constant.Bool {
					v := constant.BoolVal(k.Value)
					known = &v
				}
				if known != nil {
					if *known {
						return walk(b.Succs[0], b, nenv)
					}
					return walk(b.Succs[1], b, nenv)
				}
			}
		}
		for _, s := range b.Succs {
			if r := walk(s, b, nenv); r != "" {
				return r
			}
		}
		return ""
	}
	return walk(start, pred, map[ssa.Value]bool{})
}

// checkRecorded (verdict.recorded): under -json (*Runner).Run drops the error of r.run. That is sound only if
//
//	(a) the dropped error can only be ErrParser (the continue-edge is guarded by a comparison with ErrParser), and
//	(b) every return of ErrParser in cmd/falco is preceded, on every -json path, by a store into Runner.parseErrors,
//	    where the `.(*parser.ParseError)` assertions on the way are known to hold: the asserted value is
//	    errors.Cause(err) of a parser error (C01 err.located: every parser error is a *ParseError) or
//	    Linter.FatalError.Error, which (c) the linter only ever fills with errors.Cause(parser error).
func checkRecorded(c *core.Ctx, mainFuncs []*ssa.Function) {
	prog := c.Prog
	run := prog.SSAFunc("cmd/falco", "Runner.Run")
	inner := prog.SSAFunc("cmd/falco", "Runner.run")
	if run == nil || inner == nil {
		c.MissingAnchor("verdict.recorded", "(*Runner).Run / (*Runner).run")
		return
	}
	isErrParser := func(v ssa.Value) bool {
		ld, ok := v.(*ssa.UnOp)
		if !ok || ld.Op != token.MUL {
			return false
		}
		g, ok := ld.X.(*ssa.Global)
		return ok && g.Name() == "ErrParser"
	}
	// (a)
	var innerErr ssa.Value
	for _, b := range run.Blocks {
		for _, in := range b.Instrs {
			if call, ok := in.(*ssa.Call); ok && call.Common().StaticCallee() == inner {
				for _, e := range core.ErrorResults(call) {
					innerErr = e
				}
			}
		}
	}
	if innerErr == nil {
		c.MissingAnchor("verdict.recorded", "call of r.run in Run")
		return
	}
	// walk Run assuming r.run failed with an error that is neither nil nor ErrParser
	{
		var start *ssa.BasicBlock
		for _, b := range run.Blocks {
			for _, in := range b.Instrs {
				if call, ok := in.(*ssa.Call); ok && call.Common().StaticCallee() == inner {
					start = b
				}
			}
		}
		seen := map[*ssa.BasicBlock]bool{}
		var bad []*ssa.Return
		var walk func(b *ssa.BasicBlock)
		walk = func(b *ssa.BasicBlock) {
			if seen[b] {
				return
			}
			seen[b] = true
			for _, in := range b.Instrs {
				if r, ok := in.(*ssa.Return); ok {
					for _, rs := range core.ReturnSites(run) {
						if rs.Ret == r && len(rs.Results) == 2 && core.IsNilConst(rs.Results[1]) {
							bad = append(bad, r)
						}
					}
					return
				}
			}
			if iff, ok := b.Instrs[len(b.Instrs)-1].(*ssa.If); ok {
				if bo, ok := iff.Cond.(*ssa.BinOp); ok && (bo.Op == token.NEQ || bo.Op == token.EQL) {
					other := ssa.Value(nil)
					if bo.X == innerErr {
						other = bo.Y
					} else if bo.Y == innerErr {
						other = bo.X
					}
					if other != nil && (core.IsNilConst(other) || isErrParser(other)) {
						// the error differs from nil and from ErrParser
						if bo.Op == token.NEQ {
							walk(b.Succs[0])
						} else {
							walk(b.Succs[1])
						}
						return
					}
				}
				if call, ok := iff.Cond.(*ssa.Call); ok {
					if cal := call.Common().StaticCallee(); cal != nil && cal.Name() == "Is" && len(call.Common().Args) == 2 && call.Common().Args[0] == innerErr && isErrParser(call.Common().Args[1]) {
						walk(b.Succs[1])
						return
					}
				}
			}
			for _, s := range b.Succs {
				walk(s)
			}
		}
		if start != nil {
			walk(start)
		}
		if len(bad) == 0 {
			c.Discharge("verdict.recorded", "Run|swallow", run.Pos(), "the only error of r.run that Run drops is ErrParser")
		}
		for _, r := range bad {
			c.Report("verdict.recorded", "Run|swallow@"+retLabel(run, r), r.Pos(), "(*Runner).Run can return a result with a nil error after r.run failed with an error other than ErrParser: under -json such a failure is neither returned nor recorded, the command reports success")
		}
	}
	// (c) producer invariant
	producerOK := true
	lfuncs := prog.ModuleFuncs("linter")
	nprod := 0
	for _, fn := range lfuncs {
		for _, b := range fn.Blocks {
			for _, in := range b.Instrs {
				st, ok := in.(*ssa.Store)
				if !ok {
					continue
				}
				fa, ok := st.Addr.(*ssa.FieldAddr)
				if !ok || core.FieldOf(fa) == nil || core.FieldOf(fa).Name() != "Error" || core.FieldOwner(fa) != linterPkg+".FatalError" {
					continue
				}
				nprod++
				good := false
				if call, ok := st.Val.(*ssa.Call); ok {
					if cal := call.Common().StaticCallee(); cal != nil && cal.Name() == "Cause" && cal.Pkg != nil && cal.Pkg.Pkg.Path() == "github.com/pkg/errors" {
						for x := range core.BackSlice(call.Common().Args[0]) {
							if cl, ok := x.(*ssa.Call); ok {
								if cc := cl.Common().StaticCallee(); cc != nil && cc.Pkg != nil && strings.HasSuffix(cc.Pkg.Pkg.Path(), "/parser") {
									good = true
								}
							}
						}
					}
				}
				key := core.FnName(fn) + "|FatalError.Error"
				if good {
					c.Discharge("verdict.recorded", key, in.Pos(), "errors.Cause of a parser error (a *ParseError by C01 err.located)")
				} else {
					producerOK = false
					c.Report("verdict.recorded", key, in.Pos(), "FatalError.Error is not filled with errors.Cause(<parser error>): the runner's `.(*parser.ParseError)` assertion fails, the syntax error of an included module is not recorded and `lint -json` exits 0")
				}
			}
		}
	}
	if nprod == 0 {
		c.MissingAnchor("verdict.recorded", "stores to linter.FatalError.Error")
	}
	// (b)
	for _, fn := range mainFuncs {
		for _, rs := range core.ReturnSites(fn) {
			if len(rs.Results) == 0 || !isErrParser(rs.Results[len(rs.Results)-1]) {
				continue
			}
			target := rs.Ret.Block()
			// forward walk over "not yet recorded" states
			records := func(b *ssa.BasicBlock) bool {
				for _, in := range b.Instrs {
					if mu, ok := in.(*ssa.MapUpdate); ok {
						for x := range core.BackSlice(mu.Map) {
							if f := core.FieldOf(x); f != nil && f.Name() == "parseErrors" {
								return true
							}
						}
					}
				}
				return false
			}
			skipEdge := func(b *ssa.BasicBlock, idx int) bool {
				iff, ok := b.Instrs[len(b.Instrs)-1].(*ssa.If)
				if !ok {
					return false
				}
				// the -json == false edge
				if ld, ok := iff.Cond.(*ssa.UnOp); ok && ld.Op == token.MUL {
					if f := core.FieldOf(ld.X); f != nil && f.Name() == "Json" {
						return idx == 1
					}
				}
				// the failing edge of a *parser.ParseError assertion whose operand is known to be one
				if ex, ok := iff.Cond.(*ssa.Extract); ok && ex.Index == 1 {
					if ta, ok := ex.Tuple.(*ssa.TypeAssert); ok && core.NamedTypeName(ta.AssertedType) == "ParseError" && idx == 1 {
						for x := range core.BackSlice(ta.X) {
							if cl, ok := x.(*ssa.Call); ok {
								if cal := cl.Common().StaticCallee(); cal != nil && cal.Name() == "Cause" {
									return true
								}
							}
							if f := core.FieldOf(x); f != nil && f.Name() == "Error" && core.FieldOwner(x) == linterPkg+".FatalError" {
								return producerOK
							}
						}
					}
				}
				return false
			}
			seen := map[*ssa.BasicBlock]bool{}
			reach := false
			var walk func(b *ssa.BasicBlock)
			walk = func(b *ssa.BasicBlock) {
				if seen[b] {
					return
				}
				seen[b] = true
				if records(b) {
					return
				}
				if b == target {
					reach = true
					return
				}
				for i, s := range b.Succs {
					if !skipEdge(b, i) {
						walk(s)
					}
				}
			}
			// start after the failure is known: at function entry
			walk(fn.Blocks[0])
			// only failure paths matter: the return itself is the failure
			key := core.FnName(fn) + "|return ErrParser@" + retLabel(fn, rs.Ret)
			if reach {
				c.Report("verdict.recorded", key, rs.Ret.Pos(), core.FnName(fn)+" can return ErrParser under -json without having stored the syntax error in Runner.parseErrors: Run drops ErrParser, so the failure vanishes and `lint -json` exits 0")
			} else {
				c.Discharge("verdict.recorded", key, rs.Ret.Pos(), "every -json path to this return stores the error in parseErrors")
			}
		}
	}
	c.Floor("verdict.recorded", 4)
}

// checkRuleOverridesKept (verdict.overrides): the severity overrides of the configuration file (LinterConfig.Rules)
// decide the effective severity, hence the exit status. After the configuration has been loaded the map may be
// *added to* (the -generated default), never replaced: a store of a fresh map into the field is allowed only behind a
// test that the field is still nil.
func checkRuleOverridesKept(c *core.Ctx) {
	n := 0
	for _, fn := range c.Prog.ModuleFuncs("config", "cmd/falco") {
		for _, b := range fn.Blocks {
			for _, in := range b.Instrs {
				st, ok := in.(*ssa.Store)
				if !ok {
					continue
				}
				f := core.FieldOf(st.Addr)
				if f == nil || f.Name() != "Rules" || !strings.HasSuffix(core.FieldOwner(st.Addr), "/config.LinterConfig") {
					continue
				}
				n++
				key := core.FnName(fn) + "|LinterConfig.Rules"
				guarded := false
				for _, blk := range fn.Blocks {
					bo, eq, isEq := core.EqBranch(blk)
					if !isEq || !(core.IsNilConst(bo.X) || core.IsNilConst(bo.Y)) {
						continue
					}
					tested := bo.X
					if core.IsNilConst(bo.X) {
						tested = bo.Y
					}
					if ld, isLd := tested.(*ssa.UnOp); isLd {
						if g := core.FieldOf(ld.X); g != nil && g.Name() == "Rules" && core.EdgeDominates(blk, eq, b) {
							guarded = true
						}
					}
				}
				if guarded {
					c.Discharge("verdict.overrides", key, st.Pos(), "a map is created only when the configuration gave none")
				} else {
					c.Report("verdict.overrides", key, st.Pos(), fmt.Sprintf("%s replaces LinterConfig.Rules without testing that it is nil: the severity overrides of the configuration file are dropped, so an ERROR lowered to a warning still fails the run and a warning raised to ERROR does not", core.FnName(fn)))
				}
			}
		}
	}
	c.Instances("verdict.overrides", 0)
	_ = n
}
