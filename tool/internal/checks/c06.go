package checks

import (
	"fmt"
	"go/constant"
	"go/token"
	"go/types"
	"sort"
	"strings"

	"fv/internal/core"

	"golang.org/x/tools/go/ssa"
)

// C06 — request processing follows the Fastly request state machine.
func init() {
	register(&Check{ID: "C06", NeedSSA: true, Run: runC06})
}

// Spec: (scope, returned action) -> successor(s), transcribed from the property statement and the Fastly VCL request
// lifecycle documentation the code cites. "" = the action is not allowed there (a runtime error is reported).
// NONE (no return statement) is the documented default of the scope.
var stateMachineSpec = map[string]map[string]string{
	"ProcessRecv":    {"LOOKUP": "ProcessHit|ProcessMiss", "NONE": "ProcessHit|ProcessMiss", "PASS": "ProcessPass", "ERROR": "ProcessError", "RESTART": "restart"},
	"ProcessMiss":    {"FETCH": "ProcessFetch", "NONE": "ProcessFetch", "DELIVER_STALE": "ProcessDeliver", "PASS": "ProcessPass", "ERROR": "ProcessError"},
	"ProcessHit":     {"DELIVER": "ProcessDeliver", "NONE": "ProcessDeliver", "PASS": "ProcessPass", "ERROR": "ProcessError", "RESTART": "restart"},
	"ProcessPass":    {"PASS": "ProcessFetch", "NONE": "ProcessFetch", "ERROR": "ProcessError"},
	"ProcessFetch":   {"DELIVER": "ProcessDeliver", "NONE": "ProcessDeliver", "DELIVER_STALE": "ProcessDeliver", "PASS": "ProcessDeliver", "HIT_FOR_PASS": "ProcessDeliver", "ERROR": "ProcessError", "RESTART": "restart"},
	"ProcessError":   {"DELIVER": "ProcessDeliver", "DELIVER_STALE": "ProcessDeliver", "NONE": "ProcessDeliver", "RESTART": "restart"},
	"ProcessDeliver": {"DELIVER": "ProcessLog", "LOG": "ProcessLog", "NONE": "ProcessLog", "RESTART": "restart"},
}

var successorFuncs = map[string]bool{"ProcessPass": true, "ProcessMiss": true, "ProcessHit": true, "ProcessFetch": true, "ProcessError": true, "ProcessDeliver": true, "ProcessLog": true, "restart": true}

func runC06(c *core.Ctx) {
	c.Explanation = "Structural necessary conditions of the request state machine, decided on SSA of interpreter: (sm.succ) for every lifecycle scope and every State constant, the successor reached when the scope's subroutine returns that action — computed by a path walk that binds the returned state to the constant and resolves phis and `state == K` tests along the path (so the NONE→default remapping is followed) — equals the Fastly table transcribed from the property statement; disallowed actions reach no successor; (sm.one) on every path of every non-terminal Process<Scope> to a return whose error may be nil, exactly one successor is called (count dataflow over {0,1,2+}); one named exception (purge requests stop after vcl_recv); together with the acyclic successor graph this puts vcl_log last and exactly once on every successful request; (sm.restart) the re-entry restart→ProcessRecv is dominated by a comparison of ctx.Restarts with limitations.MaxVarnishRestarts, whose value is 3; (sm.cache) the hit/miss branch is selected by the nil-ness of cache.Get(request hash), sets ctx.State HIT/MISS and process.Cached, ProcessDeliver copies ctx.State into X-Cache, the cross-request stores (cache, rateCounters, penaltyBoxes) are assigned only in New, and the expiry of a stored object is rewritten (CacheItem.Update) only under a dominating test that the new TTL is positive; (sm.report) every field of the process report is read by Finalize and the reported `cached` comes from Process.Cached. (sm.hashseed) ctx.RequestHash is replaced on every pass before vcl_hash runs."
	c.NotCovered = []string{"cache behaviour over histories (TTL arithmetic, expiry)", "rate counter and penalty box values", "which backend is chosen"}
	prog := c.Prog
	ip := prog.Pkg("interpreter")
	if ip == nil {
		c.MissingAnchor("sm", "package interpreter")
		return
	}
	states := map[string]string{} // const name -> string value
	for _, n := range ip.Types.Scope().Names() {
		if k, ok := ip.Types.Scope().Lookup(n).(*types.Const); ok && core.NamedTypeName(k.Type()) == "State" {
			states[n] = constant.StringVal(k.Val())
		}
	}
	if len(states) < 10 {
		c.MissingAnchor("sm.succ", "interpreter.State constants")
	}
	psub := prog.SSAFunc("interpreter", "Interpreter.ProcessSubroutine")
	if psub == nil {
		c.MissingAnchor("sm.succ", "Interpreter.ProcessSubroutine")
		return
	}
	isSucc := func(in ssa.Instruction) string {
		cal := core.StaticCallee(in)
		if cal == nil || cal.Signature.Recv() == nil || core.NamedTypeName(cal.Signature.Recv().Type()) != "Interpreter" || !successorFuncs[cal.Name()] {
			return ""
		}
		if _, isDefer := in.(*ssa.Defer); isDefer {
			return ""
		}
		return cal.Name()
	}

	var scopes []string
	for s := range stateMachineSpec {
		scopes = append(scopes, s)
	}
	sort.Strings(scopes)
	table := map[string]map[string]string{}
	for _, scope := range scopes {
		fn := prog.SSAFunc("interpreter", "Interpreter."+scope)
		if fn == nil {
			c.MissingAnchor("sm.succ", "Interpreter."+scope)
			continue
		}
		c.Func(core.FnName(fn))
		// the state returned by the scope's subroutine
		var stateVal ssa.Value
		var callBlock *ssa.BasicBlock
		for _, b := range fn.Blocks {
			for _, in := range b.Instrs {
				if call, ok := in.(*ssa.Call); ok && call.Common().StaticCallee() == psub && call.Referrers() != nil {
					for _, r := range *call.Referrers() {
						if ex, ok := r.(*ssa.Extract); ok && ex.Index == 0 {
							stateVal = ex
							callBlock = b
						}
					}
				}
			}
		}
		if stateVal == nil {
			c.MissingAnchor("sm.succ", scope+": call of ProcessSubroutine")
			continue
		}
		table[scope] = map[string]string{}
		var names []string
		for n := range states {
			names = append(names, n)
		}
		sort.Strings(names)
		for _, kname := range names {
			got := walkState(callBlock, stateVal, states[kname], isSucc)
			table[scope][kname] = got
			want := stateMachineSpec[scope][kname]
			key := scope + "|" + kname
			switch {
			case got == want && want != "":
				c.Discharge("sm.succ", key, fn.Pos(), kname+" -> "+want)
			case got == want:
				c.Discharge("sm.succ", key, fn.Pos(), kname+" is rejected (no successor)")
			case want == "":
				c.Report("sm.succ", key, fn.Pos(), fmt.Sprintf("in %s a subroutine returning %s continues with %s, but the Fastly state machine does not allow that action there", strings.TrimPrefix(scope, "Process"), strings.ToLower(kname), got))
			case got == "":
				c.Report("sm.succ", key, fn.Pos(), fmt.Sprintf("in %s a subroutine returning %s reaches no successor (expected %s): the documented transition is missing", strings.TrimPrefix(scope, "Process"), strings.ToLower(kname), want))
			default:
				c.Report("sm.succ", key, fn.Pos(), fmt.Sprintf("in %s a subroutine returning %s continues with %s, the Fastly state machine prescribes %s", strings.TrimPrefix(scope, "Process"), strings.ToLower(kname), got, want))
			}
		}
	}
	c.Extra("extracted_state_machine", table)
	c.Floor("sm.succ", 90)

	// ---- sm.one
	for _, scope := range scopes {
		fn := prog.SSAFunc("interpreter", "Interpreter."+scope)
		if fn == nil {
			continue
		}
		// count dataflow: bitmask over {0,1,2+}
		in := map[*ssa.BasicBlock]int{fn.Blocks[0]: 1}
		for changed := true; changed; {
			changed = false
			for _, b := range fn.Blocks {
				m := in[b]
				if m == 0 {
					continue
				}
				k := 0
				for _, i := range b.Instrs {
					if isSucc(i) != "" {
						k++
					}
				}
				out := 0
				for bit := 0; bit < 3; bit++ {
					if m&(1<<bit) != 0 {
						n := bit + k
						if n > 2 {
							n = 2
						}
						out |= 1 << n
					}
				}
				for _, s := range b.Succs {
					if in[s]|out != in[s] {
						in[s] |= out
						changed = true
					}
				}
			}
		}
		for _, rs := range core.ReturnSites(fn) {
			errV := rs.Results[len(rs.Results)-1]
			if errNonNilAt(errV, rs.Ret.Block()) {
				continue
			}
			b := rs.Ret.Block()
			m := in[b]
			k := 0
			for _, i := range b.Instrs {
				if isSucc(i) != "" {
					k++
				}
			}
			counts := map[int]bool{}
			for bit := 0; bit < 3; bit++ {
				if m&(1<<bit) != 0 {
					n := bit + k
					if n > 2 {
						n = 2
					}
					counts[n] = true
				}
			}
			key := fmt.Sprintf("%s|return@%s", scope, retLabel(fn, rs.Ret))
			if len(counts) == 1 && counts[1] {
				c.Discharge("sm.one", key, rs.Ret.Pos(), "exactly one successor on every path to this return")
				continue
			}
			// named exception: purge requests stop after vcl_recv
			if scope == "ProcessRecv" && counts[0] && dominatedByFieldTest(fn, b, "IsPurgeRequest") {
				c.Discharge("sm.one", key+"|purge", rs.Ret.Pos(), "named exception: a purge request is accepted after vcl_recv and runs no further subroutine")
				continue
			}
			var cs []string
			for n := range counts {
				cs = append(cs, map[int]string{0: "0", 1: "1", 2: "2+"}[n])
			}
			sort.Strings(cs)
			c.Report("sm.one", key, rs.Ret.Pos(), fmt.Sprintf("%s can return successfully after calling %s successors: the request either stops before vcl_log or runs a later subroutine twice", scope, strings.Join(cs, " or ")))
		}
	}
	c.Floor("sm.one", 7)

	// ---- sm.restart
	restart := prog.SSAFunc("interpreter", "Interpreter.restart")
	if restart == nil {
		c.MissingAnchor("sm.restart", "Interpreter.restart")
	} else {
		maxV := int64(-1)
		if lp := prog.Pkg("interpreter/limitations"); lp != nil {
			if k, ok := lp.Types.Scope().Lookup("MaxVarnishRestarts").(*types.Const); ok {
				maxV, _ = constant.Int64Val(k.Val())
			}
		}
		if maxV == 3 {
			c.Discharge("sm.restart", "MaxVarnishRestarts", restart.Pos(), "limitations.MaxVarnishRestarts = 3")
		} else {
			c.ReportAt("sm.restart", "MaxVarnishRestarts", "interpreter/limitations/limitations.go", 0, fmt.Sprintf("limitations.MaxVarnishRestarts is %d, Fastly allows three restarts", maxV))
		}
		precv := prog.SSAFunc("interpreter", "Interpreter.ProcessRecv")
		ok := false
		var pos token.Pos
		for _, b := range restart.Blocks {
			for _, in := range b.Instrs {
				call, isCall := in.(*ssa.Call)
				if !isCall || call.Common().StaticCallee() != precv {
					continue
				}
				pos = in.Pos()
				// dominated by the continuing edge of `Restarts (+1) > 3` / `>= 3`
				for _, blk := range restart.Blocks {
					iff, isIf := blk.Instrs[len(blk.Instrs)-1].(*ssa.If)
					if !isIf {
						continue
					}
					bo, isBo := iff.Cond.(*ssa.BinOp)
					if !isBo {
						continue
					}
					k, isK := core.ConstIntValue(bo.Y)
					if !isK || !strings.Contains(counterName(bo.X), "Restarts") {
						continue
					}
					// allowed restarts under the guard: largest Restarts value (before increment) that continues
					plus := int64(0)
					if add, isAdd := bo.X.(*ssa.BinOp); isAdd && add.Op == token.ADD {
						if kk, isKK := core.ConstIntValue(add.Y); isKK {
							plus = kk
						}
					}
					var maxContinue int64 = -1
					switch bo.Op {
					case token.GTR: // r+plus > k fails
						maxContinue = k - plus
					case token.GEQ:
						maxContinue = k - plus - 1
					}
					if core.EdgeDominates(blk, 1, b) && maxContinue+1 == 3 {
						ok = true
					}
				}
			}
		}
		if ok {
			c.Discharge("sm.restart", "restart|bound", pos, "re-entry of vcl_recv dominated by a test that lets Restarts grow to exactly 3")
		} else {
			c.Report("sm.restart", "restart|bound", restart.Pos(), "restart() re-enters ProcessRecv without a dominating test that bounds ctx.Restarts at three (return(restart) can restart more often than Fastly allows, or without bound)")
		}
	}

	checkCacheBranch(c)
	checkProcessReport(c)
	checkScopeBinding(c, states, table)
	checkHashSeed(c)
}

// checkScopeBinding: each Process<Scope> runs the subroutine of its own scope under its own scope constant; the action
// names are the documented spellings; `restart;` / `error ...;` yield the RESTART / ERROR action and are admitted in
// exactly the scopes whose transition table has that action.
func checkScopeBinding(c *core.Ctx, states map[string]string, table map[string]map[string]string) {
	prog := c.Prog
	cp := prog.Pkg("interpreter/context")
	if cp == nil {
		c.MissingAnchor("sm.scope", "package interpreter/context")
		return
	}
	scopeByVal := map[int64]string{}
	for _, n := range cp.Types.Scope().Names() {
		if k, ok := cp.Types.Scope().Lookup(n).(*types.Const); ok && core.NamedTypeName(k.Type()) == "Scope" {
			v, _ := constant.Int64Val(k.Val())
			scopeByVal[v] = n
		}
	}
	all := []string{"ProcessRecv", "ProcessHash", "ProcessHit", "ProcessMiss", "ProcessPass", "ProcessFetch", "ProcessError", "ProcessDeliver", "ProcessLog"}
	for _, name := range all {
		fn := prog.SSAFunc("interpreter", "Interpreter."+name)
		if fn == nil {
			c.MissingAnchor("sm.scope", "Interpreter."+name)
			continue
		}
		short := strings.TrimPrefix(name, "Process")
		gotScope, gotSub := "", ""
		for _, b := range fn.Blocks {
			for _, in := range b.Instrs {
				if cal := core.StaticCallee(in); cal != nil && cal.Name() == "SetScope" && gotScope == "" {
					if v, ok := core.ConstIntValue(in.(ssa.CallInstruction).Common().Args[1]); ok {
						gotScope = scopeByVal[v]
					}
				}
				if lk, ok := in.(*ssa.Lookup); ok && gotSub == "" {
					x := lk.X
					if ld, ok := x.(*ssa.UnOp); ok && ld.Op == token.MUL {
						x = ld.X
					}
					if f := core.FieldOf(x); f != nil && f.Name() == "Subroutines" {
						if k, ok := lk.Index.(*ssa.Const); ok && k.Value != nil {
							gotSub = constant.StringVal(k.Value)
						}
					}
				}
			}
		}
		if gotScope == short+"Scope" && gotSub == "vcl_"+strings.ToLower(short) {
			c.Discharge("sm.scope", name, fn.Pos(), fmt.Sprintf("runs %s under %s", gotSub, gotScope))
		} else {
			c.Report("sm.scope", name, fn.Pos(), fmt.Sprintf("%s runs subroutine %q under scope %q (expected vcl_%s under %sScope): the lifecycle step executes another step's code or variables", name, gotSub, gotScope, strings.ToLower(short), short))
		}
	}
	c.Floor("sm.scope", 9)

	seenName := map[string]bool{}
	for _, acts := range stateMachineSpec {
		for n := range acts {
			if v, ok := states[n]; ok && n != "NONE" && !seenName[n] {
				seenName[n] = true
				if v == strings.ToLower(n) {
					c.Discharge("sm.names", n, token.NoPos, "action "+v)
				} else {
					c.ReportAt("sm.names", n, "interpreter/state.go", 0, fmt.Sprintf("State constant %s is spelled %q; return(%s) would not select it", n, v, strings.ToLower(n)))
				}
			}
		}
	}

	// statements that force an action
	pbs := prog.SSAFunc("interpreter", "Interpreter.ProcessBlockStatement")
	if pbs == nil {
		c.MissingAnchor("sm.stmt", "Interpreter.ProcessBlockStatement")
		return
	}
	for _, want := range []struct{ node, state string }{{"RestartStatement", "RESTART"}, {"ErrorStatement", "ERROR"}} {
		var arm *ssa.BasicBlock
		for _, b := range pbs.Blocks {
			for _, in := range b.Instrs {
				ta, ok := in.(*ssa.TypeAssert)
				if !ok || !ta.CommaOk || core.NamedTypeName(ta.AssertedType) != want.node {
					continue
				}
				if iff, ok := b.Instrs[len(b.Instrs)-1].(*ssa.If); ok {
					_ = iff
					arm = b.Succs[0]
				}
			}
		}
		if arm == nil {
			c.Report("sm.stmt", want.node+"|arm", pbs.Pos(), "ProcessBlockStatement has no arm for *ast."+want.node)
			continue
		}
		// scopes admitted
		var admitted []string
		okRet, badRet := 0, ""
		for _, b := range pbs.Blocks {
			if !arm.Dominates(b) {
				continue
			}
			for _, in := range b.Instrs {
				if cal := core.StaticCallee(in); cal != nil && cal.Name() == "Is" && core.NamedTypeName(cal.Signature.Recv().Type()) == "Scope" && len(admitted) == 0 {
					for _, v := range sliceLitConsts(in.(ssa.CallInstruction).Common().Args[1]) {
						admitted = append(admitted, strings.TrimSuffix(scopeByVal[v], "Scope"))
					}
				}
				if r, ok := in.(*ssa.Return); ok && len(r.Results) == 4 {
					if !core.IsNilConst(r.Results[3]) {
						continue
					}
					if k, ok := r.Results[1].(*ssa.Const); ok && k.Value != nil && constant.StringVal(k.Value) == states[want.state] {
						okRet++
					} else {
						badRet = prog.Loc(r.Pos())
					}
				}
			}
		}
		if okRet > 0 && badRet == "" {
			c.Discharge("sm.stmt", want.node+"|action", arm.Instrs[0].Pos(), "yields "+want.state)
		} else {
			c.Report("sm.stmt", want.node+"|action", arm.Instrs[0].Pos(), fmt.Sprintf("the %s arm of ProcessBlockStatement does not return the %s action on success (%s)", want.node, want.state, badRet))
		}
		var wantScopes []string
		for sc, acts := range table {
			if acts[want.state] != "" {
				wantScopes = append(wantScopes, strings.TrimPrefix(sc, "Process"))
			}
		}
		sort.Strings(wantScopes)
		sort.Strings(admitted)
		if strings.Join(wantScopes, ",") == strings.Join(admitted, ",") {
			c.Discharge("sm.stmt", want.node+"|scopes", arm.Instrs[0].Pos(), "admitted in "+strings.Join(admitted, ","))
		} else {
			c.Report("sm.stmt", want.node+"|scopes", arm.Instrs[0].Pos(), fmt.Sprintf("the %s statement is admitted in scopes {%s} but the lifecycle functions handle the %s action in {%s}: in the difference the statement is either rejected although Fastly allows it or falls off the state machine", strings.TrimSuffix(want.node, "Statement"), strings.Join(admitted, ","), want.state, strings.Join(wantScopes, ",")))
		}
	}
}

// sliceLitConsts: the integer constants stored into a variadic argument slice built at the call site.
func sliceLitConsts(v ssa.Value) []int64 {
	sl, ok := v.(*ssa.Slice)
	if !ok {
		return nil
	}
	al, ok := sl.X.(*ssa.Alloc)
	if !ok || al.Referrers() == nil {
		return nil
	}
	var out []int64
	for _, r := range *al.Referrers() {
		ia, ok := r.(*ssa.IndexAddr)
		if !ok || ia.Referrers() == nil {
			continue
		}
		for _, rr := range *ia.Referrers() {
			if st, ok := rr.(*ssa.Store); ok {
				if k, ok := core.ConstIntValue(st.Val); ok {
					out = append(out, k)
				}
			}
		}
	}
	return out
}

func retLabel(fn *ssa.Function, r *ssa.Return) string {
	n := 0
	for _, rs := range core.ReturnSites(fn) {
		n++
		if rs.Ret == r {
			return fmt.Sprint(n)
		}
	}
	return "?"
}

func dominatedByFieldTest(fn *ssa.Function, b *ssa.BasicBlock, field string) bool {
	for _, blk := range fn.Blocks {
		iff, ok := blk.Instrs[len(blk.Instrs)-1].(*ssa.If)
		if !ok {
			continue
		}
		hit := false
		for x := range core.BackSlice(iff.Cond) {
			if f := core.FieldOf(x); f != nil && f.Name() == field {
				hit = true
			}
		}
		if hit && (core.EdgeDominates(blk, 0, b) || core.EdgeDominates(blk, 1, b)) {
			return true
		}
	}
	return false
}

// walkState: starting after the ProcessSubroutine call with its state result bound to k, follow the CFG resolving phis
// and `x == "const"` tests on known values; other branches are followed both ways. Returns the sorted set of first
// successor calls reached ("A|B"), "" if every path ends without one.
func walkState(start *ssa.BasicBlock, stateVal ssa.Value, k string, isSucc func(ssa.Instruction) string) string {
	found := map[string]bool{}
	type key struct {
		b   *ssa.BasicBlock
		env string
	}
	seen := map[key]bool{}
	var walk func(b, pred *ssa.BasicBlock, env map[ssa.Value]string, skipUntil ssa.Value)
	walk = func(b, pred *ssa.BasicBlock, env map[ssa.Value]string, skipUntil ssa.Value) {
		nenv := map[ssa.Value]string{}
		for kk, v := range env {
			nenv[kk] = v
		}
		if pred != nil {
			pi := -1
			for i, p := range b.Preds {
				if p == pred {
					pi = i
				}
			}
			for _, in := range b.Instrs {
				phi, ok := in.(*ssa.Phi)
				if !ok {
					break
				}
				delete(nenv, phi)
				if pi >= 0 {
					e := phi.Edges[pi]
					if kc, ok := e.(*ssa.Const); ok && kc.Value != nil && kc.Value.Kind() == constant.String {
						nenv[phi] = constant.StringVal(kc.Value)
					} else if v, ok := env[e]; ok {
						nenv[phi] = v
					}
				}
			}
		}
		var ks []string
		for kk, v := range nenv {
			ks = append(ks, fmt.Sprintf("%s=%s", kk.Name(), v))
		}
		sort.Strings(ks)
		st := key{b, strings.Join(ks, ",")}
		if seen[st] {
			return
		}
		seen[st] = true
		active := skipUntil == nil
		for _, in := range b.Instrs {
			if !active {
				if v, ok := in.(ssa.Value); ok && v == skipUntil {
					active = true
				}
				continue
			}
			if s := isSucc(in); s != "" {
				found[s] = true
				return
			}
			if _, ok := in.(*ssa.Return); ok {
				return
			}
		}
		if iff, ok := b.Instrs[len(b.Instrs)-1].(*ssa.If); ok {
			if bo, ok := iff.Cond.(*ssa.BinOp); ok && (bo.Op == token.EQL || bo.Op == token.NEQ) {
				for _, pair := range [][2]ssa.Value{{bo.X, bo.Y}, {bo.Y, bo.X}} {
					v, known := nenv[pair[0]]
					kc, isK := pair[1].(*ssa.Const)
					if known && isK && kc.Value != nil && kc.Value.Kind() == constant.String {
						eq := v == constant.StringVal(kc.Value)
						if bo.Op == token.NEQ {
							eq = !eq
						}
						if eq {
							walk(b.Succs[0], b, nenv, nil)
						} else {
							walk(b.Succs[1], b, nenv, nil)
						}
						return
					}
				}
			}
		}
		for _, s := range b.Succs {
			walk(s, b, nenv, nil)
		}
	}
	walk(start, nil, map[ssa.Value]string{stateVal: k}, stateVal)
	var out []string
	for s := range found {
		out = append(out, s)
	}
	sort.Strings(out)
	return strings.Join(out, "|")
}

func checkCacheBranch(c *core.Ctx) {
	prog := c.Prog
	recv := prog.SSAFunc("interpreter", "Interpreter.ProcessRecv")
	if recv == nil {
		return
	}
	var get *ssa.Call
	for _, b := range recv.Blocks {
		for _, in := range b.Instrs {
			if call, ok := in.(*ssa.Call); ok {
				if cal := call.Common().StaticCallee(); cal != nil && cal.Name() == "Get" && cal.Pkg != nil && strings.HasSuffix(cal.Pkg.Pkg.Path(), "interpreter/cache") {
					get = call
				}
			}
		}
	}
	if get == nil {
		c.Report("sm.cache", "ProcessRecv|cache.Get", recv.Pos(), "ProcessRecv no longer looks the request hash up in the cache: a cached object can never be hit")
		return
	}
	// key derives from ctx.RequestHash
	fromHash := false
	for x := range core.BackSlice(get.Common().Args[1]) {
		if f := core.FieldOf(x); f != nil && f.Name() == "RequestHash" {
			fromHash = true
		}
	}
	if fromHash {
		c.Discharge("sm.cache", "ProcessRecv|key", get.Pos(), "cache.Get is keyed by ctx.RequestHash")
	} else {
		c.Report("sm.cache", "ProcessRecv|key", get.Pos(), "the cache lookup in ProcessRecv is not keyed by the request hash computed by vcl_hash")
	}
	// the nil test selects hit/miss with the right markers
	for _, t := range core.NilTestsOf(get) {
		nonNil := t.If.Block().Succs[1-t.NilSucc]
		nilB := t.If.Block().Succs[t.NilSucc]
		chk := func(b *ssa.BasicBlock, wantCallee, wantState string, wantCached bool, label string) {
			callee, state, cached := "", "", "unset"
			seen := map[*ssa.BasicBlock]bool{}
			var walk func(x *ssa.BasicBlock)
			walk = func(x *ssa.BasicBlock) {
				if seen[x] || !b.Dominates(x) {
					return
				}
				seen[x] = true
				for _, in := range x.Instrs {
					if cal := core.StaticCallee(in); cal != nil && (cal.Name() == "ProcessHit" || cal.Name() == "ProcessMiss") {
						callee = cal.Name()
					}
					if st, ok := in.(*ssa.Store); ok {
						if fa, ok := st.Addr.(*ssa.FieldAddr); ok && core.FieldOf(fa) != nil {
							switch core.FieldOf(fa).Name() {
							case "State":
								if k, ok := st.Val.(*ssa.Const); ok && k.Value != nil {
									state = constant.StringVal(k.Value)
								}
							case "Cached":
								if k, ok := st.Val.(*ssa.Const); ok && k.Value != nil {
									cached = fmt.Sprint(constant.BoolVal(k.Value))
								}
							}
						}
					}
				}
				for _, s := range x.Succs {
					walk(s)
				}
			}
			walk(b)
			// the flag must be stored explicitly on both branches: restart re-enters ProcessRecv with the same
			// process record, so a flag that is only ever set to true would survive a hit -> restart -> miss sequence
			if callee == wantCallee && state == wantState && cached == fmt.Sprint(wantCached) {
				c.Discharge("sm.cache", "ProcessRecv|"+label, t.If.Pos(), fmt.Sprintf("%s: %s, ctx.State=%q, process.Cached=%s", label, callee, state, cached))
			} else {
				c.Report("sm.cache", "ProcessRecv|"+label, t.If.Cond.Pos(), fmt.Sprintf("the %s branch of the cache lookup runs %s with ctx.State=%q and process.Cached=%s (expected %s, %q, %v; restart re-enters with the same record, so the flag must be stored on both branches): the reported cached flag / X-Cache would not say which branch was taken", label, callee, state, cached, wantCallee, wantState, wantCached))
			}
		}
		chk(nonNil, "ProcessHit", "HIT", true, "object found")
		chk(nilB, "ProcessMiss", "MISS", false, "no object")
	}
	// every place that sets the HIT/MISS marker also sets the reported flag to the same verdict
	n := 0
	for _, b := range recv.Blocks {
		state, cached := "", ""
		var pos token.Pos
		for _, in := range b.Instrs {
			if st, ok := in.(*ssa.Store); ok {
				if fa, ok := st.Addr.(*ssa.FieldAddr); ok && core.FieldOf(fa) != nil {
					k, isK := st.Val.(*ssa.Const)
					if !isK || k.Value == nil {
						continue
					}
					switch {
					case core.FieldOf(fa).Name() == "State" && k.Value.Kind() == constant.String:
						state, pos = constant.StringVal(k.Value), in.Pos()
					case core.FieldOf(fa).Name() == "Cached" && k.Value.Kind() == constant.Bool:
						cached = fmt.Sprint(constant.BoolVal(k.Value))
					}
				}
			}
		}
		if state == "" {
			continue
		}
		n++
		key := fmt.Sprintf("ProcessRecv|marker#%d %s", n, state)
		if cached == fmt.Sprint(state == "HIT") {
			c.Discharge("sm.cache", key, pos, "ctx.State="+state+" with process.Cached="+cached)
		} else {
			c.Report("sm.cache", key, pos, fmt.Sprintf("ProcessRecv sets the X-Cache marker to %s but leaves process.Cached %s: after a restart the reported flag and X-Cache disagree", state, map[string]string{"": "untouched"}[cached]+cached))
		}
	}
	// X-Cache copies ctx.State
	if del := prog.SSAFunc("interpreter", "Interpreter.ProcessDeliver"); del != nil {
		ok := false
		for _, b := range del.Blocks {
			for _, in := range b.Instrs {
				if _, k, _, isSet := isNetHeaderCall(in, "Set"); isSet {
					if kc, isK := k.(*ssa.Const); isK && kc.Value != nil && constant.StringVal(kc.Value) == "X-Cache" {
						for x := range core.BackSlice(in.(*ssa.Call).Common().Args[2]) {
							if f := core.FieldOf(x); f != nil && f.Name() == "State" {
								ok = true
							}
						}
					}
				}
			}
		}
		if ok {
			c.Discharge("sm.cache", "ProcessDeliver|X-Cache", del.Pos(), "X-Cache is set from ctx.State")
		} else {
			c.Report("sm.cache", "ProcessDeliver|X-Cache", del.Pos(), "ProcessDeliver does not set X-Cache from ctx.State")
		}
	}
	// cross-request stores are assigned only in New
	for _, fn := range prog.ModuleFuncs("interpreter") {
		for _, b := range fn.Blocks {
			for _, in := range b.Instrs {
				name, ok := isFieldStore(in, interpPkg+".Interpreter", "cache", "rateCounters", "penaltyBoxes")
				if !ok {
					continue
				}
				key := core.FnName(fn) + "|store " + name
				if fn.Name() == "New" && fn.Parent() == nil {
					c.Discharge("sm.cache", key, in.Pos(), "assigned once, when the simulator is constructed")
				} else {
					c.Report("sm.cache", key, in.Pos(), fmt.Sprintf("%s re-assigns Interpreter.%s: state that must outlive a request is reset (a cache lookup can then never hit / counters start over)", core.FnName(fn), name))
				}
			}
		}
	}
	// the expiry of a stored object is rewritten only under an explicit, positive TTL: the per-request obj.ttl starts at 0,
	// so a rewrite that admits 0 expires the object on every hit that does not assign obj.ttl
	for _, fn := range prog.ModuleFuncs("interpreter") {
		if strings.Contains(fn.Pkg.Pkg.Path(), "/cache") {
			continue
		}
		n := 0
		for _, b := range fn.Blocks {
			for _, in := range b.Instrs {
				cal := core.StaticCallee(in)
				if cal == nil || cal.Name() != "Update" || cal.Signature.Recv() == nil || core.NamedTypeName(derefType(cal.Signature.Recv().Type())) != "CacheItem" {
					continue
				}
				n++
				key := fmt.Sprintf("%s|CacheItem.Update#%d", core.FnName(fn), n)
				path := accessPath(in.(ssa.CallInstruction).Common().Args[1])
				ok := guardedCompare(fn, path, b, func(op token.Token, k int64, isFloat, edgeTrue, left bool) bool {
					if isFloat {
						return false
					}
					lo, _, excl, ok := intervalOf(op, k, edgeTrue, left)
					return ok && excl == nil && lo >= 1
				})
				if ok {
					c.Discharge("sm.cache", key, in.Pos(), "the stored object's expiry is rewritten only under a dominating test that the new TTL is positive")
				} else {
					c.Report("sm.cache", key, in.Pos(), fmt.Sprintf("%s rewrites the stored object's expiry from %s without a dominating test that the value is positive: the per-request obj.ttl starts at 0, so a hit that never assigns obj.ttl expires the object and the next request to the same URL misses", core.FnName(fn), path))
				}
			}
		}
	}
	c.Floor("sm.cache", 7)
}

func checkProcessReport(c *core.Ctx) {
	prog := c.Prog
	fin := prog.SSAFunc("interpreter/process", "Process.Finalize")
	pp := prog.Pkg("interpreter/process")
	if fin == nil || pp == nil {
		c.MissingAnchor("sm.report", "interpreter/process.(*Process).Finalize")
		return
	}
	census := fieldCensus(prog.ModuleFuncs())
	pt, _ := pp.Types.Scope().Lookup("Process").Type().Underlying().(*types.Struct)
	if pt == nil {
		return
	}
	for i := 0; i < pt.NumFields(); i++ {
		f := pt.Field(i)
		fu := census[f]
		written := fu != nil && len(fu.writes) > 0
		read := fu != nil && len(fu.reads) > 0
		key := "Process." + f.Name()
		switch {
		case written && !read:
			c.Report("sm.report", key+"|dead", f.Pos(), fmt.Sprintf("Process.%s is recorded during the request but never read: the report cannot show it", f.Name()))
		default:
			c.Discharge("sm.report", key, f.Pos(), "read by the report")
		}
	}
	// the reported `cached` derives from Process.Cached
	ok := false
	for _, b := range fin.Blocks {
		for _, in := range b.Instrs {
			st, isSt := in.(*ssa.Store)
			if !isSt {
				continue
			}
			fa, isFA := st.Addr.(*ssa.FieldAddr)
			if !isFA || core.FieldOf(fa) == nil || core.FieldOf(fa).Name() != "Cached" {
				continue
			}
			for x := range core.BackSlice(st.Val) {
				if f := core.FieldOf(x); f != nil && f.Name() == "Cached" && core.FieldOwner(x) == core.ModPath+"/interpreter/process.Process" {
					ok = true
				}
			}
			if ok {
				c.Discharge("sm.report", "Finalize|cached", in.Pos(), "`cached` is Process.Cached")
			} else {
				c.Report("sm.report", "Finalize|cached", in.Pos(), "Finalize reports a constant `cached` flag instead of Process.Cached: the report always says the request was not served from cache")
			}
		}
	}
}

// checkHashSeed (sm.hashseed): ctx.RequestHash is the key under which the request looks itself up in the cross-request
// cache. A restarted request runs vcl_hash again and must start it from the default key of the request as it is *now*
// (the URL may have been rewritten, and vcl_hash appends to the value): the key object is replaced on every pass -
// in ProcessHash on every path before the subroutine runs, or by restart(). A key that survives from the first pass
// makes the second pass look up another object than the one a fresh request for the same URL would find.
func checkHashSeed(c *core.Ctx) {
	prog := c.Prog
	ph := prog.SSAFunc("interpreter", "Interpreter.ProcessHash")
	restart := prog.SSAFunc("interpreter", "Interpreter.restart")
	ps := prog.SSAFunc("interpreter", "Interpreter.ProcessSubroutine")
	if ph == nil || ps == nil {
		c.MissingAnchor("sm.hashseed", "Interpreter.ProcessHash / ProcessSubroutine")
		return
	}
	fresh := func(fn *ssa.Function) *ssa.Store {
		if fn == nil {
			return nil
		}
		cd := core.NewCtrlDeps(fn)
		for _, b := range fn.Blocks {
			for _, in := range b.Instrs {
				st, ok := in.(*ssa.Store)
				if !ok {
					continue
				}
				f := core.FieldOf(st.Addr)
				if f != nil && f.Name() == "Value" {
					// the other spelling: the value of the existing key object is overwritten
					if fa, isFA := st.Addr.(*ssa.FieldAddr); isFA {
						if ld, isLd := fa.X.(*ssa.UnOp); isLd {
							if g := core.FieldOf(ld.X); g != nil && g.Name() == "RequestHash" && (b == fn.Blocks[0] || cd.PostDominates(b, fn.Blocks[0])) {
								return st
							}
						}
					}
				}
				if f == nil || f.Name() != "RequestHash" || !strings.HasSuffix(core.FieldOwner(st.Addr), "/interpreter/context.Context") {
					continue
				}
				// a new object, on every path
				isNew := false
				for x := range core.BackSliceLocal(st.Val) {
					if al, isAl := x.(*ssa.Alloc); isAl && al.Heap {
						isNew = true
					}
				}
				if isNew && (b == fn.Blocks[0] || cd.PostDominates(b, fn.Blocks[0])) {
					return st
				}
			}
		}
		return nil
	}
	if st := fresh(restart); st != nil {
		c.Discharge("sm.hashseed", "RequestHash", st.Pos(), "restart() replaces the key object")
		return
	}
	st := fresh(ph)
	if st == nil {
		c.Report("sm.hashseed", "RequestHash", ph.Pos(), "neither restart() nor ProcessHash replaces ctx.RequestHash on every path: on a restarted request vcl_hash starts from the key of the previous pass, so the lookup finds another object than a fresh request for the same URL (a hit that should be a miss, or the reverse)")
		return
	}
	for _, b := range ph.Blocks {
		for _, in := range b.Instrs {
			if core.StaticCallee(in) == ps && !core.InstrDominates(st, in) {
				c.Report("sm.hashseed", "RequestHash", in.Pos(), "vcl_hash runs before ProcessHash has replaced ctx.RequestHash")
				return
			}
		}
	}
	c.Discharge("sm.hashseed", "RequestHash", st.Pos(), "ProcessHash replaces the key object on every path before vcl_hash runs")
}
