package checks

import (
	"fmt"
	"go/constant"
	"go/token"
	"go/types"
	"sort"
	"strings"

	"fv/internal/core"

	"golang.org/x/tools/go/ssa"
)

// C09 — comments and layout never change what a program means.
func init() {
	register(&Check{ID: "C09", NeedSSA: true, Run: runC09})
}

// Functions that may read comment text, with the reason (annotation parsers that filter on a marker).
var commentReaders = map[string]string{
	"linter.(*ignore).SetupStatement":                      "falco-ignore directives (parseIgnoreComment matches the directive word)",
	"linter.(*ignore).TeardownStatement":                   "falco-ignore directives",
	"linter.(*ignore).SetupBlockStatement":                 "falco-ignore directives",
	"linter.(*ignore).TeardownBlockStatement":              "falco-ignore directives",
	"linter.(*ignore).SetupClause":                         "falco-ignore-start / -end in front of a clause keyword (parseIgnoreComment matches the directive word)",
	"linter.(*Linter).lintIfStatement":                     "hands the comments in front of else if / else to (*ignore).SetupClause, nothing else",
	"linter.(*Linter).lintSwitchStatement":                 "hands the comments in front of case / default / the closing brace to (*ignore).SetupClause, nothing else",
	"linter.parseCustomLinterCall":                         "@plugin: annotations (HasPrefix \"@\")",
	"linter.getSubroutineCallScope":                        "@scope / @recv … annotations through ast.Comments.Annotations (CutPrefix \"@\")",
	"linter.getFileLevelScope":                             "@scope annotation of a snippet file",
	"linter.(*Linter).lintFastlyBoilerPlateMacro":          "#FASTLY <scope> macro comments",
	"linter.hasFastlyBoilerPlateMacro":                     "#FASTLY <scope> macro comments",
	"interpreter.(*Interpreter).ProcessBlockStatement":     "@process mark of the debugger/tester (findProcessMark)",
	"interpreter.(*Interpreter).ProcessSubroutine":         "@process mark (findProcessMark)",
	"interpreter.(*Interpreter).ProcessFunctionSubroutine": "@process mark (findProcessMark)",
	"linter.annotations":                                   "collects lines starting with \"@\" (TrimLeft + HasPrefix \"@\"), used by the scope annotation readers",
	"interpreter.(*Interpreter).extractBoilerplateMacro":   "#FASTLY <scope> macro comments",
	"interpreter.hasFastlyBoilerplateMacro":                "#FASTLY <scope> macro comments",
	"interpreter.findProcessMark":                          "@process mark",
	"tester.getTestMetadata":                               "@scope/@suite/@skip/@tag annotations of test subroutines",
	"debugger.(*Debugger).Run":                             "@debugger breakpoint mark",
	"debugger.hasDebuggerMark":                             "@debugger breakpoint mark",
}

func runC09(c *core.Ctx) {
	c.Explanation = "Who-may-decide-on-comments, decided on SSA: (cmt.decide) in parser, linter, interpreter and tester no value produced by a comment-bearing ast renderer (String() methods of node kinds that print Leading/Trailing/Infix comments, computed as a fixpoint, and every dynamic String() on an ast interface) flows — through conversions, concatenation, strings.* helpers and inter-procedurally through string parameters — into a decision: ==/!= comparison, map key, conversion to a named string type such as interpreter.State, slices.Contains / strings.HasPrefix-style predicates; (cmt.message) nor, in the linter, into the message of a *LintError (the text of a diagnostic is part of the diagnostic); (cmt.readers) comment slots (Meta.Leading/Trailing/Infix, Comment.Value, Parenthesis*Comments) are read outside ast/parser/formatter/tester-syntax/codec only by the enumerated annotation parsers (one reason each), so ordinary comment text can reach no other code; (cmt.layout) layout fields (PreviousEmptyLines, Nest, EndLine, EndPosition, PrefixedLineFeed) and the line and column of a token are never part of a branch condition in linter or interpreter. (cmt.macro) every test for the `#FASTLY` macro in linter and simulator is strings.HasPrefix applied directly to the text of one comment ((*ast.Comment).String()), with a prefix that starts with the literal `#FASTLY `: no trimming, case folding or joining of several comments, so an ordinary comment cannot be taken for the macro and both sides accept the same spelling; (cmt.scan) the scanners of block and line comments consume exactly one character on every path around their loop, so no character is skipped as the possible start of the terminator (a comment ending in `**/` ends there and does not swallow the code behind it). Necessary for inertness of comments for all programs and all decorations at once."
	c.NotCovered = []string{"the lexer's treatment of whitespace inside tokens (juxtaposition across lines)", "that each annotation parser filters on its marker before using the text (reviewed by hand, listed)", "locations used as map keys or identifiers (coverage ids are built from line and column)"}
	prog := c.Prog
	u := newAstUniverse(prog)
	if u == nil {
		c.MissingAnchor("cmt.decide", "package ast")
		return
	}
	// ---- where a comment ends: the comment scanners examine every character as the possible start of the terminator
	checkScanStep(c, "cmt.scan", func(fn *ssa.Function) bool { return fn.Name() == "readMultiComment" || fn.Name() == "readEOL" }, 2)
	// ---- comment-bearing renderers
	cb := map[*ssa.Function]bool{}
	strFns := map[string]*ssa.Function{}
	for _, n := range u.names {
		if fn := prog.SSAFunc("ast", n+".String"); fn != nil {
			strFns[n] = fn
		}
	}
	isCommentMethod := func(cal *ssa.Function) bool {
		switch cal.Name() {
		case "LeadingComment", "TrailingComment", "InfixComment":
			return true
		}
		return false
	}
	for changed := true; changed; {
		changed = false
		for _, fn := range strFns {
			if cb[fn] {
				continue
			}
			for _, b := range fn.Blocks {
				for _, in := range b.Instrs {
					ci, ok := in.(ssa.CallInstruction)
					if !ok {
						continue
					}
					cc := ci.Common()
					if cc.IsInvoke() && cc.Method.Name() == "String" && strings.HasPrefix(core.NamedTypePkgName(cc.Value.Type()), astPkgPath+".") {
						cb[fn] = true
					}
					if cal := cc.StaticCallee(); cal != nil && (isCommentMethod(cal) || cb[cal]) {
						cb[fn] = true
					}
				}
			}
			if cb[fn] {
				changed = true
			}
		}
	}
	// wrapper renderers outside package ast (linter/types.*.String, tester/syntax.*.String, ...)
	for changed := true; changed; {
		changed = false
		for _, fn := range prog.ModuleFuncs() {
			if cb[fn] || fn.Name() != "String" || fn.Signature.Recv() == nil {
				continue
			}
			for _, b := range fn.Blocks {
				for _, in := range b.Instrs {
					ci, ok := in.(ssa.CallInstruction)
					if !ok {
						continue
					}
					cc := ci.Common()
					if cc.IsInvoke() && cc.Method.Name() == "String" && strings.HasPrefix(core.NamedTypePkgName(cc.Value.Type()), astPkgPath+".") {
						cb[fn] = true
					}
					if cal := cc.StaticCallee(); cal != nil && cb[cal] {
						cb[fn] = true
					}
				}
			}
			if cb[fn] {
				changed = true
			}
		}
	}
	var cbNames []string
	for n, fn := range strFns {
		if cb[fn] {
			cbNames = append(cbNames, n)
		}
	}
	sort.Strings(cbNames)
	c.Extra("comment_bearing_renderers", cbNames)
	if len(cbNames) < 30 {
		c.Fatal("only %d comment-bearing renderers found (expected >= 30): the summary has gone blind", len(cbNames))
	}
	isSource := func(v ssa.Value) string {
		call, ok := v.(*ssa.Call)
		if !ok {
			return ""
		}
		cc := call.Common()
		if cc.IsInvoke() {
			if cc.Method.Name() == "String" && strings.HasPrefix(core.NamedTypePkgName(cc.Value.Type()), astPkgPath+".") {
				return "dynamic " + core.NamedTypeName(cc.Value.Type()) + ".String() of " + describeValue(cc.Value)
			}
			return ""
		}
		if cal := cc.StaticCallee(); cal != nil && cb[cal] {
			return "(*" + recvTypeName(cal) + ").String() of " + describeValue(cc.Args[0])
		}
		return ""
	}
	// ---- cmt.message: the text of a diagnostic is part of the diagnostic. A rendering that prints comments, handed to a
	// constructor of *LintError (or formatted into a LintError's Message), puts the comment into the message:
	// `return (fetch /* go */);` is reported as `"fetch /* go */" is invalid`, and removing the comment changes the
	// diagnostic. (Plain errors of unreachable default arms - `unexpected node: …` - are not diagnostics of a program.)
	for _, fn := range prog.ModuleFuncs("linter") {
		ord := 0
		for _, b := range fn.Blocks {
			for _, in := range b.Instrs {
				v, isV := in.(ssa.Value)
				if !isV || isSource(v) == "" || v.Referrers() == nil {
					continue
				}
				for _, r := range *v.Referrers() {
					call, isCall := r.(*ssa.Call)
					if !isCall {
						continue
					}
					res := call.Common().Signature().Results()
					if res.Len() != 1 || core.NamedTypeName(derefType(res.At(0).Type())) != "LintError" {
						continue
					}
					ord++
					c.Report("cmt.message", fmt.Sprintf("%s|%s#%d", core.FnName(fn), call.Common().StaticCallee().Name(), ord), r.Pos(), fmt.Sprintf("%s builds a diagnostic from %s: comments written inside the expression become part of the message, so removing an ordinary comment changes the linter's diagnostics", core.FnName(fn), isSource(v)))
				}
			}
		}
	}
	c.Instances("cmt.message", 0)

	scopeFuncs := prog.ModuleFuncs("parser", "linter", "interpreter", "tester")
	// inter-procedural taint of string parameters
	tainted := map[*ssa.Parameter]string{}
	taintedField := map[*types.Var]string{}  // struct fields (field-based heap abstraction) that hold such a rendering
	taintedRet := map[*ssa.Function]string{} // functions returning such a rendering (as a string or inside a slice)
	var srcOf func(v ssa.Value) string
	srcOfDepth := 0
	srcOf = func(v ssa.Value) string {
		srcOfDepth++
		defer func() { srcOfDepth-- }()
		if srcOfDepth > 6 {
			return ""
		}
		for x := range core.BackSlice(v) {
			if s := isSource(x); s != "" {
				return s
			}
			switch t := x.(type) {
			case *ssa.Parameter:
				if s, ok := tainted[t]; ok {
					return s
				}
			case *ssa.FieldAddr:
				if f := core.FieldOf(t); f != nil {
					if s, ok := taintedField[f]; ok {
						return s
					}
				}
			case *ssa.Field:
				if f := core.FieldOf(t); f != nil {
					if s, ok := taintedField[f]; ok {
						return s
					}
				}
			case *ssa.Call:
				if cal := t.Common().StaticCallee(); cal != nil {
					if s, ok := taintedRet[cal]; ok {
						return s
					}
				}
			case *ssa.Slice:
				// elements stored into a slice literal / variadic argument array
				if al, ok := t.X.(*ssa.Alloc); ok && al.Referrers() != nil {
					for _, r := range *al.Referrers() {
						ia, ok := r.(*ssa.IndexAddr)
						if !ok || ia.Referrers() == nil {
							continue
						}
						for _, rr := range *ia.Referrers() {
							if st, ok := rr.(*ssa.Store); ok && st.Addr == ssa.Value(ia) {
								if s := srcOf(st.Val); s != "" {
									return s
								}
							}
						}
					}
				}
			}
		}
		return ""
	}
	isStringish := func(t types.Type) bool {
		b, ok := t.Underlying().(*types.Basic)
		return ok && b.Info()&types.IsString != 0
	}
	isStringSlice := func(t types.Type) bool {
		sl, ok := t.Underlying().(*types.Slice)
		return ok && isStringish(sl.Elem())
	}
	// fields that hold text for humans: a rendering stored there is a message, not a name
	messageFields := map[string]bool{"Message": true, "Reference": true, "Description": true}
	inScope := map[*ssa.Function]bool{}
	for _, fn := range scopeFuncs {
		inScope[fn] = true
	}
	for changed := true; changed; {
		changed = false
		for _, fn := range scopeFuncs {
			for _, b := range fn.Blocks {
				for _, in := range b.Instrs {
					ci, ok := in.(ssa.CallInstruction)
					if !ok {
						continue
					}
					cal := ci.Common().StaticCallee()
					if cal == nil || !inScope[cal] {
						continue
					}
					for i, a := range ci.Common().Args {
						if i >= len(cal.Params) || !(isStringish(a.Type()) || isStringSlice(a.Type())) {
							continue
						}
						if _, done := tainted[cal.Params[i]]; done {
							continue
						}
						if s := srcOf(a); s != "" {
							tainted[cal.Params[i]] = s + " (via " + core.FnName(fn) + ")"
							changed = true
						}
					}
				}
			}
			// heap and return flows
			for _, b := range fn.Blocks {
				for _, in := range b.Instrs {
					switch t := in.(type) {
					case *ssa.Store:
						fa, ok := t.Addr.(*ssa.FieldAddr)
						if !ok || !(isStringish(t.Val.Type()) || isStringSlice(t.Val.Type())) {
							continue
						}
						f := core.FieldOf(fa)
						if f == nil || f.Pkg() == nil || !strings.HasPrefix(f.Pkg().Path(), core.ModPath) || messageFields[f.Name()] {
							continue
						}
						if _, done := taintedField[f]; done {
							continue
						}
						if s := srcOf(t.Val); s != "" {
							taintedField[f] = s + " (stored in " + core.NamedTypeName(derefType(fa.X.Type())) + "." + f.Name() + " by " + core.FnName(fn) + ")"
							changed = true
						}
					case *ssa.Return:
						if _, done := taintedRet[fn]; done {
							continue
						}
						for _, r := range t.Results {
							if !(isStringish(r.Type()) || isStringSlice(r.Type())) {
								continue
							}
							if s := srcOf(r); s != "" {
								taintedRet[fn] = s + " (returned by " + core.FnName(fn) + ")"
								changed = true
							}
						}
					}
				}
			}
		}
	}
	predicateSinks := map[string]bool{"slices.Contains": true, "slices.Index": true, "strings.EqualFold": true, "strings.HasPrefix": true, "strings.HasSuffix": true, "strings.Contains": true, "strings.Compare": true}
	nSinks := 0
	for _, fn := range scopeFuncs {
		c.Func(core.FnName(fn))
		for _, b := range fn.Blocks {
			for _, in := range b.Instrs {
				var operands []ssa.Value
				what := ""
				switch t := in.(type) {
				case *ssa.BinOp:
					if (t.Op == token.EQL || t.Op == token.NEQ) && isStringish(t.X.Type()) {
						operands, what = []ssa.Value{t.X, t.Y}, "a "+t.Op.String()+" comparison"
					}
				case *ssa.Lookup:
					if isStringish(t.Index.Type()) {
						if _, isMap := t.X.Type().Underlying().(*types.Map); isMap {
							operands, what = []ssa.Value{t.Index}, "a map key"
						}
					}
				case *ssa.MapUpdate:
					if isStringish(t.Key.Type()) {
						operands, what = []ssa.Value{t.Key}, "a map key"
					}
				case *ssa.ChangeType:
					if isStringish(t.X.Type()) && isStringish(t.Type()) && !types.Identical(t.X.Type(), t.Type()) {
						if strings.HasPrefix(core.NamedTypePkgName(t.Type()), core.ModPath) {
							operands, what = []ssa.Value{t.X}, "a conversion to "+core.NamedTypeName(t.Type())
						}
					}
				case *ssa.Convert:
					if isStringish(t.X.Type()) && isStringish(t.Type()) {
						if _, named := types.Unalias(t.Type()).(*types.Named); named && core.NamedTypePkgName(t.Type()) != "" && strings.HasPrefix(core.NamedTypePkgName(t.Type()), core.ModPath) {
							operands, what = []ssa.Value{t.X}, "a conversion to "+core.NamedTypeName(t.Type())
						}
					}
				case *ssa.Call:
					if cal := t.Common().StaticCallee(); cal != nil {
						name := ""
						if cal.Pkg != nil {
							name = cal.Pkg.Pkg.Path() + "." + cal.Name()
						}
						if o := cal.Origin(); o != nil && o.Pkg != nil {
							name = o.Pkg.Pkg.Path() + "." + o.Name()
						}
						if predicateSinks[name] {
							for _, a := range t.Common().Args {
								if isStringish(a.Type()) {
									operands = append(operands, a)
								}
							}
							what = "the predicate " + name
						}
					}
				}
				if what == "" {
					continue
				}
				nSinks++
				src := ""
				for _, o := range operands {
					if s := srcOf(o); s != "" {
						src = s
					}
				}
				if src == "" {
					c.Instance("cmt.decide")
					continue
				}
				c.Report("cmt.decide", core.FnName(fn)+"|"+strings.SplitN(what, " ", 3)[1], in.Pos(),
					fmt.Sprintf("%s decides on %s, a rendering that embeds the node's comments: a comment at that position changes the outcome (e.g. `return (lookup /* c */);`)", what, src))
			}
		}
	}
	// ---- cmt.flow: a comment-bearing rendering may only end up in text for humans (messages, other renderers)
	nFlows := 0
	for _, fn := range scopeFuncs {
		if cb[fn] {
			continue // a renderer returns its rendering
		}
		for _, b := range fn.Blocks {
			for _, in := range b.Instrs {
				v, ok := in.(ssa.Value)
				if !ok || isSource(v) == "" {
					continue
				}
				nFlows++
				bad := map[string]bool{}
				for _, u := range renderingUses(v, 0) {
					if !messageUse(u) {
						bad[u] = true
					}
				}
				key := core.FnName(fn) + "|" + strings.SplitN(isSource(v), " of ", 2)[0]
				if len(bad) == 0 {
					c.Discharge("cmt.flow", key, in.Pos(), "the rendering only reaches messages")
					continue
				}
				var bs []string
				for u := range bad {
					bs = append(bs, u)
				}
				sort.Strings(bs)
				c.Report("cmt.flow", key+"|"+strings.Join(bs, ","), in.Pos(), fmt.Sprintf("%s uses %s — a rendering that embeds comments — as data (%s), not as text for a message: a comment at that position travels into names, keys or values the tool computes with", core.FnName(fn), isSource(v), strings.Join(bs, ", ")))
			}
		}
	}
	c.Extra("rendering_flows", nFlows)
	c.Extra("decision_sinks_scanned", nSinks)
	c.Floor("cmt.decide", 300)

	// ---- cmt.readers
	isCommentSlot := func(v ssa.Value) string {
		fa, ok := v.(*ssa.FieldAddr)
		if !ok {
			if f, ok2 := v.(*ssa.Field); ok2 {
				if fld := core.FieldOf(f); fld != nil && core.FieldOwner(f) == astPkgPath+".Comment" && fld.Name() == "Value" {
					return "Comment.Value"
				}
			}
			return ""
		}
		f := core.FieldOf(fa)
		if f == nil {
			return ""
		}
		owner := core.FieldOwner(fa)
		switch {
		case owner == astPkgPath+".Meta" && (f.Name() == "Leading" || f.Name() == "Trailing" || f.Name() == "Infix"):
			return "Meta." + f.Name()
		case owner == astPkgPath+".Comment" && f.Name() == "Value":
			return "Comment.Value"
		case isCommentsType(f.Type()) && strings.HasPrefix(owner, astPkgPath+"."):
			return strings.TrimPrefix(owner, astPkgPath+".") + "." + f.Name()
		}
		return ""
	}
	exemptPkgs := map[string]bool{"ast": true, "parser": true, "formatter": true, "tester/syntax": true, "ast/codec": true}
	found := map[string]bool{}
	for _, fn := range prog.ModuleFuncs() {
		rel := strings.TrimPrefix(strings.TrimPrefix(fn.Pkg.Pkg.Path(), core.ModPath), "/")
		if exemptPkgs[rel] {
			continue
		}
		for _, b := range fn.Blocks {
			for _, in := range b.Instrs {
				v, ok := in.(ssa.Value)
				if !ok {
					continue
				}
				slot := isCommentSlot(v)
				if slot == "" {
					continue
				}
				if fa, isFA := v.(*ssa.FieldAddr); isFA && !readNotOnlyStored(fa) {
					continue
				}
				top := fn
				for top.Parent() != nil {
					top = top.Parent()
				}
				name := core.FnName(top)
				if why, ok := reviewedReader(prog, top); ok {
					if !found[name+slot] {
						found[name+slot] = true
						c.Discharge("cmt.readers", name+"|"+slot, in.Pos(), "reviewed annotation parser: "+why)
					}
				} else {
					c.Report("cmt.readers", name+"|"+slot, in.Pos(), fmt.Sprintf("%s reads %s but is not one of the reviewed annotation parsers: ordinary comment text can now influence what falco does", name, slot))
				}
			}
		}
	}
	// calls to the comment text renderers (Comment.String / Comments.String / Annotations) outside the exempt packages
	for _, fn := range prog.ModuleFuncs() {
		rel := strings.TrimPrefix(strings.TrimPrefix(fn.Pkg.Pkg.Path(), core.ModPath), "/")
		if exemptPkgs[rel] {
			continue
		}
		for _, b := range fn.Blocks {
			for _, in := range b.Instrs {
				cal := core.StaticCallee(in)
				if cal == nil || cal.Pkg == nil || cal.Pkg.Pkg.Path() != astPkgPath || cal.Signature.Recv() == nil {
					continue
				}
				rn := core.NamedTypeName(cal.Signature.Recv().Type())
				if rn != "Comment" && rn != "Comments" {
					continue
				}
				top := fn
				for top.Parent() != nil {
					top = top.Parent()
				}
				name := core.FnName(top)
				if _, ok := reviewedReader(prog, top); ok {
					c.Discharge("cmt.readers", name+"|"+rn+"."+cal.Name(), in.Pos(), "reviewed annotation parser")
				} else {
					c.Report("cmt.readers", name+"|"+rn+"."+cal.Name(), in.Pos(), fmt.Sprintf("%s renders comment text (%s.%s) but is not one of the reviewed annotation parsers", name, rn, cal.Name()))
				}
			}
		}
	}
	c.Floor("cmt.readers", 14)

	// ---- cmt.macro: the #FASTLY macro is recognised on one comment, untransformed
	checkMacroDetectors(c)

	// ---- cmt.layout
	layout := map[string]bool{"Meta.PreviousEmptyLines": true, "Meta.Nest": true, "Meta.EndLine": true, "Meta.EndPosition": true, "Comment.PrefixedLineFeed": true, "Comment.PreviousEmptyLines": true,
		// where a token stands: locations may be reported, they may not decide anything
		core.ModPath + "/token.Token.Line": true, core.ModPath + "/token.Token.Position": true}
	nConds := 0
	for _, fn := range prog.ModuleFuncs("linter", "interpreter") {
		for _, b := range fn.Blocks {
			iff, ok := b.Instrs[len(b.Instrs)-1].(*ssa.If)
			if !ok {
				continue
			}
			nConds++
			bad := ""
			for x := range core.BackSlice(iff.Cond) {
				if f := core.FieldOf(x); f != nil {
					k := strings.TrimPrefix(core.FieldOwner(x), astPkgPath+".") + "." + f.Name()
					if layout[k] {
						bad = k
					}
				}
			}
			if bad != "" {
				c.Report("cmt.layout", core.FnName(fn)+"|"+bad, iff.Cond.Pos(), fmt.Sprintf("a branch in %s depends on the layout field %s: blank lines / indentation / line breaks change what the linter or simulator does", core.FnName(fn), bad))
			}
		}
	}
	c.Instances("cmt.layout", nConds)
	c.Extra("branch_conditions_scanned", nConds)
	c.Floor("cmt.layout", 2000)
}

// renderingUses: terminal uses of a rendering other than recognised message sinks.
func renderingUses(v ssa.Value, depth int) []string {
	var out []string
	if v.Referrers() == nil || depth > 5 {
		return nil
	}
	for _, r := range *v.Referrers() {
		switch t := r.(type) {
		case *ssa.DebugRef:
		case *ssa.BinOp:
			if t.Op == token.ADD {
				out = append(out, renderingUses(t, depth+1)...)
			} else {
				out = append(out, "binop "+t.Op.String())
			}
		case *ssa.MakeInterface:
			out = append(out, renderingUses(t, depth+1)...)
		case *ssa.Phi:
			out = append(out, renderingUses(t, depth+1)...)
		case *ssa.Store:
			if fa, ok := t.Addr.(*ssa.FieldAddr); ok {
				if f := core.FieldOf(fa); f != nil {
					if f.Name() == "Message" {
						continue
					}
					out = append(out, "store field "+core.NamedTypeName(derefType(fa.X.Type()))+"."+f.Name())
					continue
				}
			}
			if ia, ok := t.Addr.(*ssa.IndexAddr); ok {
				// element of a variadic/slice literal: follow the slice
				if al, ok := ia.X.(*ssa.Alloc); ok && al.Referrers() != nil {
					for _, rr := range *al.Referrers() {
						if sl, ok := rr.(*ssa.Slice); ok {
							out = append(out, renderingUses(sl, depth+1)...)
						}
					}
					continue
				}
				out = append(out, "store element")
				continue
			}
			out = append(out, "store")
		case ssa.CallInstruction:
			cal := t.Common().StaticCallee()
			name := "dynamic call"
			if cal != nil {
				name = cal.String()
				if cal.Pkg != nil {
					name = cal.Pkg.Pkg.Path() + "." + cal.Name()
				}
			} else if bi, ok := t.Common().Value.(*ssa.Builtin); ok {
				name = "builtin " + bi.Name()
			} else if t.Common().IsInvoke() {
				name = "invoke " + t.Common().Method.Name()
			}
			// constructors of diagnostics and errors: the rendering becomes part of a message
			if cal != nil && cal.Signature.Results().Len() >= 1 {
				rt := cal.Signature.Results().At(cal.Signature.Results().Len() - 1).Type()
				switch core.NamedTypeName(derefType(rt)) {
				case "error", "LintError", "Exception":
					out = append(out, "msgcall "+name)
					continue
				}
			}
			out = append(out, "call "+name)
		case *ssa.Return:
			out = append(out, "return from "+t.Parent().Name())
		case *ssa.Lookup:
			out = append(out, "map key")
		case *ssa.MapUpdate:
			out = append(out, "map update")
		default:
			out = append(out, fmt.Sprintf("%T", r))
		}
	}
	return out
}

// messageUse: a terminal use that only produces text for humans.
func messageUse(u string) bool {
	if strings.HasPrefix(u, "msgcall ") {
		return true
	}
	if !strings.HasPrefix(u, "call ") {
		return false
	}
	name := strings.TrimPrefix(u, "call ")
	switch {
	case strings.HasPrefix(name, "fmt."), strings.HasPrefix(name, "errors."), strings.HasPrefix(name, "github.com/pkg/errors."), strings.HasPrefix(name, "log."):
		return true
	case strings.HasSuffix(name, ".Message") || strings.HasSuffix(name, ".Debugf") || strings.HasSuffix(name, ".Printf"):
		return true
	}
	return false
}

// checkMacroDetectors (cmt.macro): the `#FASTLY <scope>` macro is the one comment whose presence changes what linter
// and simulator do. An ordinary comment must not be taken for it: every strings.HasPrefix whose prefix is built from a
// constant containing "FASTLY" gets, as its subject, the untransformed text of a single comment, and the constant
// starts with "#FASTLY ". (The simulator used to trim comment signs and fold the case first: `// Fastly recv processing`
// then embedded the snippets.)
func checkMacroDetectors(c *core.Ctx) {
	prog := c.Prog
	n := 0
	for _, fn := range prog.ModuleFuncs("linter", "interpreter") {
		k := 0
		for _, b := range fn.Blocks {
			for _, in := range b.Instrs {
				call, ok := in.(*ssa.Call)
				if !ok {
					continue
				}
				cal := call.Common().StaticCallee()
				if cal == nil || cal.Pkg == nil || cal.Pkg.Pkg.Path() != "strings" || len(call.Common().Args) != 2 {
					continue
				}
				switch cal.Name() {
				case "HasPrefix", "Contains", "EqualFold", "HasSuffix", "Index":
				default:
					continue
				}
				// a constant with FASTLY in the data slice of the pattern argument
				lit := ""
				for x := range core.BackSlice(call.Common().Args[1]) {
					if kc, ok := x.(*ssa.Const); ok && kc.Value != nil && kc.Value.Kind() == constant.String && strings.Contains(strings.ToUpper(constant.StringVal(kc.Value)), "FASTLY") {
						lit = constant.StringVal(kc.Value)
					}
				}
				if lit == "" {
					continue
				}
				// only detectors that look at comments
				fromComment, direct := false, false
				for x := range core.BackSlice(call.Common().Args[0]) {
					if cc, ok := x.(*ssa.Call); ok {
						if f := cc.Common().StaticCallee(); f != nil && f.Name() == "String" && f.Signature.Recv() != nil {
							switch core.NamedTypeName(derefType(f.Signature.Recv().Type())) {
							case "Comment", "Comments":
								fromComment = true
							}
						}
					}
				}
				if !fromComment {
					continue
				}
				if cc, ok := call.Common().Args[0].(*ssa.Call); ok {
					if f := cc.Common().StaticCallee(); f != nil && f.Name() == "String" && f.Signature.Recv() != nil && core.NamedTypeName(derefType(f.Signature.Recv().Type())) == "Comment" {
						direct = true
					}
				}
				n++
				k++
				key := fmt.Sprintf("%s|macro test#%d", core.FnName(fn), k)
				switch {
				case cal.Name() != "HasPrefix":
					c.Report("cmt.macro", key, in.Pos(), fmt.Sprintf("%s looks for the FASTLY macro with strings.%s: a comment that merely mentions it is taken for the macro", core.FnName(fn), cal.Name()))
				case !direct:
					c.Report("cmt.macro", key, in.Pos(), fmt.Sprintf("%s tests for the #FASTLY macro on a transformed or joined comment text (trimmed, case-folded, several comments concatenated) instead of the text of one comment: an ordinary comment such as `// Fastly recv processing` or a comment in front of the macro changes whether the snippets are embedded", core.FnName(fn)))
				case !strings.HasPrefix(lit, "#FASTLY "):
					c.Report("cmt.macro", key, in.Pos(), fmt.Sprintf("%s accepts the macro with the prefix %q, which is not the documented `#FASTLY <scope>` form the other side accepts", core.FnName(fn), lit))
				default:
					c.Discharge("cmt.macro", key, in.Pos(), "HasPrefix on the text of one comment with the literal prefix `#FASTLY `")
				}
			}
		}
	}
	c.Floor("cmt.macro", 4)
}

// reviewedReader: fn is one of the reviewed annotation parsers, or an unexported helper that is called only by such
// parsers (a piece extracted from them: it sees no comment they could not see).
func reviewedReader(prog *core.Program, fn *ssa.Function) (string, bool) {
	var visit func(f *ssa.Function, seen map[*ssa.Function]bool) (string, bool)
	visit = func(f *ssa.Function, seen map[*ssa.Function]bool) (string, bool) {
		if why, ok := commentReaders[core.FnName(f)]; ok {
			return why, true
		}
		if seen[f] || token.IsExported(f.Name()) || f.Pkg == nil {
			return "", false
		}
		seen[f] = true
		rel := strings.TrimPrefix(strings.TrimPrefix(f.Pkg.Pkg.Path(), core.ModPath), "/")
		callers := 0
		why := ""
		for _, g := range prog.ModuleFuncs(rel) {
			if g.Pkg != f.Pkg {
				continue
			}
			calls := false
			for _, b := range g.Blocks {
				for _, in := range b.Instrs {
					if core.StaticCallee(in) == f {
						calls = true
					}
				}
			}
			if !calls {
				continue
			}
			top := g
			for top.Parent() != nil {
				top = top.Parent()
			}
			if top == f {
				continue
			}
			callers++
			w, ok := visit(top, seen)
			if !ok {
				return "", false
			}
			why = w
		}
		if callers == 0 {
			return "", false
		}
		return "helper called only by reviewed annotation parsers (" + why + ")", true
	}
	return visit(fn, map[*ssa.Function]bool{})
}
