package core

import (
	"golang.org/x/tools/go/ssa"
)

// CtrlEdge is a CFG edge From -> From.Succs[Idx] of a branching block.
type CtrlEdge struct {
	From *ssa.BasicBlock
	Idx  int
}

// CtrlDeps holds post-dominators and control dependence of one function.
type CtrlDeps struct {
	fn    *ssa.Function
	n     int
	pdom  [][]bool // pdom[i][j]: block j post-dominates block i (index n = virtual exit)
	ipdom []int
	deps  map[*ssa.BasicBlock][]CtrlEdge
}

func NewCtrlDeps(fn *ssa.Function) *CtrlDeps {
	n := len(fn.Blocks)
	cd := &CtrlDeps{fn: fn, n: n, deps: map[*ssa.BasicBlock][]CtrlEdge{}}
	succs := make([][]int, n+1)
	for _, b := range fn.Blocks {
		if len(b.Succs) == 0 {
			succs[b.Index] = []int{n}
			continue
		}
		for _, s := range b.Succs {
			succs[b.Index] = append(succs[b.Index], s.Index)
		}
	}
	pd := make([][]bool, n+1)
	for i := range pd {
		pd[i] = make([]bool, n+1)
		for j := range pd[i] {
			pd[i][j] = true
		}
	}
	for j := range pd[n] {
		pd[n][j] = j == n
	}
	for changed := true; changed; {
		changed = false
		for i := n - 1; i >= 0; i-- {
			nw := make([]bool, n+1)
			for j := range nw {
				nw[j] = true
			}
			for _, s := range succs[i] {
				for j := range nw {
					nw[j] = nw[j] && pd[s][j]
				}
			}
			nw[i] = true
			for j := range nw {
				if nw[j] != pd[i][j] {
					changed = true
				}
			}
			pd[i] = nw
		}
	}
	cd.pdom = pd
	size := func(i int) int {
		c := 0
		for _, x := range pd[i] {
			if x {
				c++
			}
		}
		return c
	}
	cd.ipdom = make([]int, n+1)
	for i := 0; i <= n; i++ {
		cd.ipdom[i] = n
		best := -1
		for j := 0; j <= n; j++ {
			if j != i && pd[i][j] {
				if sz := size(j); sz > best {
					best = sz
					cd.ipdom[i] = j
				}
			}
		}
	}
	for _, a := range fn.Blocks {
		if len(a.Succs) < 2 {
			continue
		}
		for idx, s := range a.Succs {
			runner := s.Index
			steps := 0
			for runner != cd.ipdom[a.Index] && runner != n && steps <= n {
				blk := fn.Blocks[runner]
				cd.deps[blk] = append(cd.deps[blk], CtrlEdge{From: a, Idx: idx})
				runner = cd.ipdom[runner]
				steps++
			}
		}
	}
	return cd
}

// PostDominates reports whether a post-dominates b.
func (cd *CtrlDeps) PostDominates(a, b *ssa.BasicBlock) bool { return cd.pdom[b.Index][a.Index] }

// Direct returns the edges block b is directly control dependent on.
func (cd *CtrlDeps) Direct(b *ssa.BasicBlock) []CtrlEdge { return cd.deps[b] }

// Transitive returns all edges b is (transitively) control dependent on.
func (cd *CtrlDeps) Transitive(b *ssa.BasicBlock) []CtrlEdge {
	var out []CtrlEdge
	seenB := map[*ssa.BasicBlock]bool{}
	seenE := map[CtrlEdge]bool{}
	var walk func(x *ssa.BasicBlock)
	walk = func(x *ssa.BasicBlock) {
		if seenB[x] {
			return
		}
		seenB[x] = true
		for _, e := range cd.deps[x] {
			if !seenE[e] {
				seenE[e] = true
				out = append(out, e)
			}
			walk(e.From)
		}
	}
	walk(b)
	return out
}

// BranchCond returns the condition value of a branching block (If), or nil.
func BranchCond(b *ssa.BasicBlock) ssa.Value {
	if len(b.Instrs) == 0 {
		return nil
	}
	if iff, ok := b.Instrs[len(b.Instrs)-1].(*ssa.If); ok {
		return iff.Cond
	}
	return nil
}

// DepSlice is the backward data slice of v extended with implicit flows: for every phi in the
// slice, the conditions the incoming edges are control dependent on are sliced as well.
func DepSlice(cd *CtrlDeps, v ssa.Value) map[ssa.Value]bool {
	out := map[ssa.Value]bool{}
	var work []ssa.Value
	push := func(x ssa.Value) {
		if x != nil && !out[x] {
			work = append(work, x)
		}
	}
	push(v)
	for len(work) > 0 {
		x := work[len(work)-1]
		work = work[:len(work)-1]
		if out[x] {
			continue
		}
		for y := range BackSlice(x) {
			if out[y] {
				continue
			}
			out[y] = true
			if phi, ok := y.(*ssa.Phi); ok && phi.Parent() == cd.fn {
				for _, pred := range phi.Block().Preds {
					for _, e := range cd.Transitive(pred) {
						push(BranchCond(e.From))
					}
					// the edge pred -> phi.Block itself
					if len(pred.Succs) > 1 {
						push(BranchCond(pred))
					}
				}
			}
		}
	}
	return out
}
