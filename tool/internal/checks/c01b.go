package checks

import (
	"fmt"
	"go/constant"
	"go/token"
	"go/types"
	"os"
	"strings"

	"fv/internal/core"

	"golang.org/x/tools/go/ssa"
)

// lastIndexExceptions: sites of x[len(x)-k] whose non-emptiness follows from an invariant that is not a length test,
// reviewed by reading, one reason each. Keyed by function and indexed operand (no line numbers).
var lastIndexExceptions = map[string]string{
	"parser.(*Parser).ParseSwitchStatement|CaseStatement.Statements": "every case returned by ParseCaseStatement ends with a parsed break/fallthrough statement (PrevTokenIs test before its return), so Statements is not empty",
}

// checkLastIndex (idx.last): "never crash" - the lexer and the parser index or slice with len(x)-k in several places
// (last parameter, last argument, closing quote of a delimiter). Each such site panics on an empty x unless x is known
// to hold at least k elements there. Decided per site: a comparison of len(x) with a constant dominates the site on the
// edge that implies len(x) >= k; or every definition of x reaching the site is an append of at least k elements; or
// x is the result of bufio ReadString/ReadBytes and the site is dominated by err == nil (the result then ends with the
// delimiter); or the site is a named exception.
func checkLastIndex(c *core.Ctx) {
	checkLastIndexIn(c, "idx.last", c.Prog.ModuleFuncs("lexer", "parser", "token"), "an input that leaves it empty makes the parser panic (index out of range) instead of returning a located error", 8)
}

func checkLastIndexIn(c *core.Ctx, rule string, funcs []*ssa.Function, consequence string, floor int) {
	n := 0
	for _, fn := range funcs {
		perFn := map[string]int{}
		for _, b := range fn.Blocks {
			for _, in := range b.Instrs {
				var base ssa.Value
				var idxs []ssa.Value
				switch t := in.(type) {
				case *ssa.IndexAddr:
					base, idxs = t.X, []ssa.Value{t.Index}
				case *ssa.Index:
					base, idxs = t.X, []ssa.Value{t.Index}
				case *ssa.Slice:
					base = t.X
					for _, v := range []ssa.Value{t.Low, t.High} {
						if v != nil {
							idxs = append(idxs, v)
						}
					}
				default:
					continue
				}
				for _, iv := range idxs {
					// len(x) - v with a run-time v
					if bo, isBo := iv.(*ssa.BinOp); isBo && bo.Op == token.SUB {
						if _, isK := core.ConstIntValue(bo.Y); !isK {
							if lc, isCall := bo.X.(*ssa.Call); isCall {
								if bi, isBi := lc.Common().Value.(*ssa.Builtin); isBi && bi.Name() == "len" && (lc.Common().Args[0] == base || sameBaseValue(lc.Common().Args[0], base)) {
									n++
									what := stableLabel(base) + "[len-" + stableLabel(bo.Y) + "]"
									perFn[what]++
									key := core.FnName(fn) + "|" + what
									if perFn[what] > 1 {
										key += fmt.Sprintf("#%d", perFn[what])
									}
									if notAboveLen(fn, bo.Y, base, b) {
										c.Discharge(rule, key, in.Pos(), "dominated by a comparison of the subtracted value with the length")
									} else {
										c.Report(rule, key, in.Pos(), fmt.Sprintf("%s slices/indexes with len(x) minus a run-time value that no dominating test bounds by the length: when the value is larger the bound is negative and the program panics; %s", core.FnName(fn), consequence))
									}
								}
							}
						}
					}
					k, lenOf, ok := lenMinusConst(iv)
					if !ok || k < 1 || !(lenOf == base || sameBaseValue(lenOf, base)) {
						continue
					}
					if _, isSlice := in.(*ssa.Slice); isSlice && k < 1 {
						continue
					}
					n++
					what := stableLabel(base)
					perFn[what]++
					key := core.FnName(fn) + "|" + what
					if perFn[what] > 1 {
						key += fmt.Sprintf("#%d", perFn[what])
					}
					switch {
					case lenLowerBound(fn, base, b) >= k:
						c.Discharge(rule, key, in.Pos(), fmt.Sprintf("dominated by a length test implying at least %d element(s)", k))
					case k == 1 && allDefsAppend(base, map[ssa.Value]bool{}):
						c.Discharge(rule, key, in.Pos(), "every definition of the slice reaching this point is an append of at least one element")
					case k == 1 && delimitedReadUnderNilErr(base, b):
						c.Discharge(rule, key, in.Pos(), "result of ReadString/ReadBytes under err == nil: it ends with the delimiter")
					case k == 1 && nonEmptyOnSuccess(base, b):
						c.Discharge(rule, key, in.Pos(), "result of a callee that returns a non-empty value whenever its error is nil (Peek of at least one byte), under err == nil")
					case k == 1 && deferredPopAfterPush(fn, base):
						c.Discharge(rule, key, in.Pos(), "pop in a deferred closure registered after the push of the same stack field in the enclosing function (balanced push/pop)")
					case lastIndexExceptions[core.FnName(fn)+"|"+what] != "" && caseEndsWithTerminator(c.Prog):
						c.Discharge(rule, key, in.Pos(), "named exception (premise re-checked on this tree): "+lastIndexExceptions[core.FnName(fn)+"|"+what])
					default:
						c.Report(rule, key, in.Pos(), fmt.Sprintf("%s indexes %s with len-%d and nothing on the paths to this point implies that it holds %d element(s) (no dominating length test, not freshly appended to): %s", core.FnName(fn), what, k, k, consequence))
					}
				}
			}
		}
	}
	c.Floor(rule, floor)
}

// lenMinusConst: v is len(x) - k.
func lenMinusConst(v ssa.Value) (k int64, x ssa.Value, ok bool) {
	bo, isBo := v.(*ssa.BinOp)
	if !isBo || bo.Op != token.SUB {
		return 0, nil, false
	}
	k, isK := core.ConstIntValue(bo.Y)
	call, isCall := bo.X.(*ssa.Call)
	if !isK || !isCall {
		return 0, nil, false
	}
	if bi, isBi := call.Common().Value.(*ssa.Builtin); !isBi || bi.Name() != "len" {
		return 0, nil, false
	}
	return k, call.Common().Args[0], true
}

// allDefsAppend: every definition of v (through phis) is append(_, e1, ...) with at least one element.
func allDefsAppend(v ssa.Value, seen map[ssa.Value]bool) bool {
	if seen[v] {
		return true
	}
	seen[v] = true
	switch t := v.(type) {
	case *ssa.Phi:
		for _, e := range t.Edges {
			if !allDefsAppend(e, seen) {
				return false
			}
		}
		return true
	case *ssa.Call:
		bi, ok := t.Common().Value.(*ssa.Builtin)
		if !ok || bi.Name() != "append" || len(t.Common().Args) != 2 {
			return false
		}
		// the variadic argument is a slice of a fresh array with at least one element
		if sl, ok := t.Common().Args[1].(*ssa.Slice); ok {
			if al, ok := sl.X.(*ssa.Alloc); ok {
				if arr, ok := al.Type().(*types.Pointer).Elem().Underlying().(*types.Array); ok && arr.Len() >= 1 {
					return true
				}
			}
		}
		return false
	}
	return false
}

// delimitedReadUnderNilErr: v is the first result of a bufio ReadString/ReadBytes call whose error is nil on every
// path to b.
func delimitedReadUnderNilErr(v ssa.Value, b *ssa.BasicBlock) bool {
	ex, ok := v.(*ssa.Extract)
	if !ok || ex.Index != 0 {
		return false
	}
	call, ok := ex.Tuple.(*ssa.Call)
	if !ok || !isBufioReaderCall(call, "ReadString", "ReadBytes") {
		return false
	}
	for _, e := range core.ErrorResults(call) {
		if core.DominatedByNil(e, b, true) {
			return true
		}
	}
	return false
}

// stableLabel names a value without positions: the field path from its root, the root being a parameter name, the
// named type of the root, or the root's SSA kind.
func stableLabel(v ssa.Value) string {
	root, path := chainOf(v)
	name := ""
	switch t := root.(type) {
	case *ssa.Parameter:
		name = t.Name()
	case *ssa.Extract:
		if call, ok := t.Tuple.(*ssa.Call); ok {
			if cal := call.Common().StaticCallee(); cal != nil {
				name = fmt.Sprintf("%s()#%d", cal.Name(), t.Index)
			}
		}
	case *ssa.Phi:
		name = t.Comment
	}
	if name == "" {
		name = core.NamedTypeName(derefType(root.Type()))
	}
	if name == "" {
		name = root.Type().String()
	}
	for _, f := range path {
		name += "." + f
	}
	return name
}

// nonEmptyOnSuccess: v is the first result of a module function f, the site is dominated by f's error being nil, and
// every return of f with a nil error returns (a conversion of) the bytes of a successful bufio Peek(n) with n >= 1.
func nonEmptyOnSuccess(v ssa.Value, b *ssa.BasicBlock) bool {
	ex, ok := v.(*ssa.Extract)
	if !ok || ex.Index != 0 {
		return false
	}
	call, ok := ex.Tuple.(*ssa.Call)
	if !ok {
		return false
	}
	f := call.Common().StaticCallee()
	if f == nil || f.Blocks == nil {
		return false
	}
	under := false
	for _, e := range core.ErrorResults(call) {
		if core.DominatedByNil(e, b, true) {
			under = true
		}
	}
	if !under {
		return false
	}
	sites := 0
	for _, rs := range core.ReturnSites(f) {
		if len(rs.Results) != 2 || !core.IsNilConst(rs.Results[1]) {
			continue
		}
		sites++
		r := rs.Results[0]
		for {
			if cv, ok := r.(*ssa.Convert); ok {
				r = cv.X
				continue
			}
			if ct, ok := r.(*ssa.ChangeType); ok {
				r = ct.X
				continue
			}
			break
		}
		pex, ok := r.(*ssa.Extract)
		if !ok || pex.Index != 0 {
			return false
		}
		peek, ok := pex.Tuple.(*ssa.Call)
		if !ok || !isBufioReaderCall(peek, "Peek") {
			return false
		}
		okErr := false
		for _, e := range core.ErrorResults(peek) {
			if core.DominatedByNil(e, rs.Ret.Block(), true) {
				okErr = true
			}
		}
		if !okErr || !atLeastOne(peek.Common().Args[len(peek.Common().Args)-1], map[ssa.Value]bool{}) {
			return false
		}
	}
	return sites > 0
}

// atLeastOne: v >= 1 by construction: a constant >= 1, or x + k with k >= 1 and x >= 0 (a phi of such values and
// non-negative constants).
func atLeastOne(v ssa.Value, seen map[ssa.Value]bool) bool {
	if k, ok := core.ConstIntValue(v); ok {
		return k >= 1
	}
	if bo, ok := v.(*ssa.BinOp); ok && bo.Op == token.ADD {
		if k, ok := core.ConstIntValue(bo.Y); ok && k >= 1 {
			return nonNegative(bo.X, seen)
		}
	}
	return false
}

func nonNegative(v ssa.Value, seen map[ssa.Value]bool) bool {
	if seen[v] {
		return true
	}
	seen[v] = true
	if k, ok := core.ConstIntValue(v); ok {
		return k >= 0
	}
	switch t := v.(type) {
	case *ssa.Phi:
		for _, e := range t.Edges {
			if !nonNegative(e, seen) {
				return false
			}
		}
		return true
	case *ssa.BinOp:
		if t.Op == token.ADD {
			if k, ok := core.ConstIntValue(t.Y); ok && k >= 0 {
				return nonNegative(t.X, seen)
			}
		}
	}
	return false
}

// deferredPopAfterPush: fn is a closure deferred by its parent, base is a load of field F, and in the parent a store
// F = append(F, ...) dominates the defer: the deferred pop runs after that push and after every balanced push/pop
// of the frames in between.
func deferredPopAfterPush(fn *ssa.Function, base ssa.Value) bool {
	parent := fn.Parent()
	if parent == nil {
		return false
	}
	_, path := chainOf(base)
	if len(path) == 0 {
		return false
	}
	field := path[len(path)-1]
	var deferIn ssa.Instruction
	for _, b := range parent.Blocks {
		for _, in := range b.Instrs {
			d, ok := in.(*ssa.Defer)
			if !ok {
				continue
			}
			if mc, ok := d.Call.Value.(*ssa.MakeClosure); ok && mc.Fn == ssa.Value(fn) {
				deferIn = in
			}
		}
	}
	if deferIn == nil {
		return false
	}
	for _, b := range parent.Blocks {
		for _, in := range b.Instrs {
			st, ok := in.(*ssa.Store)
			if !ok {
				continue
			}
			f := core.FieldOf(st.Addr)
			if f == nil || f.Name() != field {
				continue
			}
			call, ok := st.Val.(*ssa.Call)
			if !ok {
				continue
			}
			if bi, ok := call.Common().Value.(*ssa.Builtin); !ok || bi.Name() != "append" {
				continue
			}
			_, p2 := chainOf(call.Common().Args[0])
			if len(p2) == 0 || p2[len(p2)-1] != field {
				continue
			}
			if core.InstrDominates(in, deferIn) {
				return true
			}
		}
	}
	return false
}

// notAboveLen: a comparison of v with len(base) dominates b on the edge that implies v <= len(base).
func notAboveLen(fn *ssa.Function, v, base ssa.Value, b *ssa.BasicBlock) bool {
	isLenOfBase := func(x ssa.Value) bool {
		call, ok := x.(*ssa.Call)
		if !ok {
			return false
		}
		bi, ok := call.Common().Value.(*ssa.Builtin)
		return ok && bi.Name() == "len" && (call.Common().Args[0] == base || sameBaseValue(call.Common().Args[0], base))
	}
	for _, blk := range fn.Blocks {
		iff, ok := blk.Instrs[len(blk.Instrs)-1].(*ssa.If)
		if !ok {
			continue
		}
		bo, ok := iff.Cond.(*ssa.BinOp)
		if !ok {
			continue
		}
		op := bo.Op
		switch {
		case bo.X == v && isLenOfBase(bo.Y):
		case bo.Y == v && isLenOfBase(bo.X):
			if m, ok := mirrored[op]; ok {
				op = m
			}
		default:
			continue
		}
		// now: v op len
		switch op {
		case token.GTR: // v > len false edge
			if core.EdgeDominates(blk, 1, b) {
				return true
			}
		case token.LEQ, token.LSS, token.EQL:
			if core.EdgeDominates(blk, 0, b) {
				return true
			}
		case token.GEQ: // v >= len false edge: v < len
			if core.EdgeDominates(blk, 1, b) {
				return true
			}
		}
	}
	return false
}

// listRuntimeSlices (developer aid, FV_LIST_SLICES): Slice instructions whose bounds are run-time values.
func listRuntimeSlices(c *core.Ctx, funcs []*ssa.Function) {
	for _, fn := range funcs {
		for _, b := range fn.Blocks {
			for _, in := range b.Instrs {
				sl, ok := in.(*ssa.Slice)
				if !ok {
					continue
				}
				for _, v := range []ssa.Value{sl.Low, sl.High} {
					if v == nil {
						continue
					}
					if _, isK := core.ConstIntValue(v); isK {
						continue
					}
					fmt.Fprintf(os.Stderr, "SLICE %s %s bound=%s\n", c.Prog.Loc(in.Pos()), core.FnName(fn), describeOperand(v))
				}
			}
		}
	}
}

// checkSearchResultBounds (sim.indexneg): strings/bytes Index, LastIndex, IndexByte, IndexRune, IndexAny ... return -1
// when nothing is found. Such a result used as a slice bound or index (directly or plus a non-negative constant less
// than... no: only directly, or +k) must be dominated by a test of that very value against -1 / 0 on the edge that
// implies it is not negative; otherwise an input without the searched text makes the slice expression panic.
func checkSearchResultBounds(c *core.Ctx, rule string, funcs []*ssa.Function, consequence string) {
	isSearch := func(v ssa.Value) (string, bool) {
		call, ok := v.(*ssa.Call)
		if !ok {
			return "", false
		}
		cal := call.Common().StaticCallee()
		if cal == nil || cal.Pkg == nil {
			return "", false
		}
		p := cal.Pkg.Pkg.Path()
		if p != "strings" && p != "bytes" {
			return "", false
		}
		switch cal.Name() {
		case "Index", "LastIndex", "IndexByte", "LastIndexByte", "IndexRune", "IndexAny", "LastIndexAny", "IndexFunc", "LastIndexFunc":
			return p + "." + cal.Name(), true
		}
		return "", false
	}
	nonNeg := func(op token.Token, k int64, isFloat, edgeTrue, left bool) bool {
		if isFloat {
			return false
		}
		lo, _, excl, ok := intervalOf(op, k, edgeTrue, left)
		if !ok {
			return false
		}
		if excl != nil {
			return *excl == -1 // != -1: the only negative value the search returns
		}
		return lo >= 0
	}
	n := 0
	for _, fn := range funcs {
		perFn := map[string]int{}
		for _, b := range fn.Blocks {
			for _, in := range b.Instrs {
				var bounds []ssa.Value
				switch t := in.(type) {
				case *ssa.Slice:
					bounds = []ssa.Value{t.Low, t.High}
				case *ssa.IndexAddr:
					bounds = []ssa.Value{t.Index}
				case *ssa.Index:
					bounds = []ssa.Value{t.Index}
				default:
					continue
				}
				for _, bv := range bounds {
					if bv == nil {
						continue
					}
					// the bound itself, or bound + constant
					v := bv
					if bo, ok := v.(*ssa.BinOp); ok && (bo.Op == token.ADD || bo.Op == token.SUB) {
						if _, isK := core.ConstIntValue(bo.Y); isK {
							v = bo.X
						} else if cl, isLen := bo.Y.(*ssa.Call); isLen && bo.Op == token.ADD {
							if bi, ok := cl.Common().Value.(*ssa.Builtin); ok && bi.Name() == "len" {
								v = bo.X
							}
						}
					}
					name, ok := isSearch(v)
					if !ok {
						continue
					}
					n++
					perFn[name]++
					key := fmt.Sprintf("%s|%s#%d", core.FnName(fn), name, perFn[name])
					if guardedValueCompare(fn, v, b, nonNeg) {
						c.Discharge(rule, key, in.Pos(), "the search result is tested against -1 / 0 on every path to its use as a bound")
					} else {
						c.Report(rule, key, in.Pos(), fmt.Sprintf("%s uses the result of %s as a slice bound or index without a dominating test that it is not -1: when the searched text is absent the expression panics (slice bounds out of range); %s", core.FnName(fn), name, consequence))
					}
				}
			}
		}
	}
	c.Floor(rule, 8)
}

// guardedValueCompare: block b is dominated by an edge of a comparison of the SSA value v itself with a constant that
// satisfies accept.
func guardedValueCompare(fn *ssa.Function, v ssa.Value, b *ssa.BasicBlock, accept func(op token.Token, k int64, isFloat bool, edgeTrue bool, left bool) bool) bool {
	if v.Referrers() == nil {
		return false
	}
	for _, r := range *v.Referrers() {
		bo, ok := r.(*ssa.BinOp)
		if !ok || bo.Referrers() == nil {
			continue
		}
		var k int64
		left := true
		if kv, ok := core.ConstIntValue(bo.Y); ok && bo.X == v {
			k = kv
		} else if kv, ok := core.ConstIntValue(bo.X); ok && bo.Y == v {
			k, left = kv, false
		} else {
			continue
		}
		for _, rr := range *bo.Referrers() {
			iff, ok := rr.(*ssa.If)
			if !ok {
				continue
			}
			for idx, edgeTrue := range []bool{true, false} {
				if accept(bo.Op, k, false, edgeTrue, left) && core.EdgeDominates(iff.Block(), idx, b) {
					return true
				}
			}
		}
	}
	return false
}

// checkDirectVCLBounds (sim.vclbound): a slice bound that is a VCL INTEGER taken as is (value.Integer.Value through
// conversions only) can be any 64-bit number the program supplies: it must be dominated by a test that it is not
// negative and by a comparison with the length of the sliced operand.
func checkDirectVCLBounds(c *core.Ctx, rule string, funcs []*ssa.Function) {
	isVCLInteger := func(v ssa.Value) bool {
		for {
			if cv, ok := v.(*ssa.Convert); ok {
				v = cv.X
				continue
			}
			break
		}
		ld, ok := v.(*ssa.UnOp)
		if !ok || ld.Op != token.MUL {
			return false
		}
		fa, ok := ld.X.(*ssa.FieldAddr)
		if !ok {
			return false
		}
		f := core.FieldOf(fa)
		return f != nil && f.Name() == "Value" && core.NamedTypeName(derefType(fa.X.Type())) == "Integer"
	}
	nonNeg := func(op token.Token, k int64, isFloat, edgeTrue, left bool) bool {
		if isFloat {
			return false
		}
		lo, _, excl, ok := intervalOf(op, k, edgeTrue, left)
		return ok && excl == nil && lo >= 0
	}
	n := 0
	for _, fn := range funcs {
		perFn := 0
		for _, b := range fn.Blocks {
			for _, in := range b.Instrs {
				sl, ok := in.(*ssa.Slice)
				if !ok {
					continue
				}
				for _, bv := range []ssa.Value{sl.Low, sl.High} {
					if bv == nil || !isVCLInteger(bv) {
						continue
					}
					n++
					perFn++
					key := fmt.Sprintf("%s|slice bound %s#%d", core.FnName(fn), describeOperand(bv), perFn)
					path := accessPath(bv)
					lower := guardedCompare(fn, path, b, nonNeg) || guardedValueCompare(fn, bv, b, nonNeg)
					upper := notAboveLenPath(fn, bv, sl.X, b)
					switch {
					case lower && upper:
						c.Discharge(rule, key, in.Pos(), "the VCL integer is tested non-negative and compared with the length before it is used as a bound")
					case !lower:
						c.Report(rule, key, in.Pos(), fmt.Sprintf("%s slices with a VCL INTEGER argument taken as is and no dominating test that it is not negative: a negative argument makes the built-in panic (slice bounds out of range) and takes the simulator down", core.FnName(fn)))
					default:
						c.Report(rule, key, in.Pos(), fmt.Sprintf("%s slices with a VCL INTEGER argument taken as is and no dominating comparison with the length of the sliced value: a large argument makes the built-in panic (slice bounds out of range)", core.FnName(fn)))
					}
				}
			}
		}
	}
	if n == 0 {
		c.Discharge(rule, "none", token.NoPos, "no slice expression of the simulator uses a VCL integer as a bound without arithmetic")
	}
}

// notAboveLenPath: as notAboveLen, comparing by canonical access path (the integer is re-loaded for the comparison).
func notAboveLenPath(fn *ssa.Function, v, base ssa.Value, b *ssa.BasicBlock) bool {
	if notAboveLen(fn, v, base, b) {
		return true
	}
	want := accessPath(v)
	if want == "" {
		return false
	}
	isLenOfBase := func(x ssa.Value) bool {
		call, ok := x.(*ssa.Call)
		if !ok {
			return false
		}
		bi, ok := call.Common().Value.(*ssa.Builtin)
		return ok && bi.Name() == "len" && (call.Common().Args[0] == base || sameBaseValue(call.Common().Args[0], base))
	}
	for _, blk := range fn.Blocks {
		iff, ok := blk.Instrs[len(blk.Instrs)-1].(*ssa.If)
		if !ok {
			continue
		}
		bo, ok := iff.Cond.(*ssa.BinOp)
		if !ok {
			continue
		}
		op := bo.Op
		switch {
		case accessPath(bo.X) == want && isLenOfBase(bo.Y):
		case accessPath(bo.Y) == want && isLenOfBase(bo.X):
			if m, ok := mirrored[op]; ok {
				op = m
			}
		default:
			continue
		}
		switch op {
		case token.GTR, token.GEQ:
			if core.EdgeDominates(blk, 1, b) {
				return true
			}
		case token.LEQ, token.LSS, token.EQL:
			if core.EdgeDominates(blk, 0, b) {
				return true
			}
		}
	}
	return false
}

// caseEndsWithTerminator: the premise of the ParseSwitchStatement exception. In ParseCaseStatement no return with a
// nil error is reachable without taking the true edge of PrevTokenIs(BREAK) or of PrevTokenIs(FALLTHROUGH).
func caseEndsWithTerminator(prog *core.Program) bool {
	fn := prog.SSAFunc("parser", "Parser.ParseCaseStatement")
	if fn == nil {
		return false
	}
	cut := map[[2]*ssa.BasicBlock]bool{}
	found := 0
	for _, b := range fn.Blocks {
		iff, ok := b.Instrs[len(b.Instrs)-1].(*ssa.If)
		if !ok {
			continue
		}
		call, ok := iff.Cond.(*ssa.Call)
		if !ok {
			continue
		}
		cal := call.Common().StaticCallee()
		if cal == nil || cal.Name() != "PrevTokenIs" {
			continue
		}
		k, ok := call.Common().Args[len(call.Common().Args)-1].(*ssa.Const)
		if !ok || k.Value == nil {
			continue
		}
		name := constNameOfToken(prog, k)
		if name == "BREAK" || name == "FALLTHROUGH" {
			cut[[2]*ssa.BasicBlock{b, b.Succs[0]}] = true
			found++
		}
	}
	if found < 2 {
		return false
	}
	okRet := map[*ssa.BasicBlock]bool{}
	for _, rs := range core.ReturnSites(fn) {
		if len(rs.Results) == 2 && core.IsNilConst(rs.Results[1]) {
			okRet[rs.Ret.Block()] = true
		}
	}
	seen := map[*ssa.BasicBlock]bool{fn.Blocks[0]: true}
	work := []*ssa.BasicBlock{fn.Blocks[0]}
	for len(work) > 0 {
		b := work[len(work)-1]
		work = work[:len(work)-1]
		if okRet[b] {
			return false
		}
		for _, s := range b.Succs {
			if cut[[2]*ssa.BasicBlock{b, s}] || seen[s] {
				continue
			}
			seen[s] = true
			work = append(work, s)
		}
	}
	return true
}

// constNameOfToken: token types are strings spelled like their constant ("BREAK").
func constNameOfToken(prog *core.Program, k *ssa.Const) string {
	if k.Value == nil || k.Value.Kind() != constant.String {
		return ""
	}
	return constant.StringVal(k.Value)
}

// scanStepRange: for a loop of a lexer function, the minimal and maximal number of characters consumed (static calls
// of (*Lexer).readChar, and of functions that call it exactly once on every path are not summarised: direct calls only)
// on an acyclic path from the header back to the header.
func scanStepRange(l loopInfo) (min, max int, ok bool) {
	count := func(b *ssa.BasicBlock) int {
		n := 0
		for _, in := range b.Instrs {
			if cal := core.StaticCallee(in); cal != nil && cal.Name() == "readChar" {
				n++
			}
		}
		return n
	}
	min, max = 1<<30, -1
	var walk func(b *ssa.BasicBlock, n int, onPath map[*ssa.BasicBlock]bool)
	steps := 0
	walk = func(b *ssa.BasicBlock, n int, onPath map[*ssa.BasicBlock]bool) {
		steps++
		if steps > 20000 {
			return
		}
		n += count(b)
		for _, s := range b.Succs {
			if s == l.header {
				if n < min {
					min = n
				}
				if n > max {
					max = n
				}
				continue
			}
			if !l.body[s] || onPath[s] {
				continue
			}
			onPath[s] = true
			walk(s, n, onPath)
			delete(onPath, s)
		}
	}
	walk(l.header, 0, map[*ssa.BasicBlock]bool{l.header: true})
	return min, max, max >= 0 && steps <= 20000
}

func listScanSteps(c *core.Ctx) {
	for _, fn := range c.Prog.ModuleFuncs("lexer") {
		for _, l := range naturalLoops(fn) {
			mn, mx, ok := scanStepRange(l)
			fmt.Fprintf(os.Stderr, "SCAN %s loop@%s min=%d max=%d ok=%v\n", core.FnName(fn), c.Prog.Loc(l.header.Instrs[0].Pos()), mn, mx, ok)
		}
	}
}

// checkScanStep (lex.step / cmt.scan): the lexer's scanning loops look for a terminator (a quote, a delimiter, "*/", an
// end of line) one character at a time. A path around such a loop that consumes two characters never examines the second
// one as the possible start of the terminator ("**/" is then not the end of a comment, `""` not the end of a string):
// every path from the loop header back to it calls readChar exactly once.
func checkScanStep(c *core.Ctx, rule string, only func(fn *ssa.Function) bool, floor int) {
	n := 0
	for _, fn := range c.Prog.ModuleFuncs("lexer") {
		if only != nil && !only(fn) {
			continue
		}
		k := 0
		for _, l := range naturalLoops(fn) {
			mn, mx, ok := scanStepRange(l)
			if !ok || mx == 0 {
				continue // not a scanning loop (no readChar on any path) / too many paths to enumerate
			}
			k++
			n++
			key := fmt.Sprintf("%s|loop#%d", core.FnName(fn), k)
			if mx == 1 && mn == 1 {
				c.Discharge(rule, key, l.header.Instrs[0].Pos(), "every path around the loop consumes exactly one character")
			} else if mx > 1 {
				c.Report(rule, key, l.header.Instrs[0].Pos(), fmt.Sprintf("a path around this scanning loop of %s consumes %d characters before the terminator test is repeated: the second character is never examined as the start of the terminator (e.g. `**/` no longer closes a comment), so the token boundary moves", core.FnName(fn), mx))
			} else {
				c.Discharge(rule, key, l.header.Instrs[0].Pos(), "at most one character per iteration (progress is decided by tok.progress)")
			}
		}
	}
	c.Floor(rule, floor)
}

// checkDispatchErrorToken (err.token): the statement dispatchers switch on the type of the *current* token. When no arm
// takes it, the error must name that token - the one that cannot start a statement - not the one after it: the
// position of a parse error designates the text the error refers to. Sibling rule: Parse and ParseStatement hand
// p.curToken to UnexpectedToken in their default arm; every dispatcher must.
func checkDispatchErrorToken(c *core.Ctx) {
	prog := c.Prog
	for _, name := range []string{"Parser.Parse", "Parser.ParseStatement", "Parser.ParseSnippetVCL"} {
		fn := prog.SSAFunc("parser", name)
		if fn == nil {
			c.MissingAnchor("err.token", "parser.(*"+name+")")
			continue
		}
		// the dispatch tests: curToken.Token.Type == K
		isDispatchTest := func(b *ssa.BasicBlock) (int, bool) {
			bo, eq, ok := core.EqBranch(b)
			if !ok {
				return 0, false
			}
			for _, o := range []ssa.Value{bo.X, bo.Y} {
				for x := range core.BackSliceLocal(o) {
					if f := core.FieldOf(x); f != nil && f.Name() == "curToken" {
						return eq, true
					}
				}
			}
			return 0, false
		}
		n := 0
		for _, b := range fn.Blocks {
			for _, in := range b.Instrs {
				call, ok := in.(*ssa.Call)
				if !ok || call.Common().StaticCallee() == nil || call.Common().StaticCallee().Name() != "UnexpectedToken" {
					continue
				}
				// in an arm? (dominated by the equal edge of a dispatch test)
				inArm := false
				tests := 0
				for _, t := range fn.Blocks {
					if eq, isT := isDispatchTest(t); isT {
						tests++
						if core.EdgeDominates(t, eq, b) {
							inArm = true
						}
					}
				}
				if inArm || tests == 0 {
					continue
				}
				n++
				field := ""
				for x := range core.BackSliceLocal(call.Common().Args[0]) {
					if f := core.FieldOf(x); f != nil && (f.Name() == "curToken" || f.Name() == "peekToken") {
						field = f.Name()
					}
				}
				key := core.FnName(fn) + "|default"
				if field == "curToken" {
					c.Discharge("err.token", key, in.Pos(), "the error names the token the dispatch looked at")
				} else {
					c.Report("err.token", key, in.Pos(), fmt.Sprintf("%s switches on the current token, and when no arm takes it reports p.%s: the error designates the token after the one that cannot start a statement (its siblings report p.curToken)", core.FnName(fn), field))
				}
			}
		}
	}
	c.Floor("err.token", 2)
}

// checkNestingDepth: a recursive-descent reader (the parser, the codec's decoder) recurses once per nesting level of
// its input. Each level consumes input, so it terminates - but the depth is bounded by the input length only, and the
// Go stack is not: a few megabytes of `((((…` or of nested GROUPED_EXPRESSION frames end in `fatal error: stack
// overflow`, which no recover() can catch. Required: a depth counter - an integer field of the receiver that the
// recursive functions increment and compare with a limit. Reported once per reader.
func checkNestingDepth(c *core.Ctx, rule, rel, recv string) {
	var funcs []*ssa.Function
	for _, fn := range c.Prog.ModuleFuncs(rel) {
		if fn.Signature.Recv() != nil && core.NamedTypeName(derefType(fn.Signature.Recv().Type())) == recv {
			funcs = append(funcs, fn)
		}
	}
	in := map[*ssa.Function]bool{}
	for _, f := range funcs {
		in[f] = true
	}
	succ := map[*ssa.Function][]*ssa.Function{}
	for _, f := range funcs {
		for _, b := range f.Blocks {
			for _, i := range b.Instrs {
				if cal := core.StaticCallee(i); cal != nil && in[cal] {
					succ[f] = append(succ[f], cal)
				}
				// parser tables: functions stored as values are called through the Pratt maps
				if mc, ok := i.(*ssa.MakeClosure); ok {
					if g, isFn := mc.Fn.(*ssa.Function); isFn {
						for _, fv := range g.FreeVars {
							_ = fv
						}
						for _, gb := range g.Blocks {
							for _, gi := range gb.Instrs {
								if cal := core.StaticCallee(gi); cal != nil && in[cal] {
									succ[f] = append(succ[f], cal)
								}
							}
						}
					}
				}
			}
		}
	}
	// functions on a cycle
	reach := func(from, to *ssa.Function) bool {
		seen := map[*ssa.Function]bool{}
		work := append([]*ssa.Function{}, succ[from]...)
		for len(work) > 0 {
			f := work[len(work)-1]
			work = work[:len(work)-1]
			if f == to {
				return true
			}
			if seen[f] {
				continue
			}
			seen[f] = true
			work = append(work, succ[f]...)
		}
		return false
	}
	var cyc []*ssa.Function
	for _, f := range funcs {
		if reach(f, f) {
			cyc = append(cyc, f)
		}
	}
	key := rel + "." + recv + "|nesting-depth"
	if len(cyc) == 0 {
		c.Discharge(rule, key, 0, "no recursion")
		return
	}
	// a depth counter: an integer field of the receiver, incremented and compared in a function of the cycle
	guarded := false
	for _, f := range cyc {
		inc := map[string]bool{}
		cmp := map[string]bool{}
		for _, b := range f.Blocks {
			for _, i := range b.Instrs {
				if st, ok := i.(*ssa.Store); ok {
					if fld := core.FieldOf(st.Addr); fld != nil {
						if bo, isBo := st.Val.(*ssa.BinOp); isBo && bo.Op == token.ADD {
							inc[fld.Name()] = true
						}
					}
				}
				if bo, ok := i.(*ssa.BinOp); ok {
					switch bo.Op {
					case token.GTR, token.GEQ, token.LSS, token.LEQ:
						for _, o := range []ssa.Value{bo.X, bo.Y} {
							for x := range core.BackSliceLocal(o) {
								if fld := core.FieldOf(x); fld != nil && strings.HasSuffix(core.FieldOwner(x), "."+recv) {
									if bt, isB := fld.Type().Underlying().(*types.Basic); isB && bt.Info()&types.IsInteger != 0 {
										cmp[fld.Name()] = true
									}
								}
							}
						}
					}
				}
			}
		}
		for n := range inc {
			if cmp[n] {
				guarded = true
			}
		}
	}
	if guarded {
		c.Discharge(rule, key, cyc[0].Pos(), "a depth counter of the receiver is incremented and compared with a limit inside the recursion")
	} else {
		c.Report(rule, key, cyc[0].Pos(), fmt.Sprintf("%d mutually recursive methods of %s.%s recurse once per nesting level of the input with no depth limit: the stack grows with the input, and a few million nested levels end in `fatal error: stack overflow`, which cannot be recovered", len(cyc), rel, recv))
	}
}
