package checks

import (
	"fmt"
	"go/constant"
	"go/token"
	"sort"
	"strings"

	"golang.org/x/tools/go/ssa"
)

// peval: a small partial evaluator over one SSA function. Some values (parameters, results of tag calls such as
// x.Type()/x.IsLiteral(), the dynamic type of an interface parameter) are bound to constants; the walk follows every
// branch whose condition evaluates under the bindings and both successors of the others. Phis are resolved per path.
// It reports every Return reached together with whether a flagged call was passed on the way.
type peval struct {
	fn      *ssa.Function
	bind    func(v ssa.Value) (constant.Value, bool)
	dynType func(v ssa.Value) (string, bool) // Go type name held by an interface value, for type assertions/switches
	flag    func(in ssa.Instruction) bool    // instructions whose execution marks the path
	steps   int
	curEnv  map[*ssa.Phi]ssa.Value // environment of the evaluation in progress (for bind callbacks that evaluate arguments)
}

type pevalOutcome struct {
	ret     *ssa.Return
	flagged bool
	results []ssa.Value // results with phis resolved along the path
}

func (p *peval) resolve(v ssa.Value, env map[*ssa.Phi]ssa.Value) ssa.Value {
	for i := 0; i < 16; i++ {
		phi, ok := v.(*ssa.Phi)
		if !ok {
			return v
		}
		nv, ok := env[phi]
		if !ok {
			return v
		}
		v = nv
	}
	return v
}

func (p *peval) eval(v ssa.Value, env map[*ssa.Phi]ssa.Value) (constant.Value, bool) {
	v = p.resolve(v, env)
	if k, ok := v.(*ssa.Const); ok {
		if k.Value == nil {
			return nil, false
		}
		return k.Value, true
	}
	if p.bind != nil {
		p.curEnv = env
		if c, ok := p.bind(v); ok {
			return c, true
		}
	}
	switch t := v.(type) {
	case *ssa.ChangeType:
		return p.eval(t.X, env)
	case *ssa.Convert:
		return p.eval(t.X, env)
	case *ssa.UnOp:
		if t.Op == token.NOT {
			if c, ok := p.eval(t.X, env); ok && c.Kind() == constant.Bool {
				return constant.MakeBool(!constant.BoolVal(c)), true
			}
		}
	case *ssa.BinOp:
		x, ok1 := p.eval(t.X, env)
		y, ok2 := p.eval(t.Y, env)
		if !ok1 || !ok2 || x.Kind() != y.Kind() {
			return nil, false
		}
		switch t.Op {
		case token.EQL, token.NEQ, token.LSS, token.LEQ, token.GTR, token.GEQ:
			if x.Kind() == constant.Bool {
				if t.Op == token.EQL {
					return constant.MakeBool(constant.BoolVal(x) == constant.BoolVal(y)), true
				}
				if t.Op == token.NEQ {
					return constant.MakeBool(constant.BoolVal(x) != constant.BoolVal(y)), true
				}
				return nil, false
			}
			return constant.MakeBool(constant.Compare(x, t.Op, y)), true
		case token.AND, token.OR, token.XOR, token.ADD, token.SUB:
			if x.Kind() == constant.Int {
				return constant.BinaryOp(x, t.Op, y), true
			}
		}
	case *ssa.Extract:
		// v, ok := x.(T)
		if ta, ok := t.Tuple.(*ssa.TypeAssert); ok && t.Index == 1 && p.dynType != nil {
			if dt, ok := p.dynType(p.resolve(ta.X, env)); ok {
				return constant.MakeBool(typeAssertHolds(ta, dt)), true
			}
		}
	}
	return nil, false
}

func typeAssertHolds(ta *ssa.TypeAssert, dyn string) bool {
	s := ta.AssertedType.String()
	if i := strings.LastIndex(s, "."); i >= 0 {
		s = s[i+1:]
	}
	return s == dyn
}

func (p *peval) run() []pevalOutcome {
	var out []pevalOutcome
	seen := map[string]bool{}
	var walk func(b, pred *ssa.BasicBlock, env map[*ssa.Phi]ssa.Value, flagged bool)
	walk = func(b, pred *ssa.BasicBlock, env map[*ssa.Phi]ssa.Value, flagged bool) {
		p.steps++
		if p.steps > 200000 {
			return
		}
		nenv := env
		if pred != nil {
			pi := -1
			for i, q := range b.Preds {
				if q == pred {
					pi = i
				}
			}
			first := true
			for _, in := range b.Instrs {
				phi, ok := in.(*ssa.Phi)
				if !ok {
					break
				}
				if first {
					nenv = map[*ssa.Phi]ssa.Value{}
					for k, v := range env {
						nenv[k] = v
					}
					first = false
				}
				if pi >= 0 {
					nenv[phi] = p.resolve(phi.Edges[pi], env)
				}
			}
		}
		// memo key: block, flag, and the resolved phis
		var ks []string
		for k, v := range nenv {
			ks = append(ks, k.Name()+"="+v.Name()+fmt.Sprintf("@%p", v))
		}
		sort.Strings(ks)
		key := fmt.Sprintf("%d|%v|%s", b.Index, flagged, strings.Join(ks, ","))
		if seen[key] {
			return
		}
		seen[key] = true
		for _, in := range b.Instrs {
			if p.flag != nil && p.flag(in) {
				flagged = true
			}
			if r, ok := in.(*ssa.Return); ok {
				o := pevalOutcome{ret: r, flagged: flagged}
				for _, res := range r.Results {
					o.results = append(o.results, p.resolve(res, nenv))
				}
				out = append(out, o)
				return
			}
			if _, ok := in.(*ssa.Panic); ok {
				return
			}
		}
		if iff, ok := b.Instrs[len(b.Instrs)-1].(*ssa.If); ok {
			if c, ok := p.eval(iff.Cond, nenv); ok && c.Kind() == constant.Bool {
				if constant.BoolVal(c) {
					walk(b.Succs[0], b, nenv, flagged)
				} else {
					walk(b.Succs[1], b, nenv, flagged)
				}
				return
			}
		}
		for _, s := range b.Succs {
			walk(s, b, nenv, flagged)
		}
	}
	walk(p.fn.Blocks[0], nil, map[*ssa.Phi]ssa.Value{}, false)
	return out
}
