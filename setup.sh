#!/bin/bash
# MANIFEST.setup_cmd: build the checker from files on disk only (module cache, no network).
cd "$(dirname "$0")" || exit 2
. ./env.sh
mkdir -p bin evidence
(cd tool && go build -o ../bin/fv ./cmd/fv) || exit 1
echo "built bin/fv with $(go version)"
