package core

import (
	"encoding/json"
	"fmt"
	"go/token"
	"os"
	"path/filepath"
	"sort"
	"strings"
	"time"
)

// Finding is one reported construct. Key never contains a line number: it names the
// rule's construct (qualified function + discriminator) so that known-findings survive edits.
type Finding struct {
	Property string   `json:"property"`
	Rule     string   `json:"rule"`
	Key      string   `json:"key"`
	File     string   `json:"file"`
	Line     int      `json:"line"`
	Message  string   `json:"message"`
	Witness  []string `json:"witness_path,omitempty"`
	Canary   bool     `json:"-"`
}

type Obligation struct {
	Rule      string `json:"rule"`
	Construct string `json:"construct"`
	Where     string `json:"where"`
	How       string `json:"discharged_by"`
}

// Ctx is what a check works with.
type Ctx struct {
	Prog     *Program
	Property string
	Tier     string
	Seed     int64

	Explanation string
	NotCovered  []string
	Assumptions []string

	obligations int
	discharged  int
	instances   map[string]int
	floors      map[string]int
	findings    []Finding
	samples     []Obligation
	sampleCount map[string]int
	info        []string
	funcs       map[string]bool
	callSites   int
	extra       map[string]any
	canaryWant  map[string]bool // rule -> must fire inside a canary file
	canaryGot   map[string]bool
	fatal       []string
}

func NewCtx(prog *Program, prop, tier string, seed int64) *Ctx {
	return &Ctx{Prog: prog, Property: prop, Tier: tier, Seed: seed,
		instances: map[string]int{}, floors: map[string]int{}, sampleCount: map[string]int{},
		funcs: map[string]bool{}, extra: map[string]any{}, canaryWant: map[string]bool{}, canaryGot: map[string]bool{}}
}

func (c *Ctx) Thorough() bool { return c.Tier == "thorough" }

// Instance counts one rule instance (a site the rule applies to).
func (c *Ctx) Instance(rule string)          { c.instances[rule]++ }
func (c *Ctx) Instances(rule string, n int)  { c.instances[rule] += n }
func (c *Ctx) InstanceCount(rule string) int { return c.instances[rule] }

// Floor declares the minimum instance count confirmed by hand; below it the rule has gone blind.
// Floor: the rule must keep matching. n is the number of instances confirmed by hand when the rule was written; the
// check fails when fewer than half of them (at least one) are matched - a rule that lost its anchors collapses to zero
// or a handful, while code that is legitimately removed or merged (two helpers unified, deprecated functions
// dropped) takes a few instances away and must not raise an alarm.
func (c *Ctx) Floor(rule string, n int) {
	eff := (n + 1) / 2
	if eff < 1 {
		eff = 1
	}
	c.floors[rule] = eff
}

// Discharge records an obligation that was met.
func (c *Ctx) Discharge(rule, construct string, pos token.Pos, how string) {
	if c.Prog.IsCanary(pos) {
		return
	}
	c.obligations++
	c.discharged++
	c.instances[rule]++
	if d := os.Getenv("FV_DUMP"); d != "" && strings.Contains(rule+"|"+construct, d) {
		fmt.Fprintf(os.Stderr, "DISCHARGED %s %s: %s\n", rule, construct, how)
	}
	if c.sampleCount[rule] < 4 {
		c.sampleCount[rule]++
		c.samples = append(c.samples, Obligation{Rule: rule, Construct: construct, Where: c.Prog.Loc(pos), How: how})
	}
}

// Report records an obligation that was NOT met.
func (c *Ctx) Report(rule, key string, pos token.Pos, msg string, witness ...string) {
	f := Finding{Property: c.Property, Rule: rule, Key: key, File: c.Prog.Rel(pos), Line: c.Prog.Line(pos), Message: msg, Witness: witness}
	if c.Prog.IsCanary(pos) {
		f.Canary = true
		c.canaryGot[rule] = true
		return
	}
	c.obligations++
	c.instances[rule]++
	c.findings = append(c.findings, f)
}

// ReportNoPos reports a finding not tied to a position (tables, missing anchors).
func (c *Ctx) ReportAt(rule, key, file string, line int, msg string, witness ...string) {
	c.obligations++
	c.instances[rule]++
	c.findings = append(c.findings, Finding{Property: c.Property, Rule: rule, Key: key, File: file, Line: line, Message: msg, Witness: witness})
}

// Anchor fails the check when a construct a rule depends on cannot be found.
func (c *Ctx) MissingAnchor(rule, what string) {
	c.fatal = append(c.fatal, fmt.Sprintf("unresolved anchor for rule %s: %s", rule, what))
}

func (c *Ctx) Info(format string, a ...any)  { c.info = append(c.info, fmt.Sprintf(format, a...)) }
func (c *Ctx) Func(name string)              { c.funcs[name] = true }
func (c *Ctx) CallSite()                     { c.callSites++ }
func (c *Ctx) CallSites(n int)               { c.callSites += n }
func (c *Ctx) Extra(k string, v any)         { c.extra[k] = v }
func (c *Ctx) ExpectCanary(rule string)      { c.canaryWant[rule] = true }
func (c *Ctx) Findings() []Finding           { return c.findings }
func (c *Ctx) Fatal(format string, a ...any) { c.fatal = append(c.fatal, fmt.Sprintf(format, a...)) }

type knownEntry struct {
	Property  string `json:"property"`
	Rule      string `json:"rule"`
	Key       string `json:"key"`
	Status    string `json:"status"` // known | fixed
	Commit    string `json:"commit,omitempty"`
	WhatFails string `json:"what_fails"`
}

type knownFile struct {
	Findings []knownEntry `json:"findings"`
}

func loadKnown() (knownFile, error) {
	var kf knownFile
	b, err := os.ReadFile(filepath.Join(VerifDir(), "known_findings.json"))
	if err != nil {
		if os.IsNotExist(err) {
			return kf, nil
		}
		return kf, err
	}
	err = json.Unmarshal(b, &kf)
	return kf, err
}

// Finish matches findings with known_findings.json, writes evidence and replay files,
// prints the protocol lines and returns the exit code.
func (c *Ctx) Finish(start time.Time) int {
	verif := VerifDir()
	kf, err := loadKnown()
	if err != nil {
		c.fatal = append(c.fatal, "known_findings.json unreadable: "+err.Error())
	}
	known := map[string]knownEntry{}
	for _, e := range kf.Findings {
		if e.Property == c.Property && e.Status == "known" {
			known[e.Rule+"|"+e.Key] = e
		}
	}
	// floors
	for rule, n := range c.floors {
		if c.instances[rule] < n {
			c.fatal = append(c.fatal, fmt.Sprintf("rule %s matched %d instances, below its floor %d: the rule has gone blind (anchors moved?)", rule, c.instances[rule], n))
		}
	}
	// presence baseline: every rule that matched sites when it was confirmed by hand still matches at least one
	if b, err := os.ReadFile(filepath.Join(verif, "tool", "rule_baseline.json")); err != nil {
		c.fatal = append(c.fatal, "tool/rule_baseline.json unreadable: "+err.Error())
	} else {
		var bl struct {
			Rules map[string][]string `json:"rules"`
		}
		if err := json.Unmarshal(b, &bl); err != nil {
			c.fatal = append(c.fatal, "tool/rule_baseline.json: "+err.Error())
		}
		for _, rule := range bl.Rules[c.Property] {
			if c.instances[rule] == 0 {
				c.fatal = append(c.fatal, fmt.Sprintf("rule %s matched no site at all (it matched some when it was confirmed): the rule has gone blind (anchors moved?)", rule))
			}
		}
	}
	for rule := range c.canaryWant {
		if !c.canaryGot[rule] {
			c.fatal = append(c.fatal, fmt.Sprintf("canary for rule %s did not fire: the rule no longer detects its known-bad example", rule))
		}
	}
	sort.SliceStable(c.findings, func(i, j int) bool {
		a, b := c.findings[i], c.findings[j]
		if a.Rule != b.Rule {
			return a.Rule < b.Rule
		}
		if a.File != b.File {
			return a.File < b.File
		}
		if a.Line != b.Line {
			return a.Line < b.Line
		}
		return a.Key < b.Key
	})
	// restructuring tolerance (DESIGN.md §7): most rules look for a required shape inside particular functions. When the
	// packages a check analyses contain functions that did not exist when the rules were confirmed (tool/func_baseline.json),
	// the code was restructured - typically a helper was extracted - and "the required shape is not where it was" no longer
	// means the property is broken. Findings of such rules are then printed as UNDECIDED and do not fail the check.
	// Rules that report the presence of a forbidden construct (PositiveRules) are never downgraded.
	var restructured []string
	if c.Prog != nil && c.Prog.SSAPkg != nil {
		if b, err := os.ReadFile(filepath.Join(verif, "tool", "func_baseline.json")); err == nil {
			var fb struct {
				Functions []string `json:"functions"`
			}
			if json.Unmarshal(b, &fb) == nil && len(fb.Functions) > 100 {
				base := map[string]bool{}
				for _, n := range fb.Functions {
					base[n] = true
				}
				restructured = c.Prog.NewFunctionsIn(base, c.Prog.Queried)
			}
		}
	}
	var knownHit []string
	var violations []Finding
	var undecided []Finding
	seen := map[string]bool{}
	for _, f := range c.findings {
		k := f.Rule + "|" + f.Key
		if e, ok := known[k]; ok {
			if !seen[k] {
				seen[k] = true
				knownHit = append(knownHit, fmt.Sprintf("KNOWN-FINDING: property=%s %s [%s %s:%d] %s", c.Property, e.WhatFails, f.Rule, f.File, f.Line, f.Key))
			}
			continue
		}
		if len(restructured) > 0 && FragileRules[f.Rule] {
			undecided = append(undecided, f)
			continue
		}
		violations = append(violations, f)
	}
	for _, m := range c.fatal {
		f := Finding{Property: c.Property, Rule: "analysis", Key: m, File: "-", Message: m}
		if len(restructured) > 0 && (strings.HasPrefix(m, "unresolved anchor") || strings.Contains(m, "the rule has gone blind")) {
			undecided = append(undecided, f)
			continue
		}
		violations = append(violations, f)
	}
	if len(undecided) > 0 {
		shown := restructured
		if len(shown) > 6 {
			shown = append(append([]string{}, shown[:6]...), fmt.Sprintf("… %d more", len(restructured)-6))
		}
		var ul []string
		for _, f := range undecided {
			fmt.Printf("UNDECIDED property=%s rule=%s key=%s: the analysed packages were restructured since the rules were confirmed (new functions: %s); this rule looks for a shape inside particular functions and cannot tell. Reported text: %s\n", c.Property, f.Rule, f.Key, strings.Join(shown, ", "), f.Message)
			ul = append(ul, f.Rule+"|"+f.Key)
		}
		c.extra["undecided_after_restructuring"] = ul
		c.extra["new_functions"] = restructured
	}
	replayDir := filepath.Join(verif, "evidence", "replay")
	os.MkdirAll(replayDir, 0o755)
	// remove stale replay files of this property
	if ents, err := os.ReadDir(replayDir); err == nil {
		for _, e := range ents {
			if strings.HasPrefix(e.Name(), c.Property+"-") {
				os.Remove(filepath.Join(replayDir, e.Name()))
			}
		}
	}
	for _, l := range knownHit {
		fmt.Println(l)
	}
	for i, f := range violations {
		path := filepath.Join(replayDir, fmt.Sprintf("%s-%d.json", c.Property, i+1))
		b, _ := json.MarshalIndent(map[string]any{"property": f.Property, "rule": f.Rule, "key": f.Key, "file": f.File, "line": f.Line,
			"message": f.Message, "witness_path": f.Witness, "tier": c.Tier, "seed": c.Seed}, "", " ")
		os.WriteFile(path, b, 0o644)
		fmt.Printf("  %s:%d: [%s] %s\n    key: %s\n", f.File, f.Line, f.Rule, f.Message, f.Key)
		for _, w := range f.Witness {
			fmt.Printf("      %s\n", w)
		}
		fmt.Printf("VIOLATION property=%s replay=%s\n", c.Property, path)
	}
	// evidence
	funcs := make([]string, 0, len(c.funcs))
	for f := range c.funcs {
		funcs = append(funcs, f)
	}
	sort.Strings(funcs)
	samples := make([]any, 0, len(c.samples))
	for _, s := range c.samples {
		samples = append(samples, s)
	}
	if len(samples) == 0 {
		samples = append(samples, map[string]any{"note": "no obligations were discharged in this run"})
	}
	kl := []string{}
	for _, l := range knownHit {
		kl = append(kl, l)
	}
	cov := map[string]any{
		"explanation":        c.Explanation,
		"obligations":        c.obligations,
		"discharged":         c.discharged,
		"rule_instances":     c.instances,
		"floors":             c.floors,
		"functions_analysed": len(funcs),
		"call_sites":         c.callSites,
		"samples":            samples,
		"known_findings":     kl,
		"not_covered":        c.NotCovered,
		"information":        c.info,
		"packages_loaded":    len(c.Prog.Pkgs),
		"exhaustive":         false,
	}
	if len(c.canaryWant) > 0 {
		cw := []string{}
		for r := range c.canaryWant {
			cw = append(cw, r)
		}
		sort.Strings(cw)
		cg := []string{}
		for r := range c.canaryGot {
			cg = append(cg, r)
		}
		sort.Strings(cg)
		cov["canaries_expected"] = cw
		cov["canaries_fired"] = cg
	}
	for k, v := range c.extra {
		cov[k] = v
	}
	if c.NotCovered == nil {
		cov["not_covered"] = []string{}
	}
	if c.info == nil {
		cov["information"] = []string{}
	}
	if c.Assumptions == nil {
		c.Assumptions = []string{"go/types and go/ssa (x/tools v0.50.0) represent the program faithfully"}
	}
	if c.NotCovered == nil {
		c.NotCovered = []string{}
	}
	if c.info == nil {
		c.info = []string{}
	}
	ev := map[string]any{
		"property_id": c.Property,
		"tier":        c.Tier,
		"seed":        c.Seed,
		"level":       "other",
		"coverage":    cov,
		"assumptions": c.Assumptions,
		"wall_s":      time.Since(start).Seconds(),
		"violations":  len(violations),
	}
	b, _ := json.MarshalIndent(ev, "", " ")
	os.MkdirAll(filepath.Join(verif, "evidence"), 0o755)
	if err := os.WriteFile(filepath.Join(verif, "evidence", c.Property+".json"), b, 0o644); err != nil {
		fmt.Fprintln(os.Stderr, "cannot write evidence:", err)
		return 2
	}
	rules := make([]string, 0, len(c.instances))
	for r := range c.instances {
		rules = append(rules, fmt.Sprintf("%s=%d", r, c.instances[r]))
	}
	sort.Strings(rules)
	fmt.Printf("%s %s: %d obligations, %d discharged, %d known findings, %d violations; instances: %s (%.1fs)\n",
		c.Property, c.Tier, c.obligations, c.discharged, len(knownHit), len(violations), strings.Join(rules, " "), time.Since(start).Seconds())
	if len(violations) > 0 {
		return 1
	}
	return 0
}

// OnlyKey restricts the findings to one rule|key (replay).
func (c *Ctx) OnlyKey(k string) {
	var out []Finding
	for _, f := range c.findings {
		if f.Rule+"|"+f.Key == k {
			out = append(out, f)
		}
	}
	c.findings = out
	c.fatal = nil
	c.floors = map[string]int{}
	c.canaryWant = map[string]bool{}
}

// WriteLoadFailure writes evidence + replay for a failed load.
func WriteLoadFailure(id, tier string, seed int64, err error, start time.Time) string {
	verif := VerifDir()
	os.MkdirAll(filepath.Join(verif, "evidence", "replay"), 0o755)
	path := filepath.Join(verif, "evidence", "replay", id+"-1.json")
	b, _ := json.MarshalIndent(map[string]any{"property": id, "rule": "analysis", "key": "load", "message": err.Error(), "tier": tier, "seed": seed}, "", " ")
	os.WriteFile(path, b, 0o644)
	ev := map[string]any{"property_id": id, "tier": tier, "seed": seed, "level": "other",
		"coverage": map[string]any{"explanation": "the repository could not be loaded/type-checked, nothing was analysed: " + err.Error(), "obligations": 0, "discharged": 0, "samples": []any{"load failure"}},
		"wall_s":   time.Since(start).Seconds(), "violations": 1}
	b, _ = json.MarshalIndent(ev, "", " ")
	os.WriteFile(filepath.Join(verif, "evidence", id+".json"), b, 0o644)
	return path
}

// FragileRules: rules that look for a required shape inside particular functions and that the false-alarm test
// (neutral/, 60 behaviour-preserving refactorings) showed to report a violation when a helper is extracted, a function
// split or a free function turned into a method - plus their siblings of the same construction. Only these are
// downgraded to UNDECIDED when the analysed packages contain functions that are not in the inventory. Every other rule
// either reports the presence of a forbidden construct or already looks into helpers, and stays strict.
var FragileRules = map[string]bool{
	// C01 / C02
	"tok.steady": true, "tok.progress": true, "lex.operators": true, "lex.keywords": true, "lex.step": true, "prec.pratt": true,
	"escape.bytes": true, "escape": true, "dup.case": true, "dispatch": true,
	// C03 / C15
	"fmt.inlinecmt": true, "fmt.chunks": true, "fmt.linecmt": true, "fmt.juxta": true, "cmt.macro": true, "cmt.slots": true, "cmt.emit": true, "cmt.token": true,
	// C04
	"verdict.indicators": true, "verdict.severity": true, "verdict.recorded": true, "verdict.exit": true,
	// C05 / C06
	"ref.op": true, "ref.return": true, "ref.stmt": true, "sm.restart": true, "sm.cache": true, "sm.succ": true, "sm.stmt": true, "sm.one": true, "sm.scope": true,
	// C07
	"acl.longest": true, "acl.mask": true, "acl.neg": true, "acl.order": true, "branch.if": true, "branch.switch": true, "ops.kernel": true, "ops.sibling": true,
	// C08 / C11 / C13
	"sim.lastidx": true, "sim.recursion": true, "sim.ctxnil": true, "lint.recursion": true, "lint.monotone": true, "lint.fixpoint": true, "pure.frame": true,
	// C10 / C12
	"test.exitguard": true, "ignore.slots": true, "ignore.symmetry": true, "ignore.clauses": true, "ignore.emptyrule": true, "ignore.filter": true, "ignore.pairing": true, "ignore.nesting": true, "ignore.funnel": true,
	// C16 / C17 / C20
	"fsatomic.rename": true, "hdr.quote": true, "hdr.canon": true, "tmpl.escape": true, "tmpl.fields": true, "tmpl.ident": true, "tmpl.acl": true, "tmpl.hex": true,
	"sm.hashseed": true, "err.token": true, "test.defsrestore": true,
}
