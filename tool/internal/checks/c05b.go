package checks

import (
	"fmt"
	"go/constant"
	"go/token"
	"go/types"
	"sort"
	"strings"

	"fv/internal/core"

	"golang.org/x/tools/go/ssa"
)

// kinds of the operator tables (property statement) and the linter constant / Go value type that stand for them
var opKinds = []struct{ kind, lint, goType string }{
	{"INTEGER", "IntegerType", "Integer"}, {"FLOAT", "FloatType", "Float"}, {"STRING", "StringType", "String"}, {"BOOL", "BoolType", "Boolean"},
	{"RTIME", "RTimeType", "RTime"}, {"TIME", "TimeType", "Time"}, {"IP", "IPType", "IP"}, {"BACKEND", "BackendType", "Backend"}, {"ACL", "AclType", "Acl"},
}

// kinds that can be written as a literal (linter/helper.go isLiteralExpression)
var literalKinds = map[string]bool{"INTEGER": true, "FLOAT": true, "STRING": true, "RTIME": true}

// linter diagnostics that depend on the operand's value, not on its kind
var valueDependentDiagnostics = map[string]bool{"validateRegex": true, "RegexUrlExtension": true, "extractExtensionsFromRegex": true}

func checkOperatorCells(c *core.Ctx) {
	prog := c.Prog
	tp := prog.Pkg("linter/types")
	if tp == nil {
		c.MissingAnchor("ref.op", "package linter/types")
		return
	}
	lintConst := map[string]constant.Value{}
	for _, k := range opKinds {
		if cn, ok := tp.Types.Scope().Lookup(k.lint).(*types.Const); ok {
			lintConst[k.kind] = cn.Val()
		}
	}
	if len(lintConst) != len(opKinds) {
		c.MissingAnchor("ref.op", "linter/types kind constants")
		return
	}
	errFn := prog.SSAFunc("linter", "Linter.Error")
	if errFn == nil {
		c.MissingAnchor("ref.op", "linter.(*Linter).Error")
		return
	}
	isLoadOfField := func(name string) func(ssa.Value) bool {
		return func(v ssa.Value) bool {
			ld, ok := v.(*ssa.UnOp)
			if !ok || ld.Op != token.MUL {
				return false
			}
			f := core.FieldOf(ld.X)
			return f != nil && f.Name() == name
		}
	}
	typeErrorCall := func(in ssa.Instruction) bool {
		call, ok := in.(*ssa.Call)
		if !ok || call.Common().StaticCallee() != errFn {
			return false
		}
		for x := range core.BackSlice(call.Common().Args[1]) {
			if cl, ok := x.(*ssa.Call); ok {
				if cal := cl.Common().StaticCallee(); cal != nil && valueDependentDiagnostics[cal.Name()] {
					return false
				}
			}
		}
		return true
	}
	simSucceeds := func(fn *ssa.Function, L, R string, lit bool) (bool, int) {
		goT := map[string]string{}
		for _, k := range opKinds {
			goT[k.kind] = k.goType
		}
		var lp, rp *ssa.Parameter
		for _, p := range fn.Params {
			if core.NamedTypeName(p.Type()) == "Value" {
				if lp == nil {
					lp = p
				} else if rp == nil {
					rp = p
				}
			}
		}
		pe := &peval{fn: fn}
		pe.bind = func(v ssa.Value) (constant.Value, bool) {
			call, ok := v.(*ssa.Call)
			if !ok || !call.Common().IsInvoke() {
				return nil, false
			}
			recv := call.Common().Value
			switch call.Common().Method.Name() {
			case "Type":
				if recv == ssa.Value(lp) {
					return constant.MakeString(L), true
				}
				if recv == ssa.Value(rp) {
					return constant.MakeString(R), true
				}
			case "IsLiteral":
				if recv == ssa.Value(lp) {
					return constant.MakeBool(false), true
				}
				if recv == ssa.Value(rp) {
					return constant.MakeBool(lit), true
				}
			}
			return nil, false
		}
		pe.dynType = func(v ssa.Value) (string, bool) {
			if v == ssa.Value(lp) {
				return goT[L], true
			}
			if v == ssa.Value(rp) {
				return goT[R], true
			}
			return "", false
		}
		outs := pe.run()
		for _, o := range outs {
			errV := o.results[len(o.results)-1]
			if core.IsNilConst(errV) {
				return true, len(outs)
			}
			if !definitelyErrorValue(errV) {
				return true, len(outs)
			}
		}
		return false, len(outs)
	}

	// ---- assignment operators
	lset := prog.SSAFunc("linter", "Linter.lintSetStatement")
	dasg := prog.SSAFunc("interpreter/variable", "doAssign")
	if lset == nil || dasg == nil {
		c.MissingAnchor("ref.op", "linter.lintSetStatement / variable.doAssign")
		return
	}
	lintArms := stringSwitch(lset, isLoadOfField("Operator"), "/linter")
	simArms := stringSwitch(dasg, func(v ssa.Value) bool { p, ok := v.(*ssa.Parameter); return ok && p.Name() == "operator" }, "interpreter/assign")
	opFunc := func(arms map[string]*armInfo, op string, keep func(string) bool) *ssa.Function {
		for _, ai := range []*armInfo{arms[op], arms["default"]} {
			if ai == nil {
				continue
			}
			for _, call := range ai.calls {
				if cal := call.Common().StaticCallee(); cal != nil && keep(cal.Name()) {
					return cal
				}
			}
		}
		return nil
	}
	var ops []string
	for op := range assignDispatchSpec {
		if op == "default" {
			op = "="
		}
		ops = append(ops, op)
	}
	sort.Strings(ops)
	cells := 0
	for _, op := range ops {
		lf := opFunc(lintArms, op, func(n string) bool { return strings.HasPrefix(n, "lint") && strings.HasSuffix(n, "Operator") })
		sf := opFunc(simArms, op, func(string) bool { return true })
		if lf == nil || sf == nil {
			c.Report("ref.op", "assign|"+op+"|dispatch", lset.Pos(), fmt.Sprintf("operator %s: no linter (%v) or simulator (%v) implementation found in the dispatch tables", op, lf != nil, sf != nil))
			continue
		}
		c.Func(core.FnName(lf))
		c.Func(core.FnName(sf))
		for _, L := range opKinds {
			if L.kind == "ACL" {
				continue
			}
			for _, R := range opKinds {
				for _, lit := range []bool{false, true} {
					if lit && !literalKinds[R.kind] {
						continue
					}
					cells++
					pe := &peval{fn: lf, flag: typeErrorCall}
					pe.bind = func(v ssa.Value) (constant.Value, bool) {
						if p, ok := v.(*ssa.Parameter); ok {
							switch p.Name() {
							case "left":
								return lintConst[L.kind], true
							case "right":
								return lintConst[R.kind], true
							case "isLiteral":
								return constant.MakeBool(lit), true
							}
						}
						return nil, false
					}
					outs := pe.run()
					accepts := len(outs) > 0
					for _, o := range outs {
						if o.flagged {
							accepts = false
						}
					}
					form := map[bool]string{false: "variable", true: "literal"}[lit]
					key := fmt.Sprintf("assign|%s|%s|%s|%s", op, L.kind, R.kind, form)
					if !accepts {
						c.Discharge("ref.op", key, lf.Pos(), "rejected by the linter")
						continue
					}
					ok, n := simSucceeds(sf, L.kind, R.kind, lit)
					if ok {
						c.Discharge("ref.op", key, lf.Pos(), fmt.Sprintf("accepted by the linter; %s has a non-failing path (%d paths)", sf.Name(), n))
					} else {
						c.Report("ref.op", key, sf.Pos(), fmt.Sprintf("the linter accepts `%s %s %s` with a %s right-hand side, but every path of %s for these kinds returns an error: lint-clean VCL fails in the simulator with a type error", L.kind, op, R.kind, form, core.FnName(sf)))
					}
				}
			}
		}
	}

	// ---- comparison operators
	linf := prog.SSAFunc("linter", "Linter.lintInfixExpression")
	sinf := prog.SSAFunc("interpreter", "Interpreter.ProcessInfixExpression")
	lintFn := prog.SSAFunc("linter", "Linter.lint")
	if linf == nil || sinf == nil || lintFn == nil {
		c.MissingAnchor("ref.op", "linter.lintInfixExpression / Interpreter.ProcessInfixExpression")
		return
	}
	c.Func(core.FnName(linf))
	simInfix := stringSwitch(sinf, isLoadOfField("Operator"), "interpreter/operator")
	var cops []string
	for op := range infixDispatchSpec {
		if op != "&&" && op != "||" {
			cops = append(cops, op)
		}
	}
	sort.Strings(cops)
	for _, op := range cops {
		sf := opFunc(simInfix, op, func(string) bool { return true })
		if sf == nil {
			c.Report("ref.op", "compare|"+op+"|dispatch", sinf.Pos(), "no simulator implementation found for "+op)
			continue
		}
		c.Func(core.FnName(sf))
		for _, L := range opKinds {
			for _, R := range opKinds {
				for _, lit := range []bool{false, true} {
					if lit && !literalKinds[R.kind] {
						continue
					}
					cells++
					pe := &peval{fn: linf, flag: typeErrorCall}
					pe.bind = func(v ssa.Value) (constant.Value, bool) {
						switch t := v.(type) {
						case *ssa.UnOp:
							if t.Op == token.MUL {
								if f := core.FieldOf(t.X); f != nil && f.Name() == "Operator" {
									return constant.MakeString(op), true
								}
							}
						case *ssa.Call:
							cal := t.Common().StaticCallee()
							if cal == nil {
								return nil, false
							}
							switch cal.Name() {
							case "lint":
								_, path := chainOf(t.Common().Args[1])
								if len(path) == 1 && path[0] == "Left" {
									return lintConst[L.kind], true
								}
								if len(path) == 1 && path[0] == "Right" {
									return lintConst[R.kind], true
								}
							case "isLiteralExpression":
								_, path := chainOf(t.Common().Args[0])
								if len(path) == 1 && path[0] == "Right" {
									return constant.MakeBool(lit), true
								}
							}
						}
						return nil, false
					}
					// expectType(cur, consts...) is evaluated from its arguments
					base := pe.bind
					pe.bind = func(v ssa.Value) (constant.Value, bool) {
						if cv, ok := base(v); ok {
							return cv, true
						}
						call, ok := v.(*ssa.Call)
						if !ok {
							return nil, false
						}
						if cal := call.Common().StaticCallee(); cal == nil || cal.Name() != "expectType" {
							return nil, false
						}
						cur, ok := pe.eval(call.Common().Args[0], pe.curEnv)
						if !ok {
							return nil, false
						}
						want := sliceLitConsts(call.Common().Args[1])
						cv, _ := constant.Int64Val(cur)
						for _, w := range want {
							if w == cv {
								return constant.MakeBool(true), true
							}
						}
						return constant.MakeBool(false), true
					}
					outs := pe.run()
					accepts := len(outs) > 0
					for _, o := range outs {
						if o.flagged {
							accepts = false
						}
					}
					form := map[bool]string{false: "variable", true: "literal"}[lit]
					key := fmt.Sprintf("compare|%s|%s|%s|%s", op, L.kind, R.kind, form)
					if !accepts {
						c.Discharge("ref.op", key, linf.Pos(), "rejected by the linter")
						continue
					}
					ok, n := simSucceeds(sf, L.kind, R.kind, lit)
					if ok {
						c.Discharge("ref.op", key, linf.Pos(), fmt.Sprintf("accepted by the linter; %s has a non-failing path (%d paths)", sf.Name(), n))
					} else {
						c.Report("ref.op", key, sf.Pos(), fmt.Sprintf("the linter accepts `%s %s %s` with a %s right operand, but every path of %s for these kinds returns an error: lint-clean VCL fails in the simulator with a type error", L.kind, op, R.kind, form, core.FnName(sf)))
					}
				}
			}
		}
	}
	c.Floor("ref.op", 2300)
	c.Extra("operator_cells", cells)
}

// definitelyErrorValue: the value is a freshly built error (never nil).
func definitelyErrorValue(v ssa.Value) bool {
	switch t := v.(type) {
	case *ssa.Call:
		cal := t.Common().StaticCallee()
		if cal == nil || cal.Pkg == nil {
			return false
		}
		switch cal.Pkg.Pkg.Path() + "." + cal.Name() {
		case "fmt.Errorf", "errors.New", "github.com/pkg/errors.New", "github.com/pkg/errors.Errorf":
			return true
		case "github.com/pkg/errors.WithStack":
			return definitelyErrorValue(t.Common().Args[0])
		}
	case *ssa.MakeInterface:
		return true
	}
	return false
}
