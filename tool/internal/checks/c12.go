package checks

import (
	"fmt"
	"go/constant"
	"go/token"
	"go/types"
	"os"
	"sort"
	"strings"

	"fv/internal/core"

	"golang.org/x/tools/go/ssa"
)

// C12 — ignore comments suppress exactly what they cover (E14 ignore-typestate).
func init() {
	register(&Check{ID: "C12", NeedSSA: true, Run: runC12})
}

const linterPkg = core.ModPath + "/linter"

func runC12(c *core.Ctx) {
	c.Explanation = "Typestate of the linter's ignore sets, decided on SSA: (funnel) Linter.Errors is stored only in (*Linter).Error and the *LintError append is dominated by the false edge of ignore.IsEnable(le.Rule) on the same diagnostic; (pairing) every SetupStatement/SetupBlockStatement call is followed, with no intervening call that can lint, by a defer of the matching Teardown on the same node's meta, and sits in no loop of its function (a defer in a loop would postpone teardown to the end of the block — the leak the property fears); (symmetry) every (set, directive, comment list) a Setup variant fills is cleared by its Teardown variant under the same directive constant, falco-ignore-start/-end are handled in both variants, directive constants map to their own set; (filter) IsEnable reads `.all` and `.rules[rule]` of all three sets with the rule parameter, ignoreRules/unignoreRules store/delete per listed rule and reset on an empty list. Necessary for: a directive's effect ends with its statement/block and is limited to the named rules. (cover) every statement of a statement list is linted through lintStatement or a function that brackets it the same way; (slots) falco-ignore-end is honoured in every comment slot of a block the parser can fill (Leading, Trailing and — comments before the closing brace — Infix); (markers) parseIgnoreComment strips the leading #, //, /* and the closing */; with a rule list ignoreRules allocates the rule map only when there is none (two rule-listed directives accumulate). (ignore.deferred) no located diagnostic is reported while the statement it points at is not set up: table-located reports follow the mark-used-under-IsEnable idiom, no report on an unbracketed path from Lint (recorded findings); the comments in front of a clause are handed over before the clause is linted."
	c.NotCovered = []string{"the text parsing of the directive (parseIgnoreComment)", "which comments the parser attaches to which statement"}
	checkIgnoreCover(c, "ignore.cover")
	prog := c.Prog
	all := prog.ModuleFuncs()
	lfuncs := prog.ModuleFuncs("linter")

	// ---- funnel
	errFn := prog.SSAFunc("linter", "Linter.Error")
	isEnable := prog.SSAFunc("linter", "ignore.IsEnable")
	if errFn == nil || isEnable == nil {
		c.MissingAnchor("ignore.funnel", "linter.(*Linter).Error / (*ignore).IsEnable")
		return
	}
	for _, fn := range all {
		for _, b := range fn.Blocks {
			for _, in := range b.Instrs {
				if _, ok := isFieldStore(in, linterPkg+".Linter", "Errors"); !ok {
					continue
				}
				top := fn
				for top.Parent() != nil {
					top = top.Parent()
				}
				if top != errFn {
					c.Report("ignore.funnel", core.FnName(fn)+"|store-Errors", in.Pos(), "Linter.Errors is written outside (*Linter).Error: the diagnostic bypasses the ignore filter")
					continue
				}
				st := in.(*ssa.Store)
				// is the appended element a *LintError coming from the parameter (type assertion)?
				var ta *ssa.TypeAssert
				for x := range core.BackSlice(st.Val) {
					if t, ok := x.(*ssa.TypeAssert); ok && core.NamedTypePkgName(t.AssertedType) == linterPkg+".LintError" {
						ta = t
					}
				}
				if ta == nil {
					c.Discharge("ignore.funnel", "Error|non-LintError-arm", in.Pos(), "wraps a foreign error (no rule to ignore)")
					continue
				}
				ok := false
				for _, bb := range fn.Blocks {
					for _, i2 := range bb.Instrs {
						call, isCall := i2.(*ssa.Call)
						if !isCall || call.Common().StaticCallee() != isEnable {
							continue
						}
						// argument must be the Rule of the same asserted value
						argOK := false
						for x := range core.BackSlice(call.Common().Args[1]) {
							if fa, isFA := x.(*ssa.FieldAddr); isFA && core.FieldOf(fa) != nil && core.FieldOf(fa).Name() == "Rule" && core.BackSlice(fa.X)[ta] {
								argOK = true
							}
						}
						if !argOK {
							continue
						}
						// false edge of the If on the call dominates the store
						for _, r := range *call.Referrers() {
							switch t := r.(type) {
							case *ssa.If:
								if core.EdgeDominates(t.Block(), 1, b) {
									ok = true
								}
							case *ssa.UnOp:
								if t.Op == token.NOT {
									for _, r2 := range *t.Referrers() {
										if iff, isIf := r2.(*ssa.If); isIf && core.EdgeDominates(iff.Block(), 0, b) {
											ok = true
										}
									}
								}
							}
						}
					}
				}
				if ok {
					c.Discharge("ignore.funnel", "Error|LintError-arm", in.Pos(), "append dominated by !ignore.IsEnable(le.Rule)")
				} else {
					c.Report("ignore.funnel", "Error|LintError-arm", in.Pos(), "the *LintError append is not dominated by the false edge of ignore.IsEnable(le.Rule) for the same diagnostic")
				}
			}
		}
	}
	c.Floor("ignore.funnel", 2)

	checkDeferredDiagnostics(c)
	if os.Getenv("FV_C12_UNBR") != "" {
		for _, l := range listUnbracketedErrors(c) {
			fmt.Fprintln(os.Stderr, "UNBR", l)
		}
	}
	// ---- pairing
	pairs := map[string]string{"SetupStatement": "TeardownStatement", "SetupBlockStatement": "TeardownBlockStatement"}
	for _, fn := range all {
		for _, b := range fn.Blocks {
			for idx, in := range b.Instrs {
				call, ok := in.(*ssa.Call)
				if !ok {
					continue
				}
				cal := call.Common().StaticCallee()
				if cal == nil || cal.Pkg == nil || cal.Pkg.Pkg.Path() != linterPkg {
					continue
				}
				want, isSetup := pairs[cal.Name()]
				if !isSetup || cal.Signature.Recv() == nil || core.NamedTypeName(cal.Signature.Recv().Type()) != "ignore" {
					continue
				}
				c.CallSite()
				key := core.FnName(fn) + "|" + cal.Name()
				// loop?
				inLoop := false
				for _, s := range b.Succs {
					if core.Reaches(s, b) {
						inLoop = true
					}
				}
				// a direct (not deferred) teardown on the same meta that follows at once: nothing is linted in between, the
				// statement only carries directives (break / fallthrough); fine inside a loop as well
				direct := false
				for _, nx := range b.Instrs[idx+1:] {
					if nc, isCall := nx.(*ssa.Call); isCall {
						if nc.Common().IsInvoke() && nc.Common().Method.Name() == "GetMeta" {
							continue
						}
						sc := nc.Common().StaticCallee()
						if sc != nil && sc.Name() == "GetMeta" {
							continue
						}
						if sc != nil && sc.Name() == want && sc.Pkg == cal.Pkg && sameMeta(call.Common().Args[1], nc.Common().Args[1]) {
							direct = true
						}
						break
					}
					if _, isDefer := nx.(*ssa.Defer); isDefer {
						break
					}
				}
				if direct {
					c.Discharge("ignore.pairing", key+"|direct", in.Pos(), "followed at once by "+want+" on the same meta")
					continue
				}
				if inLoop {
					c.Report("ignore.pairing", key+"|loop", in.Pos(), cal.Name()+" is called inside a loop of its function: its deferred teardown would only run when the whole function returns, so the directive leaks onto the following statements")
					continue
				}
				// scan forward in the same block for the defer
				found := false
				reason := "no matching defer " + want + " follows in the same block"
				for _, nx := range b.Instrs[idx+1:] {
					if d, isDefer := nx.(*ssa.Defer); isDefer {
						dc := d.Common().StaticCallee()
						if dc != nil && dc.Name() == want && dc.Pkg == cal.Pkg {
							if sameMeta(call.Common().Args[1], d.Common().Args[1]) {
								found = true
							} else {
								reason = "the deferred " + want + " is applied to a different node's meta than the setup"
							}
							break
						}
						continue
					}
					if nc, isCall := nx.(*ssa.Call); isCall {
						if nc.Common().IsInvoke() && nc.Common().Method.Name() == "GetMeta" {
							continue
						}
						if sc := nc.Common().StaticCallee(); sc != nil && sc.Name() == "GetMeta" {
							continue
						}
						reason = "a call (" + nc.Common().String() + ") runs between the setup and the registration of its teardown"
						break
					}
				}
				if found {
					c.Discharge("ignore.pairing", key, in.Pos(), "immediately followed by defer "+want+" on the same meta; not in a loop")
				} else {
					c.Report("ignore.pairing", key, in.Pos(), reason)
				}
			}
		}
	}
	c.Floor("ignore.pairing", 3)

	// ---- symmetry
	ign := prog.SSAFunc("linter", "ignoreRules")
	unign := prog.SSAFunc("linter", "unignoreRules")
	if ign == nil || unign == nil {
		c.MissingAnchor("ignore.symmetry", "linter.ignoreRules / unignoreRules")
		return
	}
	consts := map[string]string{} // directive text -> const name
	if lp := prog.Pkg("linter"); lp != nil {
		for _, n := range []string{"falcoIgnoreNextLine", "falcoIgnoreThisLine", "falcoIgnoreStart", "falcoIgnoreEnd"} {
			if k := lp.Types.Scope().Lookup(n); k != nil {
				if kc, ok := k.(interface{ Val() constant.Value }); ok {
					consts[constant.StringVal(kc.Val())] = n
				}
			}
		}
	}
	// restoring teardowns: Setup<X> saves a set (a clone of field F appended to a stack field of ignore) and Teardown<X>
	// stores the saved value back into F on a path that dominates nothing else: the set is restored wholesale, whatever
	// the directives of the statement did to it
	restores := map[string]map[string]bool{} // "Statement" -> field -> true
	for _, variant := range []string{"Statement", "BlockStatement"} {
		su := prog.SSAFunc("linter", "ignore.Setup"+variant)
		td := prog.SSAFunc("linter", "ignore.Teardown"+variant)
		if su == nil || td == nil {
			continue
		}
		saved := map[string]bool{}
		stack := ""
		for _, b := range su.Blocks {
			for _, in := range b.Instrs {
				st, ok := in.(*ssa.Store)
				if !ok {
					continue
				}
				f := core.FieldOf(st.Addr)
				if f == nil || !strings.HasSuffix(core.FieldOwner(st.Addr), "/linter.ignore") {
					continue
				}
				if _, isSlice := f.Type().Underlying().(*types.Slice); !isSlice {
					continue
				}
				stack = f.Name()
			}
		}
		// the sets that are copied as a whole (a load of the struct, e.g. as the receiver of clone())
		for _, b := range su.Blocks {
			for _, in := range b.Instrs {
				ld, ok := in.(*ssa.UnOp)
				if !ok || ld.Op != token.MUL {
					continue
				}
				if g := core.FieldOf(ld.X); g != nil && strings.HasPrefix(g.Name(), "ignore") && strings.HasSuffix(core.FieldOwner(ld.X), "/linter.ignore") {
					if _, isStruct := g.Type().Underlying().(*types.Struct); isStruct {
						saved[g.Name()] = true
					}
				}
			}
		}
		if stack == "" {
			continue
		}
		for _, b := range td.Blocks {
			for _, in := range b.Instrs {
				st, ok := in.(*ssa.Store)
				if !ok {
					continue
				}
				f := core.FieldOf(st.Addr)
				if f == nil || !saved[f.Name()] || !strings.HasSuffix(core.FieldOwner(st.Addr), "/linter.ignore") {
					continue
				}
				fromStack := false
				for x := range core.BackSlice(st.Val) {
					if g := core.FieldOf(x); g != nil && g.Name() == stack {
						fromStack = true
					}
				}
				if fromStack {
					if restores[variant] == nil {
						restores[variant] = map[string]bool{}
					}
					restores[variant][f.Name()] = true
				}
			}
		}
		if len(restores[variant]) > 0 {
			c.Extra("ignore_restore_"+variant, fmt.Sprintf("Setup%s saves and Teardown%s restores %v through ignore.%s", variant, variant, restores[variant], stack))
		}
	}
	// ---- nesting: statements nest (a block inside an if inside a block …) and the per-statement sets are single fields,
	// so the teardown of an inner statement must put back what the enclosing statement had: plain clearing wipes the
	// enclosing statement's directive, and a saved copy that shares the rules map is changed by the inner statement
	for _, f := range []string{"ignoreNextLine", "ignoreThisLine"} {
		key := "Statement|" + f
		if restores["Statement"][f] {
			c.Discharge("ignore.nesting", key, ign.Pos(), "TeardownStatement restores the set saved by SetupStatement")
		} else {
			c.ReportAt("ignore.nesting", key, "linter/ignore.go", 0, fmt.Sprintf("TeardownStatement clears %s instead of restoring what the enclosing statement had set: a directive on a statement inside an ignored if / subroutine cancels the enclosing directive for the rest of its body", f))
		}
	}
	if su := prog.SSAFunc("linter", "ignore.SetupStatement"); su != nil {
		deep := false
		for _, b := range su.Blocks {
			for _, in := range b.Instrs {
				cal := core.StaticCallee(in)
				if cal == nil || cal.Pkg == nil || cal.Pkg.Pkg.Path() != linterPkg || cal.Signature.Recv() == nil || core.NamedTypeName(derefType(cal.Signature.Recv().Type())) != "ignoredRules" {
					continue
				}
				for _, cb := range cal.Blocks {
					for _, cin := range cb.Instrs {
						if _, ok := cin.(*ssa.MakeMap); ok {
							deep = true
						}
					}
				}
			}
		}
		if len(restores["Statement"]) > 0 {
			if deep {
				c.Discharge("ignore.nesting", "Statement|deep-copy", su.Pos(), "the saved sets are copies with their own rules map")
			} else {
				c.Report("ignore.nesting", "Statement|deep-copy", su.Pos(), "SetupStatement saves the ignore sets by value: the saved struct shares its rules map with the live one, so rules added by an inner directive are still there after the restore and leak onto the rest of the enclosing statement")
			}
		}
	}
	stackTest := func(cond ssa.Value) bool {
		for x := range core.BackSlice(cond) {
			if g := core.FieldOf(x); g != nil && strings.HasSuffix(core.FieldOwner(x), "/linter.ignore") {
				if _, isSlice := g.Type().Underlying().(*types.Slice); isSlice {
					return true
				}
			}
		}
		return false
	}
	type op struct {
		fn, op, field, label, list string
		pos                        token.Pos
	}
	var ops []op
	for _, name := range []string{"SetupStatement", "TeardownStatement", "SetupBlockStatement", "TeardownBlockStatement"} {
		fn := prog.SSAFunc("linter", "ignore."+name)
		if fn == nil {
			c.MissingAnchor("ignore.symmetry", "linter.(*ignore)."+name)
			continue
		}
		c.Func(core.FnName(fn))
		for _, b := range fn.Blocks {
			for _, in := range b.Instrs {
				call, ok := in.(*ssa.Call)
				if !ok {
					continue
				}
				cal := call.Common().StaticCallee()
				if cal != ign && cal != unign {
					continue
				}
				o := op{fn: name, op: "ignore", pos: in.Pos()}
				if cal == unign {
					o.op = "unignore"
				}
				if fa, ok := call.Common().Args[0].(*ssa.FieldAddr); ok && core.FieldOf(fa) != nil {
					o.field = core.FieldOf(fa).Name()
				}
				o.label = consts[dominatingStringCase(b)]
				for x := range core.BackSlice(call.Common().Args[1]) {
					if f := core.FieldOf(x); f != nil && core.FieldOwner(x) == core.ModPath+"/ast.Meta" {
						o.list = f.Name()
					}
				}
				ops = append(ops, o)
				// the operation may be controlled only by the comment loop and directive comparisons
				cd := core.NewCtrlDeps(fn)
				for _, e := range cd.Transitive(b) {
					cond := core.BranchCond(e.From)
					if cond == nil {
						continue
					}
					if stackTest(cond) {
						continue // emptiness test of the save stack: the fallback for a teardown without a matching setup
					}
					if bo, ok := cond.(*ssa.BinOp); ok {
						if bo.Op == token.LSS {
							if _, isPhiLoop := bo.X.(*ssa.BinOp); isPhiLoop {
								continue // rangeindex loop: i+1 < len
							}
						}
						if bo.Op == token.EQL || bo.Op == token.NEQ {
							_, xs := bo.X.(*ssa.Const)
							_, ys := bo.Y.(*ssa.Const)
							if (xs || ys) && dominatingOrSelfStringConst(bo) != "" {
								continue
							}
						}
					}
					c.Report("ignore.symmetry", fmt.Sprintf("%s|%s|%s|extra-condition", o.fn, o.op, o.field), in.Pos(),
						fmt.Sprintf("%s(%s) in %s is additionally guarded by a condition that is neither the comment loop nor a directive comparison: setup and teardown can then disagree", o.op, o.field, o.fn),
						"condition at "+c.Prog.Loc(e.From.Instrs[len(e.From.Instrs)-1].Pos()))
				}
			}
		}
	}
	has := func(fn, opk, field, label, list string) bool {
		for _, o := range ops {
			if o.fn == fn && o.op == opk && o.field == field && o.label == label && (list == "" || o.list == list) {
				return true
			}
		}
		return false
	}
	var table []string
	for _, o := range ops {
		table = append(table, fmt.Sprintf("%s: %s(%s) under %s over %s", o.fn, o.op, o.field, o.label, o.list))
	}
	sort.Strings(table)
	c.Extra("ignore_ops", table)
	fieldOf := map[string]string{"falcoIgnoreNextLine": "ignoreNextLine", "falcoIgnoreThisLine": "ignoreThisLine", "falcoIgnoreStart": "ignoreRange", "falcoIgnoreEnd": "ignoreRange"}
	opOf := map[string]string{"falcoIgnoreNextLine": "", "falcoIgnoreThisLine": "", "falcoIgnoreStart": "ignore", "falcoIgnoreEnd": "unignore"}
	for _, o := range ops {
		key := fmt.Sprintf("%s|%s|%s|%s", o.fn, o.op, o.field, o.label)
		if o.label == "" || o.field == "" || o.list == "" {
			c.Report("ignore.symmetry", key+"|unresolved", o.pos, "cannot resolve directive constant / set / comment list of this ignore operation (undecided obligations fail)")
			continue
		}
		if fieldOf[o.label] != o.field || (opOf[o.label] != "" && opOf[o.label] != o.op) {
			c.Report("ignore.symmetry", key+"|wrong-set", o.pos, fmt.Sprintf("directive %s performs %s on set %s (expected set %s)", o.label, o.op, o.field, fieldOf[o.label]))
			continue
		}
		if strings.HasPrefix(o.fn, "Teardown") && o.op == "ignore" {
			c.Report("ignore.symmetry", key+"|teardown-sets", o.pos, "a Teardown function adds to an ignore set")
			continue
		}
		if strings.HasPrefix(o.fn, "Setup") && o.op == "ignore" && o.field != "ignoreRange" {
			td := "Teardown" + strings.TrimPrefix(o.fn, "Setup")
			if restores[strings.TrimPrefix(o.fn, "Setup")][o.field] {
				c.Discharge("ignore.symmetry", key, o.pos, td+" restores the set to the value saved by "+o.fn)
			} else if has(td, "unignore", o.field, o.label, o.list) {
				c.Discharge("ignore.symmetry", key, o.pos, td+" clears the same set under the same directive over Meta."+o.list)
			} else {
				c.Report("ignore.symmetry", key+"|no-teardown", o.pos, fmt.Sprintf("%s fills %s for directive %s from Meta.%s but %s does not clear it: the suppression outlives the statement", o.fn, o.field, o.label, o.list, td))
			}
			continue
		}
		c.Discharge("ignore.symmetry", key, o.pos, "directive/set/operation agree")
	}
	for _, variant := range []string{"Statement", "BlockStatement"} {
		startOK := has("Setup"+variant, "ignore", "ignoreRange", "falcoIgnoreStart", "")
		endOK := has("Setup"+variant, "unignore", "ignoreRange", "falcoIgnoreEnd", "") || has("Teardown"+variant, "unignore", "ignoreRange", "falcoIgnoreEnd", "")
		if startOK && endOK {
			c.Discharge("ignore.symmetry", variant+"|range", ign.Pos(), "falco-ignore-start fills and falco-ignore-end clears ignoreRange")
		} else {
			c.ReportAt("ignore.symmetry", variant+"|range", "linter/ignore.go", 0, fmt.Sprintf("%s variant: falco-ignore-start handled=%v, falco-ignore-end handled=%v", variant, startOK, endOK))
		}
	}
	c.Floor("ignore.symmetry", 10)

	// ---- slots: a range must be closable wherever the parser can put the closing comment of a block
	infixFilled := false
	for _, fn := range prog.ModuleFuncs("parser") {
		for _, b := range fn.Blocks {
			for _, in := range b.Instrs {
				call, ok := in.(*ssa.Call)
				if !ok {
					continue
				}
				if cal := call.Common().StaticCallee(); cal == nil || cal.Name() != "SwapLeadingInfix" {
					continue
				}
				for x := range core.BackSlice(call.Common().Args[1]) {
					if f := core.FieldOf(x); f != nil && f.Name() == "Meta" && core.FieldOwner(x) == core.ModPath+"/ast.BlockStatement" {
						infixFilled = true
					}
				}
			}
		}
	}
	if infixFilled {
		if has("TeardownBlockStatement", "unignore", "ignoreRange", "falcoIgnoreEnd", "Infix") {
			c.Discharge("ignore.slots", "BlockStatement|Infix|falcoIgnoreEnd", ign.Pos(), "falco-ignore-end written before the closing brace (Meta.Infix of the block) closes the range")
		} else {
			c.ReportAt("ignore.slots", "BlockStatement|Infix|falcoIgnoreEnd", "linter/ignore.go", 0, "the parser attaches a comment written before a block's closing brace to the block's Meta.Infix, but TeardownBlockStatement never looks for falco-ignore-end there: a range closed at the end of a block stays open and hides every later diagnostic of the file")
		}
	} else {
		c.MissingAnchor("ignore.slots", "parser call SwapLeadingInfix(_, <BlockStatement>.Meta)")
	}
	for _, l := range []string{"Leading", "Trailing"} {
		if has("SetupBlockStatement", "unignore", "ignoreRange", "falcoIgnoreEnd", l) || has("TeardownBlockStatement", "unignore", "ignoreRange", "falcoIgnoreEnd", l) {
			c.Discharge("ignore.slots", "BlockStatement|"+l+"|falcoIgnoreEnd", ign.Pos(), "falco-ignore-end is honoured in Meta."+l+" of a block")
		} else {
			c.ReportAt("ignore.slots", "BlockStatement|"+l+"|falcoIgnoreEnd", "linter/ignore.go", 0, "falco-ignore-end in Meta."+l+" of a block does not close the range")
		}
	}

	// ---- clause slots: comments in front of a clause keyword (else if / else / case / default) and before the closing
	// brace of a switch are attached by the parser to the clause node's Leading and to the switch's Infix; they belong to
	// no statement that is linted with setup and teardown, so the statement linters must hand them to the ignore state
	// themselves (to a method that closes the range on falco-ignore-end)
	closesRange := func(fn *ssa.Function) bool {
		if fn == nil {
			return false
		}
		for _, b := range fn.Blocks {
			for _, in := range b.Instrs {
				cal := core.StaticCallee(in)
				if cal == nil || cal.Name() != "unignoreRules" {
					continue
				}
				for x := range core.BackSlice(in.(ssa.CallInstruction).Common().Args[0]) {
					if f := core.FieldOf(x); f != nil && f.Name() == "ignoreRange" {
						return true
					}
				}
			}
		}
		return false
	}
	type clauseSlot struct {
		fn, label string
		path      []string
	}
	for _, cs := range []clauseSlot{
		{"Linter.lintIfStatement", "else if", []string{"Another", "Leading"}},
		{"Linter.lintIfStatement", "else", []string{"Alternative", "Leading"}},
		{"Linter.lintSwitchStatement", "case / default", []string{"Cases", "Leading"}},
		{"Linter.lintSwitchStatement", "closing brace of switch", []string{"Infix"}},
	} {
		fn := prog.SSAFunc("linter", cs.fn)
		if fn == nil {
			c.MissingAnchor("ignore.clauses", "linter."+cs.fn)
			continue
		}
		found := false
		var late *ssa.Call
		for _, b := range fn.Blocks {
			for _, in := range b.Instrs {
				call, ok := in.(*ssa.Call)
				if !ok {
					continue
				}
				cal := call.Common().StaticCallee()
				if cal == nil || cal.Signature.Recv() == nil || core.NamedTypeName(derefType(cal.Signature.Recv().Type())) != "ignore" || !closesRange(cal) {
					continue
				}
				for _, a := range call.Common().Args[1:] {
					// the field names on the way from the statement to the comments, ignoring element selection
					var names []string
					for x := range core.BackSlice(a) {
						if f := core.FieldOf(x); f != nil {
							names = append(names, f.Name())
						}
					}
					all := true
					for _, want := range cs.path {
						hit := false
						for _, n := range names {
							if n == want {
								hit = true
							}
						}
						if !hit {
							all = false
						}
					}
					// the switch's own Infix: no Cases on the way
					if all && len(cs.path) == 1 {
						for _, n := range names {
							if n == "Cases" || n == "Another" || n == "Alternative" {
								all = false
							}
						}
					}
					if all {
						found = true
						// ... and before anything of the same clause is linted: the directive in front of `else if`
						// covers (or stops covering) the clause's condition too
						if len(cs.path) == 2 {
							// the clause the comments belong to: the value at the root of the field chain (a.Meta.Leading -> a)
							rootOf := func(fa *ssa.FieldAddr) ssa.Value {
								var v ssa.Value = fa
								for i := 0; i < 8; i++ {
									switch t := v.(type) {
									case *ssa.FieldAddr:
										v = t.X
										continue
									case *ssa.UnOp:
										if inner, isFA := t.X.(*ssa.FieldAddr); isFA {
											if f := core.FieldOf(inner); f != nil && f.Name() == cs.path[0] {
												return t // the clause itself: stmt.Alternative
											}
											v = t.X
											continue
										}
									}
									break
								}
								return v
							}
							var elem ssa.Value
							for x := range core.BackSliceLocal(a) {
								if fa, isFA := x.(*ssa.FieldAddr); isFA && core.FieldOf(fa) != nil && core.FieldOf(fa).Name() == "Leading" {
									elem = rootOf(fa)
								}
							}
							for _, b2 := range fn.Blocks {
								for _, i2 := range b2.Instrs {
									c2, isCall := i2.(*ssa.Call)
									if !isCall || c2 == call || elem == nil {
										continue
									}
									cal2 := c2.Common().StaticCallee()
									if cal2 == nil || cal2.Signature.Recv() == nil || core.NamedTypeName(derefType(cal2.Signature.Recv().Type())) != "Linter" || !strings.HasPrefix(cal2.Name(), "lint") {
										continue
									}
									same := false
									for _, a2 := range c2.Common().Args[1:] {
										for x := range core.BackSliceLocal(a2) {
											if fa, isFA := x.(*ssa.FieldAddr); isFA && rootOf(fa) == elem && core.FieldOf(fa) != nil && core.FieldOf(fa).Name() != "Leading" {
												same = true
											}
										}
									}
									if same && !core.InstrDominates(call, c2) {
										late = c2
									}
								}
							}
						}
					}
				}
			}
		}
		key := cs.fn + "|" + strings.Join(cs.path, ".")
		if found && late != nil {
			c.Report("ignore.clauses", key+"|order", late.Pos(), fmt.Sprintf("%s lints a part of the clause (%s) before the comments in front of %s have been handed to the ignore state: a `falco-ignore-end` there still hides the diagnostics of the clause's condition, a `falco-ignore-start` does not cover them yet", cs.fn, late.Common().StaticCallee().Name(), cs.label))
		} else if found {
			c.Discharge("ignore.clauses", key, fn.Pos(), "the comments in front of "+cs.label+" are handed to an ignore method that closes the range on falco-ignore-end")
		} else {
			c.Report("ignore.clauses", key, fn.Pos(), fmt.Sprintf("%s never hands the comments in front of %s (%s) to the ignore state: a `falco-ignore-end` written there does not close its range, which then hides every later diagnostic of the file", cs.fn, cs.label, strings.Join(cs.path, ".")))
		}
	}
	// break and fallthrough carry comments too
	if fn := prog.SSAFunc("linter", "Linter.lintSwitchStatement"); fn != nil {
		handled := false
		for _, b := range fn.Blocks {
			for _, in := range b.Instrs {
				if cal := core.StaticCallee(in); cal != nil && (cal.Name() == "SetupStatement" || cal.Name() == "lintStatement") {
					// reached on the break / fallthrough arm: the block is dominated by a type assertion to one of the two kinds
					for _, blk := range fn.Blocks {
						iff, ok := blk.Instrs[len(blk.Instrs)-1].(*ssa.If)
						if !ok {
							continue
						}
						if ex, ok := iff.Cond.(*ssa.Extract); ok {
							if ta, ok := ex.Tuple.(*ssa.TypeAssert); ok {
								k := core.NamedTypeName(derefType(ta.AssertedType))
								if (k == "BreakStatement" || k == "FallthroughStatement") && (core.EdgeDominates(blk, 0, b) || blk.Succs[0] == b) {
									handled = true
								}
							}
						}
					}
				}
			}
		}
		if handled {
			c.Discharge("ignore.clauses", "Linter.lintSwitchStatement|break/fallthrough", fn.Pos(), "break and fallthrough statements get the ignore setup and teardown")
		} else {
			c.Report("ignore.clauses", "Linter.lintSwitchStatement|break/fallthrough", fn.Pos(), "lintSwitchStatement skips break and fallthrough statements without reading their comments: a `falco-ignore-end` written before `break;` does not close its range")
		}
	}

	// ---- markers: the directive parser strips every comment marker the lexer produces (#, //, /* ... */)
	if pic := prog.SSAFunc("linter", "parseIgnoreComment"); pic != nil {
		lead, tail := "", false
		for _, b := range pic.Blocks {
			for _, in := range b.Instrs {
				call, ok := in.(*ssa.Call)
				if !ok {
					continue
				}
				cal := call.Common().StaticCallee()
				if cal == nil || cal.Pkg == nil || cal.Pkg.Pkg.Path() != "strings" || len(call.Common().Args) < 2 {
					continue
				}
				k, ok := call.Common().Args[1].(*ssa.Const)
				if !ok || k.Value == nil || k.Value.Kind() != constant.String {
					continue
				}
				cs := constant.StringVal(k.Value)
				switch cal.Name() {
				case "TrimLeft":
					lead += cs
				case "TrimSuffix":
					if cs == "*/" {
						tail = true
					}
				case "TrimRight", "Trim":
					if strings.Contains(cs, "*") && strings.Contains(cs, "/") {
						tail = true
					}
					if cal.Name() == "Trim" {
						lead += cs
					}
				}
			}
		}
		if strings.Contains(lead, "#") && strings.Contains(lead, "/") && strings.Contains(lead, "*") && tail {
			c.Discharge("ignore.markers", "parseIgnoreComment", pic.Pos(), "leading #, //, /* and the closing */ are stripped")
		} else {
			c.Report("ignore.markers", "parseIgnoreComment", pic.Pos(), fmt.Sprintf("parseIgnoreComment does not strip every comment marker (leading cutset %q, closing */ stripped: %v): a directive written as /* ... */ gets `*/` as a rule name and ignores nothing", lead, tail))
		}
		// ---- emptyrule: a rule name taken from the list is tested non-empty (a trailing or doubled comma would name the
		// rule "", which every diagnostic without a rule carries: they would all be suppressed)
		nConv := 0
		var picBlocks []*ssa.BasicBlock
		picBlocks = append(picBlocks, pic.Blocks...)
		for _, af := range pic.AnonFuncs { // the body of a range-over-func loop is a closure
			picBlocks = append(picBlocks, af.Blocks...)
		}
		for _, b := range picBlocks {
			for _, in := range b.Instrs {
				var operand ssa.Value
				switch t := in.(type) {
				case *ssa.ChangeType:
					if core.NamedTypeName(t.Type()) == "Rule" {
						operand = t.X
					}
				case *ssa.Convert:
					if core.NamedTypeName(t.Type()) == "Rule" {
						operand = t.X
					}
				}
				if operand == nil {
					continue
				}
				nConv++
				key := fmt.Sprintf("parseIgnoreComment|rule name#%d", nConv)
				guarded := false
				if operand.Referrers() != nil {
					for _, r := range *operand.Referrers() {
						bo, ok := r.(*ssa.BinOp)
						if !ok || (bo.Op != token.EQL && bo.Op != token.NEQ) || bo.Referrers() == nil {
							continue
						}
						other := bo.Y
						if bo.Y == operand {
							other = bo.X
						}
						kc, ok := other.(*ssa.Const)
						if !ok || kc.Value == nil || kc.Value.Kind() != constant.String || constant.StringVal(kc.Value) != "" {
							continue
						}
						for _, rr := range *bo.Referrers() {
							if iff, ok := rr.(*ssa.If); ok {
								idx := 0
								if bo.Op == token.EQL {
									idx = 1
								}
								if core.EdgeDominates(iff.Block(), idx, in.Block()) {
									guarded = true
								}
							}
						}
					}
				}
				if !guarded && operand.Referrers() != nil {
					// the other spelling of the test: len(name) == 0 / > 0
					for _, r := range *operand.Referrers() {
						lc, ok := r.(*ssa.Call)
						if !ok || lc.Referrers() == nil {
							continue
						}
						if bi, isBi := lc.Common().Value.(*ssa.Builtin); !isBi || bi.Name() != "len" {
							continue
						}
						for _, rr := range *lc.Referrers() {
							cmp, isCmp := rr.(*ssa.BinOp)
							if !isCmp || cmp.Referrers() == nil {
								continue
							}
							x, z, isZ := core.ZeroEdge(cmp)
							if !isZ || x != ssa.Value(lc) {
								continue
							}
							for _, r3 := range *cmp.Referrers() {
								if iff, isIf := r3.(*ssa.If); isIf && core.EdgeDominates(iff.Block(), 1-z, in.Block()) {
									guarded = true
								}
							}
						}
					}
				}
				if guarded {
					c.Discharge("ignore.emptyrule", key, in.Pos(), "only a non-empty name becomes a rule")
				} else {
					c.Report("ignore.emptyrule", key, in.Pos(), "parseIgnoreComment turns a piece of the rule list into a rule without testing that it is not empty: `falco-ignore-next-line a,` names the rule \"\", which is the rule of every diagnostic that has none, so they are all suppressed in the covered statement")
				}
			}
		}
		c.Floor("ignore.emptyrule", 1)
	} else {
		c.MissingAnchor("ignore.markers", "linter.parseIgnoreComment")
	}

	// ---- filter
	sets := map[string][2]int{} // field -> {all reads, rules lookups by param}
	var ruleParam *ssa.Parameter
	if len(isEnable.Params) == 2 {
		ruleParam = isEnable.Params[1]
	}
	for _, b := range isEnable.Blocks {
		for _, in := range b.Instrs {
			fa, ok := in.(*ssa.FieldAddr)
			if !ok || core.FieldOwner(fa) != linterPkg+".ignoredRules" {
				continue
			}
			outer, ok := fa.X.(*ssa.FieldAddr)
			if !ok || core.FieldOf(outer) == nil {
				continue
			}
			set := core.FieldOf(outer).Name()
			v := sets[set]
			switch core.FieldOf(fa).Name() {
			case "all":
				v[0]++
			case "rules":
				// load -> Lookup with key == param
				for _, r := range *fa.Referrers() {
					if ld, ok := r.(*ssa.UnOp); ok {
						for _, r2 := range *ld.Referrers() {
							if lk, ok := r2.(*ssa.Lookup); ok && lk.Index == ssa.Value(ruleParam) {
								v[1]++
							}
						}
					}
				}
			}
			sets[set] = v
		}
	}
	for _, b := range isEnable.Blocks {
		for _, in := range b.Instrs {
			lk, ok := in.(*ssa.Lookup)
			if !ok || lk.CommaOk || lk.Index != ssa.Value(ruleParam) {
				continue
			}
			if rs := ignoreSetsRead(lk); len(rs) > 1 {
				// a lookup through a literal collection of sets reads every one of them
				for _, set := range rs {
					v := sets[set]
					v[1]++
					sets[set] = v
				}
			}
		}
	}
	for _, set := range []string{"ignoreNextLine", "ignoreThisLine", "ignoreRange"} {
		v := sets[set]
		if v[0] >= 1 && v[1] >= 1 {
			c.Discharge("ignore.filter", "IsEnable|"+set, isEnable.Pos(), "reads .all and .rules[rule]")
		} else {
			c.Report("ignore.filter", "IsEnable|"+set, isEnable.Pos(), fmt.Sprintf("IsEnable does not consult %s (.all reads=%d, .rules[rule] lookups=%d): a listed rule is not matched against the diagnostic's rule", set, v[0], v[1]))
		}
	}
	// the result must be the OR of all six reads: decided on the truth table (64 rows) of the function's SSA, whatever
	// the shape (an || chain, separate early returns, a switch), with every read of the same set and kind one variable
	checkOrTable(c, isEnable, ruleParam)
	// ignoreRules / unignoreRules bodies
	checkRuleSetBodies(c, ign, unign)
	c.Floor("ignore.filter", 5)
	_ = lfuncs
}

// ignoreSetsRead: the ignore sets whose rules map a lookup may read: the set named in the access path, or - when the
// sets are put into a literal collection and walked in a loop (`for _, s := range []ignoredRules{i.ignoreNextLine, …}`) -
// every set stored in that collection.
func ignoreSetsRead(lk *ssa.Lookup) []string {
	setOf := func(v ssa.Value) string {
		// &i.ignoreX or a copy *(&i.ignoreX)
		if ld, ok := v.(*ssa.UnOp); ok && ld.Op == token.MUL {
			v = ld.X
		}
		if fa, ok := v.(*ssa.FieldAddr); ok && core.FieldOf(fa) != nil && strings.HasPrefix(core.FieldOf(fa).Name(), "ignore") && strings.HasSuffix(core.FieldOwner(fa), "/linter.ignore") {
			return core.FieldOf(fa).Name()
		}
		return ""
	}
	var owner ssa.Value // the ignoredRules value (or pointer) whose rules field is read
	switch t := lk.X.(type) {
	case *ssa.UnOp:
		if fa, ok := t.X.(*ssa.FieldAddr); ok && core.FieldOf(fa) != nil && core.FieldOf(fa).Name() == "rules" {
			owner = fa.X
		}
	case *ssa.Field:
		if f := core.FieldOf(t); f != nil && f.Name() == "rules" {
			owner = t.X
		}
	}
	if owner == nil {
		return nil
	}
	if s := setOf(owner); s != "" {
		return []string{s}
	}
	// the loop variable: a local cell the element is copied into
	if al, ok := owner.(*ssa.Alloc); ok && al.Referrers() != nil {
		for _, r := range *al.Referrers() {
			if st, isSt := r.(*ssa.Store); isSt && st.Addr == ssa.Value(al) {
				owner = st.Val
			}
		}
	}
	// an element of a literal collection
	if ld, ok := owner.(*ssa.UnOp); ok && ld.Op == token.MUL {
		owner = ld.X
	}
	ia, ok := owner.(*ssa.IndexAddr)
	if !ok {
		return nil
	}
	sl, ok := ia.X.(*ssa.Slice)
	if !ok {
		return nil
	}
	al, ok := sl.X.(*ssa.Alloc)
	if !ok || al.Referrers() == nil {
		return nil
	}
	var out []string
	for _, r := range *al.Referrers() {
		ea, isIA := r.(*ssa.IndexAddr)
		if !isIA || ea.Referrers() == nil {
			continue
		}
		for _, r2 := range *ea.Referrers() {
			if st, isSt := r2.(*ssa.Store); isSt && st.Addr == ssa.Value(ea) {
				if s := setOf(st.Val); s != "" {
					out = append(out, s)
				} else {
					return nil
				}
			}
		}
	}
	return out
}

// checkOrTable: IsEnable is a boolean function of six reads (.all and .rules[rule] of the three sets). Its SSA is
// evaluated for every assignment of the six reads; a branch on anything else is followed both ways. Every return reached
// must carry the OR of the six variables.
func checkOrTable(c *core.Ctx, fn *ssa.Function, ruleParam *ssa.Parameter) {
	setIdx := map[string]int{"ignoreNextLine": 0, "ignoreThisLine": 1, "ignoreRange": 2}
	leaf := func(v ssa.Value) (int, bool) {
		var fa *ssa.FieldAddr
		kind := 0
		switch t := v.(type) {
		case *ssa.UnOp:
			if t.Op != token.MUL {
				return 0, false
			}
			fa, _ = t.X.(*ssa.FieldAddr)
		case *ssa.Lookup:
			if t.CommaOk || t.Index != ssa.Value(ruleParam) {
				return 0, false
			}
			if ld, ok := t.X.(*ssa.UnOp); ok && ld.Op == token.MUL {
				fa, _ = ld.X.(*ssa.FieldAddr)
			}
			kind = 1
		}
		if fa == nil || core.FieldOf(fa) == nil {
			return 0, false
		}
		if (kind == 0 && core.FieldOf(fa).Name() != "all") || (kind == 1 && core.FieldOf(fa).Name() != "rules") {
			return 0, false
		}
		outer, ok := fa.X.(*ssa.FieldAddr)
		if !ok || core.FieldOf(outer) == nil {
			return 0, false
		}
		si, ok := setIdx[core.FieldOf(outer).Name()]
		if !ok {
			return 0, false
		}
		return si*2 + kind, true
	}
	bad := map[string]token.Pos{}
	loops := naturalLoops(fn)
	for row := 0; row < 64; row++ {
		want := row != 0
		phiEnv := map[*ssa.Phi]int{}
		var eval func(v ssa.Value) (bool, bool)
		eval = func(v ssa.Value) (bool, bool) {
			if i, ok := leaf(v); ok {
				return row&(1<<i) != 0, true
			}
			// a lookup in a loop over a literal collection of sets: the loop as a whole reads each of them
			if lk, isLk := v.(*ssa.Lookup); isLk && !lk.CommaOk && lk.Index == ssa.Value(ruleParam) {
				if rs := ignoreSetsRead(lk); len(rs) > 1 {
					any := false
					for _, set := range rs {
						if si, known := setIdx[set]; known && row&(1<<(si*2+1)) != 0 {
							any = true
						}
					}
					return any, true
				}
			}
			switch t := v.(type) {
			case *ssa.Const:
				if t.Value != nil && t.Value.Kind() == constant.Bool {
					return constant.BoolVal(t.Value), true
				}
			case *ssa.UnOp:
				if t.Op == token.NOT {
					if x, ok := eval(t.X); ok {
						return !x, true
					}
				}
			case *ssa.Phi:
				if e, has := phiEnv[t]; has {
					return eval(t.Edges[e])
				}
			case *ssa.BinOp:
				x, okx := eval(t.X)
				y, oky := eval(t.Y)
				if okx && oky {
					switch t.Op {
					case token.EQL:
						return x == y, true
					case token.NEQ, token.XOR:
						return x != y, true
					case token.AND:
						return x && y, true
					case token.OR:
						return x || y, true
					}
				}
			}
			return false, false
		}
		steps := 0
		onPath := map[*ssa.BasicBlock]bool{}
		var walk func(b *ssa.BasicBlock, from int)
		walk = func(b *ssa.BasicBlock, from int) {
			steps++
			if steps > 5000 {
				bad["IsEnable|table|undecided"] = fn.Pos()
				return
			}
			if onPath[b] {
				// round the loop once (its reads stand for all elements): go on behind it
				for _, l := range loops {
					if l.header != b {
						continue
					}
					for _, sc := range b.Succs {
						if !l.body[sc] {
							walk(sc, -1)
						}
					}
				}
				return
			}
			onPath[b] = true
			defer func() { onPath[b] = false }()
			var saved []*ssa.Phi
			for _, in := range b.Instrs {
				if ph, isPhi := in.(*ssa.Phi); isPhi && from >= 0 {
					if _, had := phiEnv[ph]; !had {
						saved = append(saved, ph)
					}
					phiEnv[ph] = from
				}
			}
			defer func() {
				for _, ph := range saved {
					delete(phiEnv, ph)
				}
			}()
			predIdx := func(s *ssa.BasicBlock) int {
				for i, p := range s.Preds {
					if p == b {
						return i
					}
				}
				return -1
			}
			switch t := b.Instrs[len(b.Instrs)-1].(type) {
			case *ssa.Return:
				if len(t.Results) != 1 {
					return
				}
				got, ok := eval(t.Results[0])
				if !ok {
					bad["IsEnable|table|undecided"] = t.Pos()
				} else if got != want {
					bad["IsEnable|or-chain"] = t.Pos()
				}
			case *ssa.If:
				v, ok := eval(t.Cond)
				if !ok {
					// the control test of a loop (over a literal, non-empty collection): first time in, out on the way back
					isHeader := false
					for _, l := range loops {
						if l.header == b {
							isHeader = true
							for _, sc := range b.Succs {
								if l.body[sc] {
									walk(sc, predIdx(sc))
								}
							}
						}
					}
					if isHeader {
						return
					}
					walk(b.Succs[0], predIdx(b.Succs[0]))
					walk(b.Succs[1], predIdx(b.Succs[1]))
				} else if v {
					walk(b.Succs[0], predIdx(b.Succs[0]))
				} else {
					walk(b.Succs[1], predIdx(b.Succs[1]))
				}
			default:
				for _, s := range b.Succs {
					walk(s, predIdx(s))
				}
			}
		}
		walk(fn.Blocks[0], -1)
	}
	if p, has := bad["IsEnable|table|undecided"]; has {
		c.Report("ignore.filter", "IsEnable|table|undecided", p, "the result of IsEnable cannot be evaluated from its six reads (undecided obligations fail)")
	}
	if p, has := bad["IsEnable|or-chain"]; has {
		c.Report("ignore.filter", "IsEnable|or-chain", p, "IsEnable is not the OR of the six reads (.all and .rules[rule] of the three sets): for some combination of the reads it returns the opposite")
	}
	if len(bad) == 0 {
		c.Discharge("ignore.filter", "IsEnable|or-chain", fn.Pos(), "truth table of 64 rows: the result is the OR of the six reads")
	}
}

func checkRuleSetBodies(c *core.Ctx, ign, unign *ssa.Function) {
	// ignoreRules: MapUpdate(rules[r] = true) in a loop over the rules param; on empty list all=true
	type facts struct{ mapTrue, del, allTrue, allFalse, makeMap int }
	get := func(fn *ssa.Function) facts {
		var f facts
		for _, b := range fn.Blocks {
			for _, in := range b.Instrs {
				switch t := in.(type) {
				case *ssa.MapUpdate:
					if k, ok := t.Value.(*ssa.Const); ok && k.Value != nil && k.Value.Kind() == constant.Bool && constant.BoolVal(k.Value) {
						f.mapTrue++
					}
				case *ssa.Call:
					if bi, ok := t.Common().Value.(*ssa.Builtin); ok && bi.Name() == "delete" {
						f.del++
					}
				case *ssa.Store:
					if fa, ok := t.Addr.(*ssa.FieldAddr); ok && core.FieldOf(fa) != nil {
						switch core.FieldOf(fa).Name() {
						case "all":
							if k, ok := t.Val.(*ssa.Const); ok && k.Value != nil && k.Value.Kind() == constant.Bool {
								if constant.BoolVal(k.Value) {
									f.allTrue++
								} else {
									f.allFalse++
								}
							}
						case "rules":
							if _, ok := t.Val.(*ssa.MakeMap); ok {
								f.makeMap++
							}
						}
					}
				}
			}
		}
		return f
	}
	fi, fu := get(ign), get(unign)
	// accumulation: with a rule list, ignoreRules may replace the rule map only when there is none yet — two directives
	// of the same form with different lists (falco-ignore-start A ... falco-ignore-start B) must both stay in force
	{
		var rulesParam *ssa.Parameter
		for _, p := range ign.Params {
			if _, ok := p.Type().Underlying().(*types.Slice); ok {
				rulesParam = p
			}
		}
		for _, b := range ign.Blocks {
			for _, in := range b.Instrs {
				st, ok := in.(*ssa.Store)
				if !ok {
					continue
				}
				fa, ok := st.Addr.(*ssa.FieldAddr)
				if !ok || core.FieldOf(fa) == nil || core.FieldOf(fa).Name() != "rules" {
					continue
				}
				if _, ok := st.Val.(*ssa.MakeMap); !ok {
					continue
				}
				// on the empty-list path (len(rules) == 0) a reset is the documented meaning
				emptyPath, nilGuard := false, false
				for _, blk := range ign.Blocks {
					iff, ok := blk.Instrs[len(blk.Instrs)-1].(*ssa.If)
					if !ok {
						continue
					}
					if x, z, isZ := core.ZeroEdge(iff.Cond); isZ && rulesParam != nil && core.BackSlice(x)[rulesParam] && core.EdgeDominates(blk, z, b) {
						emptyPath = true
					}
					if bo, eq, isEq := core.EqCond(iff.Cond); isEq && core.IsNilConst(bo.Y) && core.EdgeDominates(blk, eq, b) {
						for x := range core.BackSlice(bo.X) {
							if f := core.FieldOf(x); f != nil && f.Name() == "rules" {
								nilGuard = true
							}
						}
					}
				}
				key := "ignoreRules|fresh-map@" + fmt.Sprint(b.Index)
				switch {
				case emptyPath:
					c.Discharge("ignore.filter", "ignoreRules|reset-on-empty-list", in.Pos(), "a directive without rules replaces the set")
				case nilGuard:
					c.Discharge("ignore.filter", "ignoreRules|allocate-when-nil", in.Pos(), "the rule map is only created when there is none")
				default:
					c.Report("ignore.filter", key, in.Pos(), "ignoreRules replaces the rule map although rules are listed and a map may already hold rules: an earlier rule-listed directive of the same form is forgotten, its diagnostics reappear in the covered statements")
				}
			}
		}
	}
	if fi.mapTrue >= 1 && fi.allTrue >= 1 && fi.del == 0 {
		c.Discharge("ignore.filter", "ignoreRules|body", ign.Pos(), "rules[r]=true per listed rule; all=true for an empty list")
	} else {
		c.Report("ignore.filter", "ignoreRules|body", ign.Pos(), fmt.Sprintf("ignoreRules no longer records each listed rule / the all flag (%+v)", fi))
	}
	if fu.del >= 1 && fu.allFalse >= 1 && fu.makeMap >= 1 && fu.allTrue == 0 && fu.mapTrue == 0 {
		c.Discharge("ignore.filter", "unignoreRules|body", unign.Pos(), "delete per listed rule; all=false and a fresh map for an empty list")
	} else {
		c.Report("ignore.filter", "unignoreRules|body", unign.Pos(), fmt.Sprintf("unignoreRules no longer clears each listed rule / resets on an empty list (%+v)", fu))
	}
}

// sameMeta: both values are X.GetMeta() on the same receiver value, or the same value.
func sameMeta(a, b ssa.Value) bool {
	if a == b {
		return true
	}
	ca, ok1 := a.(*ssa.Call)
	cb, ok2 := b.(*ssa.Call)
	if !ok1 || !ok2 {
		return false
	}
	if ca.Common().IsInvoke() && cb.Common().IsInvoke() {
		return ca.Common().Method == cb.Common().Method && ca.Common().Value == cb.Common().Value
	}
	if ca.Common().StaticCallee() != nil && ca.Common().StaticCallee() == cb.Common().StaticCallee() {
		aa, ba := ca.Common().Args, cb.Common().Args
		if len(aa) != len(ba) {
			return false
		}
		for i := range aa {
			if aa[i] != ba[i] {
				return false
			}
		}
		return true
	}
	return false
}

func dominatingOrSelfStringConst(bo *ssa.BinOp) string {
	for _, o := range []ssa.Value{bo.X, bo.Y} {
		if k, ok := o.(*ssa.Const); ok && k.Value != nil && k.Value.Kind() == constant.String {
			return constant.StringVal(k.Value)
		}
	}
	return ""
}

// checkIgnoreCover: a statement taken from a statement list is linted through lintStatement, the only place that
// brackets the statement with the ignore setup/teardown; linting it directly bypasses its ignore comments.
func checkIgnoreCover(c *core.Ctx, rule string) {
	prog := c.Prog
	lint := prog.SSAFunc("linter", "Linter.lint")
	if lint == nil {
		c.MissingAnchor(rule, "linter.(*Linter).lint")
		return
	}
	n := 0
	for _, fn := range prog.ModuleFuncs("linter") {
		for _, b := range fn.Blocks {
			for _, in := range b.Instrs {
				call, ok := in.(*ssa.Call)
				if !ok || call.Common().StaticCallee() != lint {
					continue
				}
				ci, ok := call.Common().Args[1].(*ssa.ChangeInterface)
				if !ok || core.NamedTypeName(ci.X.Type()) != "Statement" {
					continue
				}
				n++
				top := fn
				for top.Parent() != nil {
					top = top.Parent()
				}
				key := core.FnName(fn) + "|lint(Statement)"
				// accepted idioms: lintStatement itself, or a function that brackets the call the same way
				brackets := false
				var setup, teardown bool
				for _, bb := range fn.Blocks {
					for _, i2 := range bb.Instrs {
						if cal := core.StaticCallee(i2); cal != nil {
							if _, isDefer := i2.(*ssa.Defer); isDefer && cal.Name() == "TeardownStatement" {
								teardown = true
							} else if cal.Name() == "SetupStatement" {
								setup = true
							}
						}
					}
				}
				brackets = setup && teardown
				if top.Name() == "lintStatement" || brackets {
					c.Discharge(rule, key, in.Pos(), "bracketed by SetupStatement / deferred TeardownStatement")
				} else {
					c.Report(rule, key, in.Pos(), core.FnName(fn)+" lints a statement of a statement list directly instead of through lintStatement: falco-ignore comments on those statements have no effect (their diagnostics are counted although ignored)")
				}
			}
		}
	}
	if n == 0 {
		c.MissingAnchor(rule, "no call lints an ast.Statement")
	}
}

// listUnbracketedErrors (developer aid, FV_C12_UNBR): functions that report diagnostics and are reachable from Lint
// without passing through the statement bracket.
func listUnbracketedErrors(c *core.Ctx) []string {
	prog := c.Prog
	lint := prog.SSAFunc("linter", "Linter.Lint")
	errFn := prog.SSAFunc("linter", "Linter.Error")
	if lint == nil || errFn == nil {
		return nil
	}
	isBracket := func(fn *ssa.Function) bool {
		// calls SetupStatement (directly)
		for _, b := range fn.Blocks {
			for _, in := range b.Instrs {
				if cal := core.StaticCallee(in); cal != nil && (cal.Name() == "SetupStatement") {
					return true
				}
			}
		}
		return false
	}
	seen := map[*ssa.Function]bool{}
	var out []string
	var walk func(fn *ssa.Function)
	walk = func(fn *ssa.Function) {
		if fn == nil || seen[fn] || fn.Blocks == nil || fn.Pkg == nil || !strings.HasPrefix(fn.Pkg.Pkg.Path(), linterPkg) {
			return
		}
		seen[fn] = true
		if isBracket(fn) {
			return
		}
		reports := false
		for _, b := range fn.Blocks {
			for _, in := range b.Instrs {
				if cal := core.StaticCallee(in); cal != nil {
					if cal == errFn {
						reports = true
					}
					walk(cal)
				}
				if mc, ok := in.(*ssa.MakeClosure); ok {
					if f, ok := mc.Fn.(*ssa.Function); ok {
						walk(f)
					}
				}
			}
		}
		if reports {
			out = append(out, core.FnName(fn))
		}
	}
	walk(lint)
	sort.Strings(out)
	return out
}
