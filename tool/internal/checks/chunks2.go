package checks

import (
	"fmt"
	"go/constant"
	"go/token"
	"go/types"
	"strings"

	"fv/internal/core"

	"golang.org/x/tools/go/ssa"
)

// checkChunkLineComments (fmt.linecmt): a chunk may be a line comment (`// …`, `# …`); whatever is written behind it on
// the same line becomes part of the comment. For every chunk value of the line-breaking pass (results of nextChunk(),
// *Chunk parameters of text-returning functions) and every use of its buffer as text, one of these holds:
//   - the use is dominated by the false edge of v.isLineComment(), or by a test of v.Type that excludes Comment
//     (true edge of `v.Type == K`, K != Comment — also the shared arm of `case K1, K2:` — or the false edge of
//     `v.Type == Comment`, or a `v.Type != Comment` guard);
//   - v is a parameter and every call site passes a chunk for which the above holds at the call;
//   - a line feed follows in the same basic block: a call of nextLine() or a string constant containing "\n".
func checkChunkLineComments(c *core.Ctx) {
	prog := c.Prog
	next := prog.SSAFunc("formatter", "ChunkBuffer.nextChunk")
	if next == nil {
		c.MissingAnchor("fmt.linecmt", "formatter.(*ChunkBuffer).nextChunk")
		return
	}
	commentK := int64(-1)
	if k, ok := next.Pkg.Pkg.Scope().Lookup("Comment").(*types.Const); ok {
		if v, ok := constant.Int64Val(k.Val()); ok {
			commentK = v
		}
	}
	if commentK < 0 {
		c.MissingAnchor("fmt.linecmt", "formatter.Comment (ChunkType constant)")
		return
	}
	// the predicate itself: a comment chunk can hold several comments (`/* a */ // b` in one placeholder), so "is a line
	// comment" cannot be read off a fixed prefix of the text: the predicate scans the text (a loop over it, or a
	// search call on it). One that looks at the first two bytes only takes `/* a */ // b` for a block comment, no line
	// feed follows, and the code behind it is commented out.
	if pred := prog.SSAFunc("formatter", "Chunk.isLineComment"); pred != nil {
		scans := len(naturalLoops(pred)) > 0
		for _, b := range pred.Blocks {
			for _, in := range b.Instrs {
				if cal := core.StaticCallee(in); cal != nil && cal.Pkg != nil && (cal.Pkg.Pkg.Path() == "strings" || cal.Pkg.Pkg.Path() == "regexp") {
					switch cal.Name() {
					case "Contains", "Index", "ContainsAny", "IndexAny", "LastIndex", "MatchString", "Split", "Cut", "FindStringIndex":
						scans = true
					}
				}
			}
		}
		if scans {
			c.Discharge("fmt.linecmt", "Chunk.isLineComment|scan", pred.Pos(), "the predicate looks at the whole text of the chunk")
		} else {
			c.Report("fmt.linecmt", "Chunk.isLineComment|scan", pred.Pos(), "Chunk.isLineComment decides from a fixed prefix of the chunk's text: a chunk that holds a block comment followed by a line comment (`/* a */ // b`) is taken for a block comment, no line feed is written behind it, and the rest of the statement is commented out (the formatted text does not parse, or means something else)")
		}
	} else {
		c.MissingAnchor("fmt.linecmt", "formatter.(*Chunk).isLineComment")
	}
	isEmitter := func(fn *ssa.Function) bool {
		if fn == nil || fn.Pkg != next.Pkg || fn.Signature.Results().Len() == 0 {
			return false
		}
		b, ok := fn.Signature.Results().At(0).Type().Underlying().(*types.Basic)
		return ok && b.Kind() == types.String
	}
	// notLineComment: at block b, chunk value v is known not to be a line comment
	var notLineComment func(v ssa.Value, b *ssa.BasicBlock, depth int) bool
	paramSafe := map[*ssa.Parameter]int{} // 0 unknown, 1 safe, 2 unsafe, 3 in progress
	notLineComment = func(v ssa.Value, b *ssa.BasicBlock, depth int) bool {
		if v.Referrers() != nil {
			for _, r := range *v.Referrers() {
				switch t := r.(type) {
				case *ssa.Call:
					if cal := t.Common().StaticCallee(); cal != nil && cal.Name() == "isLineComment" && t.Referrers() != nil {
						for _, rr := range *t.Referrers() {
							if iff, ok := rr.(*ssa.If); ok && core.EdgeDominates(iff.Block(), 1, b) {
								return true
							}
						}
					}
				case *ssa.FieldAddr:
					if f := core.FieldOf(t); f == nil || f.Name() != "Type" || t.Referrers() == nil {
						continue
					}
					// comparisons of loads of v.Type with constants
					type cmp struct {
						iff  *ssa.If
						k    int64
						isEq bool
					}
					var cmps []cmp
					for _, ld := range *t.Referrers() {
						lv, ok := ld.(*ssa.UnOp)
						if !ok || lv.Referrers() == nil {
							continue
						}
						for _, u := range *lv.Referrers() {
							bo, ok := u.(*ssa.BinOp)
							if !ok || (bo.Op != token.EQL && bo.Op != token.NEQ) || bo.Referrers() == nil {
								continue
							}
							k, isK := core.ConstIntValue(bo.Y)
							if !isK {
								k, isK = core.ConstIntValue(bo.X)
							}
							if !isK {
								continue
							}
							for _, rr := range *bo.Referrers() {
								if iff, ok := rr.(*ssa.If); ok {
									cmps = append(cmps, cmp{iff, k, bo.Op == token.EQL})
								}
							}
						}
					}
					for _, cm := range cmps {
						trueIdx, falseIdx := 0, 1
						if !cm.isEq {
							trueIdx, falseIdx = 1, 0
						}
						if cm.k != commentK && core.EdgeDominates(cm.iff.Block(), trueIdx, b) {
							return true
						}
						if cm.k == commentK && core.EdgeDominates(cm.iff.Block(), falseIdx, b) {
							return true
						}
					}
					// shared arm `case K1, K2:`: walk up single-predecessor chains to a block all of whose predecessors are
					// equal-edges of comparisons with non-Comment constants
					eqEdge := map[[2]*ssa.BasicBlock]bool{}
					for _, cm := range cmps {
						idx := 0
						if !cm.isEq {
							idx = 1
						}
						if cm.k != commentK {
							eqEdge[[2]*ssa.BasicBlock{cm.iff.Block(), cm.iff.Block().Succs[idx]}] = true
						}
					}
					for _, head := range b.Parent().Blocks {
						if len(head.Preds) < 2 || !head.Dominates(b) {
							continue
						}
						all := true
						for _, p := range head.Preds {
							if !eqEdge[[2]*ssa.BasicBlock{p, head}] {
								all = false
							}
						}
						if all {
							return true
						}
					}
				}
			}
		}
		if p, ok := v.(*ssa.Parameter); ok && depth < 4 {
			switch paramSafe[p] {
			case 1:
				return true
			case 2, 3:
				return false
			}
			paramSafe[p] = 3
			fn := p.Parent()
			idx := -1
			for i, q := range fn.Params {
				if q == p {
					idx = i
				}
			}
			sites, safe := 0, true
			for _, g := range prog.ModuleFuncs("formatter") {
				for _, gb := range g.Blocks {
					for _, in := range gb.Instrs {
						if core.StaticCallee(in) != fn {
							continue
						}
						sites++
						arg := in.(ssa.CallInstruction).Common().Args[idx]
						if !notLineComment(arg, gb, depth+1) {
							safe = false
						}
					}
				}
			}
			if sites > 0 && safe {
				paramSafe[p] = 1
				return true
			}
			paramSafe[p] = 2
		}
		return false
	}
	lineFeedFollows := func(b *ssa.BasicBlock, from ssa.Instruction) bool {
		started := false
		for _, in := range b.Instrs {
			if in == from {
				started = true
			}
			if !started {
				continue
			}
			if cal := core.StaticCallee(in); cal != nil && cal.Name() == "nextLine" {
				return true
			}
			var ops []*ssa.Value
			for _, op := range in.Operands(ops) {
				if k, ok := (*op).(*ssa.Const); ok && k.Value != nil && k.Value.Kind() == constant.String && strings.Contains(constant.StringVal(k.Value), "\n") {
					return true
				}
			}
		}
		return false
	}
	peek := prog.SSAFunc("formatter", "ChunkBuffer.peekChunk")
	n := 0
	check := func(fn *ssa.Function, v ssa.Value, label string) {
		if v.Referrers() == nil {
			return
		}
		k := 0
		for _, r := range *v.Referrers() {
			fa, ok := r.(*ssa.FieldAddr)
			if !ok || core.FieldOf(fa) == nil || core.FieldOf(fa).Name() != "buffer" || fa.Referrers() == nil {
				continue
			}
			for _, ld := range *fa.Referrers() {
				lv, ok := ld.(*ssa.UnOp)
				if !ok || lv.Referrers() == nil {
					continue
				}
				for _, u := range *lv.Referrers() {
					textUse := false
					switch ut := u.(type) {
					case *ssa.BinOp:
						textUse = ut.Op == token.ADD
					case ssa.CallInstruction, *ssa.Return, *ssa.Phi, *ssa.Store:
						textUse = true
					}
					if !textUse {
						continue
					}
					n++
					k++
					key := fmt.Sprintf("%s|%s|use#%d", core.FnName(fn), label, k)
					ub := u.Block()
					if phi, ok := u.(*ssa.Phi); ok {
						// the use happens on the edge from the predecessor that supplies the value
						for i, e := range phi.Edges {
							if e == ssa.Value(lv) {
								ub = phi.Block().Preds[i]
							}
						}
					}
					switch {
					case notLineComment(v, ub, 0):
						c.Discharge("fmt.linecmt", key, u.Pos(), "the chunk is known not to be a line comment here")
					case lineFeedFollows(lv.Block(), lv):
						c.Discharge("fmt.linecmt", key, u.Pos(), "a line feed follows in the same block")
					default:
						c.Report("fmt.linecmt", key, u.Pos(), fmt.Sprintf("%s writes the text of a chunk that may be a line comment (no test of isLineComment() or of its type on the way) and no line feed follows: whatever is printed next on that line becomes part of the comment, so code disappears from the formatted program", core.FnName(fn)))
					}
				}
			}
		}
	}
	for _, fn := range prog.ModuleFuncs("formatter") {
		if len(fn.Blocks) == 0 {
			continue
		}
		if isEmitter(fn) {
			for _, par := range fn.Params[1:] {
				if p, ok := par.Type().(*types.Pointer); ok && core.NamedTypeName(p.Elem()) == "Chunk" {
					check(fn, par, "param "+par.Name())
				}
			}
		}
		i, j := 0, 0
		for _, b := range fn.Blocks {
			for _, in := range b.Instrs {
				if call, ok := in.(*ssa.Call); ok && call.Common().StaticCallee() == next {
					i++
					check(fn, call, fmt.Sprintf("nextChunk#%d", i))
				}
				if call, ok := in.(*ssa.Call); ok && peek != nil && call.Common().StaticCallee() == peek {
					j++
					check(fn, call, fmt.Sprintf("peekChunk#%d", j))
				}
			}
		}
	}
	c.Floor("fmt.linecmt", 8)
}

// checkTextRewrite (fmt.textrewrite): once statements have been rendered to text, string literals and comments are
// just characters in it. A regular-expression or string replacement run over rendered code (collapsing blank lines,
// trimming spaces) also rewrites what is *inside* a long string or a block comment: the literal's value changes.
// Every replacement call in the formatter whose subject is rendered code - it derives from the String() of a buffer
// or of rendered lines, not from a single token's text - is reported.
func checkTextRewrite(c *core.Ctx) {
	n := 0
	for _, fn := range c.Prog.ModuleFuncs("formatter") {
		for _, b := range fn.Blocks {
			for _, in := range b.Instrs {
				call, ok := in.(*ssa.Call)
				if !ok {
					continue
				}
				cal := call.Common().StaticCallee()
				if cal == nil || cal.Pkg == nil {
					continue
				}
				var subject ssa.Value
				switch {
				case cal.Pkg.Pkg.Path() == "regexp" && strings.HasPrefix(cal.Name(), "ReplaceAll"):
					subject = call.Common().Args[1]
				case cal.Pkg.Pkg.Path() == "strings" && (cal.Name() == "ReplaceAll" || cal.Name() == "Replace"):
					subject = call.Common().Args[0]
				case cal.Pkg.Pkg.Path() == "strings" && (cal.Name() == "Split" || cal.Name() == "SplitSeq" || cal.Name() == "Lines"):
					// cut into lines to be re-indented or trimmed one by one: the lines of a long string are among them
					if k, isK := call.Common().Args[len(call.Common().Args)-1].(*ssa.Const); cal.Name() != "Lines" && (!isK || k.Value == nil || k.Value.Kind() != constant.String || constant.StringVal(k.Value) != "\n") {
						continue
					}
					subject = call.Common().Args[0]
				default:
					continue
				}
				// the subject: a parameter of a helper (judged at its callers) or a value in hand
				rendered := func(v ssa.Value) bool {
					for x := range core.BackSliceLocal(v) {
						if sc, isCall := x.(*ssa.Call); isCall {
							g := sc.Common().StaticCallee()
							if g == nil || g.Signature.Results().Len() == 0 {
								continue
							}
							if bt, isB := g.Signature.Results().At(0).Type().Underlying().(*types.Basic); !isB || bt.Kind() != types.String {
								continue
							}
							// the text of a buffer, or whatever a printer of the formatter returns
							if g.Signature.Recv() != nil {
								rn := core.NamedTypePkgName(g.Signature.Recv().Type())
								if (rn == "bytes.Buffer" || rn == "strings.Builder") && g.Name() == "String" {
									return true
								}
							}
							if g.Pkg != nil && g.Pkg.Pkg.Path() == core.ModPath+"/formatter" && g != fn {
								return true
							}
						}
					}
					return false
				}
				hit := rendered(subject)
				if p, isParam := subject.(*ssa.Parameter); isParam && !hit {
					idx := -1
					for i, q := range fn.Params {
						if q == p {
							idx = i
						}
					}
					for _, g := range c.Prog.ModuleFuncs("formatter") {
						for _, gb := range g.Blocks {
							for _, gi := range gb.Instrs {
								if gc, isCall := gi.(*ssa.Call); isCall && gc.Common().StaticCallee() == fn && idx >= 0 && rendered(gc.Common().Args[idx]) {
									hit = true
								}
							}
						}
					}
				}
				if !hit {
					continue
				}
				n++
				c.Report("fmt.textrewrite", core.FnName(fn)+"|"+cal.Name(), in.Pos(), fmt.Sprintf("%s runs %s over rendered code: the replacement also applies inside long strings and block comments of that code, so a literal's value changes (`{\"a\\n\\n\\n\\nb\"}` loses blank lines)", core.FnName(fn), cal.Name()))
			}
		}
	}
	c.Instances("fmt.textrewrite", 0)
	_ = n
}
