package checks

import (
	"fmt"
	"go/constant"
	"go/token"
	"go/types"
	"strings"

	"fv/internal/core"

	"golang.org/x/tools/go/ssa"
)

// C17 — HTTP header variables obey store laws (E16 hdrcanon, R-delunassign).
func init() {
	register(&Check{ID: "C17", NeedSSA: true, Run: runC17})
}

const ihttpPkg = core.ModPath + "/interpreter/http"

var canonicalisers = map[string]bool{
	"net/textproto.CanonicalMIMEHeaderKey": true,
	"net/http.CanonicalHeaderKey":          true,
	"strings.ToLower":                      true,
}

func calleeFullName(cal *ssa.Function) string {
	if cal == nil || cal.Pkg == nil {
		return ""
	}
	return cal.Pkg.Pkg.Path() + "." + cal.Name()
}

// isNetHeaderCall: a call of (net/http.Header).<name>; returns the header value and the key argument.
func isNetHeaderCall(in ssa.Instruction, names ...string) (ssa.Value, ssa.Value, string, bool) {
	ci, ok := in.(ssa.CallInstruction)
	if !ok {
		return nil, nil, "", false
	}
	cal := ci.Common().StaticCallee()
	if cal == nil || cal.Pkg == nil || cal.Pkg.Pkg.Path() != "net/http" || cal.Signature.Recv() == nil || core.NamedTypeName(cal.Signature.Recv().Type()) != "Header" {
		return nil, nil, "", false
	}
	for _, n := range names {
		if cal.Name() == n {
			args := ci.Common().Args
			if len(args) >= 2 {
				return args[0], args[1], n, true
			}
		}
	}
	return nil, nil, "", false
}

// keyStoreCall: a call of (headerKeyStore).<name>; returns the key argument.
func keyStoreCall(in ssa.Instruction, names ...string) (ssa.Value, string, bool) {
	ci, ok := in.(ssa.CallInstruction)
	if !ok {
		return nil, "", false
	}
	cal := ci.Common().StaticCallee()
	if cal == nil {
		return nil, "", false
	}
	// promoted through the embedded store: wrapper functions have the same name
	recvOK := false
	if cal.Signature.Recv() != nil {
		rn := core.NamedTypePkgName(cal.Signature.Recv().Type())
		if rn == ihttpPkg+".headerKeyStore" || rn == ihttpPkg+".Request" || rn == ihttpPkg+".Response" {
			recvOK = true
		}
	}
	if !recvOK {
		return nil, "", false
	}
	for _, n := range names {
		if cal.Name() == n {
			args := ci.Common().Args
			return args[len(args)-1], n, true
		}
	}
	return nil, "", false
}

// httpObject: the request / response object (a value of the simulator's wrapper types) a header map or a key store
// belongs to, rendered as an access path; "" when it cannot be named.
func httpObject(v ssa.Value) string {
	for i := 0; i < 12 && v != nil; i++ {
		if n := core.NamedTypePkgName(v.Type()); n == ihttpPkg+".Request" || n == ihttpPkg+".Response" {
			if _, isPtr := v.Type().Underlying().(*types.Pointer); isPtr {
				return accessPath(v)
			}
		}
		switch t := v.(type) {
		case *ssa.UnOp:
			v = t.X
		case *ssa.FieldAddr:
			v = t.X
		case *ssa.Field:
			v = t.X
		case *ssa.ChangeType:
			v = t.X
		default:
			return ""
		}
	}
	return ""
}

// sameObject: the header map and the key store belong to the same request / response object (or one of them cannot
// be named: nothing is concluded then).
func sameObject(header ssa.Value, in ssa.Instruction) bool {
	ci, ok := in.(ssa.CallInstruction)
	if !ok || len(ci.Common().Args) == 0 {
		return true
	}
	a, b := httpObject(header), httpObject(ci.Common().Args[0])
	return a == "" || b == "" || a == b
}

func sameKey(a, b ssa.Value) bool {
	if a == b {
		return true
	}
	pa, pb := accessPath(a), accessPath(b)
	return pa != "" && pa == pb // equal renderings name the same SSA base value (pointers are part of the rendering)
}

// mustFollow: from instruction `from`, does every path to a function exit pass an instruction accepted by ev?
func mustFollow(from ssa.Instruction, ev func(ssa.Instruction) bool) bool {
	b := from.Block()
	started := false
	for _, in := range b.Instrs {
		if in == from {
			started = true
			continue
		}
		if started && ev(in) {
			return true
		}
	}
	seen := map[*ssa.BasicBlock]bool{}
	var walk func(x *ssa.BasicBlock) bool // true if an exit is reachable without the event
	walk = func(x *ssa.BasicBlock) bool {
		if seen[x] {
			return false
		}
		seen[x] = true
		for _, in := range x.Instrs {
			if ev(in) {
				return false
			}
			switch in.(type) {
			case *ssa.Return, *ssa.Panic:
				return true
			}
		}
		for _, s := range x.Succs {
			if walk(s) {
				return true
			}
		}
		return false
	}
	if len(b.Succs) == 0 {
		return false
	}
	for _, s := range b.Succs {
		if walk(s) {
			return false
		}
	}
	return true
}

func runC17(c *core.Ctx) {
	c.Explanation = "Structural necessary conditions of the header store laws, decided on SSA: (hdr.canon) the assigned-key set (headerKeyStore) is indexed, in IsAssigned, Assign and Unassign alike, only with the result of one canonicaliser applied to the name (net/http canonicalises header names, so set/unset under different spellings must hit the same bookkeeping key), and the set is touched nowhere else; (hdr.pair) on the VCL-visible write paths of interpreter/variable every Header.Del(k) is followed on all paths to the exit by Unassign(k) (or a Set/Add of the same k), and every Header.Set/Add(k, v) by Assign(k) — otherwise a header reads as set after unset, or as not set after `set … = \"\"`; (hdr.wild) a loop over the canonical keys of Header that compares a key with a name taken from VCL does so case-insensitively / after canonicalising the name; (hdr.namecase) the header helpers of interpreter/variable never compare the name (as the program spelled it) with a constant case-sensitively; (hdr.cookiereplace) every AddCookie in the header helpers is dominated by the removal of the cookie of the same name; (hdr.sep) getters and setters of one object use the same sub-field separator constant. Decides the pairing/keying shape for all operation sequences; not the regular-expression sub-field algebra. (hdr.exact) names from the program are matched exactly outside the wildcard form; (hdr.helpers) every scope serves *.http.* through the shared helpers; hdr.pair requires the same object."
	c.NotCovered = []string{"the regular-expression sub-field algebra of GetField/setField/unsetField", "value truncation at newline beyond the flow of strings.Cut into Header.Set", "cookie sub-fields (request Cookie header is rewritten by its own helpers)"}
	prog := c.Prog
	checkHeaderNameCase(c)
	checkCookieReplace(c)

	// ---- hdr.canon
	used := map[string]string{}
	for _, m := range []string{"IsAssigned", "Assign", "Unassign"} {
		fn := prog.SSAFunc("interpreter/http", "headerKeyStore."+m)
		if fn == nil {
			c.MissingAnchor("hdr.canon", "interpreter/http.headerKeyStore."+m)
			continue
		}
		c.Func(core.FnName(fn))
		var keys []ssa.Value
		for _, b := range fn.Blocks {
			for _, in := range b.Instrs {
				switch t := in.(type) {
				case *ssa.Lookup:
					keys = append(keys, t.Index)
				case *ssa.MapUpdate:
					keys = append(keys, t.Key)
				case *ssa.Call:
					if bi, ok := t.Common().Value.(*ssa.Builtin); ok && bi.Name() == "delete" {
						keys = append(keys, t.Common().Args[1])
					}
				}
			}
		}
		if len(keys) == 0 {
			c.Report("hdr.canon", m+"|no-access", fn.Pos(), "headerKeyStore."+m+" no longer accesses the key set")
			continue
		}
		for _, k := range keys {
			call, ok := k.(*ssa.Call)
			name := ""
			if ok {
				name = calleeFullName(call.Common().StaticCallee())
			}
			if ok && canonicalisers[name] && len(call.Common().Args) == 1 && call.Common().Args[0] == ssa.Value(fn.Params[len(fn.Params)-1]) {
				used[m] = name
				c.Discharge("hdr.canon", m, k.Pos(), "key = "+name+"(name)")
			} else {
				used[m] = "raw"
				c.Report("hdr.canon", m+"|raw-key", fn.Pos(), "headerKeyStore."+m+" indexes the assigned-key set with the name as spelled by the caller: net/http canonicalises header names but this bookkeeping does not, so `unset req.http.fOO` after `set req.http.Foo` leaves the header reading as an empty *set* value")
			}
		}
	}
	if len(used) == 3 && !(used["IsAssigned"] == used["Assign"] && used["Assign"] == used["Unassign"]) {
		c.ReportAt("hdr.canon", "mismatch", "interpreter/http/http.go", 0, fmt.Sprintf("the three methods use different canonicalisers: %v", used))
	}
	// who touches the store
	for _, fn := range prog.ModuleFuncs() {
		if recvTypeName(fn) == "headerKeyStore" {
			continue
		}
		for _, b := range fn.Blocks {
			for _, in := range b.Instrs {
				var m ssa.Value
				switch t := in.(type) {
				case *ssa.Lookup:
					m = t.X
				case *ssa.MapUpdate:
					m = t.Map
				case *ssa.Range:
					m = t.X
				case *ssa.Call:
					if bi, ok := t.Common().Value.(*ssa.Builtin); ok && bi.Name() == "delete" {
						m = t.Common().Args[0]
					}
				}
				if m != nil && core.NamedTypePkgName(m.Type()) == ihttpPkg+".headerKeyStore" {
					c.Report("hdr.canon", core.FnName(fn)+"|direct-access", in.Pos(), core.FnName(fn)+" accesses the assigned-key set directly, bypassing the canonicalising methods")
				}
			}
		}
	}
	c.Floor("hdr.canon", 3)

	// ---- hdr.pair
	vfuncs := prog.ModuleFuncs("interpreter/variable")
	isWrapped := func(h ssa.Value) bool {
		// Header field of a falco wrapper (interpreter/http.Request/Response embed *net/http.Request/Response)
		for x := range core.BackSlice(h) {
			if n := core.NamedTypePkgName(x.Type()); n == ihttpPkg+".Request" || n == ihttpPkg+".Response" {
				return true
			}
		}
		return false
	}
	for _, fn := range vfuncs {
		c.Func(core.FnName(fn))
		ordinal := map[string]int{}
		for _, b := range fn.Blocks {
			for _, in := range b.Instrs {
				h, k, op, ok := isNetHeaderCall(in, "Del", "Set", "Add")
				if !ok || !isWrapped(h) {
					continue
				}
				c.CallSite()
				ordinal[op]++
				key := fmt.Sprintf("%s|Header.%s#%d", core.FnName(fn), op, ordinal[op])
				if kc, isConst := k.(*ssa.Const); isConst && kc.Value != nil {
					key = fmt.Sprintf("%s|Header.%s(%s)", core.FnName(fn), op, kc.Value.ExactString())
				}
				switch op {
				case "Del":
					okPair := mustFollow(in, func(i2 ssa.Instruction) bool {
						if k2, _, ok := keyStoreCall(i2, "Unassign"); ok && sameKey(k, k2) && sameObject(h, i2) {
							return true
						}
						if _, k2, _, ok := isNetHeaderCall(i2, "Set", "Add"); ok && sameKey(k, k2) {
							return true
						}
						// writing the header slice directly (r.Header[\"Cookie\"] = …)
						return false
					})
					if !okPair {
						// the other order: the key is un-assigned first and nothing assigns it again before the delete
						for _, b2 := range fn.Blocks {
							for _, un := range b2.Instrs {
								k2, _, isUn := keyStoreCall(un, "Unassign")
								if !isUn || !sameKey(k, k2) || !core.InstrDominates(un, in) {
									continue
								}
								reassigned := false
								for _, b3 := range fn.Blocks {
									for _, i3 := range b3.Instrs {
										if k3, _, isAs := keyStoreCall(i3, "Assign"); isAs && sameKey(k, k3) && core.InstrDominates(un, i3) && core.Reaches(b3, b) && !core.InstrDominates(in, i3) {
											reassigned = true
										}
									}
								}
								if !reassigned {
									okPair = true
								}
							}
						}
					}
					if okPair {
						c.Discharge("hdr.pair", key, in.Pos(), "followed on every path by Unassign of the same key (or a Set/Add of it)")
					} else {
						c.Report("hdr.pair", key, in.Pos(), fmt.Sprintf("%s deletes a header without un-assigning the same key on every path: after `unset` the header still counts as assigned and reads as an empty *set* value instead of not set", core.FnName(fn)))
					}
				case "Set", "Add":
					after := mustFollow(in, func(i2 ssa.Instruction) bool {
						k2, _, ok := keyStoreCall(i2, "Assign")
						return ok && sameKey(k, k2) && sameObject(h, i2)
					})
					before := false
					for _, b2 := range fn.Blocks {
						for _, i2 := range b2.Instrs {
							if k2, _, ok := keyStoreCall(i2, "Assign"); ok && sameKey(k, k2) && sameObject(h, i2) && core.InstrDominates(i2, in) {
								before = true
							}
						}
					}
					if after || before {
						c.Discharge("hdr.pair", key, in.Pos(), "paired with Assign of the same key on every path")
					} else {
						c.Report("hdr.pair", key, in.Pos(), fmt.Sprintf("%s writes a header (%s) without marking the same key assigned on every path: `set … = \"\"` (or add of an empty value) then reads as not set", core.FnName(fn), op))
					}
				}
			}
		}
	}
	c.Floor("hdr.pair", 12)

	// ---- hdr.helpers: the laws (not-set bookkeeping, cut at the first newline, name:key sub-fields, compound operators)
	// live in the shared helpers get/assign/unset{Request,Response}HeaderValue. A scope's variable object that serves
	// `req.http.X` / `resp.http.X` by calling net/http's Header.Get / Set / Del itself - the key comes out of the
	// header-name regular expression - implements none of them for that scope (sibling rule: the other scopes go
	// through the helpers). Header.Add is the `add` statement and stays direct everywhere.
	for _, fn := range vfuncs {
		if fn.Signature.Recv() == nil || !strings.HasSuffix(core.NamedTypeName(derefType(fn.Signature.Recv().Type())), "ScopeVariables") {
			continue
		}
		ord := map[string]int{}
		for _, b := range fn.Blocks {
			for _, in := range b.Instrs {
				_, k, op, ok := isNetHeaderCall(in, "Get", "Set", "Del")
				if !ok {
					continue
				}
				fromRegex := false
				for x := range core.BackSliceLocal(k) {
					if call, isCall := x.(*ssa.Call); isCall {
						if cal := call.Common().StaticCallee(); cal != nil && cal.Name() == "FindStringSubmatch" {
							fromRegex = true
						}
					}
				}
				if !fromRegex {
					continue
				}
				ord[op]++
				key := fmt.Sprintf("%s|Header.%s#%d", core.FnName(fn), op, ord[op])
				c.Report("hdr.helpers", key, in.Pos(), fmt.Sprintf("%s serves a `*.http.NAME` variable with net/http's Header.%s itself instead of the shared header helpers: in this scope the header never reads as not set, is not cut at a newline, `NAME:key` is taken for a header of that literal name and compound operators replace the value", core.FnName(fn), op))
			}
		}
	}
	c.Instances("hdr.helpers", 0)

	// ---- hdr.exact: a name or key taken from the program selects exactly the header, sub-field or cookie of that
	// name. Matching it by prefix or substring is the wildcard form (`unset req.http.X-*`) and allowed only behind the
	// test for the trailing `*`; anywhere else `Cookie:id` also hits `id_token`.
	for _, fn := range vfuncs {
		ord := 0
		for _, b := range fn.Blocks {
			for _, in := range b.Instrs {
				call, ok := in.(*ssa.Call)
				if !ok {
					continue
				}
				name := calleeFullName(call.Common().StaticCallee())
				if name != "strings.HasPrefix" && name != "strings.HasSuffix" && name != "strings.Contains" && name != "strings.Index" {
					continue
				}
				pat := call.Common().Args[1]
				if _, isConst := pat.(*ssa.Const); isConst {
					continue
				}
				fromParam := false
				for x := range core.BackSliceLocal(pat) {
					if prm, isP := x.(*ssa.Parameter); isP {
						if bt, isB := prm.Type().Underlying().(*types.Basic); isB && bt.Info()&types.IsString != 0 {
							fromParam = true
						}
					}
				}
				if !fromParam {
					continue
				}
				ord++
				key := fmt.Sprintf("%s|%s#%d", core.FnName(fn), strings.TrimPrefix(name, "strings."), ord)
				wild := false
				for _, b2 := range fn.Blocks {
					for _, i2 := range b2.Instrs {
						w, isCall := i2.(*ssa.Call)
						if !isCall {
							continue
						}
						wn := calleeFullName(w.Common().StaticCallee())
						if wn != "strings.CutSuffix" && wn != "strings.HasSuffix" {
							continue
						}
						if k, isK := w.Common().Args[1].(*ssa.Const); !isK || k.Value == nil || k.Value.Kind() != constant.String || constant.StringVal(k.Value) != "*" {
							continue
						}
						var flag ssa.Value = w
						if wn == "strings.CutSuffix" && w.Referrers() != nil {
							for _, r := range *w.Referrers() {
								if ex, isEx := r.(*ssa.Extract); isEx && ex.Index == 1 {
									flag = ex
								}
							}
						}
						if core.DominatedByTrue(flag, b) {
							wild = true
						}
					}
				}
				if wild {
					c.Discharge("hdr.exact", key, in.Pos(), "prefix match of the wildcard form, behind the test for the trailing `*`")
				} else {
					c.Report("hdr.exact", key, in.Pos(), fmt.Sprintf("%s matches a name taken from the program with %s outside the wildcard form: every header / sub-field / cookie whose name merely starts with (or contains) it is hit as well (`unset req.http.Cookie:id` also removes `id_token`)", core.FnName(fn), name))
				}
			}
		}
	}
	c.Floor("hdr.exact", 2)

	// ---- hdr.wild: comparisons of ranged Header keys with a raw name
	for _, fn := range vfuncs {
		for _, b := range fn.Blocks {
			for _, in := range b.Instrs {
				call, ok := in.(*ssa.Call)
				if !ok {
					continue
				}
				name := calleeFullName(call.Common().StaticCallee())
				if name != "strings.HasPrefix" && name != "strings.HasSuffix" && name != "strings.Contains" {
					continue
				}
				// first arg derives from a range over net/http.Header?
				fromRange := false
				for x := range core.BackSlice(call.Common().Args[0]) {
					if nx, ok := x.(*ssa.Next); ok {
						if r, ok := nx.Iter.(*ssa.Range); ok && core.NamedTypePkgName(r.X.Type()) == "net/http.Header" {
							fromRange = true
						}
					}
				}
				if !fromRange {
					continue
				}
				c.CallSite()
				key := core.FnName(fn) + "|range-key " + strings.TrimPrefix(name, "strings.")
				canon := false
				for x := range core.BackSlice(call.Common().Args[1]) {
					if c2, ok := x.(*ssa.Call); ok && canonicalisers[calleeFullName(c2.Common().StaticCallee())] {
						canon = true
					}
				}
				lowerBoth := false
				for x := range core.BackSlice(call.Common().Args[0]) {
					if c2, ok := x.(*ssa.Call); ok && calleeFullName(c2.Common().StaticCallee()) == "strings.ToLower" {
						lowerBoth = true
					}
				}
				if canon || lowerBoth {
					c.Discharge("hdr.wild", key, in.Pos(), "the name is canonicalised before it is compared with the canonical keys")
				} else {
					c.Report("hdr.wild", key, in.Pos(), fmt.Sprintf("%s compares the canonical keys of Header with a name as spelled in VCL: `unset req.http.x-*` does not match `X-Foo` (header names must be case-insensitive for unset too)", core.FnName(fn)))
				}
			}
		}
	}
	c.Floor("hdr.wild", 2)

	// ---- hdr.sep: separator constants of GetField / setField / unsetField callers agree per object family
	seps := map[string]map[string]bool{}
	for _, fn := range vfuncs {
		for _, b := range fn.Blocks {
			for _, in := range b.Instrs {
				call, ok := in.(*ssa.Call)
				if !ok {
					continue
				}
				cal := call.Common().StaticCallee()
				if cal == nil || cal.Pkg == nil || cal.Pkg.Pkg.Path() != interpPkg+"/variable" {
					continue
				}
				switch cal.Name() {
				case "GetField", "setField", "unsetField":
				default:
					continue
				}
				args := call.Common().Args
				sep, ok := args[len(args)-1].(*ssa.Const)
				if !ok || sep.Value == nil {
					continue
				}
				fam := "response"
				if strings.Contains(fn.Name(), "Request") {
					fam = "request"
				} else if !strings.Contains(fn.Name(), "Response") {
					fam = core.FnName(fn)
				}
				if seps[fam] == nil {
					seps[fam] = map[string]bool{}
				}
				seps[fam][sep.Value.ExactString()] = true
			}
		}
	}
	for fam, s := range seps {
		if len(s) == 1 {
			c.Discharge("hdr.sep", fam, token.NoPos, fmt.Sprintf("one separator %v for get/set/unset", keysOf(s)))
		} else if fam == "request" || fam == "response" {
			c.ReportAt("hdr.sep", fam, "interpreter/variable/header.go", 0, fmt.Sprintf("sub-field get/set/unset of %s headers use different separators %v: a sub-field written by one is not found by the other", fam, keysOf(s)))
		}
	}
	_ = types.Typ

	// ---- hdr.quote: a sub-field value that contains a separator is quoted — the quoting character class of setField
	// covers every separator its callers pass
	allSeps := map[string]bool{}
	for _, s := range seps {
		for k := range s {
			allSeps[strings.Trim(k, "\"")] = true
		}
	}
	if sf := prog.SSAFunc("interpreter/variable", "setField"); sf != nil {
		class := ""
		note := func(pat string) {
			if i := strings.Index(pat, "["); i >= 0 {
				if j := strings.LastIndex(pat, "]"); j > i {
					class += pat[i+1 : j]
				}
			}
		}
		for _, b := range sf.Blocks {
			for _, in := range b.Instrs {
				call, ok := in.(*ssa.Call)
				if !ok {
					continue
				}
				cal := call.Common().StaticCallee()
				if cal == nil || cal.Pkg == nil || cal.Pkg.Pkg.Path() != "regexp" {
					continue
				}
				if strings.HasPrefix(cal.Name(), "MustCompile") || cal.Name() == "Compile" || cal.Name() == "MatchString" && cal.Signature.Recv() == nil {
					if k, ok := call.Common().Args[0].(*ssa.Const); ok && k.Value != nil {
						note(constant.StringVal(k.Value))
					}
				}
				if cal.Name() == "MatchString" && cal.Signature.Recv() != nil {
					for x := range core.BackSlice(call.Common().Args[0]) {
						if g, ok := x.(*ssa.Global); ok {
							note(globalRegexpPattern(prog, g))
						}
					}
				}
			}
		}
		var missing []string
		for sp := range allSeps {
			if sp != "" && !strings.Contains(class, sp) {
				missing = append(missing, sp)
			}
		}
		sortStrings(missing)
		switch {
		case class == "":
			c.Report("hdr.quote", "setField|class", sf.Pos(), "setField no longer quotes sub-field values by a character class: values containing the separator cannot be stored")
		case len(missing) > 0:
			c.Report("hdr.quote", "setField|separators", sf.Pos(), fmt.Sprintf("the characters that make setField quote a sub-field value (%q) do not include the separator %v its callers use: a value containing it is written bare and splits into several sub-fields", class, missing))
		default:
			c.Discharge("hdr.quote", "setField|separators", sf.Pos(), "the quoting class covers the separators "+strings.Join(keysOf(allSeps), " "))
		}
	} else {
		c.MissingAnchor("hdr.quote", "interpreter/variable.setField")
	}

	// ---- hdr.ownstore: every request/response object owns its assigned-key set
	nOwn := 0
	for _, fn := range prog.ModuleFuncs("interpreter/http") {
		for _, b := range fn.Blocks {
			for _, in := range b.Instrs {
				st, ok := in.(*ssa.Store)
				if !ok {
					continue
				}
				fa, ok := st.Addr.(*ssa.FieldAddr)
				if !ok || core.FieldOf(fa) == nil || core.FieldOf(fa).Name() != "headerKeyStore" {
					continue
				}
				nOwn++
				key := fmt.Sprintf("%s|headerKeyStore#%d", core.FnName(fn), nOwn)
				fresh := true
				var walk func(v ssa.Value, d int)
				walk = func(v ssa.Value, d int) {
					if d > 4 {
						fresh = false
						return
					}
					switch t := v.(type) {
					case *ssa.MakeMap:
					case *ssa.ChangeType:
						walk(t.X, d+1)
					case *ssa.Phi:
						for _, e := range t.Edges {
							walk(e, d+1)
						}
					case *ssa.Call:
						if cal := t.Common().StaticCallee(); cal != nil && (cal.Name() == "Clone" || cal.Name() == "clone" || cal.Name() == "copy") {
							return
						}
						fresh = false
					default:
						fresh = false
					}
				}
				walk(st.Val, 0)
				if fresh {
					c.Discharge("hdr.ownstore", key, in.Pos(), "a new (or copied) key set")
				} else {
					c.Report("hdr.ownstore", key, in.Pos(), core.FnName(fn)+" gives the new object the assigned-key set of another object instead of a set of its own: setting or unsetting a header on one of them changes whether the header reads as set on the other")
				}
			}
		}
	}
	if nOwn < 2 {
		c.MissingAnchor("hdr.ownstore", fmt.Sprintf("stores to headerKeyStore in interpreter/http (found %d)", nOwn))
	}

	// ---- hdr.verbatim: a whole-header `set` stores the value as written, cut at the first newline and nothing else
	nVerb := 0
	for _, fn := range vfuncs {
		for _, b := range fn.Blocks {
			for _, in := range b.Instrs {
				_, _, name, ok := isNetHeaderCall(in, "Set", "Add")
				if !ok {
					continue
				}
				arg := in.(*ssa.Call).Common().Args[2]
				// only values that come straight from a VCL value (not the sub-field composer)
				fromValue, viaField := false, false
				for x := range core.BackSlice(arg) {
					if p, ok := x.(*ssa.Parameter); ok && core.NamedTypeName(p.Type()) == "Value" {
						fromValue = true
					}
					if call, ok := x.(*ssa.Call); ok {
						if call.Common().IsInvoke() && call.Common().Method.Name() == "String" && core.NamedTypeName(call.Common().Value.Type()) == "Value" {
							fromValue = true
						}
						if cal := call.Common().StaticCallee(); cal != nil && (cal.Name() == "setField" || cal.Name() == "unsetField") {
							viaField = true
						}
					}
				}
				if !fromValue || viaField {
					continue
				}
				nVerb++
				key := fmt.Sprintf("%s|Header.%s#%d", core.FnName(fn), name, nVerb)
				if bad := stringTransforms(prog, arg, 0); bad != "" {
					c.Report("hdr.verbatim", key, in.Pos(), fmt.Sprintf("%s stores a header value that went through %s: reading the header back does not return the value that was written (only a cut at the first newline is allowed)", core.FnName(fn), bad))
				} else {
					c.Discharge("hdr.verbatim", key, in.Pos(), "value.String(), cut at the first newline")
				}
			}
		}
	}
	if nVerb < 2 {
		c.MissingAnchor("hdr.verbatim", fmt.Sprintf("whole-header Set/Add of a VCL value (found %d)", nVerb))
	}
}

// stringTransforms: the first string transformation other than strings.Cut(_, "\n") on the way to v; module helpers
// are looked into.
func stringTransforms(prog *core.Program, v ssa.Value, depth int) string {
	if depth > 3 {
		return ""
	}
	for x := range core.BackSlice(v) {
		call, ok := x.(*ssa.Call)
		if !ok {
			continue
		}
		cal := call.Common().StaticCallee()
		if cal == nil || cal.Pkg == nil {
			continue
		}
		switch {
		case cal.Pkg.Pkg.Path() == "strings":
			if cal.Name() == "Cut" || cal.Name() == "SplitN" || cal.Name() == "Index" || cal.Name() == "IndexByte" {
				if k, ok := call.Common().Args[1].(*ssa.Const); ok && k.Value != nil && strings.Trim(k.Value.ExactString(), "\"") == "\\n" {
					continue
				}
			}
			return "strings." + cal.Name()
		case strings.HasPrefix(cal.Pkg.Pkg.Path(), core.ModPath) && cal.Blocks != nil && isStringResult(cal):
			for _, rs := range core.ReturnSites(cal) {
				for _, r := range rs.Results {
					if bad := stringTransforms(prog, r, depth+1); bad != "" {
						return bad + " (in " + cal.Name() + ")"
					}
				}
			}
		}
	}
	return ""
}

func isStringResult(fn *ssa.Function) bool {
	rs := fn.Signature.Results()
	if rs.Len() != 1 {
		return false
	}
	b, ok := rs.At(0).Type().Underlying().(*types.Basic)
	return ok && b.Info()&types.IsString != 0
}

func keysOf(m map[string]bool) []string {
	var out []string
	for k := range m {
		out = append(out, k)
	}
	sortStrings(out)
	return out
}

// checkHeaderNameCase (hdr.namecase): header names are case-insensitive, and a name reaches the header helpers as the
// program spelled it (`req.http.cookie:b`). In the helpers of interpreter/variable that take an HTTP object and a
// name, a name (or a piece cut from it) is never compared with a constant by == / != / switch: strings.EqualFold or
// a canonicalised value must be used, otherwise `unset req.http.cookie:b` takes another branch than
// `unset req.http.Cookie:b`.
func checkHeaderNameCase(c *core.Ctx) {
	prog := c.Prog
	n := 0
	for _, fn := range prog.ModuleFuncs("interpreter/variable") {
		if len(fn.Params) < 2 {
			continue
		}
		hasHTTP := false
		var names []*ssa.Parameter
		for _, p := range fn.Params {
			tn := core.NamedTypePkgName(derefType(p.Type()))
			if strings.HasSuffix(tn, "/http.Request") || strings.HasSuffix(tn, "/http.Response") || tn == "net/http.Header" {
				hasHTTP = true
			}
			if bt, ok := p.Type().Underlying().(*types.Basic); ok && bt.Kind() == types.String && p.Name() == "name" {
				names = append(names, p)
			}
		}
		if !hasHTTP || len(names) == 0 {
			continue
		}
		n++
		bad := 0
		for _, b := range fn.Blocks {
			for _, in := range b.Instrs {
				bo, ok := in.(*ssa.BinOp)
				if !ok || (bo.Op != token.EQL && bo.Op != token.NEQ) {
					continue
				}
				var other ssa.Value
				var kc *ssa.Const
				if k, ok := bo.Y.(*ssa.Const); ok {
					kc, other = k, bo.X
				} else if k, ok := bo.X.(*ssa.Const); ok {
					kc, other = k, bo.Y
				}
				if kc == nil || kc.Value == nil || kc.Value.Kind() != constant.String || constant.StringVal(kc.Value) == "" {
					continue
				}
				// letters in the constant: only then does case matter
				lit := constant.StringVal(kc.Value)
				if strings.ToLower(lit) == strings.ToUpper(lit) {
					continue
				}
				// the other side derives from the name without a case normalisation on the way
				fromName, normalised := false, false
				for x := range core.BackSlice(other) {
					for _, p := range names {
						if x == ssa.Value(p) {
							fromName = true
						}
					}
					if call, ok := x.(*ssa.Call); ok {
						if cal := call.Common().StaticCallee(); cal != nil {
							switch cal.Name() {
							case "ToLower", "ToUpper", "CanonicalHeaderKey", "CanonicalMIMEHeaderKey", "Title":
								normalised = true
							}
						}
					}
				}
				if !fromName || normalised {
					continue
				}
				bad++
				c.Report("hdr.namecase", fmt.Sprintf("%s|%q", core.FnName(fn), lit), in.Pos(), fmt.Sprintf("%s compares the header name (as the program spelled it) with %q by %s: header names are case-insensitive, so another spelling of the same header takes the other branch (`unset req.http.cookie:b` no longer removes the cookie)", core.FnName(fn), lit, bo.Op))
			}
		}
		if bad == 0 {
			c.Discharge("hdr.namecase", core.FnName(fn), fn.Pos(), "no case-sensitive comparison of the header name with a constant")
		}
	}
	c.Floor("hdr.namecase", 8)
}

// checkCookieReplace (hdr.cookiereplace): "replacing one name:key sub-field makes exactly that sub-field read back
// accordingly" - the request Cookie header is written through net/http's AddCookie, which only appends. Every AddCookie
// in the header helpers is dominated by a call that removes the cookie of the same name (a function of the package that
// rewrites or deletes the Cookie header, handed the same key as the cookie that is created).
func checkCookieReplace(c *core.Ctx) {
	prog := c.Prog
	n := 0
	rewritesCookie := func(fn *ssa.Function) bool {
		if fn == nil || fn.Blocks == nil {
			return false
		}
		for _, b := range fn.Blocks {
			for _, in := range b.Instrs {
				var key ssa.Value
				switch t := in.(type) {
				case *ssa.MapUpdate:
					key = t.Key
				case *ssa.Call:
					if cal := t.Common().StaticCallee(); cal != nil && cal.Name() == "Del" && len(t.Common().Args) == 2 {
						key = t.Common().Args[1]
					}
				}
				if k, ok := key.(*ssa.Const); ok && k.Value != nil && k.Value.Kind() == constant.String && strings.EqualFold(constant.StringVal(k.Value), "cookie") {
					return true
				}
			}
		}
		return false
	}
	for _, fn := range prog.ModuleFuncs("interpreter/variable") {
		for _, b := range fn.Blocks {
			for _, in := range b.Instrs {
				call, ok := in.(*ssa.Call)
				if !ok {
					continue
				}
				cal := call.Common().StaticCallee()
				if cal == nil || cal.Name() != "AddCookie" {
					continue
				}
				n++
				key := core.FnName(fn) + "|AddCookie"
				removed := false
				for _, b2 := range fn.Blocks {
					for _, in2 := range b2.Instrs {
						c2, ok := in2.(*ssa.Call)
						if !ok || !rewritesCookie(c2.Common().StaticCallee()) {
							continue
						}
						if core.InstrDominates(c2, call) {
							removed = true
						}
					}
				}
				if removed {
					c.Discharge("hdr.cookiereplace", key, in.Pos(), "the cookie of that name is removed before the new one is appended")
				} else {
					c.Report("hdr.cookiereplace", key, in.Pos(), fmt.Sprintf("%s appends a cookie (AddCookie) without removing the cookie of the same name first: `set req.http.Cookie:a = \"2\"` after `= \"1\"` leaves both in the header and the first one is read back", core.FnName(fn)))
				}
			}
		}
	}
	c.Floor("hdr.cookiereplace", 1)
}
