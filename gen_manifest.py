#!/usr/bin/env python3
"""Generates MANIFEST.json from the table below (developer aid; the MANIFEST is committed)."""
import json, subprocess

props = [json.loads(l) for l in open('/verif/properties.jsonl')]

# id -> (technique, level text, level note, design ref)
claimed = {
 "C01": ("end-of-stream abstraction on SSA: per-loop progress (consume events, least-fixpoint consume summaries), per-loop sparse conditional constant propagation with stream reads folded to their exhausted value (callee predicate evaluation, known-key-set map lookups, must-fail-at-end summaries, flow-sensitive local cells), left-recursion check on the resolved call graph (Pratt tables, custom parsers), must-store dataflow for token typing, error-origin and use-before-error-check rules",
         "Termination argument for every byte string: every loop/recursion of lexer and parser consumes input until the stream is exhausted, and at the exhausted steady state no loop has a feasible cycle; every token leaving NextToken is typed and located; every parser error is a *ParseError. Decides totality structurally for all inputs; does not decide that line/column numbers are the right values.",
         "trusts go/ssa; assumptions: no custom parser for EOF, an exhausted bufio.Reader keeps failing; one reviewed loop (peekUntil) and one named source-advance exception (readNumber)", "DESIGN.md §3 E3/E4, §4 C01"),
 "C02": ("compiled-in table extraction by constant evaluation on SSA (precedence map, Pratt registration tables, keyword map, lexer case chains, statement/declaration dispatch) compared with spec tables transcribed from the property statement and docs/parser.md; dominance rules for the Pratt comparison and binding-power arguments; writer-side field census",
         "Structural necessary conditions: operators have the stated binding-power classes in the stated order; the Pratt loop is strict (left associative) and every ParseExpression call site passes the right power; every token is registered with/dispatched to the parser the grammar names; operator and keyword spellings lex to their own token; escape decoding only in double-quoted strings; every node field is stored. A one-entry edit of any table is caught for all programs at once. Does not decide literal values or source order.",
         "trusts go/ssa; spec tables in c02.go are transcriptions of the property statement, docs/parser.md and the Fastly operator reference cited by token/token.go", "DESIGN.md §4 C02"),
 "C03": ("AST field-coverage census (struct fields by *types.Var on SSA), type-switch exhaustiveness against parser-constructible node kinds, computed lossy-renderer set (who-may-print), optional-field nil discipline (parser must-assign dataflow + dominance), must-use of dequeued chunks",
         "Structural necessary conditions: every node kind the parser builds is dispatched; every semantic field is read by a printer; nothing is printed through a lossy ast String(); literals come from the source token; grammar-optional fields are nil-tested before dereference; dequeued chunks are emitted. Holds for all programs and options at once; does not decide the text produced.",
         "trusts go/ssa; exemption tables (option-normalised/derived fields, declaration-property kinds, listed lossy renderer) in c03.go with one reason each", "DESIGN.md §4 C03"),
 "C04": ("post-dominator control dependence + dominance on SSA (non-interference of counters, indicator tests before success return, severity case dominance, phi-constant exit path walk)",
         "Structural necessary conditions of the verdict: every success return of runLint is dominated by tests of all live failure indicators; counters/verdict are not control- or data-dependent on -json/-v/-vv; counters incremented under their own severity; ErrExit reaches os.Exit(non-zero). Decides control structure for all inputs, not printed numbers.",
         "trusts go/types + go/ssa (x/tools v0.50.0), my dominator/post-dominator code; assumes exit status only comes from os.Exit in cmd/falco.main", "DESIGN.md §4 C04"),
 "C08": ("recursion-bound analysis (E9) on interpreter/** and tester, guard dominance on canonical access paths for integer / % << >> (interval reasoning on the guarding comparison), type-tag guard analysis for value.Unwrap[T] (tag tests, validated built-in argument tables extracted from the generated validators, return-kind summaries, forwarded argument slices, arity evaluation), argument-index-inside-arity rule, optional-field nil discipline with guarded-container summaries",
         "Structural necessary conditions of crash-free bounded simulation: every recursion descends on the finite syntax tree or is bounded by a counter/visited guard (restart, call depth, includes); every integer division/shift is guarded on the same value; every Unwrap whose result is dereferenced is dominated by a test of the value's type tag (655 sites) and every args[k] lies inside every arity that reaches it (970 sites); optional syntax fields are nil-tested. Decides panic/recursion shapes for all programs and operands; not library panics, not numeric results.",
         "trusts go/ssa; guards recognised: G1 counter bound, G2 visited set, G3 constant-selector alias, G4 ascending parameter; two named nil correlations in optnil.go; integer overflow to exactly zero in products not considered", "DESIGN.md §3 E9/E10/E2, §4 C08"),
 "C09": ("who-may-decide taint analysis on SSA: computed set of comment-bearing ast renderers, inter-procedural string taint into decision sinks (comparisons, map keys, conversions to named string types, predicates); who-may-read census of comment slots against a reviewed reader table; layout fields in branch-condition slices",
         "Structural necessary conditions of inertness: no decision in parser/linter/interpreter/tester is fed by a rendering that embeds comments; comment text is read only by the enumerated annotation parsers; layout fields never steer a branch of linter/simulator. Holds for every program and every decoration at once.",
         "trusts go/ssa; reviewed annotation-parser table in c09.go (one reason each)", "DESIGN.md §4 C09"),
 "C10": ("dominance/pairing rules on SSA + CHA reachability of global writes (exit guard, fail pairing, fresh interpreter per test, assertion wrapper sibling agreement, reviewed global-state set)",
         "Structural necessary conditions: success exit only behind Fails==0; every failing test bumps the fail counter and records its error; ungrouped tests get a fresh interpreter created inside the statement loop with re-injected testing functions; all 24 assertion closures return the assertion error and pair Fail/Pass with it; no unreviewed package-level state is written during a test. Decides structure for all test files; not coverage-instrumentation equivalence.",
         "trusts go/ssa and the CHA call graph (over-approximate) of x/tools v0.50.0; reviewed-global table in c10.go", "DESIGN.md §4 C10"),
 "C11": ("recursion-bound analysis on the call graph (SCCs, call edges classified descending/same/re-entry from SSA argument derivations with return-class summaries, depth/visited-set guard recognition by dominance), optional-field nil discipline, phase-ordering dominance in lintVCL, early-exit detection in map range loops, monotone-store rule for the scope fixed point",
         "Structural necessary conditions: every recursion of the linter descends on the finite syntax tree or is bounded by a visited set (include expansion); optional fields are nil-tested; declarations are hoisted before bodies are linted; no map-ordered loop exits early; scope inference is monotone. Decides termination/crash-freedom/order-independence shapes for all programs and include graphs.",
         "trusts go/ssa; AST values are finite trees; guards recognised: counter bound (G1), visited set incl. test-and-insert helper (G2)", "DESIGN.md §3 E9/E2, §4 C11"),
 "C12": ("typestate/pairing analysis on SSA (setup/defer-teardown pairing, set symmetry table, single filter funnel with dominance)",
         "Structural necessary conditions: single funnel behind the ignore filter, setup/teardown paired by defer on the same node and outside loops, every set filled by a Setup variant cleared by its Teardown variant under the same directive, IsEnable consults all sets with the rule. Decides that a directive's effect cannot outlive its statement/block; does not decide directive text parsing.",
         "trusts go/ssa; the directive→set table is transcribed from the property statement", "DESIGN.md §4 C12"),
 "C05": ("cross-table agreement by extraction: the linter's generated variable and function tables are read from typed syntax (nested composite literals, constant-folded scope masks); the simulator's side is extracted from SSA — per-scope Get/Set/Unset chains summarised into recognised names / patterns / prefixes (inter-procedural, through the base chain and shared helpers), function table scopes, validator arities (branch evaluation on len(args)) and argument kind tables, statement scope guards, the transition function of C06; operator × kind × kind × literal cells are decided on both sides by a partial evaluator over SSA that binds the kind tags and follows every branch it can decide",
         "Structural necessary conditions: every (variable, access, scope), (function, scope, arity, argument kind), (statement, scope), (scope, return action) and (operator, left kind, right kind, literal?) cell the linter admits has a non-failing counterpart in the simulator: a name the simulator never compares can only end in `undefined variable`, a cell whose every path returns an error can only fail. 3761 cells are decided on every run. Does not decide that the tables equal Fastly's documentation, nor values.",
         "trusts go/types + go/ssa; simulator success paths guarded only by operand values (NaN flags) count as succeeding; 72 genuine disagreements on today's tree are listed in known_findings.json", "DESIGN.md §4 C05"),
 "C06": ("state-machine extraction on SSA: path walk of every Process<Scope> with the returned action bound to each State constant (phi and string-test resolution, NONE remapping followed) compared with the Fastly transition table; successor-count dataflow over {0,1,2+} to every may-succeed return; restart guard dominance and limit constant; cache branch selection by nil-ness of cache.Get with marker/flag pairing; who-may-assign the cross-request stores; report field census",
         "Structural necessary conditions: all 98 (scope, action) cells of the compiled transition function equal the documented table; every successful path through a non-terminal scope calls exactly one successor (so vcl_log runs last and once); restart re-enters vcl_recv only below three restarts; hit/miss is chosen by the cache lookup of the request hash and recorded in ctx.State/X-Cache and process.Cached; cache, rate counters and penalty boxes are created once per simulator; the report reads what was recorded. Decides the transition structure for all programs; not cache expiry arithmetic or counter values.",
         "trusts go/ssa; the transition table in c06.go is a transcription of the property statement and the Fastly lifecycle the code cites; one named exception (purge requests stop after vcl_recv)", "DESIGN.md §4 C06"),
 "C07": ("table extraction and sibling cross-checking on typed syntax and SSA: operator→implementation dispatch tables (string-switch arms, operand order), per-cell kernel operator agreement (every expression combining a left-derived with a right-derived operand uses the function's own Go operator, orientation for non-commutative ones), sibling/duality comparison of the four ordering operators up to renaming, negation derivation of != and !~, not-set consultation, ACL scan rules (no early verdict, negation under containment, family-dependent default mask, prefix-length comparison), rotate rules (no signed right shift, direction), branch selection dominance for if/else-if/else and switch/case/fallthrough",
         "Structural necessary conditions: each VCL operator reaches the function that implements it with operands in order; in each (left type, right type) cell the operands are combined with that operator; <,>,<=,>= agree cell by cell and are mirror images; != and !~ negate == and ~; ACL matching is order independent, honours negation only for containing entries and picks by prefix length; rotation is a bit rotation in the right direction; a block runs only under the truth of its own condition, one block per chain, first matching case wins. A one-token edit in any cell is caught for all operands of those types. Does not decide numeric results (saturation thresholds, rounding) or regex matching.",
         "trusts go/types + go/ssa; spec tables in c07.go transcribe the operator list of the property statement; library methods Compare/Equal/Add/Sub/math.Mod are treated as the operators they are", "DESIGN.md §4 C07"),
 "C20": ("template context analysis: text/template constants extracted from typed syntax, parsed with text/template/parse, control structure unrolled into VCL skeleton paths with a lexical-context automaton (code / double-quoted / long string / comments) at every interpolation; helper functions classified from their SSA (constant-only, identifier sanitiser, quote-and-percent encoder, line-feed remover); field types resolved with go/types; field census; ACL marker shape; sibling mapping check of the two Fetcher implementations on SSA",
         "Structural necessary conditions: every string-kinded resource field pasted into a string literal is percent-encoded for `\"` and `%`, into a comment loses its line feeds, never lands in a long string; names pasted as code are sanitised (or are named code-valued/identifier-restricted fields) and a backend is spelled the same where declared and where referenced; every field of dictionaries, ACL entries, backends and directors is rendered; `!` and `/mask` are printed exactly under their flags; both fetchers fill each field from the source field of the same name. Holds for all resource sets and values; does not decide the template engine or the parser's decoding.",
         "trusts go/types, go/ssa and text/template/parse of the analysing toolchain; exemption tables (code-valued fields, identifier-restricted names) in c20.go with one reason each", "DESIGN.md §4 C20"),
 "C17": ("pairing/typestate rules on SSA: canonicaliser requirement on the assigned-key set (same callee in IsAssigned/Assign/Unassign, who-may-touch), must-follow path analysis pairing Header.Del with Unassign and Header.Set/Add with Assign on the same key (canonical access paths), case-insensitive comparison rule for loops over canonical header keys, separator agreement",
         "Structural necessary conditions of the header store laws: the set/not-set bookkeeping is keyed canonically like net/http; every VCL-visible delete un-assigns and every write assigns the same key on every path; wildcard matching compares canonical forms. Decides the keying/pairing shape for all histories and spellings; not the sub-field regular-expression algebra.",
         "trusts go/ssa; scope of hdr.pair is interpreter/variable (the VCL-visible write paths)", "DESIGN.md §4 C17"),
 "C18": ("lockset analysis on SSA: lock dominance/extent in ServeHTTP, handler entry who-may-call, inter-procedural shared-write analysis for goroutines started in loops",
         "Structural necessary conditions of race freedom: the per-interpreter mutex dominates every per-request state access and is held to return; handlers enter only through ServeHTTP; no goroutine with several live instances reaches an unlocked write to shared memory. Decides lock shape for all interleavings at once; does not decide response equality with a serial order.",
         "trusts go/ssa and static call resolution inside the module; library code assumed not to write falco state", "DESIGN.md §4 C18"),
 "C13": ("ownership/purity analysis on SSA: store-root derivation (field chains, type assertions, Unwrap) against a returns-fresh least-fixpoint summary, who-may-write rules for operands and right-hand sides, freshness of values entering a local-variable frame, dominance of the frame-restoring defer",
         "Structural necessary conditions: the expression evaluator and the operators never write through a pointer derived from an operand; assignment operators never write through `right`; every value stored into a frame is fresh (by-value arguments); the restoring defer dominates every successful return of a subroutine call. Decides aliasing shapes for all programs; not slices shared inside values.",
         "trusts go/ssa; value.Null treated as immutable sentinel; Copy methods assumed to copy", "DESIGN.md §4 C13"),
 "C15": ("comment-slot coverage: parser writer sites resolved to (owner access path, slot) on SSA vs inter-procedural read summaries of the formatter (fixpoint, type-switch narrowing, re-rooting, nested-context exact paths)",
         "Structural necessary condition: every comment slot the parser can fill (169 placement sites) is read by some printer on a matching access path, and formatComment emits every element. A slot nobody reads loses every comment written there, for all programs and configurations. Does not decide order or re-parse position.",
         "trusts go/ssa; one alias entry (shared *Meta of SubroutineParameter and its Name) in c15.go; owners known only by static type are matched weakly (3 sites, counted in evidence)", "DESIGN.md §4 C15"),
 "C16": ("who-may-write + dominance on SSA with inter-procedural path taint (fsatomic)",
         "Structural necessary conditions: no in-place write/truncate of a path derived from the input VCL name anywhere in the module; the only mutation is rename(tmp→path) dominated by the success edges of all writes to tmp which copy the formatter's result; the formatter's possibly-nil result is tested before use. Decides the shape of the write path on all paths, not kernel behaviour.",
         "trusts go/ssa; assumes the input file is named by resolver.VCL.Name and same-directory rename is atomic", "DESIGN.md §4 C16"),
 "C19": ("encoder/decoder field mirror by *types.Var census, dispatch exhaustiveness, frame-constant agreement, end-of-input loop exit analysis on SSA (steady-state FIN/UNKNOWN branches, path-sensitive failing-dispatcher summary), length-guard dominance for input-sized byte slices, narrowing rule",
         "Structural necessary conditions: every semantic field of every node kind is read by an encoder and written by a decoder; both dispatch tables are exhaustive and agree on frame types; every decoder frame loop leaves at end of input; constant indices into input-sized frames are length-guarded; optional children are nil-guarded. Decides what travels and that decoding has an exit on every byte string's end; not value equality.",
         "trusts go/ssa; exemption table of presentational fields and two reviewed non-frame loops in c19.go", "DESIGN.md §4 C19"),
}

na_reason = {
 "C14": "formatting idempotence is a fixpoint equation on text (alignment arithmetic, blank-line counts, comment re-attachment); no structural clause of the code is a genuine necessary condition that a realistic edit would break, and no sound static argument in reach bounds it (DESIGN.md §5)",
}

m = {
 "version": 1,
 "setup_cmd": "./setup.sh",
 "hooks": {
  "guard": "verif",
  "enable": "none needed: the checks are static analyses of /repo's source (go/packages + go/ssa); falco is never built with extra code",
  "baseline_off_cmd": "cd /repo && PATH=/opt/veriftools/go1.26.8/bin:$PATH GOFLAGS=-mod=mod GOPROXY=off GOSUMDB=off go test -vet=off -count=1 ./...",
  "source_commits": [],
  "add_only": True,
 },
 "engines": [
  {"name": "fv", "path": "tool/", "serves_properties": sorted(claimed), "kind_free_text": "repository-specific static analyser (Go, go/packages + go/types + go/ssa + go/cfg from x/tools v0.50.0): dominance, post-dominator control dependence, dataflow slices, table extraction, typestate/pairing rules; known_findings.json matching; evidence writer"},
 ],
 "checks": [],
 "notes": "All checks are static: they load /repo's current working tree (48 packages) on every run and execute nothing of falco. fix: commits in /repo repair genuine defects found by the checks; known_findings.json lists fixed and still-open findings.",
 "not_applicable": [],
}
for p in props:
    i = p["id"]
    if i in claimed:
        tech, text, note, ref = claimed[i]
        m["checks"].append({
            "property_id": i,
            "quick_cmd": f"./run.sh {i} quick",
            "thorough_cmd": f"./run.sh {i} thorough",
            "evidence_file": f"evidence/{i}.json",
            "replay_cmd_template": "./bin/fv replay {path}",
            "engine": "fv",
            "level_claimed": {"category": "other", "text": text, "design_ref": ref},
            "level_note": note,
            "technique": "static analysis: " + tech,
        })
    else:
        m["not_applicable"].append({"property_id": i, "reason": na_reason.get(i, "checker not built yet (DESIGN.md §8: a property is only claimed once its rules exist)")})
json.dump(m, open('/verif/MANIFEST.json', 'w'), indent=1)
print("claimed:", sorted(claimed))
