package checks

import (
	"fmt"
	"go/constant"
	"go/token"
	"go/types"
	"sort"
	"strings"

	"fv/internal/core"

	"golang.org/x/tools/go/ssa"
)

// E3 tokterm — termination of stream consumers by end-of-stream abstraction.
//
// A family (parser over the token stream; lexer over runes) is described by: which SSA values are
// stream reads and what constant they yield once the stream is exhausted (steady state), which calls
// consume, and which maps have statically known key sets. On top of that:
//
//   (A) progress   every cycle of every non-range loop contains a consume event (a consuming call, the
//                  true edge of a test of a call that consumes exactly when it returns true, or the
//                  success edge of a callee summarised must-consume-on-success);
//   (B) steady     with every stream read inside the loop folded to its steady-state constant (sparse
//                  conditional constant propagation over the SSA, callee predicates evaluated with their
//                  constant arguments, comma-ok lookups in maps with known key sets, err != nil after a
//                  callee summarised must-fail-at-end), no cycle through the loop header is feasible;
//   (C) recursion  in every call-graph SCC, after deleting the call edges whose call site is must-preceded
//                  by a consume event, no cycle remains.
//
// (A)+(B)+(C) => termination on every finite input.

type avKind int

const (
	avBot avKind = iota
	avConst
	avMetaPtr  // pointer to the ast.Meta of an exhausted-stream token
	avTokAddr  // address of its token.Token
	avTypeAddr // address of its Type field
	avTok      // a token.Token value read from the exhausted stream
	avNonNil   // a definitely non-nil value (error)
	avNil
	avTuple
	avTop
)

type aval struct {
	k     avKind
	c     constant.Value
	tuple []aval
}

var (
	top = aval{k: avTop}
	bot = aval{k: avBot}
)

func avEqual(a, b aval) bool {
	if a.k != b.k {
		return false
	}
	switch a.k {
	case avConst:
		if a.c.Kind() != b.c.Kind() {
			return false
		}
		return constant.Compare(a.c, token.EQL, b.c)
	case avTuple:
		if len(a.tuple) != len(b.tuple) {
			return false
		}
		for i := range a.tuple {
			if !avEqual(a.tuple[i], b.tuple[i]) {
				return false
			}
		}
	}
	return true
}

func avJoin(a, b aval) aval {
	if a.k == avBot {
		return b
	}
	if b.k == avBot {
		return a
	}
	if a.k == avTuple && b.k == avTuple && len(a.tuple) == len(b.tuple) {
		t := make([]aval, len(a.tuple))
		for i := range t {
			t[i] = avJoin(a.tuple[i], b.tuple[i])
		}
		return aval{k: avTuple, tuple: t}
	}
	if avEqual(a, b) {
		return a
	}
	return top
}

type streamFamily struct {
	prog     *core.Program
	name     string
	pkgs     map[string]bool
	funcs    []*ssa.Function
	inFam    map[*ssa.Function]bool
	steady   func(e *evaluator, in ssa.Instruction) (aval, bool) // stream reads and stream calls at steady state
	consumes func(in ssa.Instruction) bool                       // unconditional consume events
	mapKeys  func(m ssa.Value) (map[string]bool, bool)           // key set of a map value, if statically known
	dynamic  func(call ssa.CallInstruction) []*ssa.Function      // resolver for dynamic calls (Pratt tables, custom parsers)

	mustFail     map[*ssa.Function]bool // returns a non-nil error on every feasible path at steady state
	consumeSum   map[*ssa.Function]int  // 0 none, 1 on success (nil error / true), 2 always
	consumesTrue map[*ssa.Function]bool // bool result: consumes exactly when it returns true (ExpectPeek)
	memo         map[string]aval
}

type evaluator struct {
	fam    *streamFamily
	fn     *ssa.Function
	scope  map[*ssa.BasicBlock]bool // nil: whole function is at steady state
	params []aval
	vals   map[ssa.Value]aval
	edge   map[[2]int]bool
	block  map[int]bool
	depth  int

	// steady-state refinement: a cycle through steadyHdr enters the header by a back edge from its second round on, so the
	// header's phis take only the back-edge values, read from a finished over-approximating run (prev)
	steadyHdr *ssa.BasicBlock
	prev      *evaluator

	cells   map[*ssa.Alloc]bool         // tracked local cells (non-escaping)
	cellOut map[int]map[*ssa.Alloc]aval // state at block exit
	cur     map[*ssa.Alloc]aval         // state while stepping through a block
}

// trackable: a local cell used only through stores, loads and field addresses that are themselves only loaded/stored.
func trackable(al *ssa.Alloc) bool {
	if al.Referrers() == nil {
		return false
	}
	for _, r := range *al.Referrers() {
		switch t := r.(type) {
		case *ssa.Store:
			if t.Addr != ssa.Value(al) {
				return false
			}
		case *ssa.UnOp, *ssa.DebugRef:
		case *ssa.FieldAddr:
			if t.Referrers() != nil {
				for _, r2 := range *t.Referrers() {
					switch t2 := r2.(type) {
					case *ssa.Store:
						if t2.Addr != ssa.Value(t) {
							return false
						}
					case *ssa.UnOp, *ssa.DebugRef:
					default:
						return false
					}
				}
			}
		default:
			return false
		}
	}
	return true
}

func (e *evaluator) inScope(b *ssa.BasicBlock) bool { return e.scope == nil || e.scope[b] }

func (e *evaluator) get(v ssa.Value) aval {
	switch t := v.(type) {
	case *ssa.Const:
		if t.Value == nil {
			if _, isBasic := t.Type().Underlying().(*types.Basic); isBasic {
				return top
			}
			return aval{k: avNil}
		}
		return aval{k: avConst, c: t.Value}
	case *ssa.Parameter:
		for i, p := range e.fn.Params {
			if p == t && i < len(e.params) {
				return e.params[i]
			}
		}
		return top
	case *ssa.Function, *ssa.Global, *ssa.Builtin, *ssa.FreeVar:
		return top
	}
	if a, ok := e.vals[v]; ok {
		return a
	}
	return bot
}

func (e *evaluator) set(v ssa.Value, a aval) bool {
	old, ok := e.vals[v]
	if ok {
		a = avJoin(old, a)
		if avEqual(old, a) {
			return false
		}
	}
	e.vals[v] = a
	return true
}

func boolConst(b bool) aval { return aval{k: avConst, c: constant.MakeBool(b)} }

func (e *evaluator) run() {
	e.vals = map[ssa.Value]aval{}
	e.edge = map[[2]int]bool{}
	e.block = map[int]bool{0: true}
	e.cells = map[*ssa.Alloc]bool{}
	e.cellOut = map[int]map[*ssa.Alloc]aval{}
	for _, b := range e.fn.Blocks {
		for _, in := range b.Instrs {
			if al, ok := in.(*ssa.Alloc); ok && trackable(al) {
				e.cells[al] = true
			}
		}
	}
	for iter := 0; iter < 200; iter++ {
		changed := false
		for _, b := range e.fn.Blocks {
			if !e.block[b.Index] {
				continue
			}
			// cell state at entry: join over feasible incoming edges
			e.cur = map[*ssa.Alloc]aval{}
			for _, pred := range b.Preds {
				from := e
				if b == e.steadyHdr && e.prev != nil {
					// from the second round on the header is entered by a back edge only
					if !e.scope[pred] {
						continue
					}
					from = e.prev
				}
				f := false
				for si, sc := range pred.Succs {
					if sc == b && from.feasible(pred, si) {
						f = true
					}
				}
				if !f {
					continue
				}
				for c, v := range from.cellOut[pred.Index] {
					e.cur[c] = avJoin(e.cur[c], v)
				}
			}
			for _, in := range b.Instrs {
				if e.step(b, in) {
					changed = true
				}
				if st, ok := in.(*ssa.Store); ok {
					e.store(st)
				}
			}
			old := e.cellOut[b.Index]
			if len(old) != len(e.cur) {
				changed = true
			} else {
				for c, v := range e.cur {
					if !avEqual(old[c], v) {
						changed = true
					}
				}
			}
			e.cellOut[b.Index] = e.cur
			// terminator
			switch t := b.Instrs[len(b.Instrs)-1].(type) {
			case *ssa.If:
				c := e.get(t.Cond)
				mark := func(i int) {
					k := [2]int{b.Index, b.Succs[i].Index*2 + i}
					if !e.edge[k] {
						e.edge[k] = true
						changed = true
					}
					if !e.block[b.Succs[i].Index] {
						e.block[b.Succs[i].Index] = true
						changed = true
					}
				}
				switch {
				case c.k == avConst && c.c.Kind() == constant.Bool:
					if constant.BoolVal(c.c) {
						mark(0)
					} else {
						mark(1)
					}
				case c.k == avBot:
					// not evaluated yet
				default:
					mark(0)
					mark(1)
				}
			case *ssa.Jump:
				k := [2]int{b.Index, b.Succs[0].Index * 2}
				if !e.edge[k] {
					e.edge[k] = true
					changed = true
				}
				if !e.block[b.Succs[0].Index] {
					e.block[b.Succs[0].Index] = true
					changed = true
				}
			}
		}
		if !changed {
			break
		}
	}
}

func (e *evaluator) store(st *ssa.Store) {
	switch a := st.Addr.(type) {
	case *ssa.Alloc:
		if e.cells[a] {
			v := e.get(st.Val)
			if v.k == avBot {
				v = top
			}
			e.cur[a] = v
		}
	case *ssa.FieldAddr:
		if al, ok := a.X.(*ssa.Alloc); ok && e.cells[al] {
			if f := core.FieldOf(a); f != nil && f.Name() == "Type" {
				e.cur[al] = top
			}
			// stores to other fields keep what is known about Type
		}
	}
}

// feasible reports whether the CFG edge b -> b.Succs[i] is feasible.
func (e *evaluator) feasible(b *ssa.BasicBlock, i int) bool {
	if len(b.Succs) == 1 {
		return e.block[b.Index] && e.edge[[2]int{b.Index, b.Succs[0].Index * 2}]
	}
	return e.edge[[2]int{b.Index, b.Succs[i].Index*2 + i}]
}

func (e *evaluator) step(b *ssa.BasicBlock, in ssa.Instruction) bool {
	v, isVal := in.(ssa.Value)
	if !isVal {
		return false
	}
	if e.inScope(b) {
		if a, ok := e.fam.steady(e, in); ok {
			return e.set(v, a)
		}
	}
	switch t := in.(type) {
	case *ssa.Phi:
		acc := bot
		if b == e.steadyHdr && e.prev != nil {
			for i, pred := range b.Preds {
				if !e.scope[pred] {
					continue
				}
				for si, s := range pred.Succs {
					if s == b && e.prev.feasible(pred, si) {
						pv := e.prev.get(t.Edges[i])
						if pv.k == avBot {
							pv = top
						}
						acc = avJoin(acc, pv)
					}
				}
			}
			return e.set(v, acc)
		}
		for i, pred := range b.Preds {
			// is the edge pred -> b feasible?
			f := false
			for si, s := range pred.Succs {
				if s == b && e.feasible(pred, si) {
					f = true
				}
			}
			if f {
				acc = avJoin(acc, e.get(t.Edges[i]))
			}
		}
		return e.set(v, acc)
	case *ssa.UnOp:
		x := e.get(t.X)
		switch t.Op {
		case token.NOT:
			if x.k == avConst && x.c.Kind() == constant.Bool {
				return e.set(v, boolConst(!constant.BoolVal(x.c)))
			}
		case token.MUL:
			if al, ok := t.X.(*ssa.Alloc); ok && e.cells[al] {
				cv, has := e.cur[al]
				if !has || cv.k == avBot {
					cv = top
				}
				return e.set(v, cv)
			}
			if fa, ok := t.X.(*ssa.FieldAddr); ok {
				if al, ok := fa.X.(*ssa.Alloc); ok && e.cells[al] {
					cv := e.cur[al]
					if f := core.FieldOf(fa); f != nil && f.Name() == "Type" && cv.k == avTok {
						return e.set(v, e.fam.eofType())
					}
					return e.set(v, top)
				}
			}
			switch x.k {
			case avTypeAddr:
				return e.set(v, e.fam.eofType())
			case avTokAddr:
				return e.set(v, aval{k: avTok})
			}
		case token.SUB:
			if x.k == avConst {
				return e.set(v, aval{k: avConst, c: constant.UnaryOp(token.SUB, x.c, 0)})
			}
		}
		if x.k == avBot {
			return false
		}
		return e.set(v, top)
	case *ssa.FieldAddr:
		x := e.get(t.X)
		f := core.FieldOf(t)
		if f != nil {
			switch {
			case x.k == avMetaPtr && f.Name() == "Token":
				return e.set(v, aval{k: avTokAddr})
			case x.k == avTokAddr && f.Name() == "Type":
				return e.set(v, aval{k: avTypeAddr})
			}
		}
		return e.set(v, top)
	case *ssa.Field:
		x := e.get(t.X)
		if f := core.FieldOf(t); f != nil && x.k == avTok && f.Name() == "Type" {
			return e.set(v, e.fam.eofType())
		}
		if x.k == avBot {
			return false
		}
		return e.set(v, top)
	case *ssa.BinOp:
		x, y := e.get(t.X), e.get(t.Y)
		if x.k == avBot || y.k == avBot {
			return false
		}
		if t.Op == token.EQL || t.Op == token.NEQ {
			nilKnown := func(a, b aval) (bool, bool) { // (isNil, known)
				if b.k != avNil {
					return false, false
				}
				switch a.k {
				case avNil:
					return true, true
				case avNonNil, avMetaPtr:
					return false, true
				}
				return false, false
			}
			if isNil, ok := nilKnown(x, y); ok {
				return e.set(v, boolConst(isNil == (t.Op == token.EQL)))
			}
			if isNil, ok := nilKnown(y, x); ok {
				return e.set(v, boolConst(isNil == (t.Op == token.EQL)))
			}
		}
		if x.k == avConst && y.k == avConst && x.c.Kind() == y.c.Kind() {
			switch t.Op {
			case token.EQL, token.NEQ, token.LSS, token.LEQ, token.GTR, token.GEQ:
				if x.c.Kind() == constant.Bool && t.Op != token.EQL && t.Op != token.NEQ {
					return e.set(v, top)
				}
				return e.set(v, boolConst(constant.Compare(x.c, t.Op, y.c)))
			case token.ADD, token.SUB, token.MUL:
				if x.c.Kind() == constant.Int || x.c.Kind() == constant.String && t.Op == token.ADD {
					return e.set(v, aval{k: avConst, c: constant.BinaryOp(x.c, t.Op, y.c)})
				}
			}
		}
		return e.set(v, top)
	case *ssa.Lookup:
		key := e.get(t.Index)
		if key.k == avBot {
			return false
		}
		if t.CommaOk && key.k == avConst {
			if keys, known := e.fam.mapKeys(t.X); known {
				found := keys[key.c.ExactString()]
				val := top
				return e.set(v, aval{k: avTuple, tuple: []aval{val, boolConst(found)}})
			}
		}
		if t.CommaOk {
			return e.set(v, aval{k: avTuple, tuple: []aval{top, top}})
		}
		return e.set(v, top)
	case *ssa.Extract:
		x := e.get(t.Tuple)
		if x.k == avBot {
			return false
		}
		if x.k == avTuple && t.Index < len(x.tuple) {
			return e.set(v, x.tuple[t.Index])
		}
		return e.set(v, top)
	case *ssa.Call:
		return e.set(v, e.call(t))
	case *ssa.ChangeType:
		x := e.get(t.X)
		if x.k == avBot {
			return false
		}
		return e.set(v, x)
	case *ssa.Convert:
		x := e.get(t.X)
		if x.k == avBot {
			return false
		}
		if x.k == avConst {
			// conversions between string-ish / integer-ish constant types keep the value
			if bt, ok := t.Type().Underlying().(*types.Basic); ok {
				if (bt.Info()&types.IsString != 0 && x.c.Kind() == constant.String) || (bt.Info()&types.IsInteger != 0 && x.c.Kind() == constant.Int) {
					return e.set(v, x)
				}
			}
		}
		return e.set(v, top)
	case *ssa.MakeInterface:
		x := e.get(t.X)
		if x.k == avBot {
			return false
		}
		if _, isPtr := t.X.Type().Underlying().(*types.Pointer); isPtr {
			if _, isAlloc := t.X.(*ssa.Alloc); isAlloc {
				return e.set(v, aval{k: avNonNil})
			}
		}
		if x.k == avNonNil {
			return e.set(v, x)
		}
		return e.set(v, top)
	case *ssa.Alloc:
		if e.cells[t] {
			if _, has := e.cur[t]; !has {
				e.cur[t] = top
			}
		}
		return e.set(v, aval{k: avNonNil})
	}
	return e.set(v, top)
}

// call evaluates a call: family callees are folded with their arguments bound (bounded depth, memoised).
func (e *evaluator) call(c *ssa.Call) aval {
	cc := c.Common()
	res := cc.Signature().Results()
	mk := func(f func(i int, t types.Type) aval) aval {
		if res.Len() == 0 {
			return top
		}
		if res.Len() == 1 {
			return f(0, res.At(0).Type())
		}
		t := make([]aval, res.Len())
		for i := range t {
			t[i] = f(i, res.At(i).Type())
		}
		return aval{k: avTuple, tuple: t}
	}
	callee := cc.StaticCallee()
	if callee == nil {
		return mk(func(int, types.Type) aval { return top })
	}
	// error constructors outside the family
	if callee.Pkg != nil {
		switch callee.Pkg.Pkg.Path() {
		case "errors", "fmt":
			if res.Len() == 1 && core.IsErrorType(res.At(0).Type()) {
				return aval{k: avNonNil}
			}
		case "github.com/pkg/errors":
			if callee.Name() == "WithStack" && len(cc.Args) == 1 {
				a := e.get(cc.Args[0])
				if a.k == avNonNil || a.k == avNil {
					return a
				}
				// err on the non-nil edge of its own test
				if core.DominatedByNil(cc.Args[0], c.Block(), false) {
					return aval{k: avNonNil}
				}
				return top
			}
			if res.Len() == 1 && core.IsErrorType(res.At(0).Type()) {
				return aval{k: avNonNil}
			}
		}
	}
	if !e.fam.inFam[callee] || callee.Blocks == nil {
		return mk(func(int, types.Type) aval { return top })
	}
	if e.depth >= 4 {
		return mk(func(i int, t types.Type) aval {
			if core.IsErrorType(t) && e.fam.mustFail[callee] {
				return aval{k: avNonNil}
			}
			return top
		})
	}
	args := make([]aval, len(cc.Args))
	for i, a := range cc.Args {
		args[i] = e.get(a)
		if args[i].k == avBot {
			args[i] = top
		}
	}
	r := e.fam.evalFunc(callee, args, e.depth+1)
	if e.fam.mustFail[callee] {
		// the error result is non-nil at steady state
		if r.k == avTuple {
			for i := range r.tuple {
				if core.IsErrorType(res.At(i).Type()) {
					r.tuple[i] = aval{k: avNonNil}
				}
			}
		} else if res.Len() == 1 && core.IsErrorType(res.At(0).Type()) {
			r = aval{k: avNonNil}
		}
	}
	return r
}

func avKey(a aval) string {
	switch a.k {
	case avConst:
		return "c:" + a.c.ExactString()
	case avTuple:
		var s []string
		for _, t := range a.tuple {
			s = append(s, avKey(t))
		}
		return "(" + strings.Join(s, ",") + ")"
	}
	return fmt.Sprint(int(a.k))
}

// evalFunc folds a whole family function at steady state and returns the join of its feasible return values.
func (f *streamFamily) evalFunc(fn *ssa.Function, args []aval, depth int) aval {
	var ks []string
	for _, a := range args {
		ks = append(ks, avKey(a))
	}
	key := fmt.Sprintf("%p|%s|%d", fn, strings.Join(ks, ","), len(f.mustFail))
	if r, ok := f.memo[key]; ok {
		return r
	}
	f.memo[key] = top // recursion guard
	ev := &evaluator{fam: f, fn: fn, params: args, depth: depth}
	ev.run()
	acc := bot
	for _, rs := range core.ReturnSites(fn) {
		if !ev.block[rs.Ret.Block().Index] {
			continue
		}
		var r aval
		switch len(rs.Results) {
		case 0:
			r = top
		case 1:
			r = ev.retVal(rs.Results[0], rs.Ret.Block())
		default:
			t := make([]aval, len(rs.Results))
			for i, x := range rs.Results {
				t[i] = ev.retVal(x, rs.Ret.Block())
			}
			r = aval{k: avTuple, tuple: t}
		}
		acc = avJoin(acc, r)
	}
	if acc.k == avBot {
		acc = top
	}
	f.memo[key] = acc
	return acc
}

func (e *evaluator) retVal(v ssa.Value, b *ssa.BasicBlock) aval {
	a := e.get(v)
	if a.k == avBot {
		a = top
	}
	if a.k == avTop && core.IsErrorType(v.Type()) && core.DominatedByNil(v, b, false) {
		return aval{k: avNonNil}
	}
	return a
}

// computeMustFail: least fixpoint, pessimistic start.
func (f *streamFamily) computeMustFail() {
	f.mustFail = map[*ssa.Function]bool{}
	for changed := true; changed; {
		changed = false
		for _, fn := range f.funcs {
			if f.mustFail[fn] {
				continue
			}
			res := fn.Signature.Results()
			ei := -1
			for i := 0; i < res.Len(); i++ {
				if core.IsErrorType(res.At(i).Type()) {
					ei = i
				}
			}
			if ei < 0 {
				continue
			}
			args := make([]aval, len(fn.Params))
			for i := range args {
				args[i] = top
			}
			f.memo = map[string]aval{}
			r := f.evalFunc(fn, args, 0)
			ev := r
			if r.k == avTuple {
				ev = r.tuple[ei]
			}
			if ev.k == avNonNil {
				f.mustFail[fn] = true
				changed = true
			}
		}
	}
	f.memo = map[string]aval{}
}

// ---------- consume summaries and progress

type loopInfo struct {
	fn     *ssa.Function
	header *ssa.BasicBlock
	body   map[*ssa.BasicBlock]bool
	ord    string
}

func naturalLoops(fn *ssa.Function) []loopInfo {
	var out []loopInfo
	n := 0
	for _, h := range fn.Blocks {
		var latches []*ssa.BasicBlock
		for _, p := range h.Preds {
			if h.Dominates(p) {
				latches = append(latches, p)
			}
		}
		if len(latches) == 0 {
			continue
		}
		n++
		body := map[*ssa.BasicBlock]bool{h: true}
		work := append([]*ssa.BasicBlock{}, latches...)
		for len(work) > 0 {
			b := work[len(work)-1]
			work = work[:len(work)-1]
			if body[b] {
				continue
			}
			body[b] = true
			work = append(work, b.Preds...)
		}
		out = append(out, loopInfo{fn: fn, header: h, body: body, ord: fmt.Sprint(n)})
	}
	return out
}

// consumeEdgeEvents: for block b, which outgoing edges carry a consume event because of a tested call result:
// the true edge of a callee that consumes exactly when true, the nil-error edge of a must-consume-on-success callee.
func (f *streamFamily) edgeEvents(fn *ssa.Function) map[[2]*ssa.BasicBlock]bool {
	out := map[[2]*ssa.BasicBlock]bool{}
	for _, b := range fn.Blocks {
		for _, in := range b.Instrs {
			call, ok := in.(*ssa.Call)
			if !ok {
				continue
			}
			for _, cal := range f.callees(call) {
				if f.consumesTrue[cal] && call.Referrers() != nil {
					for _, r := range *call.Referrers() {
						switch t := r.(type) {
						case *ssa.If:
							out[[2]*ssa.BasicBlock{t.Block(), t.Block().Succs[0]}] = true
						case *ssa.UnOp:
							if t.Op == token.NOT && t.Referrers() != nil {
								for _, r2 := range *t.Referrers() {
									if iff, ok := r2.(*ssa.If); ok {
										out[[2]*ssa.BasicBlock{iff.Block(), iff.Block().Succs[1]}] = true
									}
								}
							}
						}
					}
				}
				if f.consumeSum[cal] == 1 {
					for _, e := range core.ErrorResults(call) {
						for _, t := range core.NilTestsOf(e) {
							out[[2]*ssa.BasicBlock{t.If.Block(), t.If.Block().Succs[t.NilSucc]}] = true
						}
					}
				}
			}
		}
	}
	return out
}

func (f *streamFamily) callees(call ssa.CallInstruction) []*ssa.Function {
	if cal := call.Common().StaticCallee(); cal != nil {
		return []*ssa.Function{cal}
	}
	if f.dynamic != nil {
		return f.dynamic(call)
	}
	return nil
}

// blockConsumes: the block contains an unconditional consume event (direct, or a call of an always-consuming callee;
// for a dynamic call every possible callee must consume).
func (f *streamFamily) blockConsumes(b *ssa.BasicBlock) bool {
	for _, in := range b.Instrs {
		if f.consumes(in) {
			return true
		}
		if call, ok := in.(*ssa.Call); ok {
			cs := f.callees(call)
			if len(cs) > 0 {
				all := true
				for _, cal := range cs {
					if f.consumeSum[cal] != 2 {
						all = false
					}
				}
				if all {
					return true
				}
			}
		}
	}
	return false
}

// computeConsumeSummaries: least fixpoint from "does not consume".
func (f *streamFamily) computeConsumeSummaries() {
	f.consumeSum = map[*ssa.Function]int{}
	f.consumesTrue = map[*ssa.Function]bool{}
	for changed := true; changed; {
		changed = false
		for _, fn := range f.funcs {
			if f.consumeSum[fn] == 2 {
				continue
			}
			ev := f.edgeEvents(fn)
			// paths from entry avoiding events
			reach := map[*ssa.BasicBlock]bool{}
			var work []*ssa.BasicBlock
			if !f.blockConsumes(fn.Blocks[0]) {
				work = append(work, fn.Blocks[0])
			}
			// note: a block that consumes blocks the search (conservatively ignoring the order inside the block is fine for returns at its end)
			for len(work) > 0 {
				b := work[len(work)-1]
				work = work[:len(work)-1]
				if reach[b] {
					continue
				}
				reach[b] = true
				for _, s := range b.Succs {
					if ev[[2]*ssa.BasicBlock{b, s}] || f.blockConsumes(s) {
						continue
					}
					work = append(work, s)
				}
			}
			always, onSuccess, whenTrue := true, true, true
			hasErr, isBool := false, false
			res := fn.Signature.Results()
			for i := 0; i < res.Len(); i++ {
				if core.IsErrorType(res.At(i).Type()) {
					hasErr = true
				}
			}
			if res.Len() == 1 {
				if bt, ok := res.At(0).Type().Underlying().(*types.Basic); ok && bt.Kind() == types.Bool {
					isBool = true
				}
			}
			for _, rs := range core.ReturnSites(fn) {
				if !reach[rs.Ret.Block()] {
					continue
				}
				always = false
				// a return reached without consuming
				if hasErr {
					nonNil := false
					for _, r := range rs.Results {
						if core.IsErrorType(r.Type()) && errNonNilAt(r, rs.Ret.Block()) {
							nonNil = true
						}
					}
					if !nonNil {
						onSuccess = false
					}
				} else {
					onSuccess = false
				}
				if isBool {
					if k, ok := rs.Results[0].(*ssa.Const); !ok || k.Value == nil || constant.BoolVal(k.Value) {
						whenTrue = false
					}
				}
			}
			nv := 0
			if always {
				nv = 2
			} else if onSuccess && hasErr {
				nv = 1
			}
			if nv > f.consumeSum[fn] {
				f.consumeSum[fn] = nv
				changed = true
			}
			if isBool && whenTrue && !always && !f.consumesTrue[fn] {
				// additionally every `return true` must have consumed: returns reached without consuming are all `false`
				f.consumesTrue[fn] = true
				changed = true
			}
		}
	}
}

// nonProgressCycle: a cycle header -> ... -> header inside the loop that passes no consume event; nil if none.
func (f *streamFamily) nonProgressCycle(l loopInfo) []*ssa.BasicBlock {
	ev := f.edgeEvents(l.fn)
	if f.blockConsumes(l.header) {
		return nil
	}
	var path []*ssa.BasicBlock
	type st struct{ b, pred *ssa.BasicBlock }
	seen := map[st]bool{}
	var dfs func(b, pred *ssa.BasicBlock) bool
	dfs = func(b, pred *ssa.BasicBlock) bool {
		path = append(path, b)
		for i, s := range b.Succs {
			if !l.body[s] || ev[[2]*ssa.BasicBlock{b, s}] {
				continue
			}
			if pred != nil && !phiEdgeFeasible(b, pred, i) {
				continue
			}
			if s == l.header {
				return true
			}
			if seen[st{s, b}] || f.blockConsumes(s) {
				continue
			}
			seen[st{s, b}] = true
			if dfs(s, b) {
				return true
			}
		}
		path = path[:len(path)-1]
		return false
	}
	if dfs(l.header, nil) {
		return path
	}
	return nil
}

// phiEdgeFeasible: block b ends in `if phi ==/!= nil` with phi defined in b; having arrived from pred, the phi is the
// value of that edge: when it is definitely non-nil (or the nil constant) only one successor is feasible.
func phiEdgeFeasible(b, pred *ssa.BasicBlock, succ int) bool {
	iff, ok := b.Instrs[len(b.Instrs)-1].(*ssa.If)
	if !ok {
		return true
	}
	bo, ok := iff.Cond.(*ssa.BinOp)
	if !ok || (bo.Op != token.EQL && bo.Op != token.NEQ) {
		return true
	}
	var tested ssa.Value
	if core.IsNilConst(bo.Y) {
		tested = bo.X
	} else if core.IsNilConst(bo.X) {
		tested = bo.Y
	} else {
		return true
	}
	phi, ok := tested.(*ssa.Phi)
	if !ok || phi.Block() != b {
		return true
	}
	pi := -1
	for i, p := range b.Preds {
		if p == pred {
			pi = i
		}
	}
	if pi < 0 {
		return true
	}
	v := phi.Edges[pi]
	var isNil bool
	switch {
	case core.IsNilConst(v):
		isNil = true
	case errNonNilAt(v, pred):
		isNil = false
	default:
		return true
	}
	condTrue := isNil == (bo.Op == token.EQL)
	return (succ == 0) == condTrue
}

// steadyCycle: with stream reads inside the loop folded, is a cycle through the header feasible?
func (f *streamFamily) steadyCycle(l loopInfo) ([]*ssa.BasicBlock, *evaluator) {
	args := make([]aval, len(l.fn.Params))
	for i := range args {
		args[i] = top
	}
	ev := &evaluator{fam: f, fn: l.fn, params: args, scope: l.body}
	ev.run()
	var path []*ssa.BasicBlock
	seen := map[*ssa.BasicBlock]bool{}
	var dfs func(b *ssa.BasicBlock) bool
	dfs = func(b *ssa.BasicBlock) bool {
		path = append(path, b)
		for i, s := range b.Succs {
			if !l.body[s] || !ev.feasible(b, i) {
				continue
			}
			if s == l.header {
				return true
			}
			if seen[s] {
				continue
			}
			seen[s] = true
			if dfs(s) {
				return true
			}
		}
		path = path[:len(path)-1]
		return false
	}
	if ev.block[l.header.Index] && dfs(l.header) {
		// second look from the second round on (the first round may enter with values read before the loop)
		ev2 := &evaluator{fam: f, fn: l.fn, params: args, scope: l.body, steadyHdr: l.header, prev: ev}
		ev2.run()
		first := ev
		ev = ev2
		path, seen = nil, map[*ssa.BasicBlock]bool{}
		if ev2.block[l.header.Index] && dfs(l.header) {
			return path, ev2
		}
		return nil, first
	}
	return nil, ev
}

// leftRecursion: cycles of the family call graph that remain after deleting call edges must-preceded by a consume.
func (f *streamFamily) leftRecursion() [][]*ssa.Function {
	edges := map[*ssa.Function]map[*ssa.Function]token.Pos{}
	for _, fn := range f.funcs {
		ev := f.edgeEvents(fn)
		// blocks reachable from entry without any consume
		reach := map[*ssa.BasicBlock]bool{}
		var work []*ssa.BasicBlock
		work = append(work, fn.Blocks[0])
		for len(work) > 0 {
			b := work[len(work)-1]
			work = work[:len(work)-1]
			if reach[b] {
				continue
			}
			reach[b] = true
			if f.blockConsumes(b) {
				continue // successors are reached only after a consume (calls inside b handled below)
			}
			for _, s := range b.Succs {
				if !ev[[2]*ssa.BasicBlock{b, s}] {
					work = append(work, s)
				}
			}
		}
		for b := range reach {
			consumed := false
			for _, in := range b.Instrs {
				if f.consumes(in) {
					consumed = true
				}
				call, ok := in.(*ssa.Call)
				if !ok {
					continue
				}
				cs := f.callees(call)
				if !consumed {
					for _, cal := range cs {
						if f.inFam[cal] {
							if edges[fn] == nil {
								edges[fn] = map[*ssa.Function]token.Pos{}
							}
							edges[fn][cal] = in.Pos()
						}
					}
				}
				all := len(cs) > 0
				for _, cal := range cs {
					if f.consumeSum[cal] != 2 {
						all = false
					}
				}
				if all {
					consumed = true
				}
			}
		}
		// closures defined in fn are called by whoever holds them: handled through dynamic resolution
	}
	// find cycles (one per SCC) by DFS
	var cycles [][]*ssa.Function
	color := map[*ssa.Function]int{}
	var stack []*ssa.Function
	var dfs func(u *ssa.Function)
	dfs = func(u *ssa.Function) {
		color[u] = 1
		stack = append(stack, u)
		var vs []*ssa.Function
		for v := range edges[u] {
			vs = append(vs, v)
		}
		sort.Slice(vs, func(i, j int) bool { return vs[i].String() < vs[j].String() })
		for _, v := range vs {
			if color[v] == 1 {
				// cycle
				var cyc []*ssa.Function
				for i := len(stack) - 1; i >= 0; i-- {
					cyc = append([]*ssa.Function{stack[i]}, cyc...)
					if stack[i] == v {
						break
					}
				}
				cycles = append(cycles, cyc)
			} else if color[v] == 0 {
				dfs(v)
			}
		}
		stack = stack[:len(stack)-1]
		color[u] = 2
	}
	fs := append([]*ssa.Function{}, f.funcs...)
	sort.Slice(fs, func(i, j int) bool { return fs[i].String() < fs[j].String() })
	for _, fn := range fs {
		if color[fn] == 0 {
			dfs(fn)
		}
	}
	return cycles
}

func (f *streamFamily) eofType() aval {
	return aval{k: avConst, c: constant.MakeString("EOF")}
}

func blockPath(prog *core.Program, path []*ssa.BasicBlock) []string {
	var out []string
	for _, b := range path {
		p := firstPos(b)
		out = append(out, fmt.Sprintf("block %d (%s) %s", b.Index, b.Comment, prog.Loc(p)))
	}
	return out
}

// errNonNilAt: the error value v is definitely non-nil when block b executes.
func errNonNilAt(v ssa.Value, b *ssa.BasicBlock) bool {
	if core.IsNilConst(v) {
		return false
	}
	if definitelyNonNilError(v) || core.DominatedByNil(v, b, false) {
		return true
	}
	switch t := v.(type) {
	case *ssa.Call:
		if cal := t.Common().StaticCallee(); cal != nil && cal.Name() == "WithStack" && len(t.Common().Args) == 1 {
			return errNonNilAt(t.Common().Args[0], b)
		}
	case *ssa.Phi:
		for _, e := range t.Edges {
			if !errNonNilAt(e, b) {
				return false
			}
		}
		return true
	}
	return false
}
