package checks

import (
	"go/ast"
	"go/token"
	"go/types"
	"sort"
	"strings"

	"fv/internal/core"

	"golang.org/x/tools/go/ssa"
)

// astUniverse: the node kinds of package ast, their semantic fields, and which of them the parser can build.
type astUniverse struct {
	prog          *core.Program
	pkg           *types.Package
	nodes         map[string]*types.Named // node struct types (embed *Meta)
	names         []string
	fields        map[string][]*types.Var // semantic fields (all but the embedded Meta)
	fieldOwner    map[*types.Var]string
	constructible map[string]token.Pos // built by a composite literal in package parser
	stmt, expr    map[string]bool      // implements ast.Statement / ast.Expression
	metaFields    map[string]*types.Var
}

const astPkgPath = core.ModPath + "/ast"

func newAstUniverse(prog *core.Program) *astUniverse {
	ap := prog.Pkg("ast")
	if ap == nil {
		return nil
	}
	u := &astUniverse{prog: prog, pkg: ap.Types, nodes: map[string]*types.Named{}, fields: map[string][]*types.Var{}, fieldOwner: map[*types.Var]string{},
		constructible: map[string]token.Pos{}, stmt: map[string]bool{}, expr: map[string]bool{}, metaFields: map[string]*types.Var{}}
	scope := ap.Types.Scope()
	stmtI, _ := scope.Lookup("Statement").Type().Underlying().(*types.Interface)
	exprI, _ := scope.Lookup("Expression").Type().Underlying().(*types.Interface)
	for _, n := range scope.Names() {
		tn, ok := scope.Lookup(n).(*types.TypeName)
		if !ok {
			continue
		}
		named, ok := tn.Type().(*types.Named)
		if !ok {
			continue
		}
		st, ok := named.Underlying().(*types.Struct)
		if !ok {
			continue
		}
		if n == "Meta" {
			for i := 0; i < st.NumFields(); i++ {
				u.metaFields[st.Field(i).Name()] = st.Field(i)
			}
			continue
		}
		hasMeta := false
		var fs []*types.Var
		for i := 0; i < st.NumFields(); i++ {
			f := st.Field(i)
			if f.Embedded() && f.Name() == "Meta" {
				hasMeta = true
				continue
			}
			fs = append(fs, f)
		}
		if !hasMeta {
			continue
		}
		u.nodes[n] = named
		u.names = append(u.names, n)
		u.fields[n] = fs
		for _, f := range fs {
			u.fieldOwner[f] = n
		}
		ptr := types.NewPointer(named)
		if stmtI != nil && types.Implements(ptr, stmtI) {
			u.stmt[n] = true
		}
		if exprI != nil && types.Implements(ptr, exprI) {
			u.expr[n] = true
		}
	}
	sort.Strings(u.names)
	if pp := prog.Pkg("parser"); pp != nil {
		for _, f := range pp.Syntax {
			if prog.IsCanary(f.Pos()) {
				continue
			}
			ast.Inspect(f, func(n ast.Node) bool {
				cl, ok := n.(*ast.CompositeLit)
				if !ok {
					return true
				}
				if name := core.NamedTypePkgName(pp.TypesInfo.TypeOf(cl)); strings.HasPrefix(name, astPkgPath+".") {
					nm := strings.TrimPrefix(name, astPkgPath+".")
					if _, isNode := u.nodes[nm]; isNode {
						if _, seen := u.constructible[nm]; !seen {
							u.constructible[nm] = cl.Pos()
						}
					}
				}
				return true
			})
		}
	}
	return u
}

// fieldUse: where a struct field is read / written.
type fieldUse struct {
	reads  []fieldSite
	writes []fieldSite
}

type fieldSite struct {
	fn  *ssa.Function
	pos token.Pos
}

// fieldCensus collects reads and writes of struct fields (by *types.Var) in the given functions.
func fieldCensus(funcs []*ssa.Function) map[*types.Var]*fieldUse {
	out := map[*types.Var]*fieldUse{}
	get := func(v *types.Var) *fieldUse {
		if out[v] == nil {
			out[v] = &fieldUse{}
		}
		return out[v]
	}
	for _, fn := range funcs {
		for _, b := range fn.Blocks {
			for _, in := range b.Instrs {
				switch t := in.(type) {
				case *ssa.Field:
					if f := core.FieldOf(t); f != nil && hasRealUse(t) {
						get(f).reads = append(get(f).reads, fieldSite{fn, in.Pos()})
					}
				case *ssa.FieldAddr:
					f := core.FieldOf(t)
					if f == nil || t.Referrers() == nil {
						continue
					}
					for _, r := range *t.Referrers() {
						switch rt := r.(type) {
						case *ssa.Store:
							if rt.Addr == ssa.Value(t) {
								get(f).writes = append(get(f).writes, fieldSite{fn, rt.Pos()})
							} else {
								get(f).reads = append(get(f).reads, fieldSite{fn, in.Pos()})
							}
						case *ssa.DebugRef:
						case *ssa.UnOp:
							if hasRealUse(rt) {
								get(f).reads = append(get(f).reads, fieldSite{fn, in.Pos()})
							}
						default:
							// address escapes (passed to a call, nested FieldAddr on a struct-typed field ...): counts as read and write
							get(f).reads = append(get(f).reads, fieldSite{fn, in.Pos()})
							if _, nested := r.(*ssa.FieldAddr); !nested {
								if _, idx := r.(*ssa.IndexAddr); !idx {
									get(f).writes = append(get(f).writes, fieldSite{fn, in.Pos()})
								}
							}
						}
					}
				}
			}
		}
	}
	return out
}

func hasRealUse(v ssa.Value) bool {
	refs := v.Referrers()
	if refs == nil {
		return false
	}
	for _, r := range *refs {
		if _, dbg := r.(*ssa.DebugRef); !dbg {
			return true
		}
	}
	return false
}

// staticClosure returns funcs plus every function statically called from them whose package is in allowPkgs (transitively).
func staticClosure(funcs []*ssa.Function, allowPkgs map[string]bool) []*ssa.Function {
	seen := map[*ssa.Function]bool{}
	var out []*ssa.Function
	var work []*ssa.Function
	work = append(work, funcs...)
	for len(work) > 0 {
		f := work[len(work)-1]
		work = work[:len(work)-1]
		if f == nil || seen[f] || f.Blocks == nil {
			continue
		}
		seen[f] = true
		out = append(out, f)
		for _, b := range f.Blocks {
			for _, in := range b.Instrs {
				if cal := core.StaticCallee(in); cal != nil && cal.Pkg != nil && allowPkgs[cal.Pkg.Pkg.Path()] {
					work = append(work, cal)
				}
			}
		}
		for _, a := range f.AnonFuncs {
			work = append(work, a)
		}
	}
	return out
}

// typeSwitchArms collects the ast node type names that appear as case types of type switches
// or as asserted types in the named functions of a package.
func typeSwitchArms(prog *core.Program, rel string, fnNames ...string) (map[string]token.Pos, []string) {
	arms := map[string]token.Pos{}
	var missing []string
	for _, name := range fnNames {
		pk, fd := prog.FindFunc(rel, name)
		if fd == nil {
			missing = append(missing, rel+"."+name)
			continue
		}
		ast.Inspect(fd.Body, func(n ast.Node) bool {
			var texprs []ast.Expr
			switch t := n.(type) {
			case *ast.CaseClause:
				texprs = t.List
			case *ast.TypeAssertExpr:
				if t.Type != nil {
					texprs = []ast.Expr{t.Type}
				}
			}
			for _, e := range texprs {
				if tv, ok := pk.TypesInfo.Types[e]; ok && tv.IsType() {
					if nm := core.NamedTypePkgName(tv.Type); strings.HasPrefix(nm, astPkgPath+".") {
						arms[strings.TrimPrefix(nm, astPkgPath+".")] = e.Pos()
					}
				}
			}
			return true
		})
	}
	return arms, missing
}
