package checks

import (
	"fmt"
	"go/constant"
	"go/token"
	"go/types"
	"sort"
	"strings"

	"fv/internal/core"

	"golang.org/x/tools/go/ssa"
)

// C19 — the AST codec round-trips every statement and decoding is total.
func init() {
	register(&Check{ID: "C19", NeedSSA: true, Run: runC19})
}

const codecPkg = core.ModPath + "/ast/codec"

// Fields the codec does not carry by design ("comments, positions and purely presentational flags excepted").
var codecExemptFields = map[string]string{
	"InfixExpression.Explicit":                    "presentational: whether `+` was written",
	"ReturnStatement.HasParenthesis":              "presentational: parentheses around the return argument",
	"ReturnStatement.ParenthesisLeadingComments":  "comments",
	"ReturnStatement.ParenthesisTrailingComments": "comments",
	"String.LongString":                           "presentational: long-string spelling",
	"String.Delimiter":                            "presentational: long-string delimiter",
	"TableProperty.HasComma":                      "presentational: trailing comma",
	"PenaltyboxDeclaration.Block":                 "the grammar only allows an empty block",
	"RatecounterDeclaration.Block":                "the grammar only allows an empty block",
}

func runC19(c *core.Ctx) {
	c.Explanation = "Structural necessary conditions of the codec, decided on SSA/typed AST of ast/codec: (codec.dispatch) Encoder.encode/encodeExpression have an arm for every statement/expression kind the parser hands out, and the set of frame-type constants the encoder emits equals the set the decoder consumes (case labels, peekFrameIs arguments, Type() comparisons); (codec.fields) for every node kind and every semantic field (presentational ones excepted, one reason each) an Encoder method reads it and a Decoder method writes it (mirror by *types.Var); (codec.loops) in every frame loop of the decoder, the branch taken for a FIN frame and the branch taken for an unknown frame (truncated input: nextFrame yields UNKNOWN forever) leave the loop, or first pass the frame to decode/decodeExpression whose default arms fail — a loop with no such exit spins at end of input; other loops are a reviewed, named set; (codec.bounds) every constant index/slice bound applied to bytes returned by Frame.Read is dominated by a test of their length; (codec.narrow) a length is not truncated into the 16-bit size field without a bound test; (codec.errdrop) the error of Encoder.encode is never discarded. Decides which fields travel and that the decoder has an exit at end of input, not equality of decoded values. (codec.fullread) a Read whose byte count is discarded asks for a single byte; multi-byte fields are read with io.ReadFull or use the count. (codec.depth) the decoder's recursion needs a depth counter (recorded finding); peek loops and counted loops are recognised."
	c.NotCovered = []string{"equality of decoded values (UTF-8 re-encoding, float bit patterns)", "a field carried for one context but dropped in another is masked", "that Frame.Read handles every reader behaviour"}
	prog := c.Prog
	u := newAstUniverse(prog)
	if u == nil {
		c.MissingAnchor("codec", "package ast")
		return
	}
	var encFuncs, decFuncs []*ssa.Function
	codecFuncs := prog.ModuleFuncs("ast/codec")
	for _, fn := range codecFuncs {
		c.Func(core.FnName(fn))
		switch recvTypeName(fn) {
		case "Encoder":
			encFuncs = append(encFuncs, fn)
		case "Decoder":
			decFuncs = append(decFuncs, fn)
		}
	}
	if len(encFuncs) < 30 || len(decFuncs) < 30 {
		c.Fatal("codec: found %d Encoder and %d Decoder methods (expected >= 30 each)", len(encFuncs), len(decFuncs))
		return
	}
	encCensus := fieldCensus(encFuncs)
	decCensus := fieldCensus(decFuncs)

	// ---- dispatch
	stmtArms, m1 := typeSwitchArms(prog, "ast/codec", "Encoder.encode")
	exprArms, m2 := typeSwitchArms(prog, "ast/codec", "Encoder.encodeExpression")
	for _, m := range append(m1, m2...) {
		c.MissingAnchor("codec.dispatch", m)
	}
	asStmt, asExpr := parserInterfaceConversions(prog, u)
	encReads := func(n string) int {
		k := 0
		for _, f := range u.fields[n] {
			if fu := encCensus[f]; fu != nil {
				k += len(fu.reads)
			}
		}
		return k
	}
	for _, n := range u.names {
		pos, ok := u.constructible[n]
		if !ok {
			continue
		}
		switch {
		case asExpr[n] && declPropertyKinds[n] == "":
			if p, has := exprArms[n]; has {
				c.Discharge("codec.dispatch", "encode|"+n, p, "arm of encodeExpression")
			} else {
				c.Report("codec.dispatch", "encode|"+n, pos, fmt.Sprintf("the parser hands out *ast.%s as an expression but Encoder.encodeExpression has no arm for it", n))
			}
		case asStmt[n]:
			if p, has := stmtArms[n]; has {
				c.Discharge("codec.dispatch", "encode|"+n, p, "arm of Encoder.encode")
			} else if encReads(n) > 0 {
				c.Discharge("codec.dispatch", "encode|"+n, pos, "encoded through typed fields of its parent")
			} else {
				c.Report("codec.dispatch", "encode|"+n, pos, fmt.Sprintf("the parser hands out *ast.%s as a statement but Encoder.encode has no arm for it and no encoder reads its fields: such a statement cannot be sent to a plugin", n))
			}
		}
	}
	allStmtArms := true
	for _, n := range u.names {
		if _, ok := u.constructible[n]; ok && asStmt[n] {
			if _, has := stmtArms[n]; !has && n != "ElseStatement" && n != "SwitchControl" {
				allStmtArms = false
			}
		}
	}
	// frame-type constants: emitted vs consumed
	emitted, consumed := frameConstants(prog, encFuncs, decFuncs)
	var emittedNames, consumedNames []string
	for k := range emitted {
		emittedNames = append(emittedNames, k)
	}
	for k := range consumed {
		consumedNames = append(consumedNames, k)
	}
	sort.Strings(emittedNames)
	sort.Strings(consumedNames)
	c.Extra("frame_types_emitted", emittedNames)
	c.Extra("frame_types_consumed", consumedNames)
	for _, k := range emittedNames {
		if k == "UNKNOWN" {
			c.Info("the encoder emits UNKNOWN for an expression kind it does not know (error marker; the decoder fails on it)")
			continue
		}
		if _, ok := consumed[k]; ok {
			c.Discharge("codec.dispatch", "frame|"+k, emitted[k], "emitted by the encoder and consumed by the decoder")
		} else {
			c.Report("codec.dispatch", "frame|"+k, emitted[k], "the encoder emits frame type "+k+" but the decoder never tests for it: the frame cannot be decoded")
		}
	}
	for _, k := range consumedNames {
		if _, ok := emitted[k]; !ok && k != "UNKNOWN" {
			c.Report("codec.dispatch", "frame|"+k+"|dead", consumed[k], "the decoder expects frame type "+k+" which the encoder never emits: encoder and decoder disagree about the wire format")
		}
	}
	c.Floor("codec.dispatch", 80)

	// ---- fields mirror
	for _, n := range u.names {
		if _, ok := u.constructible[n]; !ok {
			continue
		}
		if _, isStmtArm := stmtArms[n]; !isStmtArm {
			if _, isExprArm := exprArms[n]; !isExprArm && encReads(n) == 0 && len(u.fields[n]) > 0 {
				if !asStmt[n] && !asExpr[n] {
					c.Info("node kind %s is not handled by the codec at all (typed child never encoded)", n)
				}
			}
		}
		for _, f := range u.fields[n] {
			key := n + "." + f.Name()
			if why, ex := codecExemptFields[key]; ex {
				c.Info("exempt field %s: %s", key, why)
				continue
			}
			er := encCensus[f] != nil && len(encCensus[f].reads) > 0
			dw := decCensus[f] != nil && len(decCensus[f].writes) > 0
			switch {
			case er && dw:
				c.Discharge("codec.fields", key, encCensus[f].reads[0].pos, "read by "+core.FnName(encCensus[f].reads[0].fn)+", written by "+core.FnName(decCensus[f].writes[0].fn))
			case !er && !dw:
				c.Report("codec.fields", key, f.Pos(), fmt.Sprintf("%s is neither encoded nor decoded: it does not survive the plugin round trip", key))
			case !er:
				c.Report("codec.fields", key, f.Pos(), fmt.Sprintf("the decoder writes %s but no encoder reads it", key))
			default:
				c.Report("codec.fields", key, f.Pos(), fmt.Sprintf("the encoder reads %s but no decoder writes it: the value is lost on decode", key))
			}
		}
	}
	c.Floor("codec.fields", 70)

	// ---- optnil: grammar-optional fields are nil-tested by the encoder
	checkOptNilSinks(c, "codec.optnil", u, encFuncs, func(f *ssa.Function) bool {
		// handing a nil optional child to an encoder method either crashes it or emits an UNKNOWN frame the decoder rejects
		return recvTypeName(f) == "Encoder"
	})

	// ---- loops
	checkDecoderLoops(c, codecFuncs)
	checkNestingDepth(c, "codec.depth", "ast/codec", "Decoder")

	// ---- bounds
	checkCodecBounds(c, codecFuncs)

	// ---- narrow
	for _, fn := range codecFuncs {
		for _, b := range fn.Blocks {
			for _, in := range b.Instrs {
				cv, ok := in.(*ssa.Convert)
				if !ok {
					continue
				}
				bt, ok := cv.Type().Underlying().(*types.Basic)
				if !ok || (bt.Kind() != types.Uint8 && bt.Kind() != types.Uint16) {
					continue
				}
				// does the converted value derive from len(x) through a shift?
				sh, ok := cv.X.(*ssa.BinOp)
				if !ok || sh.Op != token.SHR {
					continue
				}
				var lenCall ssa.Value
				for x := range core.BackSlice(sh.X) {
					if call, ok := x.(*ssa.Call); ok {
						if bi, ok := call.Common().Value.(*ssa.Builtin); ok && bi.Name() == "len" {
							lenCall = call
						}
					}
				}
				if lenCall == nil {
					continue
				}
				key := core.FnName(fn) + "|len>>" + "8"
				if boundTested(fn, lenCall, b) {
					c.Discharge("codec.narrow", key, in.Pos(), "the length is bound-tested before it is narrowed")
				} else {
					c.Report("codec.narrow", key, in.Pos(), "a length is truncated into the 16-bit frame size without a bound test: a payload over 65535 bytes (e.g. a long string literal) is encoded with a wrong size and cannot be decoded")
				}
			}
		}
	}
	c.Floor("codec.narrow", 1)

	// ---- errdrop
	encode := prog.SSAFunc("ast/codec", "Encoder.encode")
	if encode == nil {
		c.MissingAnchor("codec.errdrop", "Encoder.encode")
	} else {
		for _, fn := range codecFuncs {
			for _, b := range fn.Blocks {
				for _, in := range b.Instrs {
					call, ok := in.(*ssa.Call)
					if !ok || call.Common().StaticCallee() != encode {
						continue
					}
					c.CallSite()
					key := core.FnName(fn) + "|encode-error"
					errs := core.ErrorResults(call)
					used := false
					for _, e := range errs {
						if hasRealUse(e) {
							used = true
						}
					}
					if used {
						c.Discharge("codec.errdrop", key, in.Pos(), "the error of encode is used")
					} else if allStmtArms {
						c.Discharge("codec.errdrop", key, in.Pos(), "the error is discarded, but Encoder.encode has an arm for every statement kind the parser hands out, so it cannot fail on parser output (conditional discharge: re-armed when an arm is missing)")
					} else {
						c.Report("codec.errdrop", key, in.Pos(), "the error of Encoder.encode is discarded and the (nil) frame is used: a nested statement kind the encoder does not know crashes the encoder instead of reporting an error")
					}
				}
			}
		}
		c.Floor("codec.errdrop", 3)
	}
	checkFullRead(c)
	checkPoolAlias(c)
	checkFrameReadExact(c)
	checkExpressionFrameSet(c)
	checkPooledBytesEscape(c)
}

// frameConstants: constants of type FrameType emitted by the encoder (stored into Frame.frameType) and
// consumed by the decoder (compared with a Type() result or passed to peekFrameIs).
func frameConstants(prog *core.Program, enc, dec []*ssa.Function) (map[string]token.Pos, map[string]token.Pos) {
	names := map[int64]string{}
	if cp := prog.Pkg("ast/codec"); cp != nil {
		sc := cp.Types.Scope()
		for _, n := range sc.Names() {
			if k, ok := sc.Lookup(n).(*types.Const); ok && core.NamedTypeName(k.Type()) == "FrameType" {
				if v, ok := constant.Int64Val(k.Val()); ok {
					names[v] = n
				}
			}
		}
	}
	isFT := func(v ssa.Value) (string, bool) {
		k, ok := v.(*ssa.Const)
		if !ok || k.Value == nil || core.NamedTypeName(k.Type()) != "FrameType" {
			return "", false
		}
		iv, ok := constant.Int64Val(k.Value)
		if !ok {
			return "", false
		}
		return names[iv], true
	}
	emitted, consumed := map[string]token.Pos{}, map[string]token.Pos{}
	all := append(append([]*ssa.Function{}, enc...), prog.ModuleFuncs("ast/codec")...)
	for _, fn := range all {
		isDec := recvTypeName(fn) == "Decoder"
		for _, b := range fn.Blocks {
			for _, in := range b.Instrs {
				switch t := in.(type) {
				case *ssa.Store:
					if fa, ok := t.Addr.(*ssa.FieldAddr); ok && core.FieldOf(fa) != nil && core.FieldOf(fa).Name() == "frameType" && !isDec {
						if n, ok := isFT(t.Val); ok && fn.Name() != "nextFrame" && fn.Name() != "peekFrame" {
							emitted[n] = in.Pos()
						}
					}
				case *ssa.BinOp:
					if t.Op == token.EQL || t.Op == token.NEQ {
						for _, o := range []ssa.Value{t.X, t.Y} {
							if n, ok := isFT(o); ok && (isDec || fn.Name() == "isExpressionFrame") {
								if _, seen := consumed[n]; !seen {
									consumed[n] = in.Pos()
								}
							}
						}
					}
				case *ssa.Call:
					if cal := t.Common().StaticCallee(); cal != nil && cal.Name() == "peekFrameIs" {
						if n, ok := isFT(t.Common().Args[1]); ok {
							if _, seen := consumed[n]; !seen {
								consumed[n] = in.Pos()
							}
						}
					}
					// end()/fin() helpers emit END/FIN bytes
					if cal := t.Common().StaticCallee(); cal != nil && !isDec && (cal.Name() == "end" || cal.Name() == "fin") {
						if cal.Name() == "end" {
							emitted["END"] = in.Pos()
						} else {
							emitted["FIN"] = in.Pos()
						}
					}
				}
			}
		}
	}
	return emitted, consumed
}

// checkDecoderLoops: see runC19 explanation.
func checkDecoderLoops(c *core.Ctx, funcs []*ssa.Function) {
	prog := c.Prog
	nextFrame := prog.SSAFunc("ast/codec", "Decoder.nextFrame")
	typeFn := prog.SSAFunc("ast/codec", "Frame.Type")
	decode := prog.SSAFunc("ast/codec", "Decoder.decode")
	decodeExpr := prog.SSAFunc("ast/codec", "Decoder.decodeExpression")
	if nextFrame == nil || typeFn == nil || decode == nil || decodeExpr == nil {
		c.MissingAnchor("codec.loops", "Decoder.nextFrame / Frame.Type / Decoder.decode / decodeExpression")
		return
	}
	finVal, unkVal := int64(-1), int64(-1)
	if cp := prog.Pkg("ast/codec"); cp != nil {
		for n, dst := range map[string]*int64{"FIN": &finVal, "UNKNOWN": &unkVal} {
			if k, ok := cp.Types.Scope().Lookup(n).(*types.Const); ok {
				*dst, _ = constant.Int64Val(k.Val())
			}
		}
	}
	// the dispatchers fail on a frame type they do not know (default arm returns a non-nil error)
	failing := map[*ssa.Function]bool{}
	for _, d := range []*ssa.Function{decode, decodeExpr} {
		if dispatcherFailsOnUnknown(d, typeFn, finVal, unkVal) {
			failing[d] = true
			c.Discharge("codec.loops", core.FnName(d)+"|default-fails", d.Pos(), "no arm for FIN/UNKNOWN and the fall-through path returns a non-nil error")
		} else {
			c.Report("codec.loops", core.FnName(d)+"|default-fails", d.Pos(), "the dispatcher does not fail on an unknown/FIN frame: frame loops that rely on it never end at end of input")
		}
	}
	// value decoders that start with a frame type test also fail
	for _, fn := range funcs {
		if recvTypeName(fn) != "Decoder" || len(fn.Params) != 2 || failing[fn] {
			continue
		}
		if core.NamedTypeName(fn.Params[1].Type()) == "Frame" && dispatcherFailsOnUnknown(fn, typeFn, finVal, unkVal) {
			failing[fn] = true
		}
	}
	reviewed := map[string]string{
		"ast/codec.(*Frame).Read": "reads until f.size bytes arrived; every iteration either fails (reader error, including EOF) or adds n > 0 bytes; a reader returning (0, nil) forever is outside the io.Reader contract",
		"ast/codec.bytesToString": "b shrinks by size >= 1 per iteration (utf8.DecodeRune returns size 0 only for an empty slice, excluded by the loop condition)",
	}
	for _, fn := range funcs {
		for _, h := range fn.Blocks {
			// loop header: has a predecessor it dominates
			isHeader := false
			for _, p := range h.Preds {
				if h.Dominates(p) {
					isHeader = true
				}
			}
			if !isHeader {
				continue
			}
			// natural loop body
			body := map[*ssa.BasicBlock]bool{h: true}
			var work []*ssa.BasicBlock
			for _, p := range h.Preds {
				if h.Dominates(p) {
					work = append(work, p)
				}
			}
			for len(work) > 0 {
				b := work[len(work)-1]
				work = work[:len(work)-1]
				if body[b] {
					continue
				}
				body[b] = true
				work = append(work, b.Preds...)
			}
			key := fmt.Sprintf("%s|loop@%s", core.FnName(fn), loopOrdinal(fn, h))
			pos := firstPos(h)
			// range loops over slices/strings are finite
			if isRangeLoop(h) {
				c.Discharge("codec.loops", key, pos, "range loop over a finite collection")
				continue
			}
			if isCountedLoop(h, body) {
				c.Discharge("codec.loops", key, pos, "counted loop: an index that every round advances towards a bound fixed outside the loop")
				continue
			}
			// frame loop? the frame whose Type() drives the loop: a nextFrame call with a Type() referrer that dominates every latch
			var frame ssa.Value
			for _, b := range fn.Blocks {
				if !body[b] {
					continue
				}
				for _, in := range b.Instrs {
					call, ok := in.(*ssa.Call)
					if !ok || call.Common().StaticCallee() != nextFrame || call.Referrers() == nil {
						continue
					}
					hasType := false
					for _, r := range *call.Referrers() {
						if tc, ok := r.(*ssa.Call); ok && tc.Common().StaticCallee() == typeFn {
							hasType = true
						}
					}
					domAll := true
					for _, p := range h.Preds {
						if h.Dominates(p) && !b.Dominates(p) {
							domAll = false
						}
					}
					if hasType && domAll && frame == nil {
						frame = call
					}
				}
			}
			if frame == nil {
				// three-clause form (for f := next(); f.Type() != FIN; f = next()): the frame is the header's merge of
				// nextFrame calls, the one taken round the loop being made inside it
				for _, in := range h.Instrs {
					phi, ok := in.(*ssa.Phi)
					if !ok || phi.Referrers() == nil {
						continue
					}
					all := true
					for j, e := range phi.Edges {
						call, isCall := e.(*ssa.Call)
						if !isCall || call.Common().StaticCallee() != nextFrame {
							all = false
							break
						}
						if h.Dominates(h.Preds[j]) && !body[call.Block()] {
							all = false
						}
					}
					hasType := false
					for _, r := range *phi.Referrers() {
						if tc, ok := r.(*ssa.Call); ok && tc.Common().StaticCallee() == typeFn && body[tc.Block()] {
							hasType = true
						}
					}
					if all && hasType && frame == nil {
						frame = phi
					}
				}
			}
			if frame == nil {
				if why := peekLoop(prog, h, body, nextFrame, typeFn, finVal, unkVal); why != "" {
					c.Discharge("codec.loops", key, pos, why)
					continue
				}
			}
			if frame == nil {
				if why, ok := reviewed[core.FnName(fn)]; ok {
					c.Discharge("codec.loops", key, pos, "reviewed: "+why)
				} else {
					c.Report("codec.loops", key, pos, "a loop in the codec that is neither a range loop, nor a frame loop, nor in the reviewed set: its termination is undecided")
				}
				continue
			}
			// T = frame.Type()
			var tcall ssa.Value
			if frame.Referrers() != nil {
				for _, r := range *frame.Referrers() {
					if call, ok := r.(*ssa.Call); ok && call.Common().StaticCallee() == typeFn && body[call.Block()] {
						tcall = call
					}
				}
			}
			bad := ""
			for name, val := range map[string]int64{"FIN": finVal, "UNKNOWN": unkVal} {
				start, from := pathStartFor(h, body, tcall, val)
				if start == nil {
					bad = "cannot resolve the branch taken for a " + name + " frame"
					break
				}
				if spins(start, from, h, body, frame, failing) {
					bad = fmt.Sprintf("for a %s frame the loop goes round again without consuming input or failing", name)
					if name == "UNKNOWN" {
						bad += " (truncated input: nextFrame returns UNKNOWN forever, so decoding never terminates)"
					}
					break
				}
			}
			if bad == "" {
				c.Discharge("codec.loops", key, pos, "FIN and UNKNOWN frames leave the loop (explicit arm, or a failing dispatcher call on the frame)")
			} else {
				c.Report("codec.loops", key, pos, bad)
			}
		}
	}
	c.Floor("codec.loops", 14)
}

func firstPos(b *ssa.BasicBlock) token.Pos {
	for _, in := range b.Instrs {
		if in.Pos().IsValid() {
			return in.Pos()
		}
	}
	for _, s := range b.Succs {
		for _, in := range s.Instrs {
			if in.Pos().IsValid() {
				return in.Pos()
			}
		}
	}
	return token.NoPos
}

// loopOrdinal: ordinal of header h among the loop headers of fn in block order (stable under edits elsewhere).
func loopOrdinal(fn *ssa.Function, h *ssa.BasicBlock) string {
	n := 0
	for _, b := range fn.Blocks {
		hdr := false
		for _, p := range b.Preds {
			if b.Dominates(p) {
				hdr = true
			}
		}
		if hdr {
			n++
			if b == h {
				return fmt.Sprint(n)
			}
		}
	}
	return "?"
}

func isRangeLoop(h *ssa.BasicBlock) bool {
	for _, pre := range []string{"rangeindex.", "rangeint.", "rangeiter."} {
		if strings.HasPrefix(h.Comment, pre) {
			return true
		}
	}
	return false
}

// isCountedLoop: the header tests `i < bound` (or <=, >, >=, !=) where i is a header phi that every latch advances by a
// non-zero constant and bound is defined outside the loop: the loop is bounded by its counter, whatever the stream does.
func isCountedLoop(h *ssa.BasicBlock, body map[*ssa.BasicBlock]bool) bool {
	iff, ok := h.Instrs[len(h.Instrs)-1].(*ssa.If)
	if !ok {
		return false
	}
	bo, ok := iff.Cond.(*ssa.BinOp)
	if !ok {
		return false
	}
	switch bo.Op {
	case token.LSS, token.LEQ, token.GTR, token.GEQ, token.NEQ:
	default:
		return false
	}
	// one successor leaves the loop
	if body[h.Succs[0]] == body[h.Succs[1]] {
		return false
	}
	check := func(iv, bound ssa.Value) bool {
		phi, ok := iv.(*ssa.Phi)
		if !ok || phi.Block() != h {
			return false
		}
		// the bound is fixed while the loop runs: defined outside it, or the length of a slice / string value defined
		// outside it (an SSA slice value never changes its length)
		var lenOf ssa.Value
		if in, ok := bound.(ssa.Instruction); ok && body[in.Block()] {
			call, isCall := bound.(*ssa.Call)
			if !isCall {
				return false
			}
			bi, isBi := call.Common().Value.(*ssa.Builtin)
			if !isBi || bi.Name() != "len" {
				return false
			}
			lenOf = call.Common().Args[0]
			if in2, ok := lenOf.(ssa.Instruction); ok && body[in2.Block()] {
				return false
			}
			switch lenOf.Type().Underlying().(type) {
			case *types.Slice, *types.Basic:
			default:
				return false
			}
		}
		for i, pred := range h.Preds {
			if !body[pred] {
				continue
			}
			step, ok := phi.Edges[i].(*ssa.BinOp)
			if !ok || (step.Op != token.ADD && step.Op != token.SUB) || step.X != ssa.Value(phi) {
				return false
			}
			if k, ok := core.ConstIntValue(step.Y); ok && k != 0 {
				continue
			}
			// i += size of the rune decoded at x[i:], under i < len(x): the rest is not empty there, so size >= 1
			ex, isEx := step.Y.(*ssa.Extract)
			if !isEx || ex.Index != 1 || step.Op != token.ADD || lenOf == nil || bo.Op != token.LSS || bo.X != iv || !body[h.Succs[0]] {
				return false
			}
			dec, isCall := ex.Tuple.(*ssa.Call)
			if !isCall || dec.Common().StaticCallee() == nil {
				return false
			}
			if n := calleeFullName(dec.Common().StaticCallee()); n != "unicode/utf8.DecodeRune" && n != "unicode/utf8.DecodeRuneInString" {
				return false
			}
			sl, isSl := dec.Common().Args[0].(*ssa.Slice)
			if !isSl || sl.X != lenOf || sl.Low != ssa.Value(phi) || sl.High != nil {
				return false
			}
		}
		return true
	}
	return check(bo.X, bo.Y) || check(bo.Y, bo.X)
}

// dispatcherFailsOnUnknown: following the false edges of all `frame.Type() == K` tests for K not in {FIN, UNKNOWN},
// the function returns a non-nil error. Phi values are resolved along the walked edge, and a test `v != nil`
// of a value known to be a non-nil error on this path follows only its feasible edge.
func dispatcherFailsOnUnknown(fn *ssa.Function, typeFn *ssa.Function, fin, unk int64) bool {
	type st struct {
		b, pred *ssa.BasicBlock
	}
	seen := map[st]bool{}
	ok := true
	visitedReturn := false
	var walk func(b, pred *ssa.BasicBlock, env map[ssa.Value]ssa.Value)
	resolve := func(v ssa.Value, env map[ssa.Value]ssa.Value) ssa.Value {
		for i := 0; i < 8; i++ {
			if r, has := env[v]; has {
				v = r
				continue
			}
			break
		}
		return v
	}
	walk = func(b, pred *ssa.BasicBlock, env map[ssa.Value]ssa.Value) {
		if seen[st{b, pred}] {
			return
		}
		seen[st{b, pred}] = true
		nenv := map[ssa.Value]ssa.Value{}
		for k, v := range env {
			nenv[k] = v
		}
		pi := -1
		for i, p := range b.Preds {
			if p == pred {
				pi = i
			}
		}
		for _, in := range b.Instrs {
			phi, isPhi := in.(*ssa.Phi)
			if !isPhi {
				break
			}
			if pi >= 0 {
				nenv[phi] = resolve(phi.Edges[pi], env)
			}
		}
		for _, in := range b.Instrs {
			if r, isRet := in.(*ssa.Return); isRet {
				visitedReturn = true
				hasErr := false
				for _, rs := range core.ReturnSites(fn) {
					if rs.Ret != r {
						continue
					}
					for _, v := range rs.Results {
						v = resolve(v, nenv)
						if core.IsErrorType(v.Type()) && !core.IsNilConst(v) && definitelyNonNilError(v) {
							hasErr = true
						}
					}
				}
				if !hasErr {
					ok = false
				}
				return
			}
		}
		if iff, isIf := b.Instrs[len(b.Instrs)-1].(*ssa.If); isIf {
			if bo, isBo := iff.Cond.(*ssa.BinOp); isBo && (bo.Op == token.EQL || bo.Op == token.NEQ) {
				for _, o := range []ssa.Value{bo.X, bo.Y} {
					if v, isK := core.ConstIntValue(o); isK && core.NamedTypeName(o.Type()) == "FrameType" {
						if bo.Op == token.EQL {
							if v == fin || v == unk {
								walk(b.Succs[0], b, nenv)
							}
							walk(b.Succs[1], b, nenv)
						} else {
							walk(b.Succs[0], b, nenv)
							if v == fin || v == unk {
								walk(b.Succs[1], b, nenv)
							}
						}
						return
					}
				}
				// nil test of a value known on this path
				var tested ssa.Value
				if core.IsNilConst(bo.Y) {
					tested = bo.X
				} else if core.IsNilConst(bo.X) {
					tested = bo.Y
				}
				if tested != nil {
					rv := resolve(tested, nenv)
					if core.IsNilConst(rv) || definitelyNonNilError(rv) {
						isNil := core.IsNilConst(rv)
						takeTrue := (bo.Op == token.EQL) == isNil
						if takeTrue {
							walk(b.Succs[0], b, nenv)
						} else {
							walk(b.Succs[1], b, nenv)
						}
						return
					}
				}
			}
		}
		for _, s := range b.Succs {
			walk(s, b, nenv)
		}
	}
	walk(fn.Blocks[0], nil, map[ssa.Value]ssa.Value{})
	return ok && visitedReturn
}

func definitelyNonNilError(v ssa.Value) bool {
	switch t := v.(type) {
	case *ssa.Call:
		cal := t.Common().StaticCallee()
		if cal == nil {
			return false
		}
		if cal.Pkg != nil && (cal.Pkg.Pkg.Path() == "errors" || cal.Pkg.Pkg.Path() == "fmt") {
			return true
		}
		if cal.Name() == "WithStack" && len(t.Common().Args) == 1 {
			return definitelyNonNilError(t.Common().Args[0])
		}
		// module constructors: every return site returns a definitely non-nil error
		if cal.Blocks != nil {
			all := true
			for _, rs := range core.ReturnSites(cal) {
				for _, r := range rs.Results {
					if core.IsErrorType(r.Type()) && !definitelyNonNilErrorShallow(r) {
						all = false
					}
				}
			}
			return all
		}
	case *ssa.MakeInterface:
		return true
	case *ssa.Phi:
		for _, e := range t.Edges {
			if !definitelyNonNilError(e) {
				return false
			}
		}
		return true
	}
	return false
}

func definitelyNonNilErrorShallow(v ssa.Value) bool {
	switch t := v.(type) {
	case *ssa.MakeInterface:
		return true
	case *ssa.Call:
		cal := t.Common().StaticCallee()
		if cal != nil && cal.Pkg != nil && (cal.Pkg.Pkg.Path() == "errors" || cal.Pkg.Pkg.Path() == "fmt" || cal.Pkg.Pkg.Path() == "github.com/pkg/errors") {
			if cal.Name() == "WithStack" {
				return definitelyNonNilErrorShallow(t.Common().Args[0])
			}
			return true
		}
		if cal != nil && cal.Blocks != nil {
			for _, rs := range core.ReturnSites(cal) {
				for _, r := range rs.Results {
					if core.IsErrorType(r.Type()) {
						if _, ok := r.(*ssa.MakeInterface); !ok {
							if c2, ok := r.(*ssa.Call); !ok || c2.Common().StaticCallee() == nil || c2.Common().StaticCallee().Pkg == nil || !strings.Contains(c2.Common().StaticCallee().Pkg.Pkg.Path(), "errors") && c2.Common().StaticCallee().Pkg.Pkg.Path() != "fmt" {
								return false
							}
						}
					}
				}
			}
			return true
		}
	}
	return false
}

// pathStartFor: the block (and its predecessor) the loop continues in when tcall == val.
func pathStartFor(h *ssa.BasicBlock, body map[*ssa.BasicBlock]bool, tcall ssa.Value, val int64) (*ssa.BasicBlock, *ssa.BasicBlock) {
	if tcall == nil {
		return nil, nil
	}
	// walk the comparison chain starting at the block of tcall
	b := tcall.(*ssa.Call).Block()
	seen := map[*ssa.BasicBlock]bool{}
	for !seen[b] {
		seen[b] = true
		iff, ok := b.Instrs[len(b.Instrs)-1].(*ssa.If)
		if !ok {
			return b, nil
		}
		bo, ok := iff.Cond.(*ssa.BinOp)
		if !ok || (bo.X != tcall && bo.Y != tcall) || (bo.Op != token.EQL && bo.Op != token.NEQ) {
			return b, nil
		}
		other := bo.Y
		if bo.Y == tcall {
			other = bo.X
		}
		k, isK := core.ConstIntValue(other)
		if !isK {
			return b, nil
		}
		eq := k == val
		if bo.Op == token.NEQ {
			eq = !eq
		}
		prev := b
		if eq {
			b = b.Succs[0]
		} else {
			b = b.Succs[1]
		}
		if k == val {
			return b, prev
		}
	}
	return b, nil
}

// spins: is there a path from start back to the loop header h, inside the loop, that neither returns
// nor passes a failing call on the frame?
func spins(start, from, h *ssa.BasicBlock, body map[*ssa.BasicBlock]bool, frame ssa.Value, failing map[*ssa.Function]bool) bool {
	seen := map[*ssa.BasicBlock]bool{}
	var walk func(b *ssa.BasicBlock) bool
	walk = func(b *ssa.BasicBlock) bool {
		if b == h {
			return true
		}
		if !body[b] || seen[b] {
			return false
		}
		seen[b] = true
		for _, in := range b.Instrs {
			if call, ok := in.(*ssa.Call); ok {
				if cal := call.Common().StaticCallee(); cal != nil && failing[cal] {
					for _, a := range call.Common().Args {
						if a == frame {
							// the call fails for this frame; its error must lead out of the loop
							for _, e := range core.ErrorResults(call) {
								for _, t := range core.NilTestsOf(e) {
									nonNil := t.If.Block().Succs[1-t.NilSucc]
									if !reachesWithin(nonNil, h, body) {
										return false
									}
								}
							}
						}
					}
				}
			}
		}
		for _, s := range b.Succs {
			if walk(s) {
				return true
			}
		}
		return false
	}
	return walk(start)
}

func reachesWithin(from, h *ssa.BasicBlock, body map[*ssa.BasicBlock]bool) bool {
	seen := map[*ssa.BasicBlock]bool{}
	var walk func(b *ssa.BasicBlock) bool
	walk = func(b *ssa.BasicBlock) bool {
		if b == h {
			return true
		}
		if !body[b] || seen[b] {
			return false
		}
		seen[b] = true
		for _, s := range b.Succs {
			if walk(s) {
				return true
			}
		}
		return false
	}
	return walk(from)
}

// checkCodecBounds: constant index / slice bounds on bytes produced by Frame.Read are length-guarded.
func checkCodecBounds(c *core.Ctx, funcs []*ssa.Function) {
	read := c.Prog.SSAFunc("ast/codec", "Frame.Read")
	if read == nil {
		c.MissingAnchor("codec.bounds", "Frame.Read")
		return
	}
	for _, fn := range funcs {
		for _, b := range fn.Blocks {
			for _, in := range b.Instrs {
				var base ssa.Value
				what := ""
				need := int64(0)
				switch t := in.(type) {
				case *ssa.Slice:
					lo, hasLo := int64(0), false
					hi, hasHi := int64(0), false
					if t.Low != nil {
						lo, hasLo = core.ConstIntValue(t.Low)
					}
					if t.High != nil {
						hi, hasHi = core.ConstIntValue(t.High)
					}
					if (hasLo && lo > 0) || (hasHi && hi > 0) {
						base = t.X
						need = lo
						if hi > need {
							need = hi
						}
						what = fmt.Sprintf("slice[%v:%v]", map[bool]any{true: lo, false: ""}[hasLo], map[bool]any{true: hi, false: ""}[hasHi])
					}
				case *ssa.IndexAddr:
					if k, ok := core.ConstIntValue(t.Index); ok {
						base = t.X
						need = k + 1
						what = fmt.Sprintf("index[%d]", k)
					}
				}
				if base == nil {
					continue
				}
				fromRead := false
				var peek *ssa.Call
				for x := range core.BackSlice(base) {
					if call, ok := x.(*ssa.Call); ok {
						if call.Common().StaticCallee() == read {
							fromRead = true
						}
						if cal := call.Common().StaticCallee(); cal != nil && cal.Name() == "Peek" && cal.Pkg != nil && cal.Pkg.Pkg.Path() == "bufio" {
							fromRead = true
							peek = call
						}
					}
				}
				if !fromRead {
					continue
				}
				key := core.FnName(fn) + "|" + what
				got := lenLowerBound(fn, base, b)
				// Peek(n) returns exactly n bytes when its error is nil
				if peek != nil {
					if n, ok := core.ConstIntValue(peek.Common().Args[1]); ok {
						for _, e := range core.ErrorResults(peek) {
							if core.DominatedByNil(e, b, true) && n > got {
								got = n
							}
						}
					}
				}
				if got >= need {
					c.Discharge("codec.bounds", key, in.Pos(), fmt.Sprintf("dominated by a test that implies at least %d byte(s)", got))
				} else {
					c.Report("codec.bounds", key, in.Pos(), fmt.Sprintf("%s on the bytes of a frame whose size comes from the input, with no dominating length test: a short frame makes the decoder panic (index out of range)", what))
				}
			}
		}
	}
	c.Floor("codec.bounds", 3)
}

// lenLowerBound: the largest lower bound of len(base) implied by a comparison of len(base) with a constant on an edge
// that dominates b.
func lenLowerBound(fn *ssa.Function, base ssa.Value, b *ssa.BasicBlock) int64 {
	best := int64(0)
	for _, blk := range fn.Blocks {
		iff, ok := blk.Instrs[len(blk.Instrs)-1].(*ssa.If)
		if !ok {
			continue
		}
		bo, ok := iff.Cond.(*ssa.BinOp)
		if !ok {
			continue
		}
		isLen := func(v ssa.Value) bool {
			call, ok := v.(*ssa.Call)
			if !ok {
				return false
			}
			bi, ok := call.Common().Value.(*ssa.Builtin)
			return ok && bi.Name() == "len" && len(call.Common().Args) == 1 && (call.Common().Args[0] == base || sameBaseValue(call.Common().Args[0], base))
		}
		op := bo.Op
		var k int64
		var isK bool
		switch {
		case isLen(bo.X):
			k, isK = core.ConstIntValue(bo.Y)
		case isLen(bo.Y):
			k, isK = core.ConstIntValue(bo.X)
			if m, ok := mirrored[op]; ok {
				op = m
			}
		default:
			continue
		}
		if !isK {
			continue
		}
		// bound implied on the true edge (index 0) and on the false edge (index 1)
		var onTrue, onFalse int64
		switch op {
		case token.LSS:
			onFalse = k
		case token.LEQ:
			onFalse = k + 1
		case token.GTR:
			onTrue = k + 1
		case token.GEQ:
			onTrue = k
		case token.EQL:
			onTrue = k
			if k == 0 {
				onFalse = 1
			}
		case token.NEQ:
			onFalse = k
			if k == 0 {
				onTrue = 1
			}
		}
		if onTrue > best && core.EdgeDominates(blk, 0, b) {
			best = onTrue
		}
		if onFalse > best && core.EdgeDominates(blk, 1, b) {
			best = onFalse
		}
	}
	return best
}

// lenGuarded: some branch condition that dominates b (on either edge) involves len(base).
func lenGuarded(fn *ssa.Function, base ssa.Value, b *ssa.BasicBlock) bool {
	for _, blk := range fn.Blocks {
		iff, ok := blk.Instrs[len(blk.Instrs)-1].(*ssa.If)
		if !ok {
			continue
		}
		involves := false
		for x := range core.BackSlice(iff.Cond) {
			if call, ok := x.(*ssa.Call); ok {
				if bi, ok := call.Common().Value.(*ssa.Builtin); ok && bi.Name() == "len" && len(call.Common().Args) == 1 && call.Common().Args[0] == base {
					involves = true
				}
			}
		}
		if !involves {
			continue
		}
		if core.EdgeDominates(blk, 0, b) || core.EdgeDominates(blk, 1, b) {
			return true
		}
	}
	return false
}

func boundTested(fn *ssa.Function, lenCall ssa.Value, b *ssa.BasicBlock) bool {
	for _, blk := range fn.Blocks {
		iff, ok := blk.Instrs[len(blk.Instrs)-1].(*ssa.If)
		if !ok {
			continue
		}
		if !core.BackSlice(iff.Cond)[lenCall] {
			// a second len() of the same operand
			same := false
			for x := range core.BackSlice(iff.Cond) {
				if call, ok := x.(*ssa.Call); ok {
					if bi, ok := call.Common().Value.(*ssa.Builtin); ok && bi.Name() == "len" {
						if lc, ok := lenCall.(*ssa.Call); ok && sameBaseValue(call.Common().Args[0], lc.Common().Args[0]) {
							same = true
						}
					}
				}
			}
			if !same {
				continue
			}
		}
		if core.EdgeDominates(blk, 0, b) || core.EdgeDominates(blk, 1, b) {
			return true
		}
	}
	return false
}

func sameBaseValue(a, b ssa.Value) bool {
	if a == b {
		return true
	}
	return sameBase(a, b)
}

// checkFullRead (codec.fullread): a Read may return fewer bytes than asked for. A decoder read whose byte count is
// thrown away is only safe when it asks for a single byte; multi-byte fields must be read with io.ReadFull (or the
// count must be used).
func checkFullRead(c *core.Ctx) {
	prog := c.Prog
	n := 0
	for _, fn := range prog.ModuleFuncs("ast/codec", "plugin") {
		for _, b := range fn.Blocks {
			for _, in := range b.Instrs {
				call, ok := in.(*ssa.Call)
				if !ok {
					continue
				}
				name := ""
				var recvV ssa.Value
				if call.Common().IsInvoke() {
					name = call.Common().Method.Name()
					recvV = call.Common().Value
				} else if cal := call.Common().StaticCallee(); cal != nil && cal.Signature.Recv() != nil && len(call.Common().Args) > 0 {
					name = cal.Name()
					recvV = call.Common().Args[0]
				}
				if name != "Read" || call.Common().Signature().Results().Len() != 2 {
					continue
				}
				n++
				countUsed := false
				if call.Referrers() != nil {
					for _, r := range *call.Referrers() {
						if ex, ok := r.(*ssa.Extract); ok && ex.Index == 0 && ex.Referrers() != nil && len(*ex.Referrers()) > 0 {
							countUsed = true
						}
					}
				}
				key := fmt.Sprintf("%s|Read#%d", core.FnName(fn), n)
				if countUsed {
					c.Discharge("codec.fullread", key, in.Pos(), "the byte count is used")
					continue
				}
				// a LimitReader of exactly one byte
				one := false
				for x := range core.BackSlice(recvV) {
					if cl, ok := x.(*ssa.Call); ok {
						if cal := cl.Common().StaticCallee(); cal != nil && cal.Name() == "LimitReader" {
							if k, isK := core.ConstIntValue(cl.Common().Args[1]); isK && k == 1 {
								one = true
							}
						}
					}
				}
				if one {
					c.Discharge("codec.fullread", key, in.Pos(), "single byte read")
				} else {
					c.Report("codec.fullread", key, in.Pos(), core.FnName(fn)+" reads a multi-byte field with one Read and ignores how many bytes arrived: at a buffer boundary or on a pipe the field is taken partly from stale memory and the frame stream falls out of sync (use io.ReadFull)")
				}
			}
		}
	}
	if n == 0 {
		c.MissingAnchor("codec.fullread", "no Read call in ast/codec")
	}
}

// checkPoolAlias (codec.poolalias): the encoder's frames alias buffers that were already handed back to sync.Pool
// (every encode* does `defer encodePool.Put(buf)` and returns &Frame{buffer: buf.Bytes()}). That is only sound while a
// frame is serialised (Encode()) or returned before anything can take the buffer out of the pool again: a frame must
// not be stored in a container, and no call that can reach Pool.Get may lie between its production and its use.
func checkPoolAlias(c *core.Ctx) {
	prog := c.Prog
	funcs := prog.ModuleFuncs("ast/codec")
	// functions that can reach sync.Pool.Get
	gets := map[*ssa.Function]bool{}
	for changed := true; changed; {
		changed = false
		for _, fn := range funcs {
			if gets[fn] {
				continue
			}
			for _, b := range fn.Blocks {
				for _, in := range b.Instrs {
					cal := core.StaticCallee(in)
					if cal == nil {
						continue
					}
					if (cal.Name() == "Get" && cal.Pkg != nil && cal.Pkg.Pkg.Path() == "sync") || gets[cal] {
						gets[fn] = true
					}
				}
			}
			if gets[fn] {
				changed = true
			}
		}
	}
	isFrame := func(t types.Type) bool {
		return core.NamedTypeName(derefType(t)) == "Frame" && strings.HasSuffix(core.NamedTypePkgName(derefType(t)), "codec.Frame")
	}
	n := 0
	for _, fn := range funcs {
		for _, b := range fn.Blocks {
			for idx, in := range b.Instrs {
				call, ok := in.(*ssa.Call)
				if !ok || !isFrame(call.Type()) {
					continue
				}
				cal := call.Common().StaticCallee()
				if cal == nil || !gets[cal] || call.Referrers() == nil {
					continue
				}
				n++
				key := fmt.Sprintf("%s|frame of %s#%d", core.FnName(fn), cal.Name(), n)
				bad := ""
				for _, r := range *call.Referrers() {
					switch u := r.(type) {
					case *ssa.Store:
						if u.Val == ssa.Value(call) {
							switch u.Addr.(type) {
							case *ssa.IndexAddr, *ssa.FieldAddr:
								bad = "it is stored in a container (" + prog.Loc(u.Pos()) + ")"
							}
						}
					case *ssa.MapUpdate:
						bad = "it is stored in a map"
					case *ssa.Phi, *ssa.Return, *ssa.DebugRef:
					case ssa.Instruction:
						// a use: no pool-reaching call between production and use
						if between := poolCallBetween(b, idx, u, gets); between != "" {
							bad = "between its production and its use at " + prog.Loc(u.Pos()) + " the encoder calls " + between + ", which takes buffers out of the pool again"
						}
					}
				}
				if bad == "" {
					c.Discharge("codec.poolalias", key, in.Pos(), "serialised or returned before the pool can hand its buffer out again")
				} else {
					c.Report("codec.poolalias", key, in.Pos(), fmt.Sprintf("the frame returned by %s aliases a buffer that is already back in sync.Pool, and %s: the bytes of this frame are overwritten before they are written out (an argument or operand is replaced by a later one)", cal.Name(), bad))
				}
			}
		}
	}
	c.Floor("codec.poolalias", 40)
}

// poolCallBetween: a call that can reach Pool.Get on some path from instruction index from (exclusive) in block b to use.
func poolCallBetween(b *ssa.BasicBlock, from int, use ssa.Instruction, gets map[*ssa.Function]bool) string {
	found := ""
	seen := map[*ssa.BasicBlock]bool{}
	var walk func(blk *ssa.BasicBlock, start int, trail string) bool
	walk = func(blk *ssa.BasicBlock, start int, trail string) bool {
		for _, in := range blk.Instrs[start:] {
			if in == use {
				if trail != "" {
					found = trail
				}
				return true
			}
			if cal := core.StaticCallee(in); cal != nil && gets[cal] {
				if trail == "" {
					trail = cal.Name()
				}
			}
		}
		for _, s := range blk.Succs {
			if seen[s] {
				continue
			}
			seen[s] = true
			walk(s, 0, trail)
		}
		return false
	}
	walk(b, from+1, "")
	return found
}

// checkFrameReadExact (codec.readexact): Frame.Read hands back exactly `size` bytes: every successful return is
// dominated by a comparison of the accumulated Read counts with the frame size (or reads with io.ReadFull/ReadAll).
func checkFrameReadExact(c *core.Ctx) {
	fn := c.Prog.SSAFunc("ast/codec", "Frame.Read")
	if fn == nil {
		return
	}
	n := 0
	for _, rs := range core.ReturnSites(fn) {
		if len(rs.Results) != 2 || !core.IsNilConst(rs.Results[1]) {
			continue
		}
		n++
		key := "Frame.Read|return@" + retLabel(fn, rs.Ret)
		// the empty frame
		emptyOK := false
		exact := false
		for _, blk := range fn.Blocks {
			iff, ok := blk.Instrs[len(blk.Instrs)-1].(*ssa.If)
			if !ok {
				continue
			}
			bo, ok := iff.Cond.(*ssa.BinOp)
			if !ok || (bo.Op != token.EQL && bo.Op != token.NEQ && bo.Op != token.GEQ && bo.Op != token.LSS) {
				continue
			}
			hasSize, hasCount, zero := false, false, false
			for x := range core.BackSlice(iff.Cond) {
				if f := core.FieldOf(x); f != nil && f.Name() == "size" {
					hasSize = true
				}
				if ex, ok := x.(*ssa.Extract); ok && ex.Index == 0 {
					if call, ok := ex.Tuple.(*ssa.Call); ok {
						if call.Common().IsInvoke() && call.Common().Method.Name() == "Read" {
							hasCount = true
						} else if cal := call.Common().StaticCallee(); cal != nil && (cal.Name() == "Read" || cal.Name() == "ReadFull" || cal.Name() == "ReadAll") {
							hasCount = true
						}
					}
				}
			}
			if k, isK := core.ConstIntValue(bo.Y); isK && k == 0 {
				zero = true
			}
			eq := 0
			if bo.Op == token.NEQ || bo.Op == token.LSS {
				eq = 1
			}
			if hasSize && zero && core.EdgeDominates(blk, eq, rs.Ret.Block()) {
				emptyOK = true
			}
			if hasSize && hasCount && core.EdgeDominates(blk, eq, rs.Ret.Block()) {
				exact = true
			}
		}
		// io.ReadFull on the path
		for _, b := range fn.Blocks {
			for _, in := range b.Instrs {
				if cal := core.StaticCallee(in); cal != nil && cal.Pkg != nil && cal.Pkg.Pkg.Path() == "io" && (cal.Name() == "ReadFull" || cal.Name() == "ReadAll") && b.Dominates(rs.Ret.Block()) {
					exact = true
				}
			}
		}
		switch {
		case emptyOK:
			c.Discharge("codec.readexact", key, rs.Ret.Pos(), "empty frame")
		case exact:
			c.Discharge("codec.readexact", key, rs.Ret.Pos(), "returns after the byte count reached the frame size")
		default:
			c.Report("codec.readexact", key, rs.Ret.Pos(), "Frame.Read can return successfully without having compared the number of bytes read with the frame size: a short read hands back a truncated value and the following frames are misread")
		}
	}
	if n == 0 {
		c.MissingAnchor("codec.readexact", "successful returns of Frame.Read")
	}
}

// checkExpressionFrameSet (codec.exprset): the decoder infers the presence of an optional or left-hand expression by
// peeking at the next frame and asking isExpressionFrame. That predicate and the dispatch of decodeExpression are two
// tables of the same set - the frame types that start an expression. A type the dispatch decodes but the predicate
// does not know makes every encoding fail in which such an expression stands where presence is inferred.
func checkExpressionFrameSet(c *core.Ctx) {
	prog := c.Prog
	pred := prog.SSAFunc("ast/codec", "isExpressionFrame")
	disp := prog.SSAFunc("ast/codec", "Decoder.decodeExpression")
	if pred == nil || disp == nil {
		c.MissingAnchor("codec.exprset", "ast/codec.isExpressionFrame / (*Decoder).decodeExpression")
		return
	}
	typeConsts := func(fn *ssa.Function) map[int64]bool {
		out := map[int64]bool{}
		for _, b := range fn.Blocks {
			for _, in := range b.Instrs {
				bo, ok := in.(*ssa.BinOp)
				if !ok || (bo.Op != token.EQL && bo.Op != token.NEQ) {
					continue
				}
				var other ssa.Value
				var k int64
				if v, ok := core.ConstIntValue(bo.Y); ok {
					k, other = v, bo.X
				} else if v, ok := core.ConstIntValue(bo.X); ok {
					k, other = v, bo.Y
				} else {
					continue
				}
				if call, ok := other.(*ssa.Call); ok {
					if cal := call.Common().StaticCallee(); cal != nil && cal.Name() == "Type" {
						out[k] = true
					}
				}
			}
		}
		return out
	}
	names := map[int64]string{}
	if pk := prog.Pkg("ast/codec"); pk != nil {
		for _, n := range pk.Types.Scope().Names() {
			if k, ok := pk.Types.Scope().Lookup(n).(*types.Const); ok && core.NamedTypeName(k.Type()) == "FrameType" {
				if v, ok := constant.Int64Val(k.Val()); ok {
					names[v] = n
				}
			}
		}
	}
	p, d := typeConsts(pred), typeConsts(disp)
	if len(p) < 5 || len(d) < 5 {
		c.MissingAnchor("codec.exprset", fmt.Sprintf("frame type comparisons (predicate %d, dispatch %d)", len(p), len(d)))
		return
	}
	for k := range d {
		key := "decodeExpression|" + names[k]
		if p[k] {
			c.Discharge("codec.exprset", key, pred.Pos(), "known to isExpressionFrame")
		} else {
			c.Report("codec.exprset", key, pred.Pos(), fmt.Sprintf("decodeExpression decodes %s but isExpressionFrame does not count it as an expression: wherever the decoder infers the presence of an expression by peeking (left operand of an infix expression, optional value of return / error / declare) a valid encoding with such an expression fails to decode", names[k]))
		}
	}
	for k := range p {
		if !d[k] {
			c.Report("codec.exprset", "isExpressionFrame|"+names[k], pred.Pos(), fmt.Sprintf("isExpressionFrame counts %s as an expression but decodeExpression has no arm for it", names[k]))
		}
	}
}

// checkPooledBytesEscape (codec.poolescape): a buffer taken from a sync.Pool and put back (deferred Put) belongs to the
// next caller once the function returns. A slice of its content - (*bytes.Buffer).Bytes(), or a reslicing of it -
// must not be returned or stored: the next Get hands the same array out and overwrites what the caller still holds.
// Module-wide: every function that calls Pool.Put on a value it obtained from Pool.Get.
func checkPooledBytesEscape(c *core.Ctx) {
	prog := c.Prog
	n := 0
	for _, fn := range prog.ModuleFuncs() {
		var pooled []ssa.Value
		puts := false
		for _, b := range fn.Blocks {
			for _, in := range b.Instrs {
				cal := core.StaticCallee(in)
				if cal == nil || cal.Pkg == nil || cal.Pkg.Pkg.Path() != "sync" || cal.Signature.Recv() == nil || core.NamedTypeName(derefType(cal.Signature.Recv().Type())) != "Pool" {
					continue
				}
				switch cal.Name() {
				case "Get":
					if v, ok := in.(ssa.Value); ok {
						pooled = append(pooled, v)
					}
				case "Put":
					puts = true
				}
			}
		}
		if len(pooled) == 0 || !puts {
			continue
		}
		n++
		// values that are the pooled object (through type assertions)
		isPooled := map[ssa.Value]bool{}
		var grow func(v ssa.Value)
		grow = func(v ssa.Value) {
			if isPooled[v] || v.Referrers() == nil {
				return
			}
			isPooled[v] = true
			for _, r := range *v.Referrers() {
				switch t := r.(type) {
				case *ssa.TypeAssert:
					grow(t)
				case *ssa.Extract:
					grow(t)
				case *ssa.ChangeInterface:
					grow(t)
				}
			}
		}
		for _, v := range pooled {
			grow(v)
		}
		bad := 0
		for _, b := range fn.Blocks {
			for _, in := range b.Instrs {
				call, ok := in.(*ssa.Call)
				if !ok {
					continue
				}
				cal := call.Common().StaticCallee()
				if cal == nil || cal.Name() != "Bytes" || len(call.Common().Args) == 0 || !isPooled[call.Common().Args[0]] {
					continue
				}
				// does the slice (or a reslicing) escape?
				var escapes func(v ssa.Value, depth int) string
				escapes = func(v ssa.Value, depth int) string {
					if v.Referrers() == nil || depth > 4 {
						return ""
					}
					for _, r := range *v.Referrers() {
						switch t := r.(type) {
						case *ssa.Return:
							return "returned"
						case *ssa.Store:
							// stored into a Frame: the frames of one encoding are consumed before the buffer is reused, which
							// is what codec.poolalias decides; any other store keeps the bytes beyond the function
							if t.Val == v {
								if _, isAlloc := t.Addr.(*ssa.Alloc); !isAlloc {
									if f := core.FieldOf(t.Addr); f == nil || f.Name() != "buffer" {
										return "stored"
									}
								}
							}
						case *ssa.Slice:
							if why := escapes(t, depth+1); why != "" {
								return why
							}
						case *ssa.Phi:
							if why := escapes(t, depth+1); why != "" {
								return why
							}
						case *ssa.MakeInterface:
							if why := escapes(t, depth+1); why != "" {
								return why
							}
						}
					}
					return ""
				}
				why := escapes(call, 0)
				if why == "" {
					// results spilled because of the deferred Put
					for _, rs := range core.ReturnSites(fn) {
						for _, r := range rs.Results {
							v := r
							for d := 0; d < 4; d++ {
								if v == ssa.Value(call) {
									why = "returned"
								}
								if sl, ok := v.(*ssa.Slice); ok {
									v = sl.X
									continue
								}
								break
							}
						}
					}
				}
				if why != "" {
					bad++
					c.Report("codec.poolescape", core.FnName(fn)+"|Bytes "+why, in.Pos(), fmt.Sprintf("%s takes a buffer from a sync.Pool, puts it back, and the content slice (Bytes()) is %s: the next user of the pool overwrites the bytes the caller still holds (two encodings made one after the other: the first one is destroyed)", core.FnName(fn), why))
				}
			}
		}
		if bad == 0 {
			c.Discharge("codec.poolescape", core.FnName(fn), fn.Pos(), "no slice of the pooled buffer's content is returned or stored")
		}
	}
	c.Floor("codec.poolescape", 3)
}

// peekLoop: a loop that goes on while the *next* frame is of a wanted kind - `for c.peekFrameIs(K) { … }` or `for
// pred(c.peekFrame()) { … }` with pred a predicate comparing the frame's Type() with constants - and takes a frame
// from the stream on every round. At the end of input peekFrame yields FIN or UNKNOWN for ever: neither is K (nor in
// the predicate's set), so the condition fails and the loop is left; on a finite input every round consumes a frame.
func peekLoop(prog *core.Program, h *ssa.BasicBlock, body map[*ssa.BasicBlock]bool, nextFrame, typeFn *ssa.Function, fin, unk int64) string {
	peekIs := prog.SSAFunc("ast/codec", "Decoder.peekFrameIs")
	peek := prog.SSAFunc("ast/codec", "Decoder.peekFrame")
	iff, ok := h.Instrs[len(h.Instrs)-1].(*ssa.If)
	if !ok || !body[h.Succs[0]] || body[h.Succs[1]] {
		return ""
	}
	call, ok := iff.Cond.(*ssa.Call)
	if !ok || call.Common().StaticCallee() == nil {
		return ""
	}
	cal := call.Common().StaticCallee()
	what := ""
	switch {
	case peekIs != nil && cal == peekIs:
		// peekFrameIs itself must be `peekFrame().Type() == t`
		okShape := false
		for _, b := range cal.Blocks {
			for _, in := range b.Instrs {
				if bo, _, isEq := core.EqCond(valueOf(in)); isEq && bo.Op == token.EQL {
					for _, pr := range [][2]ssa.Value{{bo.X, bo.Y}, {bo.Y, bo.X}} {
						tc, isCall := pr[0].(*ssa.Call)
						if isCall && tc.Common().StaticCallee() == typeFn && pr[1] == ssa.Value(cal.Params[len(cal.Params)-1]) {
							okShape = true
						}
					}
				}
			}
		}
		args := call.Common().Args
		k, isK := core.ConstIntValue(args[len(args)-1])
		if !okShape || !isK || k == fin || k == unk {
			return ""
		}
		what = "the next frame is of one wanted kind"
	case peek != nil && len(call.Common().Args) == 1:
		arg, isCall := call.Common().Args[0].(*ssa.Call)
		if !isCall || arg.Common().StaticCallee() != peek || cal.Pkg == nil || !strings.HasSuffix(cal.Pkg.Pkg.Path(), "/ast/codec") {
			return ""
		}
		// the predicate: returns true only behind equal edges of Type() == K, K never FIN/UNKNOWN
		n := 0
		for _, rs := range core.ReturnSites(cal) {
			if len(rs.Results) != 1 {
				return ""
			}
			k, isK := rs.Results[0].(*ssa.Const)
			if !isK || k.Value == nil || k.Value.Kind() != constant.Bool {
				return ""
			}
			if !constant.BoolVal(k.Value) {
				continue
			}
			// every way into the returning block is the equal edge of a Type() == K test
			blk := rs.Ret.Block()
			if len(blk.Preds) == 0 {
				return ""
			}
			for _, pred := range blk.Preds {
				bo, eq, isEq := core.EqBranch(pred)
				if !isEq || pred.Succs[eq] != blk || pred.Succs[0] == pred.Succs[1] {
					return ""
				}
				var other ssa.Value
				if tc, isC := bo.X.(*ssa.Call); isC && tc.Common().StaticCallee() == typeFn {
					other = bo.Y
				} else if tc, isC := bo.Y.(*ssa.Call); isC && tc.Common().StaticCallee() == typeFn {
					other = bo.X
				}
				kv, isKv := core.ConstIntValue(other)
				if other == nil || !isKv || kv == fin || kv == unk {
					return ""
				}
				n++
			}
		}
		if n == 0 {
			return ""
		}
		what = "the next frame satisfies " + cal.Name() + " (a set of frame kinds without FIN and UNKNOWN)"
	default:
		return ""
	}
	// every round takes a frame: no way round the loop avoids a nextFrame call
	consumes := func(b *ssa.BasicBlock) bool {
		for _, in := range b.Instrs {
			if core.StaticCallee(in) == nextFrame {
				return true
			}
		}
		return false
	}
	seen := map[*ssa.BasicBlock]bool{}
	var round func(b *ssa.BasicBlock) bool
	round = func(b *ssa.BasicBlock) bool {
		if b == h {
			return true
		}
		if !body[b] || seen[b] || consumes(b) {
			return false
		}
		seen[b] = true
		for _, s := range b.Succs {
			if round(s) {
				return true
			}
		}
		return false
	}
	if round(h.Succs[0]) {
		return ""
	}
	return "peek loop: goes on only while " + what + ", takes a frame on every round; at the end of input the peeked frame is FIN or UNKNOWN and the loop is left"
}

func valueOf(in ssa.Instruction) ssa.Value {
	v, _ := in.(ssa.Value)
	return v
}
