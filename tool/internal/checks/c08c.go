package checks

import (
	"fmt"
	"go/constant"
	"go/token"
	"go/types"
	"regexp"
	"sort"
	"strings"

	"fv/internal/core"

	"golang.org/x/tools/go/ssa"
)

// checkLibraryPreconditions2 (sim.libpre, continued):
//   - crypto/rand.Int(r, max) panics unless max > 0: max = big.NewInt(x) with x dominated by a test implying x > 0;
//   - cipher.BlockMode.CryptBlocks(dst, src) panics unless len(src) is a multiple of the block size: dominated by a
//     test of len(src) % K against 0;
//   - an allocation whose size comes from a VCL INTEGER (strings/bytes.Repeat count, make len/cap) needs an upper
//     bound: a dominating comparison of the size (or of the integer it is computed from) with a constant; a count
//     near 2^63 otherwise panics (Repeat: output length overflow; makeslice: cap out of range) or exhausts memory.
func checkLibraryPreconditions2(c *core.Ctx, funcs []*ssa.Function) {
	positive := func(op token.Token, k int64, isFloat, edgeTrue, left bool) bool {
		if isFloat {
			return false
		}
		lo, _, excl, ok := intervalOf(op, k, edgeTrue, left)
		return ok && excl == nil && lo > 0
	}
	bounded := func(op token.Token, k int64, isFloat, edgeTrue, left bool) bool {
		if isFloat {
			return false
		}
		_, hi, excl, ok := intervalOf(op, k, edgeTrue, left)
		return ok && excl == nil && hi < 1<<40
	}
	// tests of the integer the size is computed from must bound it on both sides (the size may be |x| or k - x)
	lowerBounded := func(op token.Token, k int64, isFloat, edgeTrue, left bool) bool {
		if isFloat {
			return false
		}
		lo, _, excl, ok := intervalOf(op, k, edgeTrue, left)
		return ok && excl == nil && lo > -(1<<40)
	}
	strip := func(v ssa.Value) ssa.Value {
		for {
			if cv, ok := v.(*ssa.Convert); ok {
				v = cv.X
				continue
			}
			return v
		}
	}
	// vclIntegers: loads of value.Integer.Value in the data slice of v (conversions, arithmetic, phis, math.Abs, max/min)
	var vclIntegers func(v ssa.Value, seen map[ssa.Value]bool, out *[]ssa.Value)
	vclIntegers = func(v ssa.Value, seen map[ssa.Value]bool, out *[]ssa.Value) {
		if v == nil || seen[v] {
			return
		}
		seen[v] = true
		switch t := v.(type) {
		case *ssa.Convert:
			vclIntegers(t.X, seen, out)
		case *ssa.BinOp:
			vclIntegers(t.X, seen, out)
			vclIntegers(t.Y, seen, out)
		case *ssa.Phi:
			for _, e := range t.Edges {
				vclIntegers(e, seen, out)
			}
		case *ssa.Call:
			if bi, ok := t.Common().Value.(*ssa.Builtin); ok && (bi.Name() == "max" || bi.Name() == "min") {
				for _, a := range t.Common().Args {
					vclIntegers(a, seen, out)
				}
			}
			if cal := t.Common().StaticCallee(); cal != nil && cal.Pkg != nil && cal.Pkg.Pkg.Path() == "math" {
				for _, a := range t.Common().Args {
					vclIntegers(a, seen, out)
				}
			}
		case *ssa.UnOp:
			if t.Op == token.MUL {
				if fa, ok := t.X.(*ssa.FieldAddr); ok {
					if f := core.FieldOf(fa); f != nil && f.Name() == "Value" && core.NamedTypeName(derefType(fa.X.Type())) == "Integer" {
						*out = append(*out, t)
					}
				}
			} else {
				vclIntegers(t.X, seen, out)
			}
		}
	}
	for _, fn := range funcs {
		perFn := map[string]int{}
		for _, b := range fn.Blocks {
			for _, in := range b.Instrs {
				keyOf := func(what string) string {
					perFn[what]++
					return fmt.Sprintf("%s|%s#%d", core.FnName(fn), what, perFn[what])
				}
				// size obligations
				var sizes []ssa.Value
				what := ""
				switch t := in.(type) {
				case *ssa.MakeSlice:
					sizes, what = []ssa.Value{t.Len}, "make"
					if t.Cap != t.Len {
						sizes = append(sizes, t.Cap)
					}
				case *ssa.Call:
					cal := t.Common().StaticCallee()
					if cal != nil && cal.Pkg != nil {
						switch cal.Pkg.Pkg.Path() + "." + cal.Name() {
						case "strings.Repeat", "bytes.Repeat":
							sizes, what = []ssa.Value{t.Common().Args[1]}, cal.Pkg.Pkg.Path()+".Repeat"
						case "crypto/rand.Int":
							key := keyOf("crypto/rand.Int")
							ok := false
							if nb, isCall := t.Common().Args[1].(*ssa.Call); isCall {
								if bc := nb.Common().StaticCallee(); bc != nil && bc.Name() == "NewInt" {
									x := nb.Common().Args[0]
									if k, isK := core.ConstIntValue(x); isK {
										ok = k > 0
									} else {
										ok = guardedValueCompare(fn, x, b, positive) || guardedCompare(fn, accessPath(x), b, positive)
									}
								}
							}
							if ok {
								c.Discharge("sim.libpre", key, in.Pos(), "the upper limit handed to crypto/rand.Int is dominated by a test implying it is positive")
							} else {
								c.Report("sim.libpre", key, in.Pos(), fmt.Sprintf("%s calls crypto/rand.Int with a limit that no dominating test shows to be positive: the call panics for a limit <= 0 and takes the simulator down", core.FnName(fn)))
							}
						}
					}
					if t.Common().IsInvoke() && t.Common().Method.Name() == "CryptBlocks" && len(t.Common().Args) == 2 {
						key := keyOf("CryptBlocks")
						if multipleTested(fn, t.Common().Args[1], b) {
							c.Discharge("sim.libpre", key, in.Pos(), "len(src) % block size is tested against 0 on every path to the call")
						} else {
							c.Report("sim.libpre", key, in.Pos(), fmt.Sprintf("%s calls CryptBlocks on input whose length no dominating test shows to be a multiple of the block size: CryptBlocks panics on a partial block", core.FnName(fn)))
						}
					}
				}
				for _, sz := range sizes {
					if sz == nil {
						continue
					}
					var srcs []ssa.Value
					vclIntegers(sz, map[ssa.Value]bool{}, &srcs)
					if len(srcs) == 0 {
						continue
					}
					key := keyOf(what + " size from a VCL integer")
					ok := guardedValueCompare(fn, sz, b, bounded) || guardedValueCompare(fn, strip(sz), b, bounded) || guardedCompare(fn, accessPath(strip(sz)), b, bounded)
					for _, s := range srcs {
						if guardedCompare(fn, accessPath(s), b, bounded) && guardedCompare(fn, accessPath(s), b, lowerBounded) {
							ok = true
						}
					}
					if ok {
						c.Discharge("sim.libpre", key, in.Pos(), "the size is compared with a constant upper bound before the allocation")
					} else {
						c.Report("sim.libpre", key, in.Pos(), fmt.Sprintf("%s allocates (%s) a size computed from a VCL INTEGER argument with no dominating comparison against an upper bound: an argument near 2^63 panics (Repeat: output length overflow / makeslice: cap out of range) or exhausts memory, and nothing recovers it", core.FnName(fn), what))
					}
				}
			}
		}
	}
}

// multipleTested: a comparison of len(src) % K with 0 dominates b on the edge where the remainder is 0.
func multipleTested(fn *ssa.Function, src ssa.Value, b *ssa.BasicBlock) bool {
	isRemOfLen := func(v ssa.Value) bool {
		bo, ok := v.(*ssa.BinOp)
		if !ok || bo.Op != token.REM {
			return false
		}
		if k, ok := core.ConstIntValue(bo.Y); !ok || k <= 1 {
			return false
		}
		call, ok := bo.X.(*ssa.Call)
		if !ok {
			return false
		}
		bi, ok := call.Common().Value.(*ssa.Builtin)
		return ok && bi.Name() == "len" && (call.Common().Args[0] == src || sameBaseValue(call.Common().Args[0], src))
	}
	for _, blk := range fn.Blocks {
		iff, ok := blk.Instrs[len(blk.Instrs)-1].(*ssa.If)
		if !ok {
			continue
		}
		bo, ok := iff.Cond.(*ssa.BinOp)
		if !ok || (bo.Op != token.EQL && bo.Op != token.NEQ) {
			continue
		}
		var other ssa.Value
		switch {
		case isRemOfLen(bo.X):
			other = bo.Y
		case isRemOfLen(bo.Y):
			other = bo.X
		default:
			continue
		}
		if k, ok := core.ConstIntValue(other); !ok || k != 0 {
			continue
		}
		edge := 0
		if bo.Op == token.NEQ {
			edge = 1
		}
		if core.EdgeDominates(blk, edge, b) {
			return true
		}
	}
	return false
}

// checkBackendDeclNil (sim.backendnil): a value.Backend wraps either a backend declaration (Value) or a director
// (Director); for a director, and for a BACKEND local that was never assigned, Value is nil. req.backend can be set
// to such a value in any scope, also after the backend request was created. Every dereference of X.Value (field access
// or method call on the loaded *ast.BackendDeclaration) is dominated by a non-nil test of that same X.Value.
func checkBackendDeclNil(c *core.Ctx, funcs []*ssa.Function) {
	n := 0
	isBackendValueLoad := func(v ssa.Value) (string, bool) {
		ld, ok := v.(*ssa.UnOp)
		if !ok || ld.Op != token.MUL {
			return "", false
		}
		fa, ok := ld.X.(*ssa.FieldAddr)
		if !ok {
			return "", false
		}
		f := core.FieldOf(fa)
		if f == nil || f.Name() != "Value" || core.NamedTypeName(derefType(fa.X.Type())) != "Backend" || !strings.HasSuffix(core.FieldOwner(fa), "/value.Backend") {
			return "", false
		}
		return accessPath(ld), true
	}
	nonNilTested := func(fn *ssa.Function, path string, b *ssa.BasicBlock) bool {
		for _, blk := range fn.Blocks {
			iff, ok := blk.Instrs[len(blk.Instrs)-1].(*ssa.If)
			if !ok {
				continue
			}
			bo, ok := iff.Cond.(*ssa.BinOp)
			if !ok || (bo.Op != token.EQL && bo.Op != token.NEQ) {
				continue
			}
			tested := bo.X
			if core.IsNilConst(bo.X) {
				tested = bo.Y
			} else if !core.IsNilConst(bo.Y) {
				continue
			}
			if p, ok := isBackendValueLoad(tested); !ok || p != path {
				continue
			}
			idx := 1 // == nil: the false edge is the non-nil one
			if bo.Op == token.NEQ {
				idx = 0
			}
			if core.EdgeDominates(blk, idx, b) {
				return true
			}
		}
		return false
	}
	// callersTest: the dereferenced backend is a parameter of an unexported function and every static call site passes an
	// argument whose .Value is tested non-nil on every path to the call
	callersTest := func(fn *ssa.Function, valueLoad ssa.Value) bool {
		ld := valueLoad.(*ssa.UnOp)
		par, ok := ld.X.(*ssa.FieldAddr).X.(*ssa.Parameter)
		if !ok || token.IsExported(fn.Name()) {
			return false
		}
		idx := -1
		for i, q := range fn.Params {
			if q == par {
				idx = i
			}
		}
		sites := 0
		for _, g := range funcs {
			for _, gb := range g.Blocks {
				for _, gin := range gb.Instrs {
					if core.StaticCallee(gin) != fn {
						continue
					}
					sites++
					arg := gin.(ssa.CallInstruction).Common().Args[idx]
					if !nonNilTested(g, "*"+accessPath(arg)+".Value", gb) {
						return false
					}
				}
			}
		}
		return sites > 0
	}
	for _, fn := range funcs {
		perFn := map[string]int{}
		for _, b := range fn.Blocks {
			for _, in := range b.Instrs {
				var base ssa.Value
				switch t := in.(type) {
				case *ssa.FieldAddr:
					base = t.X
				case *ssa.Field:
					base = t.X
				case ssa.CallInstruction:
					if cal := t.Common().StaticCallee(); cal != nil && cal.Signature.Recv() != nil && len(t.Common().Args) > 0 {
						base = t.Common().Args[0]
					}
				}
				if base == nil {
					continue
				}
				path, ok := isBackendValueLoad(base)
				if !ok {
					continue
				}
				n++
				label := describeOperand(base)
				perFn[label]++
				key := fmt.Sprintf("%s|%s#%d", core.FnName(fn), label, perFn[label])
				if nonNilTested(fn, path, b) {
					c.Discharge("sim.backendnil", key, in.Pos(), "dominated by a non-nil test of the same backend declaration")
				} else if callersTest(fn, base) {
					c.Discharge("sim.backendnil", key, in.Pos(), "the backend is a parameter and every call site is dominated by a non-nil test of the argument's declaration")
				} else {
					c.Report("sim.backendnil", key, in.Pos(), fmt.Sprintf("%s dereferences the backend declaration of %s without a dominating non-nil test: a value.Backend that wraps a director, or a BACKEND local that was never assigned, has no declaration - `set req.backend = <director>` or an unset local makes the simulator panic here", core.FnName(fn), label))
				}
			}
		}
	}
	c.Floor("sim.backendnil", 10)
}

// checkConstIndex (sim.constidx): x[k] and x[a:b] with constant k, a, b on a slice or string of run-time length panic
// when x is shorter. Outside the built-ins' args[k] (decided by sim.args) every such site has a length that is known
// by construction (make / literal / Split / a successful Peek(n)) or is dominated by a length test.
// constIndexExceptions: sites whose length follows from an invariant no length test expresses, reviewed by reading,
// keyed by function and indexed operand.
var constIndexExceptions = map[string]string{
	"toSeriesExpression|toSeriesExpression()#0[0]":                 "toSeriesExpression returns, with a nil error, a list that holds at least the series of the expression it was given (every non-error return appends or forwards one)",
	"ProcessStringConcatInfixExpression|toSeriesExpression()#0[0]": "as above: a successful toSeriesExpression is never empty",
	"Strftime|string[0]":               "time.Format(\"-0700\") always yields a sign and four digits",
	"Strftime|stringslice":             "time.Format(\"-0700\") always yields a sign and four digits",
	"header_filter_delete|[]string[1]": "reached without the colon only after h.Del removed every value of the header, so the loop that reads spl[1] is not entered",
	"Get|QueryString.Value[0]":         "QueryString.Value is nil or a one-element literal (the two constructors in this file)",
	"GetField|[]string[1]":             "the pattern built by compilePattern has exactly one group, and an empty match list is excluded just before",
}

func checkConstIndex(c *core.Ctx, funcs []*ssa.Function) {
	n := 0
	for _, fn := range funcs {
		perFn := map[string]int{}
		for _, b := range fn.Blocks {
			for _, in := range b.Instrs {
				var base ssa.Value
				need := int64(0)
				what := ""
				switch t := in.(type) {
				case *ssa.Slice:
					lo, hasLo := int64(0), false
					hi, hasHi := int64(0), false
					if t.Low != nil {
						lo, hasLo = core.ConstIntValue(t.Low)
					}
					if t.High != nil {
						hi, hasHi = core.ConstIntValue(t.High)
					}
					if (hasLo && lo > 0) || (hasHi && hi > 0) {
						base, need = t.X, lo
						if hi > need {
							need = hi
						}
						what = "slice"
					}
				case *ssa.IndexAddr:
					if k, ok := core.ConstIntValue(t.Index); ok {
						base, need, what = t.X, k+1, fmt.Sprintf("[%d]", k)
					}
				case *ssa.Index:
					if k, ok := core.ConstIntValue(t.Index); ok {
						base, need, what = t.X, k+1, fmt.Sprintf("[%d]", k)
					}
				}
				if base == nil {
					continue
				}
				// arrays and pointers to arrays have a static length
				bt := base.Type().Underlying()
				if p, ok := bt.(*types.Pointer); ok {
					bt = p.Elem().Underlying()
				}
				if arr, ok := bt.(*types.Array); ok {
					if arr.Len() >= need {
						continue
					}
				}
				// args[k] of a built-in: sim.args
				if root, _ := chainOf(base); root != nil {
					if p, ok := root.(*ssa.Parameter); ok && p.Name() == "args" {
						continue
					}
				}
				n++
				label := stableLabel(base) + what
				perFn[label]++
				key := fmt.Sprintf("%s|%s#%d", core.FnName(fn), label, perFn[label])
				if why := constLenKnown(fn, base, b, need); why != "" {
					c.Discharge("sim.constidx", key, in.Pos(), why)
				} else if why := constIndexExceptions[fn.Name()+"|"+label]; why != "" {
					c.Discharge("sim.constidx", key, in.Pos(), "named exception: "+why)
				} else {
					c.Report("sim.constidx", key, in.Pos(), fmt.Sprintf("%s indexes or slices %s with the constant bound %d and nothing on the paths to this point shows that it is that long (no dominating length test, no length known by construction): a shorter value makes the simulator panic (index out of range)", core.FnName(fn), stableLabel(base), need))
				}
			}
		}
	}
	c.Floor("sim.constidx", 20)
}

// constLenKnown: a reason why len(base) >= need at block b, or "".
func constLenKnown(fn *ssa.Function, base ssa.Value, b *ssa.BasicBlock, need int64) string {
	if lenLowerBound(fn, base, b) >= need {
		return "dominated by a length test"
	}
	// strings.HasPrefix / HasSuffix(x, "const") on the true edge: x is at least that long; Contains(x, "c"): non-empty
	if base.Referrers() != nil {
		for _, r := range *base.Referrers() {
			call, ok := r.(*ssa.Call)
			if !ok || call.Referrers() == nil {
				continue
			}
			cal := call.Common().StaticCallee()
			if cal == nil || cal.Pkg == nil || (cal.Pkg.Pkg.Path() != "strings" && cal.Pkg.Pkg.Path() != "bytes") || len(call.Common().Args) != 2 || call.Common().Args[0] != base {
				continue
			}
			k, isK := call.Common().Args[1].(*ssa.Const)
			if !isK || k.Value == nil || k.Value.Kind() != constant.String {
				continue
			}
			have := int64(0)
			switch cal.Name() {
			case "HasPrefix", "HasSuffix":
				have = int64(len(constant.StringVal(k.Value)))
			case "Contains":
				have = int64(len(constant.StringVal(k.Value)))
			}
			if have < need {
				continue
			}
			for _, rr := range *call.Referrers() {
				if iff, ok := rr.(*ssa.If); ok && core.EdgeDominates(iff.Block(), 0, b) {
					return "dominated by strings." + cal.Name() + " with a constant of that length"
				}
			}
		}
	}
	// strings.SplitN(_, _, 2): one or two elements; a dominating `len(x) == 1` false edge / `!= 1` true edge leaves two
	if call, ok := base.(*ssa.Call); ok && need == 2 {
		if cal := call.Common().StaticCallee(); cal != nil && cal.Pkg != nil && cal.Pkg.Pkg.Path() == "strings" && cal.Name() == "SplitN" {
			if k, ok := core.ConstIntValue(call.Common().Args[2]); ok && k == 2 && lenExcludes(fn, base, b, 1) {
				return "SplitN(_, _, 2) returns one or two elements and one is excluded by a dominating test"
			}
		}
	}
	// an element of the result of Find*All*Index: every match has at least the two bounds of the whole match
	if ld, ok := base.(*ssa.UnOp); ok && ld.Op == token.MUL && need <= 2 {
		if ia, ok := ld.X.(*ssa.IndexAddr); ok {
			if call, ok := ia.X.(*ssa.Call); ok {
				if cal := call.Common().StaticCallee(); cal != nil && strings.HasPrefix(cal.Name(), "FindAll") && strings.HasSuffix(cal.Name(), "Index") {
					return "an element of (*Regexp)." + cal.Name() + ": the bounds of one match"
				}
			}
		}
	}
	// strings.Split / SplitN(x, sep, n >= 2) behind a dominating strings.Contains(x, sep): at least two elements
	if call, ok := base.(*ssa.Call); ok && need <= 2 {
		if cal := call.Common().StaticCallee(); cal != nil && cal.Pkg != nil && cal.Pkg.Pkg.Path() == "strings" && (cal.Name() == "SplitN" || cal.Name() == "Split") {
			okN := cal.Name() == "Split"
			if !okN {
				if k, isK := core.ConstIntValue(call.Common().Args[2]); isK && (k >= 2 || k < 0) {
					okN = true
				}
			}
			x, sep := call.Common().Args[0], call.Common().Args[1]
			if okN && x.Referrers() != nil {
				for _, r := range *x.Referrers() {
					cc, ok := r.(*ssa.Call)
					if !ok || cc.Referrers() == nil {
						continue
					}
					if c2 := cc.Common().StaticCallee(); c2 == nil || c2.Pkg == nil || c2.Pkg.Pkg.Path() != "strings" || c2.Name() != "Contains" || cc.Common().Args[0] != x {
						continue
					}
					k1, ok1 := cc.Common().Args[1].(*ssa.Const)
					k2, ok2 := sep.(*ssa.Const)
					if !ok1 || !ok2 || k1.Value == nil || k2.Value == nil || k1.Value.ExactString() != k2.Value.ExactString() {
						continue
					}
					for _, rr := range *cc.Referrers() {
						if iff, ok := rr.(*ssa.If); ok && core.EdgeDominates(iff.Block(), 0, b) {
							return "Split on a separator that a dominating strings.Contains found: at least two elements"
						}
					}
				}
			}
		}
	}
	// make([]T, len(x)+k) / reslicing of a slice of known length
	if n := knownLen(base, 0); n >= need {
		return fmt.Sprintf("length known by construction (%d)", n)
	}
	// a parameter of an unexported function: every static call site passes a value of known length
	if par, ok := base.(*ssa.Parameter); ok && !token.IsExported(fn.Name()) && fn.Prog != nil {
		idx := -1
		for i, q := range fn.Params {
			if q == par {
				idx = i
			}
		}
		sites, all := 0, true
		for _, g := range ssaFuncsOfPkg(fn) {
			for _, gb := range g.Blocks {
				for _, gin := range gb.Instrs {
					if core.StaticCallee(gin) != fn {
						continue
					}
					sites++
					if constLenKnown(g, gin.(ssa.CallInstruction).Common().Args[idx], gb, need) == "" {
						all = false
					}
				}
			}
		}
		if sites > 0 && all {
			return "parameter: every call site passes a value of known length"
		}
	}
	// the result of a module function that returns a literal of that many elements whenever its error is nil
	if ex, ok := base.(*ssa.Extract); ok && ex.Index == 0 {
		if call, ok := ex.Tuple.(*ssa.Call); ok {
			if f := call.Common().StaticCallee(); f != nil && f.Blocks != nil {
				under := false
				for _, e := range core.ErrorResults(call) {
					if core.DominatedByNil(e, b, true) {
						under = true
					}
				}
				sites, all := 0, under
				for _, rs := range core.ReturnSites(f) {
					if len(rs.Results) != 2 || !core.IsNilConst(rs.Results[1]) {
						continue
					}
					sites++
					if knownLen(rs.Results[0], 0) < need {
						all = false
					}
				}
				if sites > 0 && all {
					return "callee returns a literal of that length whenever its error is nil"
				}
			}
		}
	}
	// a package-level slice initialised with a literal of that many elements and never assigned elsewhere
	if ld, ok := base.(*ssa.UnOp); ok && ld.Op == token.MUL {
		if g, ok := ld.X.(*ssa.Global); ok {
			if n := globalLiteralLen(g); n >= need {
				return fmt.Sprintf("package variable initialised with %d elements", n)
			}
		}
	}
	v := base
	for {
		switch t := v.(type) {
		case *ssa.Convert:
			v = t.X
			continue
		case *ssa.ChangeType:
			v = t.X
			continue
		}
		break
	}
	if k, ok := v.(*ssa.Const); ok && k.Value != nil && k.Value.Kind() == constant.String && int64(len(constant.StringVal(k.Value))) >= need {
		return "constant string"
	}
	switch t := v.(type) {
	case *ssa.MakeSlice:
		if k, ok := core.ConstIntValue(t.Len); ok && k >= need {
			return "made with a constant length"
		}
	case *ssa.Slice:
		// x[:k] of something: length k when it did not panic
		if t.High != nil {
			if k, ok := core.ConstIntValue(t.High); ok {
				lo := int64(0)
				if t.Low != nil {
					lo, _ = core.ConstIntValue(t.Low)
				}
				if k-lo >= need {
					return "a slice expression of constant length"
				}
			}
		}
		if al, ok := t.X.(*ssa.Alloc); ok {
			if arr, ok := al.Type().(*types.Pointer).Elem().Underlying().(*types.Array); ok && arr.Len() >= need && t.High == nil && t.Low == nil {
				return "slice of a fixed-size array"
			}
		}
	case *ssa.Call:
		if cal := t.Common().StaticCallee(); cal != nil && cal.Pkg != nil {
			switch cal.Pkg.Pkg.Path() + "." + cal.Name() {
			case "strings.Split", "strings.SplitN", "bytes.Split", "bytes.SplitN", "strings.SplitAfter", "strings.SplitAfterN":
				if need <= 1 {
					// Split returns at least one element unless n == 0 / sep and s are both empty
					if len(t.Common().Args) < 3 {
						return "strings.Split returns at least one element"
					}
					if k, ok := core.ConstIntValue(t.Common().Args[2]); ok && k != 0 {
						return "strings.SplitN with n != 0 returns at least one element"
					}
				}
			case "crypto/sha256.Sum256", "crypto/sha1.Sum", "crypto/md5.Sum":
				return "fixed-size digest"
			}
		}
	}
	// regexp (and pcre) match results: a non-nil result of Find*Submatch* has 1+groups elements (twice that for the Index
	// forms), Find*Index has 2; the group count comes from the compiled pattern when the expression is a package variable
	if call, ok := v.(*ssa.Call); ok {
		if cal := call.Common().StaticCallee(); cal != nil && cal.Signature.Recv() != nil && strings.HasPrefix(cal.Name(), "Find") && core.NamedTypeName(derefType(cal.Signature.Recv().Type())) == "Regexp" {
			nonNil := false
			if call.Referrers() != nil {
				for _, r := range *call.Referrers() {
					bo, ok := r.(*ssa.BinOp)
					if !ok || (bo.Op != token.EQL && bo.Op != token.NEQ) || !(core.IsNilConst(bo.X) || core.IsNilConst(bo.Y)) || bo.Referrers() == nil {
						continue
					}
					for _, rr := range *bo.Referrers() {
						if iff, ok := rr.(*ssa.If); ok {
							idx := 1
							if bo.Op == token.NEQ {
								idx = 0
							}
							if core.EdgeDominates(iff.Block(), idx, b) {
								nonNil = true
							}
						}
					}
				}
			}
			if lenLowerBound(fn, base, b) >= 1 {
				nonNil = true
			}
			if nonNil {
				groups := int64(-1)
				for x := range core.BackSlice(call.Common().Args[0]) {
					if g, ok := x.(*ssa.Global); ok {
						if pat := globalRegexpPattern(nil, g); pat != "" {
							if re, err := regexp.Compile(pat); err == nil {
								groups = int64(re.NumSubexp())
							}
						}
					}
				}
				name := cal.Name()
				have := int64(0)
				switch {
				case strings.Contains(name, "All"):
					have = 0
				case strings.Contains(name, "Submatch") && strings.Contains(name, "Index"):
					if groups >= 0 {
						have = 2 * (1 + groups)
					} else {
						have = 2
					}
				case strings.Contains(name, "Submatch"):
					if groups >= 0 {
						have = 1 + groups
					} else {
						have = 1
					}
				case strings.Contains(name, "Index"):
					have = 2
				}
				if have >= need {
					return fmt.Sprintf("non-nil result of (*Regexp).%s: %d elements", name, have)
				}
			}
		}
		// hash.Hash.Sum(nil): at least the digest size (16 for the smallest hash in use)
		if call.Common().IsInvoke() && call.Common().Method.Name() == "Sum" && need <= 16 {
			return "digest returned by hash.Hash.Sum"
		}
	}
	switch t := v.(type) {
	case *ssa.Extract:
		if call, ok := t.Tuple.(*ssa.Call); ok && t.Index == 0 {
			if cal := call.Common().StaticCallee(); cal != nil && cal.Name() == "Peek" && cal.Pkg != nil && cal.Pkg.Pkg.Path() == "bufio" {
				if k, ok := core.ConstIntValue(call.Common().Args[1]); ok && k >= need {
					for _, e := range core.ErrorResults(call) {
						if core.DominatedByNil(e, b, true) {
							return fmt.Sprintf("Peek(%d) returned without error: exactly %d bytes", k, k)
						}
					}
				}
			}
		}
	}
	return ""
}

// lenExcludes: a comparison len(base) == k / != k dominates b on the edge where the length differs from k.
func lenExcludes(fn *ssa.Function, base ssa.Value, b *ssa.BasicBlock, k int64) bool {
	for _, blk := range fn.Blocks {
		iff, ok := blk.Instrs[len(blk.Instrs)-1].(*ssa.If)
		if !ok {
			continue
		}
		bo, ok := iff.Cond.(*ssa.BinOp)
		if !ok || (bo.Op != token.EQL && bo.Op != token.NEQ) {
			continue
		}
		isLen := func(v ssa.Value) bool {
			call, ok := v.(*ssa.Call)
			if !ok {
				return false
			}
			bi, ok := call.Common().Value.(*ssa.Builtin)
			return ok && bi.Name() == "len" && (call.Common().Args[0] == base || sameBaseValue(call.Common().Args[0], base))
		}
		var kv int64
		var isK bool
		switch {
		case isLen(bo.X):
			kv, isK = core.ConstIntValue(bo.Y)
		case isLen(bo.Y):
			kv, isK = core.ConstIntValue(bo.X)
		}
		if !isK || kv != k {
			continue
		}
		idx := 1
		if bo.Op == token.NEQ {
			idx = 0
		}
		if core.EdgeDominates(blk, idx, b) {
			return true
		}
	}
	return false
}

// globalLiteralLen: the length of the slice literal a package variable is initialised with (stored once, in init), or -1.
func globalLiteralLen(g *ssa.Global) int64 {
	stores := 0
	n := int64(-1)
	for _, mem := range g.Pkg.Members {
		fn, ok := mem.(*ssa.Function)
		if !ok {
			continue
		}
		for _, b := range fn.Blocks {
			for _, in := range b.Instrs {
				st, ok := in.(*ssa.Store)
				if !ok || st.Addr != ssa.Value(g) {
					continue
				}
				stores++
				if sl, ok := st.Val.(*ssa.Slice); ok {
					if al, ok := sl.X.(*ssa.Alloc); ok {
						if arr, ok := al.Type().(*types.Pointer).Elem().Underlying().(*types.Array); ok {
							n = arr.Len()
						}
					}
				}
			}
		}
	}
	if stores != 1 {
		return -1
	}
	return n
}

// knownLen: the length of a slice value known by construction, or -1: make with a constant (or len(x)+k) length, a
// literal, a digest, a reslicing x[a:] / x[a:b] of such a value with constant bounds.
func knownLen(v ssa.Value, depth int) int64 {
	if depth > 4 {
		return -1
	}
	switch t := v.(type) {
	case *ssa.MakeSlice:
		if k, ok := core.ConstIntValue(t.Len); ok {
			return k
		}
		if bo, ok := t.Len.(*ssa.BinOp); ok && bo.Op == token.ADD {
			if k, ok := core.ConstIntValue(bo.Y); ok && k >= 0 {
				if call, ok := bo.X.(*ssa.Call); ok {
					if bi, ok := call.Common().Value.(*ssa.Builtin); ok && bi.Name() == "len" {
						return k // at least k
					}
				}
			}
		}
	case *ssa.Slice:
		lo := int64(0)
		if t.Low != nil {
			k, ok := core.ConstIntValue(t.Low)
			if !ok {
				return -1
			}
			lo = k
		}
		if t.High != nil {
			if k, ok := core.ConstIntValue(t.High); ok {
				return k - lo
			}
			return -1
		}
		if al, ok := t.X.(*ssa.Alloc); ok {
			if arr, ok := al.Type().(*types.Pointer).Elem().Underlying().(*types.Array); ok {
				return arr.Len() - lo
			}
		}
		if n := knownLen(t.X, depth+1); n >= 0 {
			return n - lo
		}
	case *ssa.Phi:
		best := int64(-1)
		for i, e := range t.Edges {
			n := knownLen(e, depth+1)
			if n < 0 {
				return -1
			}
			if i == 0 || n < best {
				best = n
			}
		}
		return best
	}
	return -1
}

func ssaFuncsOfPkg(fn *ssa.Function) []*ssa.Function {
	var out []*ssa.Function
	if fn.Pkg == nil {
		return nil
	}
	for _, mem := range fn.Pkg.Members {
		switch m := mem.(type) {
		case *ssa.Function:
			out = append(out, m)
			out = append(out, m.AnonFuncs...)
		case *ssa.Type:
			for _, t := range []types.Type{m.Type(), types.NewPointer(m.Type())} {
				ms := fn.Prog.MethodSets.MethodSet(t)
				for i := 0; i < ms.Len(); i++ {
					if f := fn.Prog.MethodValue(ms.At(i)); f != nil && f.Pkg == fn.Pkg {
						out = append(out, f)
					}
				}
			}
		}
	}
	return out
}

// checkCallTreeKinds (sim.calltree): "never run forever" rests, for non-recursive programs, on the call-tree limit:
// CheckFastlyCallTreeLimit rejects a program whose fully expanded subroutine calls exceed MaxSubroutineCallTree before
// anything runs (each call may double the work of the level below: depth d costs 2^d). The limit is computed by a walk
// over the syntax tree; it bounds the work only if it counts every node kind through which the simulator enters a user
// subroutine. Decided as agreement of two sets extracted on every run: the node kinds of the Process* functions that
// (transitively, within package interpreter, not through another Process*Statement/Expression dispatcher) call
// ProcessSubroutine / ProcessFunctionSubroutine, and the node kinds the limit's walkers collect.
func checkCallTreeKinds(c *core.Ctx) {
	prog := c.Prog
	limit := prog.SSAFunc("interpreter/limitations", "CheckFastlyCallTreeLimit")
	ps := prog.SSAFunc("interpreter", "Interpreter.ProcessSubroutine")
	pfs := prog.SSAFunc("interpreter", "Interpreter.ProcessFunctionSubroutine")
	if limit == nil || ps == nil || pfs == nil {
		c.MissingAnchor("sim.calltree", "limitations.CheckFastlyCallTreeLimit / Interpreter.ProcessSubroutine / ProcessFunctionSubroutine")
		return
	}
	// kinds the limit collects: element types of the slices its walkers append to / type assertions that lead to an append
	counted := map[string]bool{}
	for _, fn := range staticClosure([]*ssa.Function{limit}, map[string]bool{limit.Pkg.Pkg.Path(): true}) {
		for _, b := range fn.Blocks {
			for _, in := range b.Instrs {
				call, ok := in.(*ssa.Call)
				if !ok {
					continue
				}
				if bi, ok := call.Common().Value.(*ssa.Builtin); ok && bi.Name() == "append" {
					if sl, ok := call.Type().Underlying().(*types.Slice); ok {
						if k := astNodeName(sl.Elem()); k != "" {
							counted[k] = true
						}
					}
				}
			}
		}
	}
	// entry kinds: functions of package interpreter with one ast node parameter that call ProcessSubroutine /
	// ProcessFunctionSubroutine directly
	entries := map[string]*ssa.Function{}
	for _, fn := range prog.ModuleFuncs("interpreter") {
		if fn.Pkg == nil || fn.Pkg.Pkg.Path() != interpPkg || fn == ps || fn == pfs {
			continue
		}
		calls := false
		for _, b := range fn.Blocks {
			for _, in := range b.Instrs {
				if cal := core.StaticCallee(in); cal == ps || cal == pfs {
					calls = true
				}
			}
		}
		if !calls {
			continue
		}
		for _, p := range fn.Params {
			if k := astNodeName(p.Type()); k != "" && k != "SubroutineDeclaration" {
				entries[k] = fn
			}
		}
	}
	if len(entries) == 0 || len(counted) == 0 {
		c.MissingAnchor("sim.calltree", fmt.Sprintf("entry kinds (%d) / counted kinds (%d)", len(entries), len(counted)))
		return
	}
	var cs []string
	for k := range counted {
		cs = append(cs, k)
	}
	sort.Strings(cs)
	for k, fn := range entries {
		key := "enters a subroutine|" + k
		if counted[k] {
			c.Discharge("sim.calltree", key, fn.Pos(), "counted by the call-tree limit")
		} else {
			c.Report("sim.calltree", key, fn.Pos(), fmt.Sprintf("%s enters a user subroutine for a %s, but the call-tree limit only counts %s: calls made through that kind of node are not bounded before the program runs, so a chain of subroutines each calling the next one twice does 2^depth calls (depth 40: months) without hitting either the limit or the depth guard", core.FnName(fn), k, strings.Join(cs, ", ")))
		}
	}
}
