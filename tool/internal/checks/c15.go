package checks

import (
	"fmt"
	"go/token"
	"go/types"
	"os"
	"sort"
	"strings"

	"fv/internal/core"

	"golang.org/x/tools/go/ssa"
)

// C15 — formatting keeps every comment (E1 astcov, comment slots).
//
// Writer side: every place where package parser puts comments into a node: SwapLeadingTrailing/SwapLeadingInfix(from, to),
// stores into Meta.{Leading,Trailing,Infix} and into other ast.Comments-typed node fields, and the implicit Leading of a
// node built with `Meta: p.curToken`. Each is resolved to an owner descriptor: "T" (the node kind itself), "T.F" / "T.F[]"
// (a child reached through one field of the node under construction) or "~U" (only the static type is known).
// Reader side: inter-procedural summaries over formatter (+ the ast renderers it calls statically): which comment slots
// of which parameter-rooted access path a function reads, instantiated at call sites.
// Obligation: every (owner, slot) the parser can fill is read by the formatter.
func init() {
	register(&Check{ID: "C15", NeedSSA: true, Run: runC15})
}

type nodeDesc struct {
	root   ssa.Value // *ssa.Parameter, *ssa.Alloc or nil (type-only)
	narrow string    // dynamic node kind established by a type assertion / switch arm on an interface-typed root
	path   string    // "", ".F", ".F[]", ".F.G"
	typ    string    // static node type name at the end of the path ("" unknown / interface name prefixed by ~)
	meta   bool      // root is a *ast.Meta parameter: the owner is "the node owning this meta"
}

func (d nodeDesc) depth() int { return strings.Count(d.path, ".") }

type slotEntry struct {
	param int
	path  string
	slot  string
}

type cmtAnalysis struct {
	prog      *core.Program
	u         *astUniverse
	summaries map[*ssa.Function]map[slotEntry]bool
	funcs     []*ssa.Function
}

func astNodeName(t types.Type) string {
	n := core.NamedTypePkgName(t)
	if !strings.HasPrefix(n, astPkgPath+".") {
		return ""
	}
	u := types.Unalias(t)
	if pt, ok := u.(*types.Pointer); ok {
		u = types.Unalias(pt.Elem())
	}
	if _, isStruct := u.Underlying().(*types.Struct); !isStruct {
		return ""
	}
	return strings.TrimPrefix(n, astPkgPath+".")
}

func isCommentsType(t types.Type) bool {
	return core.NamedTypePkgName(t) == astPkgPath+".Comments"
}

// armTypeFor: the node kind established for interface value v on every path into block b
// (b is dominated by the ok-edge of `v.(*ast.T)`), or "".
func armTypeFor(v ssa.Value, b *ssa.BasicBlock) string {
	refs := v.Referrers()
	if refs == nil {
		return ""
	}
	for _, r := range *refs {
		ta, ok := r.(*ssa.TypeAssert)
		if !ok || ta.X != v {
			continue
		}
		n := astNodeName(ta.AssertedType)
		if n == "" {
			continue
		}
		if !ta.CommaOk {
			if ta.Block().Dominates(b) {
				return n
			}
			continue
		}
		if ta.Referrers() == nil {
			continue
		}
		for _, r2 := range *ta.Referrers() {
			ex, ok := r2.(*ssa.Extract)
			if !ok || ex.Index != 1 || ex.Referrers() == nil {
				continue
			}
			for _, r3 := range *ex.Referrers() {
				if iff, ok := r3.(*ssa.If); ok && core.EdgeDominates(iff.Block(), 0, b) {
					return n
				}
			}
		}
	}
	return ""
}

func (a *cmtAnalysis) descsNode(v ssa.Value, at *ssa.BasicBlock, seen map[ssa.Value]bool) []nodeDesc {
	if v == nil || seen[v] {
		return nil
	}
	seen[v] = true
	defer delete(seen, v)
	switch t := v.(type) {
	case *ssa.Parameter:
		if n := astNodeName(t.Type()); n != "" && a.u.nodes[n] != nil {
			return []nodeDesc{{root: t, typ: n}}
		}
		if _, ok := t.Type().Underlying().(*types.Interface); ok {
			d := nodeDesc{root: t, typ: "~" + core.NamedTypeName(t.Type())}
			if at != nil {
				if n := armTypeFor(t, at); n != "" {
					d.narrow, d.typ = n, n
				}
			}
			return []nodeDesc{d}
		}
		return nil
	case *ssa.Alloc:
		if n := astNodeName(t.Type()); n != "" && a.u.nodes[n] != nil {
			return []nodeDesc{{root: t, typ: n}}
		}
		// a local cell: follow what is stored
		var out []nodeDesc
		if refs := t.Referrers(); refs != nil {
			for _, r := range *refs {
				if st, ok := r.(*ssa.Store); ok && st.Addr == ssa.Value(t) {
					out = append(out, a.descsNode(st.Val, st.Block(), seen)...)
				}
			}
		}
		return out
	case *ssa.FreeVar:
		return []nodeDesc{{typ: typeOnly(t.Type())}}
	case *ssa.TypeAssert:
		ds := a.descsNode(t.X, at, seen)
		n := astNodeName(t.AssertedType)
		for i := range ds {
			if n != "" && ds[i].root != nil {
				// the dynamic kind is now known: re-root the descriptor at that kind
				ds[i].narrow = n
				ds[i].path = ""
			}
			if n != "" {
				ds[i].typ = n
			}
		}
		return ds
	case *ssa.Extract:
		if ta, ok := t.Tuple.(*ssa.TypeAssert); ok && t.Index == 0 {
			return a.descsNode(ta, at, seen)
		}
		return a.descsStored(v)
	case *ssa.MakeInterface:
		return a.descsNode(t.X, at, seen)
	case *ssa.ChangeInterface:
		return a.descsNode(t.X, at, seen)
	case *ssa.ChangeType:
		return a.descsNode(t.X, at, seen)
	case *ssa.Phi:
		var out []nodeDesc
		for i, e := range t.Edges {
			pred := t.Block().Preds[i]
			out = append(out, a.descsNode(e, pred, seen)...)
		}
		return out
	case *ssa.UnOp:
		if t.Op != token.MUL {
			return nil
		}
		switch x := t.X.(type) {
		case *ssa.FieldAddr:
			f := core.FieldOf(x)
			if f == nil {
				return nil
			}
			return a.extend(a.descsNode(x.X, at, seen), "."+f.Name(), f.Type())
		case *ssa.IndexAddr:
			// element of a slice-typed parameter: type-rooted at the element kind
			if p, ok := x.X.(*ssa.Parameter); ok {
				if sl, ok := p.Type().Underlying().(*types.Slice); ok {
					if n := astNodeName(sl.Elem()); n != "" {
						return []nodeDesc{{root: p, narrow: n, typ: n}}
					}
				}
			}
			// element of a slice loaded from a field
			if ld, ok := x.X.(*ssa.UnOp); ok && ld.Op == token.MUL {
				if fa, ok := ld.X.(*ssa.FieldAddr); ok {
					if f := core.FieldOf(fa); f != nil {
						et := f.Type()
						if sl, ok := et.Underlying().(*types.Slice); ok {
							et = sl.Elem()
						}
						return a.extend(a.descsNode(fa.X, at, seen), "."+f.Name()+"[]", et)
					}
				}
			}
			return []nodeDesc{{typ: typeOnly(t.Type())}}
		case *ssa.Alloc:
			return a.descsNode(x, at, seen)
		case *ssa.FreeVar:
			return []nodeDesc{{typ: typeOnly(t.Type())}}
		}
		return []nodeDesc{{typ: typeOnly(t.Type())}}
	case *ssa.Field:
		f := core.FieldOf(t)
		if f == nil {
			return nil
		}
		return a.extend(a.descsNode(t.X, at, seen), "."+f.Name(), f.Type())
	case *ssa.Call:
		return a.descsStored(v)
	}
	return []nodeDesc{{typ: typeOnly(v.Type())}}
}

func typeOnly(t types.Type) string {
	if n := astNodeName(t); n != "" {
		return n
	}
	return "~" + core.NamedTypeName(t)
}

func (a *cmtAnalysis) extend(ds []nodeDesc, step string, ft types.Type) []nodeDesc {
	var out []nodeDesc
	for _, d := range ds {
		nd := d
		nd.typ = typeOnly(ft)
		if d.root == nil || d.depth() >= 3 || d.meta {
			nd.root, nd.path, nd.narrow = nil, "", ""
		} else {
			nd.path = d.path + step
		}
		out = append(out, nd)
	}
	return out
}

// descsStored: a value produced by a call: where is it stored? field of a node under construction => "T.F".
func (a *cmtAnalysis) descsStored(v ssa.Value) []nodeDesc {
	var out []nodeDesc
	vals := map[ssa.Value]bool{v: true}
	if refs := v.Referrers(); refs != nil {
		for _, r := range *refs {
			if mi, ok := r.(*ssa.MakeInterface); ok {
				vals[mi] = true
			}
			if ex, ok := r.(*ssa.Extract); ok {
				vals[ex] = true
				if ex.Referrers() != nil {
					for _, r2 := range *ex.Referrers() {
						if mi, ok := r2.(*ssa.MakeInterface); ok {
							vals[mi] = true
						}
					}
				}
			}
		}
	}
	for x := range vals {
		if x.Referrers() == nil {
			continue
		}
		for _, r := range *x.Referrers() {
			st, ok := r.(*ssa.Store)
			if !ok || st.Val != x {
				continue
			}
			switch ad := st.Addr.(type) {
			case *ssa.FieldAddr:
				if f := core.FieldOf(ad); f != nil {
					out = append(out, a.extend(a.descsNode(ad.X, st.Block(), map[ssa.Value]bool{}), "."+f.Name(), f.Type())...)
				}
			case *ssa.IndexAddr:
				// element of the variadic slice of an append whose result is stored into a field: T.F[]
				arr, ok := ad.X.(*ssa.Alloc)
				if !ok || arr.Referrers() == nil {
					continue
				}
				for _, r2 := range *arr.Referrers() {
					sl, ok := r2.(*ssa.Slice)
					if !ok || sl.Referrers() == nil {
						continue
					}
					for _, r3 := range *sl.Referrers() {
						call, ok := r3.(*ssa.Call)
						if !ok {
							continue
						}
						if bi, ok := call.Common().Value.(*ssa.Builtin); !ok || bi.Name() != "append" || call.Referrers() == nil {
							continue
						}
						for _, r4 := range *call.Referrers() {
							st2, ok := r4.(*ssa.Store)
							if !ok {
								continue
							}
							if fa, ok := st2.Addr.(*ssa.FieldAddr); ok {
								if f := core.FieldOf(fa); f != nil {
									et := f.Type()
									if slt, ok := et.Underlying().(*types.Slice); ok {
										et = slt.Elem()
									}
									out = append(out, a.extend(a.descsNode(fa.X, st2.Block(), map[ssa.Value]bool{}), "."+f.Name()+"[]", et)...)
								}
							}
						}
					}
				}
			}
		}
	}
	if len(out) == 0 {
		out = append(out, nodeDesc{typ: typeOnly(v.Type())})
	}
	return out
}

// descsMeta: owners of a *ast.Meta value.
func (a *cmtAnalysis) descsMeta(m ssa.Value, at *ssa.BasicBlock, seen map[ssa.Value]bool) []nodeDesc {
	if m == nil || seen[m] {
		return nil
	}
	seen[m] = true
	defer delete(seen, m)
	switch t := m.(type) {
	case *ssa.Parameter:
		return []nodeDesc{{root: t, meta: true, typ: "~Meta"}}
	case *ssa.Phi:
		var out []nodeDesc
		for i, e := range t.Edges {
			out = append(out, a.descsMeta(e, t.Block().Preds[i], seen)...)
		}
		return out
	case *ssa.UnOp:
		if t.Op != token.MUL {
			return nil
		}
		if fa, ok := t.X.(*ssa.FieldAddr); ok {
			f := core.FieldOf(fa)
			if f != nil && f.Name() == "Meta" && f.Embedded() {
				return a.descsNode(fa.X, at, map[ssa.Value]bool{})
			}
			if f != nil && core.FieldOwner(fa) == core.ModPath+"/parser.Parser" {
				return []nodeDesc{{typ: "token:" + f.Name()}}
			}
		}
		if al, ok := t.X.(*ssa.Alloc); ok {
			var out []nodeDesc
			if refs := al.Referrers(); refs != nil {
				for _, r := range *refs {
					if st, ok := r.(*ssa.Store); ok && st.Addr == ssa.Value(al) {
						out = append(out, a.descsMeta(st.Val, st.Block(), seen)...)
					}
				}
			}
			return out
		}
		return []nodeDesc{{typ: "~Meta"}}
	case *ssa.Call:
		cc := t.Common()
		if cc.IsInvoke() && cc.Method.Name() == "GetMeta" {
			ds := a.descsNode(cc.Value, t.Block(), map[ssa.Value]bool{})
			// a generic read on an interface value covers every kind the function asserts that value to
			if refs := cc.Value.Referrers(); refs != nil {
				for _, r := range *refs {
					if ta, ok := r.(*ssa.TypeAssert); ok && ta.X == cc.Value {
						if n := astNodeName(ta.AssertedType); n != "" {
							for _, d := range ds {
								if d.root != nil {
									ds = append(ds, nodeDesc{root: d.root, narrow: n, typ: n})
									break
								}
							}
						}
					}
				}
			}
			return ds
		}
		if cal := cc.StaticCallee(); cal != nil && cal.Name() == "GetMeta" && len(cc.Args) == 1 {
			return a.descsNode(cc.Args[0], t.Block(), map[ssa.Value]bool{})
		}
		if cal := cc.StaticCallee(); cal != nil && (cal.Name() == "clearComments" || cal.Name() == "New" || cal.Name() == "Clone" || cal.Name() == "CloneWithoutComments") {
			return []nodeDesc{{typ: "fresh"}}
		}
		return []nodeDesc{{typ: "~Meta"}}
	}
	return []nodeDesc{{typ: "~Meta"}}
}

func ownerName(d nodeDesc) string {
	if d.root == nil {
		return "~" + strings.TrimPrefix(d.typ, "~")
	}
	root := ""
	switch {
	case d.narrow != "":
		root = d.narrow
	case d.meta:
		root = "~Meta"
	default:
		if n := astNodeName(d.root.Type()); n != "" {
			root = n
		} else {
			root = "~" + core.NamedTypeName(d.root.Type())
		}
	}
	return root + d.path
}

// commentSlots of a node kind: the three Meta slots plus every other field of type ast.Comments.
func (a *cmtAnalysis) slotOfField(fa *ssa.FieldAddr) (slot string, isMeta bool, ok bool) {
	f := core.FieldOf(fa)
	if f == nil || !isCommentsType(f.Type()) {
		return "", false, false
	}
	if core.FieldOwner(fa) == astPkgPath+".Meta" {
		return f.Name(), true, true
	}
	if n := strings.TrimPrefix(core.FieldOwner(fa), astPkgPath+"."); a.u.nodes[n] != nil {
		return f.Name(), false, true
	}
	return "", false, false
}

// computeReaderSummaries: for every function, which (param, path, slot) it reads.
func (a *cmtAnalysis) computeReaderSummaries() {
	a.summaries = map[*ssa.Function]map[slotEntry]bool{}
	paramIdx := func(fn *ssa.Function, p ssa.Value) int {
		for i, q := range fn.Params {
			if ssa.Value(q) == p {
				return i
			}
		}
		return -1
	}
	add := func(fn *ssa.Function, d nodeDesc, slot string) bool {
		if d.root == nil {
			return false
		}
		i := paramIdx(fn, d.root)
		if i < 0 {
			return false
		}
		path := d.path
		if d.narrow != "" {
			path = "!" + d.narrow + path
		}
		e := slotEntry{i, path, slot}
		if a.summaries[fn] == nil {
			a.summaries[fn] = map[slotEntry]bool{}
		}
		if a.summaries[fn][e] {
			return false
		}
		a.summaries[fn][e] = true
		return true
	}
	for changed := true; changed; {
		changed = false
		for _, fn := range a.funcs {
			for _, b := range fn.Blocks {
				for _, in := range b.Instrs {
					for _, ds := range a.instrReads(fn, b, in) {
						if add(fn, ds.d, ds.slot) {
							changed = true
						}
					}
				}
			}
		}
	}
}

type descSlot struct {
	d    nodeDesc
	slot string
}

// instrReads: the (node description, slot) pairs instruction `in` reads, directly or through the summary of its callee.
func (a *cmtAnalysis) instrReads(fn *ssa.Function, b *ssa.BasicBlock, in ssa.Instruction) []descSlot {
	var out []descSlot
	switch t := in.(type) {
	case *ssa.FieldAddr:
		slot, isMeta, ok := a.slotOfField(t)
		if !ok || !readNotOnlyStored(t) {
			return nil
		}
		var ds []nodeDesc
		if isMeta {
			ds = a.descsMeta(t.X, b, map[ssa.Value]bool{})
		} else {
			ds = a.descsNode(t.X, b, map[ssa.Value]bool{})
		}
		for _, d := range ds {
			out = append(out, descSlot{d, slot})
		}
	case ssa.CallInstruction:
		cal := t.Common().StaticCallee()
		if cal == nil || a.summaries[cal] == nil {
			return nil
		}
		for e := range a.summaries[cal] {
			if e.param >= len(t.Common().Args) {
				continue
			}
			arg := t.Common().Args[e.param]
			var ds []nodeDesc
			if core.NamedTypePkgName(cal.Params[e.param].Type()) == astPkgPath+".Meta" {
				ds = a.descsMeta(arg, b, map[ssa.Value]bool{})
			} else {
				ds = a.descsNode(arg, b, map[ssa.Value]bool{})
			}
			for _, d := range ds {
				if d.root == nil {
					continue
				}
				nd := d
				p := e.path
				if strings.HasPrefix(p, "!") {
					// callee narrowed its interface parameter to a kind
					rest := p[1:]
					kind := rest
					if i := strings.Index(rest, "."); i >= 0 {
						kind, p = rest[:i], rest[i:]
					} else {
						p = ""
					}
					if nd.path == "" {
						nd.narrow = kind
					}
				}
				if strings.Count(nd.path+p, ".") > 3 {
					continue
				}
				nd.path += p
				out = append(out, descSlot{nd, e.slot})
			}
		}
	}
	return out
}

// entryOf turns a description rooted at a parameter of fn into a summary entry.
func (a *cmtAnalysis) entryOf(fn *ssa.Function, d nodeDesc, slot string) (slotEntry, bool) {
	if d.root == nil {
		return slotEntry{}, false
	}
	for i, q := range fn.Params {
		if ssa.Value(q) == d.root {
			path := d.path
			if d.narrow != "" {
				path = "!" + d.narrow + path
			}
			return slotEntry{i, path, slot}, true
		}
	}
	return slotEntry{}, false
}

// configDependentMisses: summary entries of fn whose read is not guaranteed under every formatter configuration.
// guaranteed(b) is the least fixpoint of: a block that reads the slot → true; a branch on a formatter option → both
// successors guaranteed (the configuration chooses adversarially); any other branch → some successor guaranteed (the
// data decides, e.g. `if len(comments) > 0`); return → false.
func (a *cmtAnalysis) configDependentMisses(fn *ssa.Function) []slotEntry {
	sum := a.summaries[fn]
	if len(sum) == 0 || len(fn.Blocks) == 0 {
		return nil
	}
	reads := map[slotEntry]map[*ssa.BasicBlock]bool{}
	for _, b := range fn.Blocks {
		for _, in := range b.Instrs {
			for _, ds := range a.instrReads(fn, b, in) {
				if e, ok := a.entryOf(fn, ds.d, ds.slot); ok {
					if reads[e] == nil {
						reads[e] = map[*ssa.BasicBlock]bool{}
					}
					reads[e][b] = true
				}
			}
		}
	}
	var out []slotEntry
	for e, rb := range reads {
		if !guaranteedUnderConfig(fn, rb) {
			out = append(out, e)
		}
	}
	return out
}

// guaranteedUnderConfig: see configDependentMisses. Functions without any option-dependent branch are not judged
// (guaranteed by definition): only the interplay with the configuration is decided here.
func guaranteedUnderConfig(fn *ssa.Function, rb map[*ssa.BasicBlock]bool) bool {
	isConfigCond := func(b *ssa.BasicBlock) bool {
		cond := core.BranchCond(b)
		if cond == nil {
			return false
		}
		for x := range core.BackSlice(cond) {
			if f := core.FieldOf(x); f != nil && strings.HasSuffix(core.FieldOwner(x), "/config.FormatConfig") {
				return true
			}
		}
		return false
	}
	configBlocks := map[*ssa.BasicBlock]bool{}
	any := false
	for _, b := range fn.Blocks {
		if isConfigCond(b) {
			configBlocks[b] = true
			any = true
		}
	}
	if !any {
		return true
	}
	g := map[*ssa.BasicBlock]bool{}
	for changed := true; changed; {
		changed = false
		for _, b := range fn.Blocks {
			if g[b] {
				continue
			}
			v := false
			switch {
			case rb[b]:
				v = true
			case len(b.Succs) == 0:
				v = false
			case len(b.Succs) == 2 && configBlocks[b]:
				v = g[b.Succs[0]] && g[b.Succs[1]]
			default:
				for _, s := range b.Succs {
					if g[s] {
						v = true
					}
				}
			}
			if v {
				g[b] = true
				changed = true
			}
		}
	}
	return g[fn.Blocks[0]]
}

func readNotOnlyStored(fa *ssa.FieldAddr) bool {
	if fa.Referrers() == nil {
		return false
	}
	for _, r := range *fa.Referrers() {
		switch t := r.(type) {
		case *ssa.Store:
			if t.Addr != ssa.Value(fa) {
				return true
			}
		case *ssa.DebugRef:
		case *ssa.UnOp:
			if hasRealUse(t) {
				return true
			}
		default:
			return true
		}
	}
	return false
}

type cmtWrite struct {
	rootIsAlloc bool
	kind        string // kind of the root alloc
	rest        string // path below the root
	owner       string
	slot        string
	pos         token.Pos
	fn          *ssa.Function
	how         string
}

func (a *cmtAnalysis) writers() []cmtWrite {
	var out []cmtWrite
	for _, fn := range a.prog.ModuleFuncs("parser") {
		if a.prog.IsCanary(fn.Pos()) {
			continue
		}
		for _, b := range fn.Blocks {
			for _, in := range b.Instrs {
				switch t := in.(type) {
				case *ssa.Call:
					cal := t.Common().StaticCallee()
					if cal == nil || cal.Pkg == nil || cal.Pkg.Pkg.Path() != core.ModPath+"/parser" {
						continue
					}
					slot := ""
					switch cal.Name() {
					case "SwapLeadingTrailing":
						slot = "Trailing"
					case "SwapLeadingInfix":
						slot = "Infix"
					default:
						continue
					}
					for _, d := range a.descsMeta(t.Common().Args[1], b, map[ssa.Value]bool{}) {
						w := cmtWrite{owner: ownerName(d), slot: slot, pos: in.Pos(), fn: fn, how: cal.Name()}
						if al, ok := d.root.(*ssa.Alloc); ok && returnsAlloc(fn, al) {
							w.rootIsAlloc, w.kind, w.rest = true, astNodeName(al.Type()), d.path
						}
						out = append(out, w)
					}
				case *ssa.Store:
					fa, ok := t.Addr.(*ssa.FieldAddr)
					if !ok {
						continue
					}
					// implicit Leading: node built with Meta taken from the token window
					if f := core.FieldOf(fa); f != nil && f.Name() == "Meta" && f.Embedded() {
						if n := astNodeName(fa.X.Type()); n != "" && a.u.nodes[n] != nil {
							for _, d := range a.descsMeta(t.Val, b, map[ssa.Value]bool{}) {
								if strings.HasPrefix(d.typ, "token:") {
									if tokenLeadingDrained(fn, t, strings.TrimPrefix(d.typ, "token:")) {
										continue
									}
									w := cmtWrite{owner: n, slot: "Leading", pos: in.Pos(), fn: fn, how: "Meta: p." + strings.TrimPrefix(d.typ, "token:")}
									if al, ok := fa.X.(*ssa.Alloc); ok && returnsAlloc(fn, al) {
										w.rootIsAlloc, w.kind = true, n
									}
									out = append(out, w)
								}
							}
						}
						continue
					}
					slot, isMeta, ok := a.slotOfField(fa)
					if !ok || isEmptyComments(t.Val) {
						continue
					}
					var ds []nodeDesc
					if isMeta {
						ds = a.descsMeta(fa.X, b, map[ssa.Value]bool{})
					} else {
						ds = a.descsNode(fa.X, b, map[ssa.Value]bool{})
					}
					for _, d := range ds {
						if d.meta || strings.HasPrefix(d.typ, "token:") || d.typ == "fresh" {
							continue // helper bodies (SwapLeading*, clearComments) and moves between tokens
						}
						w := cmtWrite{owner: ownerName(d), slot: slot, pos: in.Pos(), fn: fn, how: "store"}
						if al, ok := d.root.(*ssa.Alloc); ok && returnsAlloc(fn, al) {
							w.rootIsAlloc, w.kind, w.rest = true, astNodeName(al.Type()), d.path
						}
						out = append(out, w)
					}
				}
			}
		}
	}
	return out
}

// returnContexts: for parser functions that return the node they allocate, the places callers store that
// result (field of a node under construction): callee -> owner strings like "IfStatement.Another[]".
func (a *cmtAnalysis) returnContexts() map[*ssa.Function][]string {
	out := map[*ssa.Function][]string{}
	for _, fn := range a.prog.ModuleFuncs("parser") {
		if a.prog.IsCanary(fn.Pos()) {
			continue
		}
		for _, b := range fn.Blocks {
			for _, in := range b.Instrs {
				call, ok := in.(*ssa.Call)
				if !ok {
					continue
				}
				cal := call.Common().StaticCallee()
				if cal == nil || cal.Pkg == nil || cal.Pkg.Pkg.Path() != core.ModPath+"/parser" {
					continue
				}
				for _, d := range a.descsStored(call) {
					if d.root != nil && d.path != "" {
						out[cal] = append(out[cal], ownerName(d))
					}
				}
			}
		}
	}
	return out
}

func returnsAlloc(fn *ssa.Function, al *ssa.Alloc) bool {
	for _, rs := range core.ReturnSites(fn) {
		for _, r := range rs.Results {
			if r == ssa.Value(al) {
				return true
			}
			if mi, ok := r.(*ssa.MakeInterface); ok && mi.X == ssa.Value(al) {
				return true
			}
		}
	}
	return false
}

func isEmptyComments(v ssa.Value) bool {
	// ast.Comments{} compiles to a slice of a zero-length array
	if sl, ok := v.(*ssa.Slice); ok {
		if al, ok := sl.X.(*ssa.Alloc); ok {
			if pt, ok := al.Type().Underlying().(*types.Pointer); ok {
				if at, ok := pt.Elem().Underlying().(*types.Array); ok && at.Len() == 0 {
					return true
				}
			}
		}
	}
	if core.IsNilConst(v) {
		return true
	}
	if ct, ok := v.(*ssa.ChangeType); ok {
		return isEmptyComments(ct.X)
	}
	return false
}

func runC15(c *core.Ctx) {
	c.Explanation = "Comment-slot coverage between parser (writer) and formatter (reader), decided on SSA: every site where the parser places comments — SwapLeadingTrailing/SwapLeadingInfix, stores to Meta.Leading/Trailing/Infix or to other ast.Comments fields of a node, and the implicit Leading of a node built from the token window — is resolved to an owner (node kind, or child reached through one field of the node under construction) and a slot. The formatter side is an inter-procedural summary (fixpoint over formatter and the ast renderers it calls statically) of which slots of which parameter-rooted access paths are read, with type-switch arms narrowing interface-typed roots. Obligation: every (owner, slot) the parser fills is read by some printer; a slot nobody reads loses every comment written there (including #FASTLY macros and falco-ignore annotations). Also formatComment emits every element of its argument. Parser side (cmt.token): every p.NextToken / successful p.ExpectPeek in a Parser method is an obligation - before the window advances again or the method returns without error, the comments in front of the new current token are moved by a Swap*(p.curToken, …), were moved while it was the peek token, are read explicitly, or the token becomes the Meta of a node / the start of a sub-parser; a return hands the obligation to the static callers. cmt.overwrite: a slot is not assigned twice on one path without a read between; cmt.dropnode: a parsed node that carries comments is stored into the tree; cmt.destructure: a printer that flattens an expression node reads its slots on every path through the flattening call (must-summaries of the callees). cmt.order: the Swap* helpers append the moved comments behind the content of the destination slot. cmt.once: no printer reads a slot itself after handing the node to a printer that reads the same slot on every path (printed twice)."
	c.NotCovered = []string{"relative order of comments as a value property", "that the printed position re-parses into the same slot", "comments of tokens the parser consumes without transferring them (parser-side typestate, not attempted)", "owners resolved only by static type (~U) are matched weakly: any reader of that type and slot"}
	prog := c.Prog
	u := newAstUniverse(prog)
	if u == nil {
		c.MissingAnchor("cmt", "package ast")
		return
	}
	a := &cmtAnalysis{prog: prog, u: u}
	// reader function set: formatter + static closure into ast, including synthetic wrappers
	seen := map[*ssa.Function]bool{}
	var work []*ssa.Function
	work = append(work, prog.ModuleFuncs("formatter")...)
	for len(work) > 0 {
		f := work[len(work)-1]
		work = work[:len(work)-1]
		if f == nil || seen[f] || f.Blocks == nil {
			continue
		}
		seen[f] = true
		a.funcs = append(a.funcs, f)
		for _, b := range f.Blocks {
			for _, in := range b.Instrs {
				if cal := core.StaticCallee(in); cal != nil && cal.Pkg != nil {
					if p := cal.Pkg.Pkg.Path(); p == core.ModPath+"/formatter" || p == astPkgPath {
						work = append(work, cal)
					}
				} else if cal != nil && cal.Pkg == nil && cal.Blocks != nil {
					work = append(work, cal) // synthetic wrapper of a promoted method
				}
			}
		}
		work = append(work, f.AnonFuncs...)
	}
	sort.Slice(a.funcs, func(i, j int) bool { return a.funcs[i].String() < a.funcs[j].String() })
	a.computeReaderSummaries()

	// reader set, from formatter functions only
	readers := map[string]token.Pos{}
	for fn, sum := range a.summaries {
		if fn.Pkg == nil || fn.Pkg.Pkg.Path() != core.ModPath+"/formatter" {
			continue
		}
		c.Func(core.FnName(fn))
		for e := range sum {
			p := fn.Params[e.param]
			root := ""
			path := e.path
			if strings.HasPrefix(path, "!") {
				rest := path[1:]
				if i := strings.Index(rest, "."); i >= 0 {
					root, path = rest[:i], rest[i:]
				} else {
					root, path = rest, ""
				}
			} else if n := astNodeName(p.Type()); n != "" {
				root = n
			} else {
				root = "~" + core.NamedTypeName(p.Type())
			}
			readers[root+path+"|"+e.slot] = fn.Pos()
		}
	}
	exactReaders := map[string]bool{}
	for k := range readers {
		exactReaders[k] = true
	}
	// re-root reader owners at every prefix whose static type is a concrete node kind:
	// AclDeclaration.CIDRs[].Mask also reads AclCidr.Mask
	stepType := func(kind, step string) string {
		fname := strings.TrimSuffix(step, "[]")
		for _, f := range u.fields[kind] {
			if f.Name() == fname {
				t := f.Type()
				if sl, ok := t.Underlying().(*types.Slice); ok && strings.HasSuffix(step, "[]") {
					t = sl.Elem()
				}
				return astNodeName(t)
			}
		}
		return ""
	}
	for k, pos := range readers {
		owner, slot, _ := strings.Cut(k, "|")
		parts := strings.Split(owner, ".")
		kind := parts[0]
		for i := 1; i < len(parts) && kind != "" && u.nodes[kind] != nil; i++ {
			kind = stepType(kind, parts[i])
			if kind == "" {
				break
			}
			nk := kind
			if i+1 < len(parts) {
				nk += "." + strings.Join(parts[i+1:], ".")
			}
			if _, ok := readers[nk+"|"+slot]; !ok {
				readers[nk+"|"+slot] = pos
			}
		}
	}
	var rl []string
	for k := range readers {
		rl = append(rl, k)
	}
	sort.Strings(rl)
	c.Extra("reader_slots", len(rl))
	c.Extra("reader_slot_samples", rl[:min(len(rl), 40)])

	// generic coverage: ~Statement / ~Expression readers cover every kind dispatched there
	stmtArms, _ := typeSwitchArms(prog, "formatter", "Formatter.Format", "Formatter.formatStatement")
	exprArms, _ := typeSwitchArms(prog, "formatter", "Formatter.formatExpression")
	// static type of child fields
	fieldType := func(owner string) string {
		parts := strings.SplitN(owner, ".", 2)
		if len(parts) != 2 || u.nodes[parts[0]] == nil {
			return ""
		}
		fname := strings.TrimSuffix(parts[1], "[]")
		for _, f := range u.fields[parts[0]] {
			if f.Name() == fname {
				t := f.Type()
				if sl, ok := t.Underlying().(*types.Slice); ok && strings.HasSuffix(parts[1], "[]") {
					t = sl.Elem()
				}
				return typeOnly(t)
			}
		}
		return ""
	}
	covered := func(owner, slot string) (string, bool) {
		if _, ok := readers[owner+"|"+slot]; ok {
			return "read as " + owner, true
		}
		if !strings.Contains(owner, ".") && !strings.HasPrefix(owner, "~") {
			if _, arm := stmtArms[owner]; arm && u.stmt[owner] {
				if _, ok := readers["~Statement|"+slot]; ok {
					return "generic statement printer reads " + slot + " of every dispatched statement", true
				}
			}
			if _, arm := exprArms[owner]; arm && u.expr[owner] {
				if _, ok := readers["~Expression|"+slot]; ok {
					return "formatExpression reads " + slot + " of every expression", true
				}
			}
		}
		if strings.HasPrefix(owner, "~") {
			// weak: any reader whose owner has that static type
			tn := strings.TrimPrefix(owner, "~")
			for k := range readers {
				ko, ks, _ := strings.Cut(k, "|")
				if ks != slot {
					continue
				}
				if ko == tn || ko == owner || fieldType(ko) == tn || fieldType(ko) == owner {
					return "weak (static type only): read as " + ko, true
				}
				if (tn == "Expression" && u.expr[ko]) || (tn == "Statement" && u.stmt[ko]) {
					return "weak (static type only): read as " + ko, true
				}
			}
		}
		return "", false
	}

	// Nodes that share their *Meta with a child built from the same token (one reason each): the owner's slots are the child's.
	metaAliases := map[string]struct{ child, why string }{
		"SubroutineParameter":                {"SubroutineParameter.Name", "ParseSubroutineDeclaration builds the parameter with Meta: p.curToken right after ParseIdent() built Name from the same token: one *Meta is shared, Name is printed with its comments"},
		"SubroutineDeclaration.Parameters[]": {"SubroutineDeclaration.Parameters[].Name", "same shared *Meta, addressed through the declaration"},
	}
	ws := a.writers()
	sort.Slice(ws, func(i, j int) bool { return ws[i].pos < ws[j].pos })
	if os.Getenv("FV_C15_OWNERS") != "" {
		for _, w := range ws {
			fmt.Fprintf(os.Stderr, "OWNER %s|%s  (%s)\n", w.owner, w.slot, core.FnName(w.fn))
		}
	}
	seenKey := map[string]bool{}
	weak := 0
	for _, w := range ws {
		c.CallSite()
		key := w.owner + "|" + w.slot
		how, ok := covered(w.owner, w.slot)
		if al, has := metaAliases[w.owner]; !ok && has {
			if h2, ok2 := covered(al.child, w.slot); ok2 {
				how, ok = "alias of "+al.child+" ("+al.why+"): "+h2, true
			}
		}
		if strings.HasPrefix(how, "weak") {
			weak++
		}
		if ok {
			c.Discharge("cmt.slots", key, w.pos, how)
			continue
		}
		if seenKey[key] {
			c.Instance("cmt.slots")
			continue
		}
		seenKey[key] = true
		c.Report("cmt.slots", key, w.pos, fmt.Sprintf("the parser puts comments into %s of %s (%s in %s) but no printer reads that slot: a comment written there disappears from the formatted output", w.slot, w.owner, w.how, core.FnName(w.fn)))
	}
	// derived writers: the node a parser function returns is stored by its caller into a field of the same kind
	// (IfStatement inside IfStatement.Another[]): the type-rooted match would be masked by the outer printer, so the
	// exact access path must be read as well.
	ctxs := a.returnContexts()
	derived := 0
	for _, w := range ws {
		if !w.rootIsAlloc {
			continue
		}
		for _, ctx := range ctxs[w.fn] {
			ctxKind := strings.SplitN(ctx, ".", 2)[0]
			if ctxKind != w.kind {
				continue // only self-nesting contexts can be masked
			}
			derived++
			key := ctx + w.rest + "|" + w.slot
			if exactReaders[key] {
				c.Discharge("cmt.slots", key, w.pos, "exact access path read (nested occurrence of the same kind)")
			} else if !seenKey[key] {
				seenKey[key] = true
				c.Report("cmt.slots", key, w.pos, fmt.Sprintf("the parser puts comments into %s of %s%s (the node %s returns is stored there) but no printer reads that slot on this access path — only on the outer node of the same kind", w.slot, ctx, w.rest, core.FnName(w.fn)))
			}
		}
	}
	c.Extra("derived_nested_writer_sites", derived)
	c.Extra("writer_sites", len(ws))
	c.Extra("weakly_matched_writer_sites", weak)
	c.Floor("cmt.slots", 150)

	// ---- cmt.config: a slot a printer reads is read under every formatter configuration
	nCfg := 0
	for _, fn := range a.funcs {
		if fn.Pkg == nil || fn.Pkg.Pkg.Path() != core.ModPath+"/formatter" {
			continue
		}
		misses := a.configDependentMisses(fn)
		if a.summaries[fn] != nil {
			nCfg++
		}
		sort.Slice(misses, func(i, j int) bool {
			return fmt.Sprint(misses[i]) < fmt.Sprint(misses[j])
		})
		for _, e := range misses {
			pname := "?"
			if e.param < len(fn.Params) {
				pname = fn.Params[e.param].Name()
			}
			key := fmt.Sprintf("%s|%s%s.%s", core.FnName(fn), pname, e.path, e.slot)
			c.Report("cmt.config", key, fn.Pos(), fmt.Sprintf("%s prints the %s comments of %s%s only on some settings of a formatter option: under the other setting no path reads them and every comment written there is dropped from the output", core.FnName(fn), e.slot, pname, e.path))
		}
		if len(misses) == 0 && a.summaries[fn] != nil {
			c.Discharge("cmt.config", core.FnName(fn), fn.Pos(), "every slot this printer reads is read whatever the configuration")
		}
	}
	c.Extra("printers_checked_for_config_dependence", nCfg)
	if os.Getenv("FV_C15_MUST") != "" {
		for _, fn := range a.funcs {
			if fn.Pkg == nil || fn.Pkg.Pkg.Path() != core.ModPath+"/formatter" {
				continue
			}
			for _, e := range a.dataDependentMisses(fn) {
				pname := "?"
				if e.param < len(fn.Params) {
					pname = fn.Params[e.param].Name()
				}
				fmt.Fprintf(os.Stderr, "MUST %s: %s%s.%s\n", core.FnName(fn), pname, e.path, e.slot)
			}
		}
	}
	// ---- cmt.once: no slot is printed by a printer and again by the printer that called it
	twice := a.printedTwice()
	for _, l := range twice {
		parts := strings.Split(l, "|")
		c.Report("cmt.once", l, token.NoPos, fmt.Sprintf("%s reads the comments %s itself after handing the node to %s, which prints them on every one of its paths: the comments of that slot appear twice in the formatted output", parts[0], parts[1], strings.TrimPrefix(parts[2], "also printed by ")))
	}
	if len(twice) == 0 {
		c.Discharge("cmt.once", "formatter", token.NoPos, "no printer reads a comment slot itself after handing the node to a printer that reads the same slot on all its paths")
	}
	// ---- cmt.order: moved comments are appended behind the earlier ones
	checkSwapOrder(c)
	// ---- cmt.overwrite: the parser does not overwrite a comment slot it has just filled
	checkSlotOverwrite(c)
	// ---- cmt.destructure: a printer that takes an expression node apart reads the node's own comments too
	// (decided for expression kinds, where the Pratt loop can hang a Trailing on any node; statement and declaration
	// kinds print their own comments in callers of too many shapes to be matched exactly and are left to cmt.slots)
	nDestr := 0
	for _, l := range a.destructureMisses(ws) {
		if !strings.Contains(l, "Expression apart") {
			continue
		}
		nDestr++
		key := strings.SplitN(l, " but ", 2)[0]
		if parts := strings.SplitN(l, " but ", 2); len(parts) == 2 {
			key += "|" + strings.SplitN(parts[1], " ", 2)[0]
		}
		c.Report("cmt.destructure", key, token.NoPos, l+": when the node is flattened like this, a comment attached to it (the Pratt loop hangs the comments in front of an operator on the expression to its left) is dropped")
	}
	if nDestr == 0 {
		c.Discharge("cmt.destructure", "formatter", token.NoPos, "every printer that takes an expression node apart reads that node's comment slots, or all its callers do")
	}
	// ---- cmt.token: comments in front of a consumed token are moved to a node
	listUnswappedTokens(c)
	// ---- cmt.dropnode: a parsed node that carries comments is not thrown away for one of its children
	checkDroppedNodes(c)
	// ---- cmt.macro: #FASTLY macro comments are exempt from the comment-style rewrite
	nConv := 0
	for _, fc := range prog.ModuleFuncs("formatter") {
		for _, b := range fc.Blocks {
			for _, in := range b.Instrs {
				call, ok := in.(*ssa.Call)
				if !ok {
					continue
				}
				cal := call.Common().StaticCallee()
				if cal == nil || cal.Name() != "formatCommentCharacter" {
					continue
				}
				if fc.Name() == "formatCommentCharacter" {
					continue
				}
				nConv++
				guarded := false
				for _, blk := range fc.Blocks {
					iff, ok := blk.Instrs[len(blk.Instrs)-1].(*ssa.If)
					if !ok {
						continue
					}
					hp, ok := iff.Cond.(*ssa.Call)
					if !ok {
						continue
					}
					if hc := hp.Common().StaticCallee(); hc == nil || hc.Name() != "HasPrefix" {
						continue
					}
					if k, ok := hp.Common().Args[1].(*ssa.Const); !ok || k.Value == nil || !strings.Contains(k.Value.ExactString(), "#FASTLY") {
						continue
					}
					if core.EdgeDominates(blk, 1, b) {
						guarded = true
					}
				}
				key := fmt.Sprintf("%s|style-rewrite#%d", fc.Name(), nConv)
				if guarded {
					c.Discharge("cmt.macro", key, in.Pos(), "only comments that are not #FASTLY macros are rewritten")
				} else {
					c.Report("cmt.macro", key, in.Pos(), "the comment-style rewrite is also applied to #FASTLY macro comments: with comment_style: slash the macro becomes `/FASTLY …`, which is neither a macro nor a comment")
				}
			}
		}
	}
	c.Floor("cmt.macro", 1)
	// helpers that receive the comments themselves (ast.Comments parameter)
	fcFn := prog.SSAFunc("formatter", "Formatter.formatComment")
	for _, fn := range a.funcs {
		if fn.Pkg == nil || fn.Pkg.Pkg.Path() != core.ModPath+"/formatter" || fn == fcFn {
			continue
		}
		for _, p := range fn.Params {
			if !isCommentsType(p.Type()) {
				continue
			}
			rb := map[*ssa.BasicBlock]bool{}
			for _, b := range fn.Blocks {
				for _, in := range b.Instrs {
					switch t := in.(type) {
					case ssa.CallInstruction:
						if cal := t.Common().StaticCallee(); cal != nil && cal.Pkg != nil && cal.Pkg.Pkg.Path() == core.ModPath+"/formatter" {
							for _, arg := range t.Common().Args {
								if isCommentsType(arg.Type()) && core.BackSlice(arg)[p] {
									rb[b] = true
								}
							}
						}
					case *ssa.IndexAddr:
						if core.BackSlice(t.X)[p] {
							rb[b] = true
						}
					case *ssa.Index:
						if core.BackSlice(t.X)[p] {
							rb[b] = true
						}
					}
				}
			}
			key := core.FnName(fn) + "|" + p.Name()
			if guaranteedUnderConfig(fn, rb) {
				c.Discharge("cmt.config", key, fn.Pos(), "the comments handed to this helper are printed whatever the configuration")
			} else {
				c.Report("cmt.config", key, fn.Pos(), fmt.Sprintf("%s receives comments (%s) but prints them only on some settings of a formatter option (or not at all): under the other setting they are dropped from the output", core.FnName(fn), p.Name()))
			}
		}
	}

	// formatComment emits every element
	fc := prog.SSAFunc("formatter", "Formatter.formatComment")
	// a wrapper that only forwards its comments to another function of the package: the loop lives in the callee
	for hops := 0; fc != nil && hops < 3; hops++ {
		if len(naturalLoops(fc)) > 0 {
			break
		}
		var next *ssa.Function
		for _, b := range fc.Blocks {
			for _, in := range b.Instrs {
				if cal := core.StaticCallee(in); cal != nil && cal.Pkg == fc.Pkg && len(cal.Params) > 1 {
					args := in.(ssa.CallInstruction).Common().Args
					if len(args) > 1 && args[1] == ssa.Value(fc.Params[1]) {
						next = cal
					}
				}
			}
		}
		if next == nil {
			break
		}
		fc = next
	}
	if fc == nil {
		c.MissingAnchor("cmt.emit", "formatter.(*Formatter).formatComment")
	} else {
		cd := core.NewCtrlDeps(fc)
		n := 0
		for _, b := range fc.Blocks {
			for _, in := range b.Instrs {
				call, ok := in.(*ssa.Call)
				if !ok || call.Common().StaticCallee() == nil || call.Common().StaticCallee().Name() != "WriteString" {
					continue
				}
				// the written text derives from comments[i]
				from := false
				for x := range core.BackSlice(call.Common().Args[1]) {
					if ia, ok := x.(*ssa.IndexAddr); ok && ia.X == ssa.Value(fc.Params[1]) {
						from = true
					}
				}
				if !from {
					continue
				}
				n++
			}
		}
		// every path through the loop body writes the comment: the set of writing blocks covers all branches of the style switch
		ok := n >= 2
		_ = cd
		if ok {
			c.Discharge("cmt.emit", "formatComment", fc.Pos(), fmt.Sprintf("%d writes of comments[i] (one per comment-style branch)", n))
		} else {
			c.Report("cmt.emit", "formatComment", fc.Pos(), "formatComment does not write comments[i] on every comment-style branch")
		}
		// must-write: from the loop body entry every path to the latch passes a write of comments[i]
		if !formatCommentMustWrite(fc) {
			c.Report("cmt.emit", "formatComment|must", fc.Pos(), "there is a path through formatComment's loop body that emits nothing for comments[i]")
		} else {
			c.Discharge("cmt.emit", "formatComment|must", fc.Pos(), "every path through the loop body writes comments[i]")
		}
	}
}

// formatCommentMustWrite: in the range loop of formatComment, every path from the body entry back to the loop header
// passes a WriteString whose argument derives from comments[i].
func formatCommentMustWrite(fc *ssa.Function) bool {
	var header *ssa.BasicBlock
	for _, l := range naturalLoops(fc) {
		if isRangeLoop(l.header) && header == nil {
			header = l.header
		}
	}
	if header == nil {
		return false
	}
	writes := map[*ssa.BasicBlock]bool{}
	for _, b := range fc.Blocks {
		for _, in := range b.Instrs {
			call, ok := in.(*ssa.Call)
			if !ok || call.Common().StaticCallee() == nil || call.Common().StaticCallee().Name() != "WriteString" {
				continue
			}
			for x := range core.BackSlice(call.Common().Args[1]) {
				if ia, ok := x.(*ssa.IndexAddr); ok && ia.X == ssa.Value(fc.Params[1]) {
					writes[b] = true
				}
			}
		}
	}
	// body entry = successor 0 of the header's If
	if len(header.Succs) != 2 {
		return false
	}
	body := header.Succs[0]
	seen := map[*ssa.BasicBlock]bool{}
	var walk func(b *ssa.BasicBlock) bool // true if header reachable without a write
	walk = func(b *ssa.BasicBlock) bool {
		if writes[b] {
			return false
		}
		if b == header {
			return true
		}
		if seen[b] {
			return false
		}
		seen[b] = true
		for _, s := range b.Succs {
			if walk(s) {
				return true
			}
		}
		return false
	}
	return !walk(body)
}

// tokenLeadingDrained: the Leading comments of the token (p.curToken / p.peekToken) were moved away by a
// SwapLeading*(p.<token>, …) that dominates the store, with no token advance in between.
func tokenLeadingDrained(fn *ssa.Function, store *ssa.Store, tokenField string) bool {
	isTokenLoad := func(v ssa.Value) bool {
		ld, ok := v.(*ssa.UnOp)
		if !ok || ld.Op != token.MUL {
			return false
		}
		fa, ok := ld.X.(*ssa.FieldAddr)
		return ok && core.FieldOf(fa) != nil && core.FieldOf(fa).Name() == tokenField && core.FieldOwner(fa) == core.ModPath+"/parser.Parser"
	}
	var swaps, advances []ssa.Instruction
	for _, b := range fn.Blocks {
		for _, in := range b.Instrs {
			call, ok := in.(*ssa.Call)
			if !ok {
				continue
			}
			cal := call.Common().StaticCallee()
			if cal == nil {
				continue
			}
			switch cal.Name() {
			case "SwapLeadingTrailing", "SwapLeadingInfix":
				if isTokenLoad(call.Common().Args[0]) {
					swaps = append(swaps, in)
				}
			case "NextToken", "ExpectPeek", "ReadPeek":
				advances = append(advances, in)
			default:
				// any other parser method may advance the window
				if cal.Signature.Recv() != nil && core.NamedTypeName(cal.Signature.Recv().Type()) == "Parser" &&
					cal.Name() != "PeekTokenIs" && cal.Name() != "CurTokenIs" && cal.Name() != "Trailing" && cal.Name() != "PrevTokenIs" {
					advances = append(advances, in)
				}
			}
		}
	}
	for _, s := range swaps {
		if !core.InstrDominates(s, store) {
			continue
		}
		clean := true
		for _, adv := range advances {
			if core.InstrDominates(s, adv) && (core.InstrDominates(adv, store) || (adv.Block() != store.Block() && adv.Block() != s.Block() && core.Reaches(adv.Block(), store.Block()))) {
				clean = false
			}
		}
		if clean {
			return true
		}
	}
	return false
}

// dataDependentMisses: like configDependentMisses, but every branch is adversarial except those that test the
// presence of (a prefix of) the very node the slot belongs to, the emptiness of a comment list, or a loop bound.
func (a *cmtAnalysis) dataDependentMisses(fn *ssa.Function) []slotEntry {
	sum := a.summaries[fn]
	if len(sum) == 0 || len(fn.Blocks) == 0 {
		return nil
	}
	reads := map[slotEntry]map[*ssa.BasicBlock]bool{}
	for _, b := range fn.Blocks {
		for _, in := range b.Instrs {
			for _, ds := range a.instrReads(fn, b, in) {
				if e, ok := a.entryOf(fn, ds.d, ds.slot); ok {
					if reads[e] == nil {
						reads[e] = map[*ssa.BasicBlock]bool{}
					}
					reads[e][b] = true
				}
			}
		}
	}
	headers := map[*ssa.BasicBlock]bool{}
	for _, l := range naturalLoops(fn) {
		headers[l.header] = true
	}
	var out []slotEntry
	for e, rb := range reads {
		favourable := func(b *ssa.BasicBlock) bool {
			if headers[b] {
				return true
			}
			cond := core.BranchCond(b)
			if cond == nil {
				return true
			}
			// nil / type tests and length tests: the data decides in favour of the path that has something to print
			for x := range core.BackSlice(cond) {
				switch t := x.(type) {
				case *ssa.TypeAssert:
					return true
				case *ssa.Call:
					if bi, ok := t.Common().Value.(*ssa.Builtin); ok && bi.Name() == "len" {
						return true
					}
				case *ssa.Const:
					if t.Value == nil {
						return true // comparison with nil
					}
				}
			}
			return false
		}
		g := map[*ssa.BasicBlock]bool{}
		for changed := true; changed; {
			changed = false
			for _, b := range fn.Blocks {
				if g[b] {
					continue
				}
				v := false
				switch {
				case rb[b]:
					v = true
				case len(b.Succs) == 0:
					v = false
				case len(b.Succs) == 2 && !favourable(b):
					v = g[b.Succs[0]] && g[b.Succs[1]]
				default:
					for _, s := range b.Succs {
						if g[s] {
							v = true
						}
					}
				}
				if v {
					g[b] = true
					changed = true
				}
			}
		}
		if !g[fn.Blocks[0]] {
			out = append(out, e)
		}
	}
	return out
}

// checkSlotOverwrite (cmt.overwrite): SwapLeadingTrailing / SwapLeadingInfix move the comments in front of the current
// token into a slot of a node. A later plain store into the same slot of the same node (for example
// `stmt.Trailing = p.Trailing()`) that does not build on the slot's content throws those comments away.
func checkSlotOverwrite(c *core.Ctx) {
	prog := c.Prog
	n := 0
	for _, fn := range prog.ModuleFuncs("parser") {
		type fill struct {
			in   ssa.Instruction
			root ssa.Value
			path string
			slot string
		}
		var fills []fill
		for _, b := range fn.Blocks {
			for _, in := range b.Instrs {
				call, ok := in.(*ssa.Call)
				if !ok {
					continue
				}
				cal := call.Common().StaticCallee()
				if cal == nil {
					continue
				}
				slot := ""
				switch cal.Name() {
				case "SwapLeadingTrailing":
					slot = "Trailing"
				case "SwapLeadingInfix":
					slot = "Infix"
				default:
					continue
				}
				// the destination may be chosen on the way (`last := stmt.Meta; if … { last = arg.GetMeta() }`): every
				// candidate counts
				var dests []ssa.Value
				seenPhi := map[ssa.Value]bool{}
				var expand func(v ssa.Value)
				expand = func(v ssa.Value) {
					if seenPhi[v] {
						return
					}
					seenPhi[v] = true
					if phi, isPhi := v.(*ssa.Phi); isPhi {
						for _, e := range phi.Edges {
							expand(e)
						}
						return
					}
					dests = append(dests, v)
				}
				expand(call.Common().Args[1])
				for _, d := range dests {
					root, path := chainOf(d)
					fills = append(fills, fill{in, root, strings.Join(path, "."), slot})
				}
			}
		}
		if len(fills) == 0 {
			continue
		}
		for _, b := range fn.Blocks {
			for _, in := range b.Instrs {
				st, ok := in.(*ssa.Store)
				if !ok {
					continue
				}
				fa, ok := st.Addr.(*ssa.FieldAddr)
				if !ok || core.FieldOf(fa) == nil || core.FieldOwner(fa) != astPkgPath+".Meta" {
					continue
				}
				slot := core.FieldOf(fa).Name()
				root, path := chainOf(fa.X)
				for _, f := range fills {
					if f.slot != slot || f.root != root || f.path != strings.Join(path, ".") {
						continue
					}
					// may the fill precede the store?
					before := false
					if f.in.Block() == b {
						before = core.InstrDominates(f.in, in)
					} else {
						before = core.Reaches(f.in.Block(), b)
					}
					if !before {
						continue
					}
					n++
					// does the stored value build on the slot's content?
					keeps := false
					for x := range core.BackSlice(st.Val) {
						if fa2, ok := x.(*ssa.FieldAddr); ok && core.FieldOf(fa2) == core.FieldOf(fa) {
							keeps = true
						}
					}
					key := fmt.Sprintf("%s|%s.%s", core.FnName(fn), f.path, slot)
					if keeps {
						c.Discharge("cmt.overwrite", key, in.Pos(), "the new value is built from the slot's content")
					} else {
						c.Report("cmt.overwrite", key, in.Pos(), fmt.Sprintf("%s moves the comments before the current token into %s.%s (%s) and then overwrites that slot with another value: the comments written there are dropped before the formatter ever sees them", core.FnName(fn), f.path, slot, prog.Loc(f.in.Pos())))
					}
				}
			}
		}
	}
	c.Extra("slot_fill_then_store_pairs", n)

	// a node that comes back from a sub-parser already carries the comments in front of its first token in
	// Meta.Leading: a plain store into that slot (`another.Leading = leading`) replaces them - the new value has to be
	// built from the slot's content
	for _, fn := range prog.ModuleFuncs("parser") {
		for _, b := range fn.Blocks {
			for _, in := range b.Instrs {
				st, ok := in.(*ssa.Store)
				if !ok {
					continue
				}
				fa, ok := st.Addr.(*ssa.FieldAddr)
				if !ok || core.FieldOf(fa) == nil || core.FieldOf(fa).Name() != "Leading" || core.FieldOwner(fa) != astPkgPath+".Meta" {
					continue
				}
				root, path := chainOf(fa.X)
				fromParser := false
				switch t := root.(type) {
				case *ssa.Call:
					if cal := t.Common().StaticCallee(); cal != nil && cal.Pkg != nil && strings.HasSuffix(cal.Pkg.Pkg.Path(), "/parser") {
						fromParser = true
					}
				case *ssa.Extract:
					if call, isCall := t.Tuple.(*ssa.Call); isCall {
						if cal := call.Common().StaticCallee(); cal != nil && cal.Pkg != nil && strings.HasSuffix(cal.Pkg.Pkg.Path(), "/parser") {
							fromParser = true
						}
					}
				}
				if !fromParser {
					continue
				}
				keeps := false
				for x := range core.BackSlice(st.Val) {
					if fa2, ok := x.(*ssa.FieldAddr); ok && core.FieldOf(fa2) == core.FieldOf(fa) {
						if r2, _ := chainOf(fa2.X); r2 == root {
							keeps = true
						}
					}
				}
				key := fmt.Sprintf("%s|%s.Leading (parsed node)", core.FnName(fn), strings.Join(path, "."))
				if keeps {
					c.Discharge("cmt.overwrite", key, in.Pos(), "the new value is built from the comments the node already has")
				} else {
					c.Report("cmt.overwrite", key, in.Pos(), fmt.Sprintf("%s overwrites the Leading comments of a node a sub-parser has just returned: the comments in front of the node's first token (`else /* x */ if`) are dropped before the formatter ever sees them", core.FnName(fn)))
				}
			}
		}
	}
}

// checkDroppedNodes (cmt.dropnode): every node a Parse* function returns carries, in its Meta, the comments written in
// front of its first token. If the caller only takes children out of the node (`exp.Right`) and never stores, returns
// or passes the node itself — nor reads its Meta to move the comments elsewhere — those comments are lost in the
// parser.
func checkDroppedNodes(c *core.Ctx) {
	prog := c.Prog
	n := 0
	for _, fn := range prog.ModuleFuncs("parser") {
		for _, b := range fn.Blocks {
			for _, in := range b.Instrs {
				call, ok := in.(*ssa.Call)
				if !ok {
					continue
				}
				cal := call.Common().StaticCallee()
				if cal == nil || cal.Pkg == nil || !strings.HasSuffix(cal.Pkg.Pkg.Path(), "/parser") || !strings.HasPrefix(cal.Name(), "Parse") {
					continue
				}
				// the node result (first result)
				var node ssa.Value
				if call.Common().Signature().Results().Len() == 1 {
					node = call
				} else if call.Referrers() != nil {
					for _, r := range *call.Referrers() {
						if ex, ok := r.(*ssa.Extract); ok && ex.Index == 0 {
							node = ex
						}
					}
				}
				if node == nil || node.Referrers() == nil {
					continue
				}
				pt, ok := node.Type().Underlying().(*types.Pointer)
				if !ok || !strings.HasPrefix(core.NamedTypePkgName(pt.Elem()), astPkgPath+".") {
					continue
				}
				kept, childOnly := false, 0
				for _, r := range *node.Referrers() {
					switch t := r.(type) {
					case *ssa.DebugRef:
					case *ssa.FieldAddr:
						if f := core.FieldOf(t); f != nil && f.Name() == "Meta" {
							kept = true // the caller looks at the node's Meta (to move its comments)
						} else {
							childOnly++
						}
					case *ssa.BinOp: // nil comparison
					default:
						kept = true
					}
				}
				if childOnly == 0 {
					continue
				}
				n++
				key := fmt.Sprintf("%s|result of %s", core.FnName(fn), cal.Name())
				if kept {
					c.Discharge("cmt.dropnode", key, in.Pos(), "the node itself is kept (stored, returned, passed on) or its Meta is read")
				} else {
					c.Report("cmt.dropnode", key, in.Pos(), fmt.Sprintf("%s takes only a child out of the node returned by %s and discards the node: the comments in front of that node's first token (held in its Meta) are lost in the parser", core.FnName(fn), cal.Name()))
				}
			}
		}
	}
	c.Extra("parsed_nodes_used_for_a_child", n)
}

// destructureMisses: printers that take a node apart (hand a child of it to another formatter function) without the
// node's own fillable comment slots being read — by the printer itself on that node, or by every caller that passes
// the node down.
func (a *cmtAnalysis) destructureMisses(ws []cmtWrite) []string {
	// fillable slots per node kind (exact owners) and for every expression (weak owner ~Expression)
	fillable := map[string]map[string]bool{}
	exprSlots := map[string]bool{}
	for _, w := range ws {
		if strings.Contains(w.owner, ".") || strings.Contains(w.owner, "[") {
			continue
		}
		if w.owner == "~Expression" {
			exprSlots[w.slot] = true
			continue
		}
		if strings.HasPrefix(w.owner, "~") {
			continue
		}
		if fillable[w.owner] == nil {
			fillable[w.owner] = map[string]bool{}
		}
		fillable[w.owner][w.slot] = true
	}
	isExprKind := func(k string) bool {
		return strings.HasSuffix(k, "Expression")
	}
	var ffuncs []*ssa.Function
	for _, fn := range a.funcs {
		if fn.Pkg != nil && fn.Pkg.Pkg.Path() == core.ModPath+"/formatter" {
			ffuncs = append(ffuncs, fn)
		}
	}
	inFmt := map[*ssa.Function]bool{}
	for _, fn := range ffuncs {
		inFmt[fn] = true
	}
	paramIdx := func(fn *ssa.Function, v ssa.Value) int {
		for i, q := range fn.Params {
			if ssa.Value(q) == v {
				return i
			}
		}
		return -1
	}
	// slots fn reads on (param i, path, narrowed kind)
	readsOn := func(fn *ssa.Function, i int, path, kind string) map[string]bool {
		_ = fn
		out := map[string]bool{}
		for e := range a.summaries[fn] {
			if e.param != i {
				continue
			}
			if e.path == path || e.path == "!"+kind+path {
				out[e.slot] = true
			}
		}
		return out
	}
	_ = readsOn
	type key struct {
		fn *ssa.Function
		i  int
	}
	// caller coverage: greatest fixpoint
	allSlots := []string{"Leading", "Trailing", "Infix"}
	cov := map[key]map[string]bool{}
	hasCaller := map[key]bool{}
	type site struct {
		g    *ssa.Function
		qi   int
		path string
		kind string
		f    *ssa.Function
		pi   int
		blk  *ssa.BasicBlock
	}
	// readsAround: the slots g reads on (param i, path, kind) on every path through blk: a direct read, or a call of a
	// function that reads the slot on every one of its own paths (must-summaries), in a block that dominates or
	// post-dominates blk. A printer may read the slot on one branch and take the node apart on another; a may-read does
	// not count.
	mustRB := a.mustReadBlocks()
	stripNarrow := func(p string) string {
		if strings.HasPrefix(p, "!") {
			rest := p[1:]
			if i := strings.Index(rest, "."); i >= 0 {
				return rest[i:]
			}
			return ""
		}
		return p
	}
	readsAround := func(g *ssa.Function, i int, path, kind string, blk *ssa.BasicBlock) map[string]bool {
		out := map[string]bool{}
		merged := map[string][]map[*ssa.BasicBlock]bool{}
		for e, blocks := range mustRB[g] {
			if e.param != i || stripNarrow(e.path) != path {
				continue
			}
			merged[e.slot] = append(merged[e.slot], blocks)
		}
		for slot, sets := range merged {
			reading := map[*ssa.BasicBlock]bool{}
			for _, bs := range sets {
				for b := range bs {
					reading[b] = true
				}
			}
			if reading[blk] {
				out[slot] = true
				continue
			}
			// after: no path from blk to a return avoids the reading blocks
			after := true
			seen := map[*ssa.BasicBlock]bool{blk: true}
			stack := []*ssa.BasicBlock{blk}
			for len(stack) > 0 && after {
				b := stack[len(stack)-1]
				stack = stack[:len(stack)-1]
				if _, isRet := b.Instrs[len(b.Instrs)-1].(*ssa.Return); isRet {
					after = false
				}
				for _, sc := range b.Succs {
					if !seen[sc] && !reading[sc] {
						seen[sc] = true
						stack = append(stack, sc)
					}
				}
			}
			// before: no path from the entry to blk avoids the reading blocks
			before := !reading[g.Blocks[0]] == false
			if !before {
				seen = map[*ssa.BasicBlock]bool{g.Blocks[0]: true}
				stack = []*ssa.BasicBlock{g.Blocks[0]}
				reached := false
				for len(stack) > 0 && !reached {
					b := stack[len(stack)-1]
					stack = stack[:len(stack)-1]
					if b == blk {
						reached = true
					}
					for _, sc := range b.Succs {
						if !seen[sc] && !reading[sc] {
							seen[sc] = true
							stack = append(stack, sc)
						}
					}
				}
				before = !reached
			}
			if after || before {
				out[slot] = true
			}
		}
		return out
	}
	var sites []site
	for _, g := range ffuncs {
		for _, b := range g.Blocks {
			for _, in := range b.Instrs {
				call, ok := in.(ssa.CallInstruction)
				if !ok {
					continue
				}
				f := call.Common().StaticCallee()
				if f == nil || !inFmt[f] {
					continue
				}
				for pi, arg := range call.Common().Args {
					if pi >= len(f.Params) || astNodeName(f.Params[pi].Type()) == "" && !strings.HasPrefix(core.NamedTypePkgName(f.Params[pi].Type()), astPkgPath+".") {
						continue
					}
					for _, d := range a.descsNode(arg, b, map[ssa.Value]bool{}) {
						if d.root == nil {
							continue
						}
						qi := paramIdx(g, d.root)
						if qi < 0 {
							continue
						}
						kind := d.narrow
						if kind == "" {
							kind = astNodeName(d.root.Type())
						}
						sites = append(sites, site{g, qi, d.path, kind, f, pi, b})
						hasCaller[key{f, pi}] = true
					}
				}
			}
		}
	}
	for _, fn := range ffuncs {
		for i := range fn.Params {
			k := key{fn, i}
			cov[k] = map[string]bool{}
			if hasCaller[k] {
				for _, s := range allSlots {
					cov[k][s] = true
				}
			}
		}
	}
	if os.Getenv("FV_C15_SITES") != "" {
		for _, st := range sites {
			fmt.Fprintf(os.Stderr, "CALL %s(%d) path=%q kind=%s -> %s(%d) around=%v\n", st.g.Name(), st.qi, st.path, st.kind, st.f.Name(), st.pi, readsAround(st.g, st.qi, st.path, st.kind, st.blk))
		}
	}
	for changed := true; changed; {
		changed = false
		for _, st := range sites {
			have := readsAround(st.g, st.qi, st.path, st.kind, st.blk)
			if st.path == "" {
				for s := range cov[key{st.g, st.qi}] {
					have[s] = true
				}
			}
			k := key{st.f, st.pi}
			for s := range cov[k] {
				if !have[s] {
					delete(cov[k], s)
					changed = true
				}
			}
		}
	}
	// destructuring sites
	var out []string
	seen := map[string]bool{}
	for _, st := range sites {
		if st.path == "" || st.kind == "" {
			continue // the node itself is passed on, not a child
		}
		// st.g hands a child (st.path) of its node (param qi, kind) to st.f
		if strings.Count(st.path, ".") != 1 || st.path == ".Meta" {
			continue // deeper paths are judged at their own level; the Meta is the node's own comment carrier, not a child
		}
		if os.Getenv("FV_C15_SITES") != "" {
			fmt.Fprintf(os.Stderr, "SITE %s kind=%s path=%s -> %s need(fillable=%v expr=%v) around=%v cov=%v\n", st.g.Name(), st.kind, st.path, st.f.Name(), fillable[st.kind], exprSlots, readsAround(st.g, st.qi, "", st.kind, st.blk), cov[key{st.g, st.qi}])
		}
		need := map[string]bool{}
		for s := range fillable[st.kind] {
			need[s] = true
		}
		if isExprKind(st.kind) {
			for s := range exprSlots {
				need[s] = true
			}
		}
		have := readsAround(st.g, st.qi, "", st.kind, st.blk)
		for s := range cov[key{st.g, st.qi}] {
			have[s] = true
		}
		// a function that only answers a question about the node (single bool result) prints nothing
		if st.g.Signature.Results().Len() == 1 {
			if bt, ok := st.g.Signature.Results().At(0).Type().Underlying().(*types.Basic); ok && bt.Kind() == types.Bool && !storesThroughParams(st.g) {
				continue
			}
		}
		for s := range need {
			if !have[s] {
				l := fmt.Sprintf("%s takes %s apart (passes %s on) but %s of the %s itself is read neither here nor by every caller", core.FnName(st.g), st.kind, st.path, s, st.kind)
				if !seen[l] {
					seen[l] = true
					out = append(out, l)
				}
			}
		}
	}
	sort.Strings(out)
	return out
}

// listUnswappedTokens (experimental): token advances after which the comments in front of the new current token are not
// moved anywhere before the window advances again.
// tokenDrivers: functions whose advances land on a token that is handled by the next parser call or cannot carry
// comments, one reason each.
var tokenDrivers = map[string]string{
	"ExpectPeek":      "the helper itself: its callers are the advance sites",
	"ParseLongString": "advances over the pieces of one long-string literal; no comment can stand between them",
	"Parse":           "driver: moves to the last token of a declaration, whose comments were moved by the declaration's parser",
	"ParseStatement":  "driver: moves to the first token of a statement, which becomes the statement's Meta in every arm that parses one",
	"ParseSnippetVCL": "driver: moves to the first token of the next statement / to EOF (comments at end of file have no slot in ast.VCL: not a documented placeholder)",
}

func listUnswappedTokens(c *core.Ctx) {
	prog := c.Prog
	nTok := 0
	perFn := map[*ssa.Function]int{}
	defer func() { c.Floor("cmt.token", 120); _ = nTok }()
	isCurTokenLoad := func(v ssa.Value) bool {
		ld, ok := v.(*ssa.UnOp)
		if !ok || ld.Op != token.MUL {
			return false
		}
		f := core.FieldOf(ld.X)
		return f != nil && f.Name() == "curToken"
	}
	for _, fn := range prog.ModuleFuncs("parser") {
		if fn.Signature.Recv() == nil || core.NamedTypeName(derefType(fn.Signature.Recv().Type())) != "Parser" {
			continue
		}
		for _, b := range fn.Blocks {
			for idx, in := range b.Instrs {
				cal := core.StaticCallee(in)
				if cal == nil || (cal.Name() != "ExpectPeek" && cal.Name() != "NextToken") {
					continue
				}
				// idiom 1: the comments of the token about to become current were moved away while it was still the peek
				// token: a Swap*(p.peekToken, …) since the previous advance
				if peekSwappedBefore(b, idx) {
					continue
				}
				// walk forward to the next advance / return
				var bad string
				seen := map[*ssa.BasicBlock]bool{}
				var walk func(blk *ssa.BasicBlock, from int)
				walk = func(blk *ssa.BasicBlock, from int) {
					for _, i2 := range blk.Instrs[from:] {
						c2 := core.StaticCallee(i2)
						if ci, ok := i2.(ssa.CallInstruction); ok && c2 == nil {
							if _, isBuiltin := ci.Common().Value.(*ssa.Builtin); !isBuiltin && !ci.Common().IsInvoke() {
								return // a parser taken from the Pratt tables / a custom parser: it starts at the current token
							}
						}
						if c2 != nil {
							switch {
							case strings.HasPrefix(c2.Name(), "SwapLeading"):
								if call, ok := i2.(*ssa.Call); ok && isCurTokenLoad(call.Common().Args[0]) {
									return
								}
							case strings.HasPrefix(c2.Name(), "Parse") || c2.Name() == "parseStatement" || c2.Name() == "Trailing":
								return // the sub-parser starts at the current token, which becomes the Meta of its node
							case c2.Name() == "ExpectPeek" || c2.Name() == "NextToken":
								if bad == "" {
									bad = prog.Loc(i2.Pos()) + " (next advance)"
								}
								return
							}
						}
						if st, ok := i2.(*ssa.Store); ok && isCurTokenLoad(st.Val) {
							return // Meta: p.curToken
						}
						if fa, ok := i2.(*ssa.FieldAddr); ok && isCurTokenLoad(fa.X) {
							if f := core.FieldOf(fa); f != nil && f.Name() == "Leading" {
								return // the comments are taken out explicitly
							}
						}
						if r, ok := i2.(*ssa.Return); ok {
							// returning with an error: the comments do not matter; otherwise the token is left unswapped
							{
								errRet := false
								for _, rs := range core.ReturnSites(i2.Parent()) {
									if rs.Ret == r && len(rs.Results) > 0 && !core.IsNilConst(rs.Results[len(rs.Results)-1]) && core.IsErrorType(rs.Results[len(rs.Results)-1].Type()) {
										errRet = true
									}
								}
								if !errRet && bad == "" && !callersSwapCurToken(prog, i2.Parent(), isCurTokenLoad) {
									bad = prog.Loc(i2.Pos()) + " (return, and a caller does not move them either)"
								}
							}
							return
						}
					}
					for _, s := range blk.Succs {
						if !seen[s] {
							seen[s] = true
							walk(s, 0)
						}
					}
				}
				if cal.Name() == "ExpectPeek" {
					// only the success edge advances the window
					started := false
					if cv, ok := in.(ssa.Value); ok && cv.Referrers() != nil {
						for _, r := range *cv.Referrers() {
							if iff, ok := r.(*ssa.If); ok {
								seen[iff.Block().Succs[0]] = true
								walk(iff.Block().Succs[0], 0)
								started = true
							}
						}
					}
					if !started {
						walk(b, idx+1)
					}
				} else {
					walk(b, idx+1)
				}
				nTok++
				perFn[fn]++
				key := fmt.Sprintf("%s|%s#%d", core.FnName(fn), cal.Name(), perFn[fn])
				switch {
				case bad == "":
					c.Discharge("cmt.token", key, in.Pos(), "the comments in front of the new current token are moved, or the token starts a sub-parse")
				case tokenDrivers[fn.Name()] != "":
					c.Discharge("cmt.token", key, in.Pos(), "named exception: "+tokenDrivers[fn.Name()])
				default:
					c.Report("cmt.token", key, in.Pos(), fmt.Sprintf("%s advances onto a token at %s and the window moves on (%s) without the comments in front of that token being moved to a node (no Swap* of p.curToken, no earlier Swap* of p.peekToken, the token does not become a node): a comment written there is lost in the parser", core.FnName(fn), prog.Loc(in.Pos()), bad))
				}
			}
		}
	}
}

// callersSwapCurToken: fn returns with the window on a token whose comments it did not move; the obligation passes to
// its callers. Decided as "every static caller has, after the call and before its next advance, a Swap*(p.curToken, …)
// on some path" - the paths are not correlated with the callee's return site, so this is the may-form: it reports a
// caller that never moves them, not one that moves them under the wrong condition.
func callersSwapCurToken(prog *core.Program, fn *ssa.Function, isCurTokenLoad func(ssa.Value) bool) bool {
	callers := 0
	for _, g := range prog.ModuleFuncs("parser") {
		for _, b := range g.Blocks {
			for idx, in := range b.Instrs {
				if core.StaticCallee(in) != fn {
					continue
				}
				callers++
				found := false
				seen := map[*ssa.BasicBlock]bool{}
				var walk func(blk *ssa.BasicBlock, from int)
				walk = func(blk *ssa.BasicBlock, from int) {
					for _, i2 := range blk.Instrs[from:] {
						if c2 := core.StaticCallee(i2); c2 != nil {
							if strings.HasPrefix(c2.Name(), "SwapLeading") {
								if call, ok := i2.(*ssa.Call); ok && isCurTokenLoad(call.Common().Args[0]) {
									found = true
								}
								continue
							}
							if c2.Name() == "ExpectPeek" || c2.Name() == "NextToken" || strings.HasPrefix(c2.Name(), "Parse") {
								return
							}
						}
					}
					for _, s := range blk.Succs {
						if !seen[s] {
							seen[s] = true
							walk(s, 0)
						}
					}
				}
				walk(b, idx+1)
				if !found {
					return false
				}
			}
		}
	}
	return callers > 0
}

// peekSwappedBefore: walking backwards from instruction idx of block b, a Swap*(p.peekToken, …) call is met before any
// other token advance (on every path: the walk follows single predecessors only).
func peekSwappedBefore(b *ssa.BasicBlock, idx int) bool {
	isPeekLoad := func(v ssa.Value) bool {
		ld, ok := v.(*ssa.UnOp)
		if !ok || ld.Op != token.MUL {
			return false
		}
		f := core.FieldOf(ld.X)
		return f != nil && f.Name() == "peekToken"
	}
	blk, from := b, idx-1
	sawSemicolonTest := false
	for steps := 0; steps < 8; steps++ {
		for i := from; i >= 0; i-- {
			in := blk.Instrs[i]
			cal := core.StaticCallee(in)
			if cal == nil {
				continue
			}
			if strings.HasPrefix(cal.Name(), "SwapLeading") {
				if call, ok := in.(*ssa.Call); ok && isPeekLoad(call.Common().Args[0]) {
					return true
				}
			}
			if cal.Name() == "PeekTokenIs" {
				if call, ok := in.(*ssa.Call); ok {
					if k, ok := call.Common().Args[1].(*ssa.Const); ok && k.Value != nil && strings.Contains(k.Value.ExactString(), "SEMICOLON") {
						sawSemicolonTest = true
					}
				}
				continue
			}
			if cal.Name() == "ParseExpression" && sawSemicolonTest {
				return true // ParseExpression moves the comments in front of a following semicolon to the expression
			}
			if cal.Name() == "ExpectPeek" || cal.Name() == "NextToken" || strings.HasPrefix(cal.Name(), "Parse") {
				return false
			}
		}
		if len(blk.Preds) != 1 {
			return false
		}
		blk = blk.Preds[0]
		from = len(blk.Instrs) - 1
	}
	return false
}

// storesThroughParams: fn writes memory reachable from one of its parameters (it builds a result there), as opposed to
// a pure predicate.
func storesThroughParams(fn *ssa.Function) bool {
	for _, b := range fn.Blocks {
		for _, in := range b.Instrs {
			st, ok := in.(*ssa.Store)
			if !ok {
				continue
			}
			root, _ := chainOf(st.Addr)
			for {
				if ia, ok := root.(*ssa.IndexAddr); ok {
					root, _ = chainOf(ia.X)
					continue
				}
				break
			}
			if _, isParam := root.(*ssa.Parameter); isParam {
				return true
			}
		}
	}
	return false
}

// mustReadBlocks: per function and summary entry, the blocks that read the entry for certain - directly, or by calling
// a function that reads the mapped entry on every path from its entry to a return (least fixpoint over the call graph).
// Narrowed entries ("!Kind…") count for the un-narrowed path of the same node as well.
func (a *cmtAnalysis) mustReadBlocks() map[*ssa.Function]map[slotEntry]map[*ssa.BasicBlock]bool {
	may := a.summaries
	must := map[*ssa.Function]map[slotEntry]bool{}
	for _, fn := range a.funcs {
		must[fn] = map[slotEntry]bool{}
	}
	blocksOf := func(fn *ssa.Function) map[slotEntry]map[*ssa.BasicBlock]bool {
		rb := map[slotEntry]map[*ssa.BasicBlock]bool{}
		add := func(e slotEntry, b *ssa.BasicBlock) {
			if rb[e] == nil {
				rb[e] = map[*ssa.BasicBlock]bool{}
			}
			rb[e][b] = true
		}
		for _, b := range fn.Blocks {
			for _, in := range b.Instrs {
				for _, ds := range a.instrReads(fn, b, in) {
					if e, ok := a.entryOf(fn, ds.d, ds.slot); ok {
						add(e, b)
						if strings.HasPrefix(e.path, "!") {
							rest := e.path[1:]
							base := ""
							if i := strings.Index(rest, "."); i >= 0 {
								base = rest[i:]
							}
							add(slotEntry{e.param, base, e.slot}, b)
						}
					}
				}
			}
		}
		return rb
	}
	coversAllPaths := func(fn *ssa.Function, blocks map[*ssa.BasicBlock]bool) bool {
		if len(fn.Blocks) == 0 {
			return false
		}
		seen := map[*ssa.BasicBlock]bool{}
		var stack []*ssa.BasicBlock
		if !blocks[fn.Blocks[0]] {
			stack = append(stack, fn.Blocks[0])
			seen[fn.Blocks[0]] = true
		}
		for len(stack) > 0 {
			b := stack[len(stack)-1]
			stack = stack[:len(stack)-1]
			if _, isRet := b.Instrs[len(b.Instrs)-1].(*ssa.Return); isRet {
				return false
			}
			for _, s := range b.Succs {
				if !seen[s] && !blocks[s] {
					seen[s] = true
					stack = append(stack, s)
				}
			}
		}
		return true
	}
	a.summaries = must
	for changed := true; changed; {
		changed = false
		for _, fn := range a.funcs {
			for e, blocks := range blocksOf(fn) {
				if !must[fn][e] && coversAllPaths(fn, blocks) {
					must[fn][e] = true
					changed = true
				}
			}
		}
	}
	out := map[*ssa.Function]map[slotEntry]map[*ssa.BasicBlock]bool{}
	for _, fn := range a.funcs {
		out[fn] = blocksOf(fn)
	}
	a.summaries = may
	return out
}

// printedTwice (cmt.once): "exactly once" - a printer g hands a node (or a child of it) to another printer f and also
// reads, on a path that continues from that call, a comment slot of the same node which f reads on every one of its own
// paths (must-summary): the comments of that slot are then printed twice. A callee that reads the slot only on some
// of its paths is not reported (the conditions may be complementary).
func (a *cmtAnalysis) printedTwice() []string {
	may := a.summaries
	mustRB := a.mustReadBlocks()
	must := map[*ssa.Function]map[slotEntry]bool{}
	for fn, rb := range mustRB {
		must[fn] = map[slotEntry]bool{}
		for e, blocks := range rb {
			// every path from the entry to a return passes a reading block
			seen := map[*ssa.BasicBlock]bool{}
			var stack []*ssa.BasicBlock
			ok := len(fn.Blocks) > 0
			if ok && !blocks[fn.Blocks[0]] {
				stack = append(stack, fn.Blocks[0])
				seen[fn.Blocks[0]] = true
			}
			for len(stack) > 0 && ok {
				b := stack[len(stack)-1]
				stack = stack[:len(stack)-1]
				if _, isRet := b.Instrs[len(b.Instrs)-1].(*ssa.Return); isRet {
					ok = false
				}
				for _, s := range b.Succs {
					if !seen[s] && !blocks[s] {
						seen[s] = true
						stack = append(stack, s)
					}
				}
			}
			if ok {
				must[fn][e] = true
			}
		}
	}
	reach := func(from, to *ssa.BasicBlock) bool {
		seen := map[*ssa.BasicBlock]bool{from: true}
		stack := []*ssa.BasicBlock{from}
		for len(stack) > 0 {
			b := stack[len(stack)-1]
			stack = stack[:len(stack)-1]
			for _, s := range b.Succs {
				if s == to {
					return true
				}
				if !seen[s] {
					seen[s] = true
					stack = append(stack, s)
				}
			}
		}
		return false
	}
	var out []string
	seenMsg := map[string]bool{}
	for _, g := range a.funcs {
		if g.Pkg == nil || g.Pkg.Pkg.Path() != core.ModPath+"/formatter" {
			continue
		}
		// direct reads of g
		type dread struct {
			d    nodeDesc
			slot string
			b    *ssa.BasicBlock
			idx  int
		}
		var reads []dread
		a.summaries = map[*ssa.Function]map[slotEntry]bool{} // direct reads only
		for _, b := range g.Blocks {
			for i, in := range b.Instrs {
				if _, isFA := in.(*ssa.FieldAddr); !isFA {
					continue
				}
				for _, ds := range a.instrReads(g, b, in) {
					if ds.d.root != nil {
						reads = append(reads, dread{ds.d, ds.slot, b, i})
					}
				}
			}
		}
		a.summaries = may
		if len(reads) == 0 {
			continue
		}
		for _, b := range g.Blocks {
			for i, in := range b.Instrs {
				call, ok := in.(ssa.CallInstruction)
				if !ok {
					continue
				}
				f := call.Common().StaticCallee()
				if f == nil || must[f] == nil || f == g {
					continue
				}
				for e := range must[f] {
					if e.param >= len(call.Common().Args) || e.param >= len(f.Params) {
						continue
					}
					arg := call.Common().Args[e.param]
					var ds []nodeDesc
					if core.NamedTypePkgName(f.Params[e.param].Type()) == astPkgPath+".Meta" {
						continue // a Meta handed over is the reading itself, judged where the fields are read
					}
					ds = a.descsNode(arg, b, map[ssa.Value]bool{})
					for _, d := range ds {
						if d.root == nil {
							continue
						}
						p := e.path
						if strings.HasPrefix(p, "!") {
							rest := p[1:]
							if k := strings.Index(rest, "."); k >= 0 {
								p = rest[k:]
							} else {
								p = ""
							}
						}
						full := d.path + p
						for _, r := range reads {
							if r.d.root != d.root || r.d.path != full || r.slot != e.slot {
								continue
							}
							after := (r.b == b && r.idx > i) || (r.b != b && reach(b, r.b))
							if !after {
								continue
							}
							msg := fmt.Sprintf("%s|%s%s.%s|also printed by %s", core.FnName(g), rootLabel(d.root), full, e.slot, f.Name())
							if !seenMsg[msg] {
								seenMsg[msg] = true
								out = append(out, msg)
							}
						}
					}
				}
			}
		}
	}
	sort.Strings(out)
	return out
}

func rootLabel(v ssa.Value) string {
	if p, ok := v.(*ssa.Parameter); ok {
		return p.Name()
	}
	return core.NamedTypeName(derefType(v.Type()))
}

// checkSwapOrder (cmt.order): the parser moves comments into a slot in the order it meets them: what the slot already
// holds was written earlier in the source than the comments that are being moved. Every Swap* helper therefore appends
// the moved comments (from.Leading) behind the destination slot's content - append(to.S, from.Leading...) - and stores
// the result into that same slot. The other order prints later comments in front of earlier ones.
func checkSwapOrder(c *core.Ctx) {
	prog := c.Prog
	n := 0
	for _, fn := range prog.ModuleFuncs("parser") {
		if !strings.HasPrefix(fn.Name(), "SwapLeading") || len(fn.Params) != 2 {
			continue
		}
		from, to := fn.Params[0], fn.Params[1]
		for _, b := range fn.Blocks {
			for _, in := range b.Instrs {
				call, ok := in.(*ssa.Call)
				if !ok {
					continue
				}
				bi, ok := call.Common().Value.(*ssa.Builtin)
				if !ok || bi.Name() != "append" || len(call.Common().Args) != 2 {
					continue
				}
				n++
				strip := func(v ssa.Value) ssa.Value {
					for {
						if ct, ok := v.(*ssa.ChangeType); ok {
							v = ct.X
							continue
						}
						return v
					}
				}
				r0, p0 := chainOf(strip(call.Common().Args[0]))
				r1, p1 := chainOf(strip(call.Common().Args[1]))
				key := fn.Name() + "|append"
				if r0 == ssa.Value(to) && r1 == ssa.Value(from) && len(p1) > 0 && p1[len(p1)-1] == "Leading" && len(p0) > 0 {
					c.Discharge("cmt.order", key, in.Pos(), "append(to."+p0[len(p0)-1]+", from.Leading...): earlier comments stay in front")
				} else {
					c.Report("cmt.order", key, in.Pos(), fmt.Sprintf("%s does not append the moved comments behind what the destination slot already holds (append(to.<slot>, from.Leading...)): when a slot is filled from two tokens (`fn(/* a */) /* b */;`, `case /* a */ ~ /* b */ \"x\":`) the comments come out in another order than they were written", fn.Name()))
				}
			}
		}
	}
	c.Floor("cmt.order", 2)
}
