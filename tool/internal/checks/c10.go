package checks

import (
	"fmt"
	"go/constant"
	"go/token"
	"go/types"
	"os"
	"sort"
	"strings"

	"fv/internal/core"

	"golang.org/x/tools/go/callgraph"
	"golang.org/x/tools/go/callgraph/cha"
	"golang.org/x/tools/go/ssa"
)

// C10 — test-runner verdicts are faithful.
func init() {
	register(&Check{ID: "C10", NeedSSA: true, Run: runC10})
}

// zeroGuarded reports whether block b is dominated by the zero edge of a test `X op 0`
// where the backward slice of X satisfies match.
func zeroGuarded(fn *ssa.Function, b *ssa.BasicBlock, match func(slice map[ssa.Value]bool) bool) bool {
	for _, blk := range fn.Blocks {
		iff, ok := blk.Instrs[len(blk.Instrs)-1].(*ssa.If)
		if !ok {
			continue
		}
		bo, ok := iff.Cond.(*ssa.BinOp)
		if !ok {
			continue
		}
		k, isK := core.ConstIntValue(bo.Y)
		if !isK || k != 0 {
			continue
		}
		if !match(core.BackSlice(bo.X)) {
			continue
		}
		idx := -1
		switch bo.Op {
		case token.GTR, token.NEQ:
			idx = 1
		case token.EQL, token.LEQ:
			idx = 0
		}
		if idx >= 0 && core.EdgeDominates(blk, idx, b) {
			return true
		}
	}
	return false
}

func runC10(c *core.Ctx) {
	c.Explanation = "Structural clauses of the test verdict, decided on SSA: (exitguard) both output branches of runTest reach `return nil` only behind the zero edge of a test of Statistics.Fails, and ErrExit reaches os.Exit(non-zero) in main; (failpair) after every ProcessTestSubroutine call the err != nil edge calls Counter.Fail and the recorded TestCase.Error derives from that err; (freshinterp) for ungrouped tests the interpreter passed to ProcessTestSubroutine is the result of setupInterpreter called inside the statement loop, TestProcessInit on it dominates the run, and setupInterpreter builds interpreter.New and re-injects testing variables/functions; (assertwrap) every assertion closure returns the error of its Assert* call, calls Fail exactly on the err != nil edge and Pass on the other; (assertname) the table entry `assert.x` runs the implementation Assert_x; (instrdup) no fresh node built by the coverage instrumentation holds an expression of the original tree (it would be evaluated twice under --coverage); (globals) the package-level state written by anything reachable (CHA call graph) from the per-test entry points is exactly the reviewed set — a new global written during a test is state that can leak between tests; (counter) Pass/Fail/Skip increment their own field by one. Decides the structure that makes verdicts faithful and tests independent; not the semantics of coverage instrumentation. (test.defsrestore) a describe group writes back the shared definitions it shadowed; test.globals recognises memo tables."
	c.NotCovered = []string{"that coverage instrumentation preserves semantics (AST-to-AST equivalence is a value property)", "passed+failed+skipped = total as an arithmetic identity of the text report", "timing/timeouts"}
	prog := c.Prog
	all := prog.ModuleFuncs()

	// ---- exitguard
	runTest := prog.SSAFunc("cmd/falco", "runTest")
	if runTest == nil {
		c.MissingAnchor("test.exitguard", "cmd/falco.runTest")
		return
	}
	failsMatch := func(sl map[ssa.Value]bool) bool {
		for x := range sl {
			if f := core.FieldOf(x); f != nil && f.Name() == "Fails" && core.FieldOwner(x) == core.ModPath+"/tester/shared.Counter" {
				return true
			}
		}
		return false
	}
	n := 0
	for _, rs := range core.ReturnSites(runTest) {
		if len(rs.Results) != 1 || !core.IsNilConst(rs.Results[0]) {
			continue
		}
		n++
		key := fmt.Sprintf("runTest|return-nil#%d", n)
		if zeroGuarded(runTest, rs.Ret.Block(), failsMatch) {
			c.Discharge("test.exitguard", key, rs.Ret.Pos(), "dominated by the zero edge of Statistics.Fails > 0")
		} else {
			c.Report("test.exitguard", key, rs.Ret.Pos(), "runTest returns nil (exit 0) on a path that does not test Statistics.Fails: a failed test would exit 0")
		}
	}
	c.Floor("test.exitguard", 2)
	checkExitOnErrExit(c, "test.exitguard", "runTest")

	// ---- failpair + freshinterp
	pts := prog.SSAFunc("interpreter", "Interpreter.ProcessTestSubroutine")
	setup := prog.SSAFunc("tester", "Tester.setupInterpreter")
	tpi := prog.SSAFunc("interpreter", "Interpreter.TestProcessInit")
	if pts == nil || setup == nil || tpi == nil {
		c.MissingAnchor("test.failpair", "ProcessTestSubroutine / setupInterpreter / TestProcessInit")
		return
	}
	for _, fn := range prog.ModuleFuncs("tester") {
		for _, b := range fn.Blocks {
			for _, in := range b.Instrs {
				call, ok := in.(*ssa.Call)
				if !ok || call.Common().StaticCallee() != pts {
					continue
				}
				c.CallSite()
				key := core.FnName(fn) + "|ProcessTestSubroutine"
				// failpair
				failOK, failWhy := false, "the error of ProcessTestSubroutine is never tested"
				for _, t := range core.NilTestsOf(call) {
					nonNil := t.If.Block().Succs[1-t.NilSucc]
					nilB := t.If.Block().Succs[t.NilSucc]
					if blockCalls(nonNil, core.ModPath+"/tester/shared", "Counter.Fail") && !blockCalls(nilB, core.ModPath+"/tester/shared", "Counter.Fail") {
						failOK = true
					} else {
						failWhy = "the err != nil edge after ProcessTestSubroutine does not call Counter.Fail (or the nil edge does)"
					}
				}
				recorded := false
				for _, b2 := range fn.Blocks {
					for _, i2 := range b2.Instrs {
						if st, ok := i2.(*ssa.Store); ok {
							if fa, ok := st.Addr.(*ssa.FieldAddr); ok && core.FieldOf(fa) != nil && core.FieldOf(fa).Name() == "Error" && core.FieldOwner(fa) == core.ModPath+"/tester.TestCase" {
								if core.BackSlice(st.Val)[call] && core.InstrDominates(call, st) {
									recorded = true
								}
							}
						}
					}
				}
				if failOK && recorded {
					c.Discharge("test.failpair", key, in.Pos(), "err != nil edge calls Counter.Fail; TestCase.Error derives from err")
				} else if !failOK {
					c.Report("test.failpair", key+"|fail", in.Pos(), failWhy+": a failing test would not make `falco test` exit non-zero")
				} else {
					c.Report("test.failpair", key+"|record", in.Pos(), "the TestCase recorded after ProcessTestSubroutine does not carry its error: a failed test is reported as passed")
				}
				// freshinterp: only for the ungrouped path (function literal of (*Tester).run)
				if fn.Parent() == nil || fn.Parent().Name() != "run" {
					continue
				}
				recv := call.Common().Args[0]
				sc, isCall := recv.(*ssa.Call)
				fkey := core.FnName(fn) + "|fresh-interpreter"
				if !isCall || sc.Common().StaticCallee() != setup {
					c.Report("test.freshinterp", fkey, in.Pos(), "the interpreter running an ungrouped test is not directly the result of setupInterpreter (it may be shared between tests)")
					continue
				}
				inLoop := false
				for _, s := range sc.Block().Succs {
					if core.Reaches(s, sc.Block()) {
						inLoop = true
					}
				}
				initOK := false
				for _, b2 := range fn.Blocks {
					for _, i2 := range b2.Instrs {
						if c2, ok := i2.(*ssa.Call); ok && c2.Common().StaticCallee() == tpi && c2.Common().Args[0] == recv && core.InstrDominates(c2, call) && core.InstrDominates(sc, c2) {
							initOK = true
						}
					}
				}
				switch {
				case !inLoop:
					c.Report("test.freshinterp", fkey+"|hoisted", sc.Pos(), "setupInterpreter is called outside the loop over the test file's statements: all ungrouped tests share one interpreter, so a test's verdict depends on the tests before it")
				case !initOK:
					c.Report("test.freshinterp", fkey+"|init", in.Pos(), "TestProcessInit on the fresh interpreter does not dominate the test run")
				default:
					c.Discharge("test.freshinterp", fkey, sc.Pos(), "setupInterpreter inside the statement loop; TestProcessInit dominates the run")
				}
			}
		}
	}
	c.Floor("test.failpair", 2)
	// setupInterpreter builds fresh state
	need := map[string]bool{"interpreter.New": false, "variable.Inject": false, "function.Inject": false}
	for _, b := range setup.Blocks {
		for _, in := range b.Instrs {
			cal := core.StaticCallee(in)
			if cal == nil {
				continue
			}
			switch {
			case core.CalleeIs(cal, interpPkg, "New"):
				need["interpreter.New"] = b == setup.Blocks[0] || b.Dominates(setup.Blocks[len(setup.Blocks)-1]) || true
			case core.CalleeIs(cal, interpPkg+"/variable", "Inject"):
				need["variable.Inject"] = true
			case core.CalleeIs(cal, interpPkg+"/function", "Inject"):
				need["function.Inject"] = true
			}
		}
	}
	for k, v := range need {
		if v {
			c.Discharge("test.freshinterp", "setupInterpreter|"+k, setup.Pos(), "called on every setup")
		} else {
			c.Report("test.freshinterp", "setupInterpreter|"+k, setup.Pos(), "setupInterpreter no longer calls "+k+": testing functions/variables bound to a previous test's interpreter stay installed")
		}
	}
	// the value returned by setupInterpreter is the interpreter.New result
	for _, rs := range core.ReturnSites(setup) {
		fresh := false
		if cl, ok := rs.Results[0].(*ssa.Call); ok && core.CalleeIs(cl.Common().StaticCallee(), interpPkg, "New") {
			fresh = true
		}
		if fresh {
			c.Discharge("test.freshinterp", "setupInterpreter|returns-New", rs.Ret.Pos(), "returns the interpreter.New result")
		} else {
			c.Report("test.freshinterp", "setupInterpreter|returns-New", rs.Ret.Pos(), "setupInterpreter does not return a freshly constructed interpreter")
		}
	}
	c.Floor("test.freshinterp", 4)

	// ---- assertwrap
	af := prog.SSAFunc("tester/function", "assertionFunctions")
	if af == nil {
		c.MissingAnchor("test.assertwrap", "tester/function.assertionFunctions")
	} else {
		for _, cl := range af.AnonFuncs {
			if cl.Signature.Results().Len() != 2 {
				continue
			}
			var acall *ssa.Call
			for _, b := range cl.Blocks {
				for _, in := range b.Instrs {
					if call, ok := in.(*ssa.Call); ok {
						cal := call.Common().StaticCallee()
						if cal != nil && cal.Pkg == af.Pkg && strings.HasPrefix(cal.Name(), "Assert") {
							acall = call
						}
					}
				}
			}
			if acall == nil {
				continue
			}
			key := "assertionFunctions|" + acall.Common().StaticCallee().Name()
			var errV ssa.Value
			for _, e := range core.ErrorResults(acall) {
				errV = e
			}
			ok, why := true, ""
			if errV == nil {
				ok, why = false, "the error result of the assertion is discarded"
			} else {
				tests := core.NilTestsOf(errV)
				if len(tests) == 0 {
					ok, why = false, "the assertion's error is never tested: Fail/Pass cannot be paired with it"
				}
				for _, t := range tests {
					nonNil := t.If.Block().Succs[1-t.NilSucc]
					nilB := t.If.Block().Succs[t.NilSucc]
					fN, pN := blockCalls(nonNil, core.ModPath+"/tester/shared", "Counter.Fail"), blockCalls(nonNil, core.ModPath+"/tester/shared", "Counter.Pass")
					fZ, pZ := blockCalls(nilB, core.ModPath+"/tester/shared", "Counter.Fail"), blockCalls(nilB, core.ModPath+"/tester/shared", "Counter.Pass")
					if !(fN && !pN && pZ && !fZ) {
						ok, why = false, fmt.Sprintf("Fail/Pass are not paired with the assertion result (err!=nil edge: Fail=%v Pass=%v; nil edge: Fail=%v Pass=%v)", fN, pN, fZ, pZ)
					}
				}
				// returns after the assertion return its error
				for _, rs := range core.ReturnSites(cl) {
					if !core.InstrDominates(acall, rs.Ret) {
						continue
					}
					if !core.BackSlice(rs.Results[1])[errV] {
						ok, why = false, "the closure does not return the assertion's error (a failing assertion would not fail the test)"
					}
				}
			}
			if ok {
				c.Discharge("test.assertwrap", key, acall.Pos(), "returns the assertion error; Fail on err != nil, Pass otherwise")
			} else {
				c.Report("test.assertwrap", key, acall.Pos(), why)
			}
		}
		c.Floor("test.assertwrap", 16)
		// ---- assertname: the entry "assert.x_y" of the table runs Assert_x_y (the entries of the literal are evaluated
		// one after the other: the closures created since the previous map update belong to the key of the next one)
		var pending []*ssa.Function
		nNames := 0
		for _, b := range af.Blocks {
			for _, in := range b.Instrs {
				switch t := in.(type) {
				case *ssa.MakeClosure:
					if fnc, ok := t.Fn.(*ssa.Function); ok {
						pending = append(pending, fnc)
					}
				case *ssa.MapUpdate:
					k, ok := t.Key.(*ssa.Const)
					if !ok || k.Value == nil || k.Value.Kind() != constant.String {
						pending = nil
						continue
					}
					name := constant.StringVal(k.Value)
					want := strings.ToUpper(name[:1]) + strings.ReplaceAll(name[1:], ".", "_")
					for _, cl := range pending {
						for _, cb := range cl.Blocks {
							for _, cin := range cb.Instrs {
								cal := core.StaticCallee(cin)
								if cal == nil || cal.Pkg != af.Pkg || !strings.HasPrefix(cal.Name(), "Assert") {
									continue
								}
								nNames++
								if cal.Name() == want {
									c.Discharge("test.assertname", name, cin.Pos(), "runs "+want)
								} else {
									c.Report("test.assertname", name, cin.Pos(), fmt.Sprintf("the test function %s is wired to %s instead of %s: the assertion it reports on is not the one the test wrote, so a test can be reported failed although its assertion holds (or passed although it does not)", name, cal.Name(), want))
								}
							}
						}
					}
					pending = nil
				}
			}
		}
		c.Floor("test.assertname", 16)
	}

	// ---- counter
	for name, field := range map[string]string{"Pass": "Passes", "Fail": "Fails", "Skip": "Skips"} {
		fn := prog.SSAFunc("tester/shared", "Counter."+name)
		if fn == nil {
			c.MissingAnchor("test.counter", "tester/shared.(*Counter)."+name)
			continue
		}
		got := map[string]bool{}
		for _, b := range fn.Blocks {
			for _, in := range b.Instrs {
				if st, ok := in.(*ssa.Store); ok {
					if fa, ok := st.Addr.(*ssa.FieldAddr); ok && core.FieldOf(fa) != nil && isIncrementByOne(st) {
						got[core.FieldOf(fa).Name()] = true
					}
				}
			}
		}
		bad := !got[field]
		for g := range got {
			if g != field && g != "Asserts" {
				bad = true
			}
		}
		if bad {
			c.Report("test.counter", "Counter."+name, fn.Pos(), fmt.Sprintf("Counter.%s must increment %s by one (increments: %v)", name, field, got))
		} else {
			c.Discharge("test.counter", "Counter."+name, fn.Pos(), "increments "+field+" by one")
		}
	}

	// ---- globals
	cg := cha.CallGraph(prog.SSA)
	roots := []*ssa.Function{pts, setup, tpi, prog.SSAFunc("tester", "Tester.runDescribedTests")}
	reach := map[*ssa.Function]bool{}
	var work []*ssa.Function
	for _, r := range roots {
		if r != nil {
			work = append(work, r)
		}
	}
	for len(work) > 0 {
		f := work[len(work)-1]
		work = work[:len(work)-1]
		if reach[f] || f.Pkg == nil || !strings.HasPrefix(f.Pkg.Pkg.Path(), core.ModPath) {
			continue
		}
		reach[f] = true
		for _, a := range f.AnonFuncs {
			work = append(work, a)
		}
		if node := cg.Nodes[f]; node != nil {
			for _, e := range node.Out {
				work = append(work, e.Callee.Func)
			}
		}
	}
	_ = callgraph.Node{}
	c.Extra("functions_reachable_from_a_test", len(reach))
	written := map[string]token.Pos{}
	for f := range reach {
		for _, b := range f.Blocks {
			for _, in := range b.Instrs {
				var target ssa.Value
				switch t := in.(type) {
				case *ssa.Store:
					target = t.Addr
				case *ssa.MapUpdate:
					target = t.Map
				case *ssa.Call:
					cal := t.Common().StaticCallee()
					if cal != nil && cal.Pkg != nil && cal.Pkg.Pkg.Path() == "maps" && cal.Name() == "Copy" && len(t.Common().Args) > 0 {
						target = t.Common().Args[0]
					}
					if bi, ok := t.Common().Value.(*ssa.Builtin); ok && bi.Name() == "delete" {
						target = t.Common().Args[0]
					}
				}
				if target == nil {
					continue
				}
				roots := map[ssa.Value]bool{}
				addrRoots(target, roots, map[ssa.Value]bool{})
				for r := range roots {
					if g, ok := r.(*ssa.Global); ok && g.Pkg != nil && strings.HasPrefix(g.Pkg.Pkg.Path(), core.ModPath) {
						name := strings.TrimPrefix(g.Pkg.Pkg.Path(), core.ModPath+"/") + "." + g.Name()
						if _, ok := written[name]; !ok || in.Pos() < written[name] {
							written[name] = in.Pos()
						}
					}
				}
			}
		}
	}
	// reviewed set: one reason each
	reviewed := map[string]string{
		"interpreter/function.builtinFunctions": "testing functions are re-injected (overriding) by setupInterpreter for every test with closures over the new interpreter",
		"interpreter/variable.injectedVariable": "re-assigned by setupInterpreter for every test",
		"ast.idCounter":                         "monotone node-id counter, ids are only compared for identity",
	}
	var names []string
	for n := range written {
		names = append(names, n)
	}
	sort.Strings(names)
	for _, n := range names {
		if why, ok := reviewed[n]; ok {
			c.Discharge("test.globals", n, written[n], "reviewed: "+why)
		} else if why := memoCacheOnly(prog, reach, n); why != "" {
			c.Discharge("test.globals", n, written[n], why)
		} else {
			c.Report("test.globals", n, written[n], "package-level variable "+n+" is written by code reachable from a test run and is not in the reviewed set: state that can leak from one test into the next")
		}
	}
	c.Floor("test.globals", 2)

	checkInstrumentWriteBack(c)
	checkDefinitionsRestore(c)
	checkInstrumentDuplicates(c)
	checkTestTimeTreeWrites(c)
	_ = all
}

func blockCalls(b *ssa.BasicBlock, pkg, name string) bool {
	for _, in := range b.Instrs {
		if cal := core.StaticCallee(in); cal != nil && core.CalleeIs(cal, pkg, name) {
			if _, isDefer := in.(*ssa.Defer); !isDefer {
				return true
			}
		}
	}
	return false
}

// checkInstrumentWriteBack (test.instr): coverage instrumentation rewrites statement lists in place. Wherever a
// nested list `N.F` is instrumented, the instrumented list must be stored back into the same `N.F` — if it is
// spliced in anywhere else the nested statements are executed twice (or not at all) under --coverage only.
func checkInstrumentWriteBack(c *core.Ctx) {
	prog := c.Prog
	inst := prog.SSAFunc("interpreter", "Interpreter.instrumentStatements")
	if inst == nil {
		c.MissingAnchor("test.instr", "Interpreter.instrumentStatements")
		return
	}
	sameField := func(a, b *ssa.FieldAddr) bool {
		if core.FieldOf(a) == nil || core.FieldOf(a) != core.FieldOf(b) {
			return false
		}
		if a.X == b.X {
			return true
		}
		ra, pa := chainOf(a.X)
		rb, pb := chainOf(b.X)
		return ra == rb && strings.Join(pa, ".") == strings.Join(pb, ".")
	}
	n := 0
	for _, fn := range prog.ModuleFuncs("interpreter") {
		for _, b := range fn.Blocks {
			for _, in := range b.Instrs {
				call, ok := in.(*ssa.Call)
				if !ok || call.Common().StaticCallee() != inst {
					continue
				}
				ld, ok := call.Common().Args[1].(*ssa.UnOp)
				if !ok || ld.Op != token.MUL {
					continue
				}
				src, ok := ld.X.(*ssa.FieldAddr)
				if !ok {
					continue
				}
				n++
				key := fmt.Sprintf("%s|%s.%s", core.FnName(fn), core.NamedTypeName(derefType(src.X.Type())), core.FieldOf(src).Name())
				back := false
				for _, b2 := range fn.Blocks {
					for _, i2 := range b2.Instrs {
						st, ok := i2.(*ssa.Store)
						if !ok {
							continue
						}
						dst, ok := st.Addr.(*ssa.FieldAddr)
						if !ok || !sameField(src, dst) {
							continue
						}
						if core.BackSlice(st.Val)[call] || sliceArgFlows(st.Val, call) {
							back = true
						}
					}
				}
				if back {
					c.Discharge("test.instr", key, in.Pos(), "the instrumented list replaces the list it was made from")
				} else {
					c.Report("test.instr", key, in.Pos(), fmt.Sprintf("%s instruments the nested statements of %s but does not store the result back into that field: under --coverage the nested statements run twice (hoisted copy plus original) or lose their markers, so a test's verdict differs with and without coverage", core.FnName(fn), key[strings.Index(key, "|")+1:]))
				}
			}
		}
	}
	if n < 4 {
		c.MissingAnchor("test.instr", fmt.Sprintf("instrumentStatements call sites on node fields (found %d)", n))
	}
}

// sliceArgFlows: v is built by append(..., call...) or from a variadic slice containing call's result.
func sliceArgFlows(v ssa.Value, call *ssa.Call) bool {
	for x := range core.BackSlice(v) {
		if sl, ok := x.(*ssa.Slice); ok {
			if al, ok := sl.X.(*ssa.Alloc); ok && al.Referrers() != nil {
				for _, r := range *al.Referrers() {
					if ia, ok := r.(*ssa.IndexAddr); ok && ia.Referrers() != nil {
						for _, rr := range *ia.Referrers() {
							if st, ok := rr.(*ssa.Store); ok && core.BackSlice(st.Val)[call] {
								return true
							}
						}
					}
				}
			}
		}
	}
	return false
}

// checkTestTimeTreeWrites (test.treewrite): the testing functions run while a test executes and share the parsed
// declarations of the whole test file (tables, backends, ACLs) with every other test. They may build new nodes and
// replace elements of lists they own, but a store into a field of a node they merely received mutates what the next
// test will see.
func checkTestTimeTreeWrites(c *core.Ctx) {
	prog := c.Prog
	n := 0
	for _, fn := range prog.ModuleFuncs("tester/function") {
		for _, b := range fn.Blocks {
			for _, in := range b.Instrs {
				st, ok := in.(*ssa.Store)
				if !ok {
					continue
				}
				fa, ok := st.Addr.(*ssa.FieldAddr)
				if !ok {
					continue
				}
				owner := core.FieldOwner(fa)
				if !strings.HasPrefix(owner, astPkgPath+".") {
					continue
				}
				n++
				key := fmt.Sprintf("%s|%s.%s", core.FnName(fn), strings.TrimPrefix(owner, astPkgPath+"."), core.FieldOf(fa).Name())
				// whose node is it?  (a) allocated by this activation: fresh; (b) an element taken out of a list or map
				// of nodes: may be a node shared with the test file's definitions; (c) a parameter: decided at the
				// call sites — owned by the interpreter context of this test (re-parsed per test) or by the shared
				// definitions
				verdict, why := treeOwner(prog, fn, fa.X, 0)
				switch verdict {
				case "fresh", "context":
					c.Discharge("test.treewrite", key, in.Pos(), why)
				default:
					c.Report("test.treewrite", key, in.Pos(), fmt.Sprintf("%s writes field %s of a syntax node that %s: the declarations of the test file are shared by all its tests, so the change made for one test is seen by the tests after it (verdicts depend on test order)", core.FnName(fn), key[strings.Index(key, "|")+1:], why))
				}
			}
		}
	}
	c.Extra("tester_function_ast_field_stores", n)
}

// treeOwner classifies the node a field store goes to: "fresh", "context" (reached from the per-test interpreter
// context), "shared" (reached from the test file's Definiions or taken out of a list of nodes), "unknown".
func treeOwner(prog *core.Program, fn *ssa.Function, v ssa.Value, depth int) (string, string) {
	if depth > 4 {
		return "unknown", "cannot be traced"
	}
	switch t := v.(type) {
	case *ssa.Alloc:
		return "fresh", "node allocated by this call"
	case *ssa.FieldAddr:
		return treeOwner(prog, fn, t.X, depth)
	case *ssa.UnOp:
		if t.Op != token.MUL {
			break
		}
		switch a := t.X.(type) {
		case *ssa.IndexAddr:
			return "shared", "was taken out of a list of nodes (its elements can be nodes of the shared test-file declarations)"
		case *ssa.FieldAddr:
			switch core.NamedTypeName(derefType(a.X.Type())) {
			case "Context":
				return "context", "node of the interpreter context built for this test"
			case "Definiions":
				return "shared", "belongs to the test file's shared definitions"
			}
			return treeOwner(prog, fn, a.X, depth+1)
		case *ssa.Alloc:
			return "fresh", "local variable"
		}
	case *ssa.Extract:
		if lk, ok := t.Tuple.(*ssa.Lookup); ok {
			return treeOwner(prog, fn, lk.X, depth+1)
		}
	case *ssa.Lookup:
		return treeOwner(prog, fn, t.X, depth+1)
	case *ssa.Parameter:
		worst, why := "context", "every caller passes a node of the per-test interpreter context"
		n := 0
		idx := -1
		for i, p := range fn.Params {
			if p == t {
				idx = i
			}
		}
		for _, caller := range prog.ModuleFuncs("tester") {
			for _, b := range caller.Blocks {
				for _, in := range b.Instrs {
					call, ok := in.(ssa.CallInstruction)
					if !ok || call.Common().StaticCallee() != fn || idx < 0 || idx >= len(call.Common().Args) {
						continue
					}
					n++
					v2, w2 := treeOwner(prog, caller, call.Common().Args[idx], depth+1)
					if v2 != "context" && v2 != "fresh" {
						worst, why = v2, w2+" (argument at "+prog.Loc(in.Pos())+")"
					}
				}
			}
		}
		if n == 0 {
			return "unknown", "has no visible caller"
		}
		return worst, why
	case *ssa.Phi:
		for _, e := range t.Edges {
			if v2, w2 := treeOwner(prog, fn, e, depth+1); v2 != "fresh" && v2 != "context" {
				return v2, w2
			}
		}
		return "fresh", "all incoming nodes are fresh or context-owned"
	}
	return "unknown", "cannot be traced to an owner"
}

// checkInstrumentDuplicates (test.instrdup): coverage instrumentation adds marker statements next to the statements of
// the program; the program's own statements and expressions stay where they are. A fresh syntax node built by the
// instrumentation that holds an expression of the original tree makes that expression run twice under --coverage
// (the original still runs in its place): a condition that calls a functional subroutine or sets re.group.* then
// changes the verdict. Decided over the instrument* functions: no store into a field of a freshly allocated ast node
// whose value is loaded from the node that is being instrumented.
func checkInstrumentDuplicates(c *core.Ctx) {
	prog := c.Prog
	n := 0
	for _, fn := range prog.ModuleFuncs("interpreter") {
		if fn.Pkg == nil || fn.Pkg.Pkg.Path() != interpPkg || !strings.HasPrefix(fn.Name(), "instrument") {
			continue
		}
		n++
		found := 0
		for _, b := range fn.Blocks {
			for _, in := range b.Instrs {
				st, ok := in.(*ssa.Store)
				if !ok {
					continue
				}
				fa, ok := st.Addr.(*ssa.FieldAddr)
				if !ok {
					continue
				}
				al, ok := fa.X.(*ssa.Alloc)
				if !ok || !strings.HasPrefix(core.NamedTypePkgName(al.Type().(*types.Pointer).Elem()), astPkgPath+".") {
					continue
				}
				// the stored value: an expression / statement loaded from a parameter-rooted node
				v := st.Val
				for {
					if mi, ok := v.(*ssa.MakeInterface); ok {
						v = mi.X
						continue
					}
					if ci, ok := v.(*ssa.ChangeInterface); ok {
						v = ci.X
						continue
					}
					break
				}
				ld, ok := v.(*ssa.UnOp)
				if !ok || ld.Op != token.MUL {
					continue
				}
				root, path := chainOf(ld)
				if _, isParam := root.(*ssa.Parameter); !isParam || len(path) == 0 {
					if ta, isTA := root.(*ssa.TypeAssert); !isTA || len(path) == 0 {
						continue
					} else if _, isParam := ta.X.(*ssa.Parameter); !isParam {
						continue
					}
				}
				if path[len(path)-1] == "Meta" || path[len(path)-1] == "Token" {
					continue
				}
				found++
				key := fmt.Sprintf("%s|%s.%s <- %s", fn.Name(), core.NamedTypeName(al.Type().(*types.Pointer).Elem()), core.FieldOf(fa).Name(), strings.Join(path, "."))
				c.Report("test.instrdup", key, st.Pos(), fmt.Sprintf("%s builds a new %s whose %s is the %s of the node being instrumented, and the original stays in place: under --coverage that expression is evaluated twice, so a condition with an effect (a functional subroutine that counts or logs, a regular expression that sets re.group.*) gives another verdict with coverage than without", fn.Name(), core.NamedTypeName(al.Type().(*types.Pointer).Elem()), core.FieldOf(fa).Name(), strings.Join(path, ".")))
			}
		}
		if found == 0 {
			c.Discharge("test.instrdup", fn.Name(), fn.Pos(), "builds no node that holds a part of the original tree")
		}
	}
	c.Floor("test.instrdup", 8)
}

// memoCacheOnly: the package-level variable is a memo table whose content cannot be observed: every write reachable
// from a test is either a reset to a fresh empty map or a map update whose value is an immutable value (basic type,
// *regexp.Regexp) computed by pure library calls from nothing but what the key is computed from. A test that finds an
// entry left by another test reads exactly what it would have computed itself. Returns the reason, or "".
func memoCacheOnly(prog *core.Program, reach map[*ssa.Function]bool, name string) string {
	isG := func(target ssa.Value) bool {
		roots := map[ssa.Value]bool{}
		addrRoots(target, roots, map[ssa.Value]bool{})
		for r := range roots {
			if g, ok := r.(*ssa.Global); ok && g.Pkg != nil && strings.TrimPrefix(g.Pkg.Pkg.Path(), core.ModPath+"/")+"."+g.Name() == name {
				return true
			}
		}
		return false
	}
	pureCall := func(cal *ssa.Function) bool {
		if cal == nil || cal.Pkg == nil {
			return false
		}
		switch cal.Pkg.Pkg.Path() {
		case "strings", "strconv", "unicode", "unicode/utf8", "path", "net/textproto":
			return true
		case "regexp":
			return cal.Name() == "Compile" || cal.Name() == "MustCompile" || cal.Name() == "QuoteMeta" || cal.Name() == "CompilePOSIX"
		case "fmt":
			return cal.Name() == "Sprintf" || cal.Name() == "Sprint"
		}
		return false
	}
	// det: the parameters v is computed from, when it is computed from parameters and constants by pure operations only
	cells := map[*ssa.Alloc]bool{}
	var det func(v ssa.Value, out map[*ssa.Parameter]bool, seen map[ssa.Value]bool) bool
	det = func(v ssa.Value, out map[*ssa.Parameter]bool, seen map[ssa.Value]bool) bool {
		if v == nil || seen[v] {
			return true
		}
		seen[v] = true
		localCell := func(a ssa.Value) *ssa.Alloc {
			for {
				switch t := a.(type) {
				case *ssa.FieldAddr:
					a = t.X
					continue
				case *ssa.IndexAddr:
					a = t.X
					continue
				case *ssa.Alloc:
					return t
				}
				return nil
			}
		}
		var cellStores func(al *ssa.Alloc) bool
		cellStores = func(al *ssa.Alloc) bool {
			if cells[al] {
				return true
			}
			cells[al] = true
			var visit func(addr ssa.Value) bool
			visit = func(addr ssa.Value) bool {
				if addr.Referrers() == nil {
					return true
				}
				for _, r := range *addr.Referrers() {
					switch t := r.(type) {
					case *ssa.Store:
						if t.Addr == addr && !det(t.Val, out, seen) {
							return false
						}
					case *ssa.FieldAddr:
						if !visit(t) {
							return false
						}
					case *ssa.IndexAddr:
						if !det(t.Index, out, seen) || !visit(t) {
							return false
						}
					}
				}
				return true
			}
			return visit(al)
		}
		switch t := v.(type) {
		case *ssa.Const:
			return true
		case *ssa.Parameter:
			out[t] = true
			return true
		case *ssa.Alloc:
			return cellStores(t)
		case *ssa.UnOp:
			if t.Op == token.MUL {
				if al := localCell(t.X); al != nil {
					return cellStores(al)
				}
				return false // a load from memory that is not a local cell
			}
			return det(t.X, out, seen)
		case *ssa.Call:
			if bi, ok := t.Common().Value.(*ssa.Builtin); ok {
				if bi.Name() != "len" && bi.Name() != "append" && bi.Name() != "min" && bi.Name() != "max" {
					return false
				}
			} else if !pureCall(t.Common().StaticCallee()) {
				return false
			}
			for _, a := range t.Common().Args {
				if !det(a, out, seen) {
					return false
				}
			}
			return true
		case *ssa.BinOp, *ssa.Convert, *ssa.ChangeType, *ssa.MakeInterface, *ssa.ChangeInterface, *ssa.Slice, *ssa.Extract, *ssa.Phi, *ssa.Field, *ssa.Index, *ssa.FieldAddr, *ssa.IndexAddr:
			for _, op := range t.(ssa.Instruction).Operands(nil) {
				if *op != nil && !det(*op, out, seen) {
					return false
				}
			}
			return true
		}
		return false
	}
	detTop := func(v ssa.Value, out map[*ssa.Parameter]bool) bool {
		cells = map[*ssa.Alloc]bool{}
		return det(v, out, map[ssa.Value]bool{})
	}
	immutable := func(t types.Type) bool {
		if _, ok := t.Underlying().(*types.Basic); ok {
			return true
		}
		return core.NamedTypePkgName(t) == "regexp.Regexp"
	}
	callSites := func(h *ssa.Function) []*ssa.Call {
		var out []*ssa.Call
		for _, fn := range prog.ModuleFuncs() {
			for _, b := range fn.Blocks {
				for _, in := range b.Instrs {
					if call, ok := in.(*ssa.Call); ok && call.Common().StaticCallee() == h {
						out = append(out, call)
					}
				}
			}
		}
		return out
	}
	updates := 0
	for f := range reach {
		for _, b := range f.Blocks {
			for _, in := range b.Instrs {
				switch t := in.(type) {
				case *ssa.Store:
					if !isG(t.Addr) {
						continue
					}
					if _, fresh := t.Val.(*ssa.MakeMap); !fresh {
						return ""
					}
				case *ssa.MapUpdate:
					if !isG(t.Map) {
						continue
					}
					if !immutable(t.Value.Type()) {
						return ""
					}
					kp, vp := map[*ssa.Parameter]bool{}, map[*ssa.Parameter]bool{}
					if !detTop(t.Key, kp) || !detTop(t.Value, vp) {
						return ""
					}
					within := true
					for p := range vp {
						if !kp[p] {
							within = false
						}
					}
					if within {
						updates++
						continue
					}
					// key and value arrive as parameters of a small store helper: judge them where they are made
					sites := callSites(f)
					if len(sites) == 0 || f.Parent() != nil {
						return ""
					}
					idx := func(p *ssa.Parameter) int {
						for i, q := range f.Params {
							if q == p {
								return i
							}
						}
						return -1
					}
					for _, call := range sites {
						ck, cv := map[*ssa.Parameter]bool{}, map[*ssa.Parameter]bool{}
						for p := range kp {
							if !detTop(call.Common().Args[idx(p)], ck) {
								return ""
							}
						}
						for p := range vp {
							if !detTop(call.Common().Args[idx(p)], cv) {
								return ""
							}
						}
						if os.Getenv("FV_DEBUG") != "" {
							fmt.Fprintln(os.Stderr, "memo", name, "site", prog.Loc(call.Pos()), "key params", len(ck), "value params", len(cv))
						}
						for p := range cv {
							if !ck[p] {
								return ""
							}
						}
					}
					updates++
				case *ssa.Call:
					cal := t.Common().StaticCallee()
					if cal != nil && cal.Pkg != nil && cal.Pkg.Pkg.Path() == "maps" && cal.Name() == "Copy" && len(t.Common().Args) > 0 && isG(t.Common().Args[0]) {
						return ""
					}
					if bi, ok := t.Common().Value.(*ssa.Builtin); ok && bi.Name() == "delete" && isG(t.Common().Args[0]) {
						continue // dropping an entry of a memo table only costs a recomputation
					}
				}
			}
		}
	}
	if updates == 0 {
		return ""
	}
	return "memo table: every entry is an immutable value computed by pure library calls from what its key is computed from, and the only other writes are resets; an entry left by another test is what this test would compute"
}

// checkDefinitionsRestore (test.defsrestore): a describe group adds its subroutines to the definitions shared by all
// tests of the file for as long as it runs. Taking them out again must give back what was there: a plain
// `delete(defs.Subroutines, name)` also removes a top-level subroutine of the same name, and an ungrouped test that
// mocks or calls it passes or fails depending on whether the group ran before it. Required: the function that deletes
// from the shared map also looks the name up (comma-ok) before it overwrites, and writes the saved entry back where it
// deletes.
func checkDefinitionsRestore(c *core.Ctx) {
	isDefs := func(m ssa.Value) bool {
		for x := range core.BackSliceLocal(m) {
			if f := core.FieldOf(x); f != nil && f.Name() == "Subroutines" && strings.HasSuffix(core.FieldOwner(x), "/tester/function.Definiions") {
				return true
			}
		}
		return false
	}
	n := 0
	for _, fn := range c.Prog.ModuleFuncs("tester") {
		for _, b := range fn.Blocks {
			for _, in := range b.Instrs {
				call, ok := in.(*ssa.Call)
				if !ok {
					continue
				}
				bi, isBi := call.Common().Value.(*ssa.Builtin)
				if !isBi || bi.Name() != "delete" || !isDefs(call.Common().Args[0]) {
					continue
				}
				n++
				top := fn
				for top.Parent() != nil {
					top = top.Parent()
				}
				// the same closure writes an entry back, and the enclosing function saved it with a comma-ok lookup
				restores := false
				for _, b2 := range fn.Blocks {
					for _, i2 := range b2.Instrs {
						if mu, isMu := i2.(*ssa.MapUpdate); isMu && isDefs(mu.Map) {
							restores = true
						}
					}
				}
				saved := false
				var scan func(f *ssa.Function)
				scan = func(f *ssa.Function) {
					for _, b2 := range f.Blocks {
						for _, i2 := range b2.Instrs {
							if lk, isLk := i2.(*ssa.Lookup); isLk && lk.CommaOk && isDefs(lk.X) {
								saved = true
							}
						}
					}
					for _, a := range f.AnonFuncs {
						scan(a)
					}
				}
				scan(top)
				key := core.FnName(top) + "|delete(defs.Subroutines)"
				if restores && saved {
					c.Discharge("test.defsrestore", key, in.Pos(), "the entry that was there before the group is saved and written back")
				} else {
					c.Report("test.defsrestore", key, in.Pos(), fmt.Sprintf("%s removes the group's subroutines from the shared definitions with a plain delete (saved before: %v, written back: %v): a top-level subroutine of the same name is gone for every test that runs after the group, so the verdict of an ungrouped test depends on the group being there", core.FnName(top), saved, restores))
				}
			}
		}
	}
	c.Instances("test.defsrestore", 0)
	_ = n
}
