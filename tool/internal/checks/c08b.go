package checks

import (
	"fmt"
	"go/token"
	"go/types"
	"os"
	"sort"
	"strings"

	"fv/internal/core"

	"golang.org/x/tools/go/ssa"
)

// checkCtxNil (sim.ctxnil): typestate of the per-request objects of the simulator context over the lifecycle functions.
//
// A pointer field of interpreter/context.Context that some function resets to nil (restart() does this for the backend
// request, backend response, object and response) is "established" at a program point when every path to it has stored
// a non-nil value since. The set established on entry of a function is the intersection, over all its call sites in
// package interpreter, of what is established there (greatest fixpoint; functions nobody calls start with nothing).
// Every dereference of such a field must be established, or dominated by a non-nil test of the same field.
// The Fastly state machine lets a request reach vcl_deliver without a backend response or an object
// (vcl_miss -> deliver_stale): a dereference that is only established on the usual path is a crash on the other.
func checkCtxNil(c *core.Ctx) {
	prog := c.Prog
	ctxOwner := interpPkg + "/context.Context"
	funcs := prog.ModuleFuncs("interpreter")
	var own []*ssa.Function
	for _, fn := range funcs {
		if fn.Pkg != nil && fn.Pkg.Pkg.Path() == interpPkg {
			own = append(own, fn)
		}
	}
	isCtxField := func(v ssa.Value) *types.Var {
		fa, ok := v.(*ssa.FieldAddr)
		if !ok || core.FieldOwner(fa) != ctxOwner {
			return nil
		}
		return core.FieldOf(fa)
	}
	// nil-able fields: stored nil somewhere
	nilable := map[*types.Var]bool{}
	for _, fn := range own {
		for _, b := range fn.Blocks {
			for _, in := range b.Instrs {
				if st, ok := in.(*ssa.Store); ok && core.IsNilConst(st.Val) {
					if f := isCtxField(st.Addr); f != nil {
						if _, isPtr := f.Type().Underlying().(*types.Pointer); isPtr {
							nilable[f] = true
						}
					}
				}
			}
		}
	}
	// ... and pointer fields context.New leaves nil (options, objects created later in the lifecycle)
	if cnew := prog.SSAFunc("interpreter/context", "New"); cnew != nil {
		set := map[*types.Var]bool{}
		for _, b := range cnew.Blocks {
			for _, in := range b.Instrs {
				if st, ok := in.(*ssa.Store); ok && !core.IsNilConst(st.Val) {
					if f := isCtxField(st.Addr); f != nil {
						set[f] = true
					}
				}
			}
		}
		if cp := prog.Pkg("interpreter/context"); cp != nil && len(set) > 20 {
			if st, ok := cp.Types.Scope().Lookup("Context").Type().Underlying().(*types.Struct); ok {
				for i := 0; i < st.NumFields(); i++ {
					f := st.Field(i)
					if _, isPtr := f.Type().Underlying().(*types.Pointer); isPtr && !set[f] && f.Name() != "Request" {
						nilable[f] = true
					}
				}
			}
		}
	}
	if len(nilable) == 0 {
		c.MissingAnchor("sim.ctxnil", "no context field is reset to nil (restart)")
		return
	}
	var names []string
	for f := range nilable {
		names = append(names, f.Name())
	}
	sort.Strings(names)
	c.Extra("ctx_fields_reset_to_nil", names)

	type fset map[*types.Var]bool
	all := func() fset {
		s := fset{}
		for f := range nilable {
			s[f] = true
		}
		return s
	}
	// nil test of a context field: returns the field and the successor index taken when it is non-nil
	nilTestOf := func(b *ssa.BasicBlock) (*types.Var, int) {
		iff, ok := b.Instrs[len(b.Instrs)-1].(*ssa.If)
		if !ok {
			return nil, 0
		}
		bo, ok := iff.Cond.(*ssa.BinOp)
		if !ok || (bo.Op != token.EQL && bo.Op != token.NEQ) {
			return nil, 0
		}
		tested, other := bo.X, bo.Y
		if core.IsNilConst(bo.X) {
			tested, other = bo.Y, bo.X
		}
		if !core.IsNilConst(other) {
			return nil, 0
		}
		tl, ok := tested.(*ssa.UnOp)
		if !ok || tl.Op != token.MUL {
			return nil, 0
		}
		f := isCtxField(tl.X)
		if f == nil || !nilable[f] {
			return nil, 0
		}
		if bo.Op == token.EQL {
			return f, 1
		}
		return f, 0
	}
	// forward must-dataflow: fields established at the entry of every block (meet = intersection), with stores as
	// transfer and the non-nil edge of a nil test as refinement
	type flow struct {
		in map[*ssa.BasicBlock]fset
	}
	flows := map[*ssa.Function]*flow{}
	flowEntry := map[*ssa.Function]string{}
	sig := func(s fset) string {
		var ns []string
		for f := range s {
			ns = append(ns, f.Name())
		}
		sort.Strings(ns)
		return strings.Join(ns, ",")
	}
	transfer := func(s fset, in ssa.Instruction) {
		if st, ok := in.(*ssa.Store); ok {
			if f := isCtxField(st.Addr); f != nil && nilable[f] {
				if core.IsNilConst(st.Val) {
					delete(s, f)
				} else {
					s[f] = true
				}
			}
		}
	}
	computeFlow := func(fn *ssa.Function, entry fset) *flow {
		if fl := flows[fn]; fl != nil && flowEntry[fn] == sig(entry) {
			return fl
		}
		fl := &flow{in: map[*ssa.BasicBlock]fset{}}
		if len(fn.Blocks) == 0 {
			return fl
		}
		for _, b := range fn.Blocks {
			fl.in[b] = all()
		}
		e := fset{}
		for f := range entry {
			e[f] = true
		}
		fl.in[fn.Blocks[0]] = e
		for changed := true; changed; {
			changed = false
			for _, b := range fn.Blocks {
				out := fset{}
				for f := range fl.in[b] {
					out[f] = true
				}
				for _, in := range b.Instrs {
					transfer(out, in)
				}
				tf, nonNilIdx := nilTestOf(b)
				for i, s := range b.Succs {
					if s == fn.Blocks[0] {
						continue
					}
					for f := range fl.in[s] {
						have := out[f] || (tf == f && i == nonNilIdx)
						if !have {
							delete(fl.in[s], f)
							changed = true
						}
					}
				}
			}
		}
		flows[fn] = fl
		flowEntry[fn] = sig(entry)
		return fl
	}
	establishedAt := func(fn *ssa.Function, at ssa.Instruction, entry fset) fset {
		fl := computeFlow(fn, entry)
		out := fset{}
		for f := range fl.in[at.Block()] {
			out[f] = true
		}
		for _, in := range at.Block().Instrs {
			if in == at {
				break
			}
			transfer(out, in)
		}
		return out
	}
	// what a lifecycle scope establishes before it runs its subroutine: est at the ProcessSubroutine call of Process<Scope>
	psub := prog.SSAFunc("interpreter", "Interpreter.ProcessSubroutine")
	scopeConst := map[int64]string{}
	if cp := prog.Pkg("interpreter/context"); cp != nil {
		for _, n := range cp.Types.Scope().Names() {
			if k, ok := cp.Types.Scope().Lookup(n).(*types.Const); ok && core.NamedTypeName(k.Type()) == "Scope" {
				if v, ok := constantInt64(k); ok {
					scopeConst[v] = strings.TrimSuffix(n, "Scope")
				}
			}
		}
	}
	var entry map[*ssa.Function]fset
	scopeEst := func(scope string) fset {
		fn := prog.SSAFunc("interpreter", "Interpreter.Process"+scope)
		if fn == nil || psub == nil || entry == nil {
			return fset{}
		}
		var out fset
		for _, b := range fn.Blocks {
			for _, in := range b.Instrs {
				if call, ok := in.(*ssa.Call); ok && call.Common().StaticCallee() == psub {
					e := establishedAt(fn, in, entry[fn])
					if out == nil {
						out = e
					} else {
						for f := range out {
							if !e[f] {
								delete(out, f)
							}
						}
					}
				}
			}
		}
		if out == nil {
			return fset{}
		}
		return out
	}
	// scopes admitted at an instruction by a dominating Scope.Is(...) test whose failing edge reports an error
	scopesAt := func(fn *ssa.Function, at ssa.Instruction) []string {
		for _, b := range fn.Blocks {
			for _, in := range b.Instrs {
				cal := core.StaticCallee(in)
				if cal == nil || cal.Name() != "Is" || cal.Signature.Recv() == nil || core.NamedTypeName(cal.Signature.Recv().Type()) != "Scope" {
					continue
				}
				cv, ok := in.(ssa.Value)
				if !ok || cv.Referrers() == nil {
					continue
				}
				for _, r := range *cv.Referrers() {
					iff, ok := r.(*ssa.If)
					if !ok || !core.EdgeDominates(iff.Block(), 0, at.Block()) {
						continue
					}
					var out []string
					for _, v := range sliceLitConsts(in.(ssa.CallInstruction).Common().Args[1]) {
						if n := scopeConst[v]; n != "" {
							out = append(out, n)
						}
					}
					return out
				}
			}
		}
		return nil
	}
	// entry sets: greatest fixpoint over the call sites inside package interpreter
	entry = map[*ssa.Function]fset{}
	called := map[*ssa.Function]bool{}
	for _, fn := range own {
		for _, b := range fn.Blocks {
			for _, in := range b.Instrs {
				if cal := core.StaticCallee(in); cal != nil && cal.Pkg != nil && cal.Pkg.Pkg.Path() == interpPkg {
					called[cal] = true
				}
				if mc, ok := in.(*ssa.MakeClosure); ok {
					called[mc.Fn.(*ssa.Function)] = true
				}
			}
		}
	}
	for _, fn := range own {
		if called[fn] {
			entry[fn] = all()
		} else {
			entry[fn] = fset{}
		}
	}
	for changed := true; changed; {
		changed = false
		for _, fn := range own {
			for _, b := range fn.Blocks {
				for _, in := range b.Instrs {
					var callee *ssa.Function
					if cal := core.StaticCallee(in); cal != nil && cal.Pkg != nil && cal.Pkg.Pkg.Path() == interpPkg {
						callee = cal
					}
					if mc, ok := in.(*ssa.MakeClosure); ok {
						callee = mc.Fn.(*ssa.Function)
					}
					if callee == nil || entry[callee] == nil {
						continue
					}
					est := establishedAt(fn, in, entry[fn])
					// a call that only happens in certain lifecycle scopes also has what those scopes establish
					if scs := scopesAt(fn, in); len(scs) > 0 {
						if os.Getenv("FV_DEBUG_CTX") != "" {
							fmt.Fprintf(os.Stderr, "CTX %s calls %s under scopes %v est(%s)=%v\n", fn.Name(), callee.Name(), scs, scs[0], sig(scopeEst(scs[0])))
						}
						extra := all()
						for _, sc := range scs {
							se := scopeEst(sc)
							for f := range extra {
								if !se[f] {
									delete(extra, f)
								}
							}
						}
						for f := range extra {
							est[f] = true
						}
					}
					for f := range entry[callee] {
						if !est[f] {
							delete(entry[callee], f)
							changed = true
						}
					}
				}
			}
		}
	}
	// uses
	n := 0
	for _, fn := range own {
		if strings.HasPrefix(fn.Name(), "Test") || strings.Contains(fn.Name(), "Testing") {
			continue // the unit-test entry points set every object up front (TestProcessInit)
		}
		per := map[string]int{}
		for _, b := range fn.Blocks {
			for _, in := range b.Instrs {
				ld, ok := in.(*ssa.UnOp)
				if !ok || ld.Op != token.MUL {
					continue
				}
				f := isCtxField(ld.X)
				if f == nil || !nilable[f] || ld.Referrers() == nil {
					continue
				}
				// dereferenced?
				var derefs []ssa.Instruction
				for _, r := range *ld.Referrers() {
					switch t := r.(type) {
					case *ssa.FieldAddr:
						if t.X == ssa.Value(ld) {
							derefs = append(derefs, t)
						}
					case *ssa.UnOp:
						if t.Op == token.MUL && t.X == ssa.Value(ld) {
							derefs = append(derefs, t)
						}
					case ssa.CallInstruction:
						if cal := t.Common().StaticCallee(); cal != nil && cal.Signature.Recv() != nil && len(t.Common().Args) > 0 && t.Common().Args[0] == ssa.Value(ld) {
							// a method on the object: it reads through the receiver
							derefs = append(derefs, t)
						}
					}
				}
				for _, deref := range derefs {
					n++
					if est := establishedAt(fn, deref, entry[fn]); est[f] {
						c.Instance("sim.ctxnil")
						continue
					}
					per[f.Name()]++
					if per[f.Name()] > 1 {
						continue // one finding per function and field
					}
					key := fmt.Sprintf("%s|%s", core.FnName(fn), f.Name())
					c.Report("sim.ctxnil", key, deref.Pos(), fmt.Sprintf("%s dereferences ctx.%s, which can be nil (reset by restart() or not yet created) and is not stored (or tested) on every path that leads here — the state machine reaches this function from several states: a request that arrives without it makes the simulator crash with a nil pointer dereference instead of reporting an error", core.FnName(fn), f.Name()))
				}
			}
		}
		for _, fname := range names {
			if per[fname] == 0 {
				continue
			}
		}
	}
	// ---- the variable objects: what Get/Set/Unset/Add of a scope's variables dereference must be established when that
	// scope runs its subroutine
	vfuncs := prog.ModuleFuncs("interpreter/variable")
	needs := map[*ssa.Function]map[*types.Var]token.Pos{}
	for _, fn := range vfuncs {
		fl := computeFlow(fn, fset{})
		for _, b := range fn.Blocks {
			for _, in := range b.Instrs {
				ld, ok := in.(*ssa.UnOp)
				if !ok || ld.Op != token.MUL {
					continue
				}
				f := isCtxField(ld.X)
				if f == nil || !nilable[f] || ld.Referrers() == nil {
					continue
				}
				var derefs []ssa.Instruction
				for _, r := range *ld.Referrers() {
					switch t := r.(type) {
					case *ssa.FieldAddr:
						if t.X == ssa.Value(ld) {
							derefs = append(derefs, t)
						}
					case *ssa.UnOp:
						if t.Op == token.MUL && t.X == ssa.Value(ld) {
							derefs = append(derefs, t)
						}
					case ssa.CallInstruction:
						if cal := t.Common().StaticCallee(); cal != nil && cal.Signature.Recv() != nil && len(t.Common().Args) > 0 && t.Common().Args[0] == ssa.Value(ld) {
							derefs = append(derefs, t)
						}
					}
				}
				for _, d := range derefs {
					est := fset{}
					for x := range fl.in[d.Block()] {
						est[x] = true
					}
					for _, i2 := range d.Block().Instrs {
						if i2 == d {
							break
						}
						transfer(est, i2)
					}
					if est[f] {
						continue
					}
					if needs[fn] == nil {
						needs[fn] = map[*types.Var]token.Pos{}
					}
					if _, ok := needs[fn][f]; !ok {
						needs[fn][f] = d.Pos()
					}
				}
			}
		}
	}
	for _, sc := range []string{"Recv", "Hash", "Hit", "Miss", "Pass", "Fetch", "Error", "Deliver", "Log"} {
		est := scopeEst(sc)
		if sc == "Log" {
			// vcl_log runs its subroutine after ProcessLog has derived the response when it can
			if lf := prog.SSAFunc("interpreter", "Interpreter.ProcessLog"); lf != nil {
				for f := range entry[lf] {
					est[f] = true
				}
			}
		}
		reach := map[*ssa.Function]bool{}
		var work []*ssa.Function
		for _, m := range []string{"Get", "Set", "Unset", "Add"} {
			if fn := prog.SSAFunc("interpreter/variable", sc+"ScopeVariables."+m); fn != nil {
				work = append(work, fn)
			}
		}
		for len(work) > 0 {
			fn := work[len(work)-1]
			work = work[:len(work)-1]
			if reach[fn] {
				continue
			}
			reach[fn] = true
			for _, b := range fn.Blocks {
				for _, in := range b.Instrs {
					if cal := core.StaticCallee(in); cal != nil && cal.Pkg != nil && cal.Pkg.Pkg.Path() == interpPkg+"/variable" {
						work = append(work, cal)
					}
				}
			}
		}
		missing := map[string]string{}
		for fn := range reach {
			for f, pos := range needs[fn] {
				if !est[f] {
					if _, ok := missing[f.Name()]; !ok || prog.Loc(pos) < missing[f.Name()] {
						missing[f.Name()] = prog.Loc(pos) + " in " + core.FnName(fn)
					}
				}
			}
		}
		var fs []string
		for f := range missing {
			fs = append(fs, f)
		}
		sort.Strings(fs)
		if len(fs) == 0 {
			c.Discharge("sim.ctxnil", "variables|"+sc, token.NoPos, "everything the "+sc+" variable object dereferences is established when vcl_"+strings.ToLower(sc)+" runs ("+sig(est)+")")
		}
		for _, f := range fs {
			c.ReportAt("sim.ctxnil", "variables|"+sc+"|"+f, strings.SplitN(missing[f], ":", 2)[0], 0, fmt.Sprintf("the variable object of vcl_%s dereferences ctx.%s (%s) although Process%s does not establish it on every path before it runs the subroutine (established: {%s}): reading or writing such a variable there crashes the simulator with a nil pointer dereference", strings.ToLower(sc), f, missing[f], sc, sig(est)))
		}
	}
	c.Extra("ctx_derefs_checked", n)
	var es []string
	for _, fn := range own {
		if strings.HasPrefix(fn.Name(), "Process") && fn.Parent() == nil {
			var fs []string
			for f := range entry[fn] {
				fs = append(fs, f.Name())
			}
			sort.Strings(fs)
			es = append(es, fn.Name()+": {"+strings.Join(fs, ",")+"}")
		}
	}
	sort.Strings(es)
	c.Extra("ctx_established_on_entry", es)
}

func constantInt64(k *types.Const) (int64, bool) {
	return core.ConstInt64(k)
}
