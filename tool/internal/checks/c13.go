package checks

import (
	"fmt"
	"go/token"
	"go/types"
	"strings"

	"fv/internal/core"

	"golang.org/x/tools/go/ssa"
)

// C13 — evaluation changes only what it names (E15 purity/ownership).
func init() {
	register(&Check{ID: "C13", NeedSSA: true, Run: runC13})
}

func isValueKindPtr(t types.Type) bool {
	pt, ok := types.Unalias(t).(*types.Pointer)
	if !ok {
		return false
	}
	n := core.NamedTypePkgName(pt)
	if !strings.HasPrefix(n, valuePkg+".") {
		return false
	}
	_, isStruct := pt.Elem().Underlying().(*types.Struct)
	return isStruct
}

func isValueIface(t types.Type) bool {
	return core.NamedTypePkgName(t) == valuePkg+".Value"
}

type purity struct {
	prog     *core.Program
	retFresh map[*ssa.Function]bool
}

// computeRetFresh: functions all of whose value-typed results are freshly allocated (least fixpoint).
func (p *purity) computeRetFresh(funcs []*ssa.Function) {
	p.retFresh = map[*ssa.Function]bool{}
	for changed := true; changed; {
		changed = false
		for _, fn := range funcs {
			if p.retFresh[fn] {
				continue
			}
			res := fn.Signature.Results()
			hasVal := false
			for i := 0; i < res.Len(); i++ {
				if isValueIface(res.At(i).Type()) || isValueKindPtr(res.At(i).Type()) {
					hasVal = true
				}
			}
			if !hasVal {
				continue
			}
			ok := true
			for _, rs := range core.ReturnSites(fn) {
				for _, r := range rs.Results {
					if !(isValueIface(r.Type()) || isValueKindPtr(r.Type())) {
						continue
					}
					if !p.fresh(r, map[ssa.Value]bool{}) {
						ok = false
					}
				}
			}
			if ok {
				p.retFresh[fn] = true
				changed = true
			}
		}
	}
}

// fresh: v is a value allocated by this activation (or by a callee summarised returns-fresh), or a shared immutable
// singleton (value.Null and other package-level values are never written through: checked by the store rule).
func (p *purity) fresh(v ssa.Value, seen map[ssa.Value]bool) bool {
	if seen[v] {
		return true
	}
	seen[v] = true
	switch t := v.(type) {
	case *ssa.Alloc:
		return true
	case *ssa.Const:
		return true
	case *ssa.MakeInterface:
		return p.fresh(t.X, seen)
	case *ssa.ChangeInterface:
		return p.fresh(t.X, seen)
	case *ssa.TypeAssert:
		return p.fresh(t.X, seen)
	case *ssa.Extract:
		return p.fresh(t.Tuple, seen)
	case *ssa.Phi:
		for _, e := range t.Edges {
			if !p.fresh(e, seen) {
				return false
			}
		}
		return true
	case *ssa.UnOp:
		if t.Op == token.MUL {
			if g, ok := t.X.(*ssa.Global); ok {
				return g.Name() == "Null" // value.Null: immutable sentinel
			}
			if al, ok := t.X.(*ssa.Alloc); ok {
				// local cell
				if al.Referrers() != nil {
					any := false
					for _, r := range *al.Referrers() {
						if st, ok := r.(*ssa.Store); ok && st.Addr == ssa.Value(al) {
							any = true
							if !p.fresh(st.Val, seen) {
								return false
							}
						}
					}
					return any
				}
			}
		}
		return false
	case *ssa.Call:
		cal := t.Common().StaticCallee()
		if cal != nil {
			if p.retFresh[cal] {
				return true
			}
			// methods named Copy on value kinds return a new value by contract (checked by retFresh when in scope)
			if cal.Name() == "Copy" && cal.Signature.Recv() != nil && strings.HasPrefix(core.NamedTypePkgName(cal.Signature.Recv().Type()), valuePkg+".") {
				return true
			}
			if o := cal.Origin(); o != nil && o.Name() == "Unwrap" && len(t.Common().Args) == 1 {
				return p.fresh(t.Common().Args[0], seen)
			}
			return false
		}
		if t.Common().IsInvoke() && t.Common().Method.Name() == "Copy" && isValueIface(t.Common().Value.Type()) {
			return true
		}
		return false
	}
	return false
}

// rootOf: the value a store address is derived from (through field addresses, type assertions, Unwrap, loads of local cells).
func storeRoot(addr ssa.Value) ssa.Value {
	v := addr
	for i := 0; i < 20; i++ {
		switch t := v.(type) {
		case *ssa.FieldAddr:
			v = t.X
		case *ssa.IndexAddr:
			v = t.X
		case *ssa.TypeAssert:
			v = t.X
		case *ssa.Extract:
			if ta, ok := t.Tuple.(*ssa.TypeAssert); ok {
				v = ta
			} else {
				return v
			}
		case *ssa.ChangeInterface:
			v = t.X
		case *ssa.MakeInterface:
			v = t.X
		case *ssa.Call:
			if cal := t.Common().StaticCallee(); cal != nil && cal.Origin() != nil && cal.Origin().Name() == "Unwrap" && len(t.Common().Args) == 1 {
				v = t.Common().Args[0]
			} else {
				return v
			}
		default:
			return v
		}
	}
	return v
}

func runC13(c *core.Ctx) {
	c.Explanation = "Ownership rules of the simulator's mutable value structs, decided on SSA: (pure.expr) in the expression evaluator (interpreter Process*Expression / processExpression and everything they call statically inside interpreter, plus all of package operator) no store goes through a pointer derived from an operand — a value.Value parameter, the result of evaluating a sub-expression, or a map element — rather than from a value allocated by the same activation or returned by a callee summarised returns-fresh (least fixpoint); regex capture bookkeeping is the named exception of the property; (pure.rhs) in the assignment operators assign.*(left, right) no store derives from `right`; (pure.fresh) every value stored into a local-variable frame (LocalVariables map updates) is fresh on every path — a parameter that aliases the caller's variable is a by-reference argument; (pure.frame) ProcessSubroutine / ProcessFunctionSubroutine register the defer that restores localVars and RegexMatchedValues, and every return whose error may be nil is dominated by that registration. Necessary for: evaluating an expression changes no variable, arguments are passed by value, a call leaves the caller's frame intact. (pure.copy) every Copy method returns a new struct; (pure.reqbackend) ctx.Backend never aliases the backend table."
	c.NotCovered = []string{"aliasing through slices shared inside values (net.IP, collections)", "header and object stores (C17)", "that Copy methods copy every field"}
	prog := c.Prog
	ifuncs := prog.ModuleFuncs("interpreter")
	p := &purity{prog: prog}
	p.computeRetFresh(ifuncs)
	var rf []string
	for fn, ok := range p.retFresh {
		if ok {
			rf = append(rf, core.FnName(fn))
		}
	}
	sortStrings(rf)
	c.Extra("returns_fresh_functions", len(rf))

	// ---- pure.expr: scope = expression evaluators + operator package + static closure inside interpreter root
	scope := map[*ssa.Function]bool{}
	var work []*ssa.Function
	for _, fn := range prog.ModuleFuncs("interpreter") {
		if fn.Pkg.Pkg.Path() == interpPkg && (strings.Contains(fn.Name(), "Expression") || fn.Name() == "processExpression") && fn.Parent() == nil {
			work = append(work, fn)
		}
		if fn.Pkg.Pkg.Path() == interpPkg+"/operator" {
			work = append(work, fn)
		}
	}
	for len(work) > 0 {
		f := work[len(work)-1]
		work = work[:len(work)-1]
		if scope[f] || f.Blocks == nil {
			continue
		}
		scope[f] = true
		for _, b := range f.Blocks {
			for _, in := range b.Instrs {
				if cal := core.StaticCallee(in); cal != nil && cal.Pkg != nil {
					pp := cal.Pkg.Pkg.Path()
					// statements executed by function calls (user subroutines) are not "expression evaluation" of the operands
					if pp == interpPkg+"/operator" || (pp == interpPkg && (strings.Contains(cal.Name(), "Expression") || cal.Name() == "IdentValue" || cal.Name() == "processExpression")) {
						work = append(work, cal)
					}
				}
			}
		}
		work = append(work, f.AnonFuncs...)
	}
	c.Extra("expression_evaluator_functions", len(scope))
	nStores := 0
	for fn := range scope {
		c.Func(core.FnName(fn))
		for _, b := range fn.Blocks {
			for _, in := range b.Instrs {
				st, ok := in.(*ssa.Store)
				if !ok {
					continue
				}
				fa, ok := st.Addr.(*ssa.FieldAddr)
				if !ok || !isValueKindPtr(fa.X.Type()) {
					continue
				}
				nStores++
				root := storeRoot(fa.X)
				key := fmt.Sprintf("%s|store %s.%s", core.FnName(fn), core.NamedTypeName(fa.X.Type()), core.FieldOf(fa).Name())
				if p.fresh(root, map[ssa.Value]bool{}) {
					c.Discharge("pure.expr", key, in.Pos(), "the written value was allocated by this activation / returned fresh")
					continue
				}
				c.Report("pure.expr", key, in.Pos(), fmt.Sprintf("%s writes %s.%s through a pointer derived from an operand (%s), not from a value it allocated: evaluating the expression changes the variable the operand was read from (e.g. `set var.b = -var.a;` negates var.a)", core.FnName(fn), core.NamedTypeName(fa.X.Type()), core.FieldOf(fa).Name(), describeValue(root)))
			}
		}
	}
	c.Extra("value_field_stores_in_evaluator", nStores)
	c.Floor("pure.expr", 5)

	// ---- pure.rhs
	for _, fn := range prog.ModuleFuncs("interpreter/assign") {
		if fn.Parent() != nil || len(fn.Params) != 2 || !isValueIface(fn.Params[0].Type()) || !isValueIface(fn.Params[1].Type()) {
			continue
		}
		right := fn.Params[1]
		bad := false
		n := 0
		for _, b := range fn.Blocks {
			for _, in := range b.Instrs {
				st, ok := in.(*ssa.Store)
				if !ok {
					continue
				}
				fa, ok := st.Addr.(*ssa.FieldAddr)
				if !ok || !isValueKindPtr(fa.X.Type()) {
					continue
				}
				n++
				if storeRoot(fa.X) == ssa.Value(right) {
					bad = true
					c.Report("pure.rhs", core.FnName(fn)+"|store-through-right", in.Pos(), fmt.Sprintf("%s writes through its right operand: `set T op= E` would change the variable E was read from", core.FnName(fn)))
				}
			}
		}
		// a helper of the module that is handed a pointer derived from `right` and stores through that parameter
		for _, b := range fn.Blocks {
			for _, in := range b.Instrs {
				call, ok := in.(ssa.CallInstruction)
				if !ok {
					continue
				}
				cal := call.Common().StaticCallee()
				if cal == nil || cal.Blocks == nil || cal.Pkg == nil || !strings.HasPrefix(cal.Pkg.Pkg.Path(), core.ModPath) {
					continue
				}
				for ai, a := range call.Common().Args {
					if ai >= len(cal.Params) || !isValueKindPtr(a.Type()) || storeRoot(a) != ssa.Value(right) {
						continue
					}
					if writesThroughParam(cal, ai, 0) {
						bad = true
						c.Report("pure.rhs", core.FnName(fn)+"|store-through-right|"+cal.Name(), in.Pos(), fmt.Sprintf("%s hands its right operand to %s, which writes through it: `set T op= E` would change the variable E was read from", core.FnName(fn), cal.Name()))
					}
				}
			}
		}
		if !bad && n > 0 {
			c.Discharge("pure.rhs", core.FnName(fn), fn.Pos(), fmt.Sprintf("%d stores, none through `right`", n))
		}
	}
	c.Floor("pure.rhs", 10)

	// ---- pure.fresh: map updates of LocalVariables
	isLocalVars := func(t types.Type) bool {
		return core.NamedTypePkgName(t) == interpPkg+"/variable.LocalVariables"
	}
	for _, fn := range prog.ModuleFuncs("interpreter", "tester") {
		for _, b := range fn.Blocks {
			for _, in := range b.Instrs {
				mu, ok := in.(*ssa.MapUpdate)
				if !ok || !isLocalVars(mu.Map.Type()) {
					continue
				}
				key := core.FnName(fn) + "|localVars[...] ="
				if p.fresh(mu.Value, map[ssa.Value]bool{}) {
					c.Discharge("pure.fresh", key, in.Pos(), "the stored value is freshly allocated / returned fresh")
				} else {
					c.Report("pure.fresh", key, in.Pos(), fmt.Sprintf("%s stores into a local-variable frame a value that is not fresh on every path (%s): the new local aliases another variable's value struct — a subroutine parameter then modifies the caller's variable", core.FnName(fn), describeValue(mu.Value)))
				}
			}
		}
	}
	c.Floor("pure.fresh", 2)

	// ---- pure.copy: the contract the rules above rely on. Every Copy method of a value kind hands out a new struct on
	// every return path - never the receiver: arguments are passed by value through Copy, and a Copy that returns the
	// receiver for some values binds the callee's parameter to the caller's variable.
	for _, fn := range prog.ModuleFuncs("interpreter/value") {
		if fn.Name() != "Copy" || fn.Signature.Recv() == nil || !strings.HasPrefix(core.NamedTypePkgName(fn.Signature.Recv().Type()), valuePkg+".") {
			continue
		}
		key := core.FnName(fn)
		bad := false
		if st, isSt := derefType(fn.Signature.Recv().Type()).Underlying().(*types.Struct); isSt && st.NumFields() == 0 {
			c.Discharge("pure.copy", key, fn.Pos(), "a struct without fields (the Null sentinel): nothing can be changed through it")
			continue
		}
		for _, rs := range core.ReturnSites(fn) {
			for _, r := range rs.Results {
				if !p.fresh(r, map[ssa.Value]bool{}) {
					bad = true
					c.Report("pure.copy", key, rs.Ret.Pos(), fmt.Sprintf("%s returns a value that is not a new struct on every path (%s): a BACKEND / STRING / … argument copied with it is the caller's own value, and an assignment to the parameter inside the subroutine changes the caller's variable", core.FnName(fn), describeValue(r)))
				}
			}
		}
		if !bad {
			c.Discharge("pure.copy", key, fn.Pos(), "every return hands out a new struct")
		}
	}
	c.Floor("pure.copy", 8)

	// ---- pure.reqbackend: `set req.backend = X` assigns in place into the object ctx.Backend points at. That object
	// must belong to the request alone: a pointer taken from the backend table (the backend a director picked) makes
	// the assignment rewrite the declared backend for every later reference to its name.
	for _, fn := range prog.ModuleFuncs("interpreter") {
		for _, b := range fn.Blocks {
			for _, in := range b.Instrs {
				st, ok := in.(*ssa.Store)
				if !ok {
					continue
				}
				f := core.FieldOf(st.Addr)
				if f == nil || f.Name() != "Backend" || core.FieldOwner(st.Addr) != interpPkg+"/context.Context" {
					continue
				}
				key := core.FnName(fn) + "|ctx.Backend ="
				if core.IsNilConst(st.Val) || p.fresh(st.Val, map[ssa.Value]bool{}) {
					c.Discharge("pure.reqbackend", key, in.Pos(), "a value of the request's own")
				} else {
					c.Report("pure.reqbackend", key, in.Pos(), fmt.Sprintf("%s makes ctx.Backend point at a value it did not create (%s): `set req.backend = …` assigns in place, so it overwrites the backend table entry the director picked and every later use of that backend's name", core.FnName(fn), describeValue(st.Val)))
				}
			}
		}
	}
	c.Floor("pure.reqbackend", 2)

	// ---- pure.frame
	for _, name := range []string{"Interpreter.ProcessSubroutine", "Interpreter.ProcessFunctionSubroutine"} {
		fn := prog.SSAFunc("interpreter", name)
		if fn == nil {
			c.MissingAnchor("pure.frame", "interpreter.(*"+name+")")
			continue
		}
		// the restoring defer: a Defer of a closure that stores Interpreter.localVars and Context.RegexMatchedValues
		var restore *ssa.Defer
		for _, b := range fn.Blocks {
			for _, in := range b.Instrs {
				d, ok := in.(*ssa.Defer)
				if !ok {
					continue
				}
				mc, ok := d.Common().Value.(*ssa.MakeClosure)
				if !ok {
					continue
				}
				cl := mc.Fn.(*ssa.Function)
				hasLocals, hasRegex := false, false
				for _, cb := range cl.Blocks {
					for _, ci := range cb.Instrs {
						if st, ok := ci.(*ssa.Store); ok {
							if fa, ok := st.Addr.(*ssa.FieldAddr); ok && core.FieldOf(fa) != nil {
								switch core.FieldOf(fa).Name() {
								case "localVars":
									hasLocals = true
								case "RegexMatchedValues":
									hasRegex = true
								}
							}
						}
					}
				}
				if hasLocals && hasRegex {
					restore = d
				}
			}
		}
		if restore == nil {
			c.Report("pure.frame", name+"|no-restore", fn.Pos(), name+" no longer defers the restoration of localVars and RegexMatchedValues: a call clobbers the caller's frame")
			continue
		}
		ok := true
		for _, rs := range core.ReturnSites(fn) {
			errV := rs.Results[len(rs.Results)-1]
			if errNonNilAt(errV, rs.Ret.Block()) {
				continue
			}
			if !core.InstrDominates(restore, rs.Ret) {
				ok = false
				c.Report("pure.frame", name+"|return-before-defer", rs.Ret.Pos(), name+" can return successfully before the frame-restoring defer is registered: the caller continues with the callee's local variables / regex captures")
			}
		}
		// what the defer puts back must be what was there on entry: the saved value is loaded from the field before any
		// store to that field in this function
		for _, field := range []string{"localVars", "RegexMatchedValues"} {
			var stores []*ssa.Store
			var saves []*ssa.UnOp
			mc := restore.Common().Value.(*ssa.MakeClosure)
			for _, b := range fn.Blocks {
				for _, in := range b.Instrs {
					switch t := in.(type) {
					case *ssa.Store:
						if fa, isFA := t.Addr.(*ssa.FieldAddr); isFA && core.FieldOf(fa) != nil && core.FieldOf(fa).Name() == field {
							stores = append(stores, t)
						}
					case *ssa.UnOp:
						fa, isFA := t.X.(*ssa.FieldAddr)
						if t.Op != token.MUL || !isFA || core.FieldOf(fa) == nil || core.FieldOf(fa).Name() != field || t.Referrers() == nil {
							continue
						}
						// does this load end up in a variable the restoring closure captured?
						for _, r := range *t.Referrers() {
							if st, isSt := r.(*ssa.Store); isSt && st.Val == ssa.Value(t) {
								for _, bind := range mc.Bindings {
									if bind == st.Addr {
										saves = append(saves, t)
									}
								}
							}
						}
						for _, bind := range mc.Bindings {
							if bind == ssa.Value(t) {
								saves = append(saves, t)
							}
						}
					}
				}
			}
			key := name + "|save:" + field
			if len(saves) == 0 {
				ok = false
				c.Report("pure.frame", key, restore.Pos(), name+" restores "+field+" from something that was not loaded from that field on entry")
				continue
			}
			late := false
			for _, sv := range saves {
				for _, st := range stores {
					if st.Block() == sv.Block() {
						if core.InstrDominates(st, sv) {
							late = true
						}
					} else if core.Reaches(st.Block(), sv.Block()) {
						late = true
					}
				}
			}
			if late {
				ok = false
				c.Report("pure.frame", key, saves[0].Pos(), fmt.Sprintf("%s saves %s after it has already replaced it with the callee's fresh value: the deferred restore puts the callee's (empty) value back and the caller's %s are lost after the call", name, field, field))
			} else {
				c.Discharge("pure.frame", key, saves[0].Pos(), "saved before the field is replaced")
			}
		}
		if ok {
			c.Discharge("pure.frame", name, restore.Pos(), "restoring defer dominates every return whose error may be nil")
		}
	}
}

// writesThroughParam: fn stores into a field of the value its i-th parameter points to, directly or in a module
// function it passes the parameter on to (bounded depth).
func writesThroughParam(fn *ssa.Function, i int, depth int) bool {
	if depth > 3 || i >= len(fn.Params) {
		return false
	}
	par := fn.Params[i]
	for _, b := range fn.Blocks {
		for _, in := range b.Instrs {
			switch t := in.(type) {
			case *ssa.Store:
				if fa, ok := t.Addr.(*ssa.FieldAddr); ok && storeRoot(fa.X) == ssa.Value(par) {
					return true
				}
			case ssa.CallInstruction:
				cal := t.Common().StaticCallee()
				if cal == nil || cal.Blocks == nil || cal == fn {
					continue
				}
				for ai, a := range t.Common().Args {
					if storeRoot(a) == ssa.Value(par) && writesThroughParam(cal, ai, depth+1) {
						return true
					}
				}
			}
		}
	}
	return false
}
