#!/usr/bin/env python3
"""Developer aid: false-alarm test. Applies every behaviour-preserving refactoring under /verif/neutral/<group>/patch<k>.diff
(made by agents that saw only the property texts and the anchor files; each builds and passes the suite) to /repo, runs
every claimed check, reverts. Any VIOLATION is a false alarm of the checker. usage: neutraleval.py [group ...]"""
import json, os, subprocess, sys, glob
from concurrent.futures import ThreadPoolExecutor
ENV = dict(os.environ, PATH="/opt/veriftools/go1.26.8/bin:" + os.environ["PATH"], GOTOOLCHAIN="local", GOFLAGS="-mod=mod", GOPROXY="off", GOSUMDB="off", GOWORK="off")
def sh(cmd, cwd="/repo"):
    p = subprocess.run(cmd, shell=True, cwd=cwd, env=ENV, stdout=subprocess.PIPE, stderr=subprocess.STDOUT, text=True)
    return p.returncode, p.stdout
def main():
    ids = [c["property_id"] for c in json.load(open("/verif/MANIFEST.json"))["checks"]]
    if sh("git status --porcelain")[1].strip():
        print("repo not clean"); sys.exit(2)
    want = sys.argv[1:]
    results = {}
    if want and os.path.exists("/verif/neutral/results.json"):
        results = json.load(open("/verif/neutral/results.json"))
    for patch in sorted(glob.glob("/verif/neutral/[NMFR]*/patch*.diff")):
        g = patch.split("/")[-2]; name = g + "/" + os.path.basename(patch)
        if want and g not in want: continue
        rc, out = sh("git apply --check %s" % patch)
        if rc != 0:
            rc, out = sh("git apply --3way %s" % patch)
            if rc != 0 or "conflicts" in out:
                sh("git reset -q --hard && git clean -fdq")
                results[name] = {"applies": False}; print(name, "does not apply"); continue
            sh("git reset -q")
        else:
            sh("git apply %s" % patch)
        try:
            rc, out = sh("go build ./...")
            if rc != 0:
                results[name] = {"builds": False}; print(name, "does not build"); continue
            def run(cid):
                rc, out = sh("./bin/fv check %s" % cid, cwd="/verif")
                lines = [l.strip()[:400] for l in out.splitlines() if (l.startswith("  ") and "[" in l and "KNOWN" not in l) or l.strip().startswith("key:")]
                und = [l.strip()[:200] for l in out.splitlines() if l.startswith("UNDECIDED")]
                return cid, len([l for l in out.splitlines() if l.startswith("VIOLATION")]), lines[:8], und[:6]
            with ThreadPoolExecutor(max_workers=8) as ex:
                res = list(ex.map(run, ids))
        finally:
            sh("git checkout -- . && git clean -fdq")
        alarms = {c: l for c, n, l, u in res if n > 0}
        undecided = {c: u for c, n, l, u in res if u}
        results[name] = {"alarms": alarms, "undecided": undecided}
        print(name, ("ALARMS " + json.dumps(alarms)[:900] if alarms else "silent") + (" UNDECIDED " + json.dumps(undecided)[:300] if undecided else "")); sys.stdout.flush()
    json.dump(results, open("/verif/neutral/results.json", "w"), indent=1)
if __name__ == "__main__":
    main()
