package checks

import (
	"fmt"
	"go/constant"
	"go/token"
	"go/types"
	"os"
	"sort"
	"strings"

	"fv/internal/core"

	"golang.org/x/tools/go/ssa"
)

// C01 — lexing and parsing are total; diagnostics are located.
func init() {
	register(&Check{ID: "C01", NeedSSA: true, Run: runC01})
}

const (
	parserPkg = core.ModPath + "/parser"
	lexerPkg  = core.ModPath + "/lexer"
	tokenPkg  = core.ModPath + "/token"
)

// mapKeyIndex: statically known key sets of maps built by MakeMap + MapUpdate(const key) and stored into a
// struct field or a package-level variable.
type mapKeyIndex struct {
	byField  map[*types.Var]map[string]bool
	byGlobal map[*ssa.Global]map[string]bool
	values   map[*types.Var][]ssa.Value // function values stored in field maps
}

func buildMapKeyIndex(prog *core.Program, funcs []*ssa.Function) *mapKeyIndex {
	idx := &mapKeyIndex{byField: map[*types.Var]map[string]bool{}, byGlobal: map[*ssa.Global]map[string]bool{}, values: map[*types.Var][]ssa.Value{}}
	for _, fn := range funcs {
		for _, b := range fn.Blocks {
			for _, in := range b.Instrs {
				mm, ok := in.(*ssa.MakeMap)
				if !ok || mm.Referrers() == nil {
					continue
				}
				keys := map[string]bool{}
				var vals []ssa.Value
				allConst := true
				var fieldDst *types.Var
				var globalDst *ssa.Global
				for _, r := range *mm.Referrers() {
					switch t := r.(type) {
					case *ssa.MapUpdate:
						if k, ok := t.Key.(*ssa.Const); ok && k.Value != nil {
							keys[k.Value.ExactString()] = true
							vals = append(vals, t.Value)
						} else {
							allConst = false
						}
					case *ssa.Store:
						switch a := t.Addr.(type) {
						case *ssa.FieldAddr:
							fieldDst = core.FieldOf(a)
						case *ssa.Global:
							globalDst = a
						}
					}
				}
				if !allConst {
					continue
				}
				if fieldDst != nil {
					idx.byField[fieldDst] = keys
					idx.values[fieldDst] = vals
				}
				if globalDst != nil {
					idx.byGlobal[globalDst] = keys
				}
			}
		}
	}
	return idx
}

func (idx *mapKeyIndex) keysOf(m ssa.Value) (map[string]bool, *types.Var, bool) {
	ld, ok := m.(*ssa.UnOp)
	if !ok || ld.Op != token.MUL {
		return nil, nil, false
	}
	switch a := ld.X.(type) {
	case *ssa.FieldAddr:
		f := core.FieldOf(a)
		if k, ok := idx.byField[f]; ok {
			return k, f, true
		}
		return nil, f, false
	case *ssa.Global:
		if k, ok := idx.byGlobal[a]; ok {
			return k, nil, true
		}
	}
	return nil, nil, false
}

func closureFunc(v ssa.Value) *ssa.Function {
	switch t := v.(type) {
	case *ssa.MakeClosure:
		if fn, ok := t.Fn.(*ssa.Function); ok {
			return fn
		}
	case *ssa.Function:
		return t
	case *ssa.ChangeType:
		return closureFunc(t.X)
	}
	return nil
}

func newParserFamily(c *core.Ctx) *streamFamily {
	prog := c.Prog
	fam := &streamFamily{prog: prog, name: "parser", inFam: map[*ssa.Function]bool{}, memo: map[string]aval{}}
	seen := map[*ssa.Function]bool{}
	var add func(fn *ssa.Function)
	add = func(fn *ssa.Function) {
		if fn == nil || seen[fn] || fn.Blocks == nil {
			return
		}
		seen[fn] = true
		fam.funcs = append(fam.funcs, fn)
		fam.inFam[fn] = true
		for _, b := range fn.Blocks {
			for _, in := range b.Instrs {
				if mc, ok := in.(*ssa.MakeClosure); ok {
					if f2, ok := mc.Fn.(*ssa.Function); ok && f2.Synthetic != "" {
						add(f2) // bound method wrappers
					}
				}
			}
		}
	}
	for _, fn := range prog.ModuleFuncs("parser", "tester/syntax") {
		add(fn)
	}
	var initFns []*ssa.Function
	for _, rel := range []string{"parser", "tester/syntax"} {
		if sp := prog.SSAPkg[rel]; sp != nil {
			if in := sp.Func("init"); in != nil {
				initFns = append(initFns, in)
			}
		}
	}
	idx := buildMapKeyIndex(prog, append(append([]*ssa.Function{}, fam.funcs...), initFns...))
	isWindowField := func(fa *ssa.FieldAddr) bool {
		f := core.FieldOf(fa)
		return f != nil && core.FieldOwner(fa) == parserPkg+".Parser" && (f.Name() == "curToken" || f.Name() == "peekToken" || f.Name() == "prevToken")
	}
	isTokenizerNext := func(in ssa.Instruction) bool {
		ci, ok := in.(ssa.CallInstruction)
		if !ok {
			return false
		}
		cc := ci.Common()
		return cc.IsInvoke() && core.NamedTypePkgName(cc.Value.Type()) == parserPkg+".Tokenizer" && (cc.Method.Name() == "NextToken" || cc.Method.Name() == "PeekToken")
	}
	fam.steady = func(e *evaluator, in ssa.Instruction) (aval, bool) {
		switch t := in.(type) {
		case *ssa.UnOp:
			if t.Op == token.MUL {
				if fa, ok := t.X.(*ssa.FieldAddr); ok && isWindowField(fa) {
					return aval{k: avMetaPtr}, true
				}
			}
		case *ssa.Call:
			if isTokenizerNext(in) {
				return aval{k: avTok}, true
			}
			// string_escape.go reads the literal through its own bufio.Reader: a second stream with the same rules
			if a, ok := exhaustedReaderCall(in); ok {
				return a, true
			}
		}
		return aval{}, false
	}
	fam.consumes = func(in ssa.Instruction) bool {
		ci, ok := in.(ssa.CallInstruction)
		if !ok {
			return false
		}
		if _, isDefer := in.(*ssa.Defer); isDefer {
			return false
		}
		cc := ci.Common()
		if isBufioReaderCall(in, "ReadRune", "Discard", "ReadByte") {
			return true
		}
		return cc.IsInvoke() && core.NamedTypePkgName(cc.Value.Type()) == parserPkg+".Tokenizer" && cc.Method.Name() == "NextToken"
	}
	fam.mapKeys = func(m ssa.Value) (map[string]bool, bool) {
		keys, f, ok := idx.keysOf(m)
		if ok {
			return keys, true
		}
		if f != nil && f.Name() == "customParsers" {
			// documented assumption: no custom parser is registered for the EOF token
			return map[string]bool{}, true
		}
		return nil, false
	}
	fam.dynamic = func(call ssa.CallInstruction) []*ssa.Function {
		cc := call.Common()
		if cc.IsInvoke() {
			if cc.Method.Name() != "Parse" {
				return nil
			}
			var out []*ssa.Function
			for _, fn := range fam.funcs {
				if fn.Name() == "Parse" && fn.Signature.Recv() != nil && fn.Signature.Params().Len() == 1 && fn.Parent() == nil {
					out = append(out, fn)
				}
			}
			return out
		}
		// value loaded from one of the Pratt tables
		var out []*ssa.Function
		for x := range core.BackSlice(cc.Value) {
			lk, ok := x.(*ssa.Lookup)
			if !ok {
				continue
			}
			if _, f, _ := idx.keysOf(lk.X); f != nil {
				for _, v := range idx.values[f] {
					if fn := closureFunc(v); fn != nil {
						out = append(out, fn)
					}
				}
			}
		}
		return out
	}
	sort.Slice(fam.funcs, func(i, j int) bool { return fam.funcs[i].String() < fam.funcs[j].String() })
	fam.computeConsumeSummaries()
	fam.computeMustFail()
	return fam
}

func newLexerFamily(c *core.Ctx) *streamFamily {
	prog := c.Prog
	fam := &streamFamily{prog: prog, name: "lexer", inFam: map[*ssa.Function]bool{}, memo: map[string]aval{}}
	for _, fn := range prog.ModuleFuncs("lexer") {
		fam.funcs = append(fam.funcs, fn)
		fam.inFam[fn] = true
	}
	fam.steady = func(e *evaluator, in ssa.Instruction) (aval, bool) {
		switch t := in.(type) {
		case *ssa.UnOp:
			if t.Op == token.MUL {
				if fa, ok := t.X.(*ssa.FieldAddr); ok {
					if f := core.FieldOf(fa); f != nil && f.Name() == "char" && core.FieldOwner(fa) == lexerPkg+".Lexer" {
						return aval{k: avConst, c: constant.MakeInt64(0)}, true
					}
				}
			}
		case *ssa.Call:
			if a, ok := exhaustedReaderCall(in); ok {
				return a, true
			}
		}
		return aval{}, false
	}
	fam.consumes = func(in ssa.Instruction) bool {
		if _, isDefer := in.(*ssa.Defer); isDefer {
			return false
		}
		return isBufioReaderCall(in, "ReadRune", "Discard", "ReadByte")
	}
	fam.mapKeys = func(m ssa.Value) (map[string]bool, bool) { return nil, false }
	sort.Slice(fam.funcs, func(i, j int) bool { return fam.funcs[i].String() < fam.funcs[j].String() })
	fam.computeConsumeSummaries()
	fam.computeMustFail()
	return fam
}

// Loops whose exit does not depend on the stream: reviewed, one reason each.
var reviewedLoops = map[string]string{
	"lexer.(*Lexer).peekUntil|1": "peeks n+1 bytes with n strictly increasing: bufio.Reader.Peek fails (io.EOF or ErrBufferFull) once n exceeds what is available/buffered; no progress on the stream is needed",
}

func runC01(c *core.Ctx) {
	c.Explanation = "Totality of lexer and parser decided by end-of-stream abstraction on SSA. For the parser family (parser, tester/syntax) and the lexer: (tok.progress) every cycle of every non-range loop contains a consume event (Tokenizer.NextToken / bufio ReadRune|Discard, reached directly, through a callee summarised always-consuming, on the true edge of a callee that consumes exactly when it returns true, or on the success edge of a callee summarised must-consume-on-success; summaries are least fixpoints); (tok.steady) with every stream read inside the loop folded to its exhausted-stream value (token types = EOF, Lexer.char = 0, reader calls fail), sparse conditional constant propagation with callee predicates evaluated on their constant arguments, comma-ok lookups in maps with known key sets (precedences, Pratt tables, assignmentOperators), and err != nil after callees summarised must-fail-at-end, no cycle through the loop header remains feasible; (tok.recursion) after deleting call edges must-preceded by a consume, the family call graph (static + Pratt tables + custom parsers) is acyclic. Together: on a finite input every loop iteration and recursion eats input until the stream is exhausted, and then no loop can go round. (tok.typed) every token leaving (*Lexer).NextToken has Type, Line and Position assigned on every path (forward must-store dataflow on the token cell). (err.located) every error value a parser function can return originates from a *ParseError constructor/literal or from a callee of the family, and no value returned next to an error is used before the error is tested. (idx.last) every x[len(x)-k] / x[:len(x)-k] in lexer and parser is dominated by a length test implying at least k elements, or x is freshly appended to on every path, or x is the result of a successful delimited read / Peek of at least one byte; one named exception. (err.token) the statement dispatchers report the current token when no arm takes it; (tok.depth) the recursion of the parser needs a depth counter (recorded finding)."
	c.NotCovered = []string{"that line/column values are the right numbers", "recursion depth (stack exhaustion on pathologically deep nesting)", "that the error token is the intended one"}
	c.Assumptions = []string{"no custom parser is registered for the EOF token", "an exhausted bufio.Reader keeps failing", "range loops over slices/maps terminate", "once the reader is exhausted the lexer yields EOF forever (checked: tok.steady of NextToken's own loops and E4 arm for char 0)"}

	for _, fam := range []*streamFamily{newParserFamily(c), newLexerFamily(c)} {
		var mf, cs1, cs2 []string
		for fn, v := range fam.mustFail {
			if v {
				mf = append(mf, core.FnName(fn))
			}
		}
		for fn, v := range fam.consumeSum {
			if v == 1 {
				cs1 = append(cs1, core.FnName(fn))
			} else if v == 2 {
				cs2 = append(cs2, core.FnName(fn))
			}
		}
		sort.Strings(mf)
		sort.Strings(cs1)
		sort.Strings(cs2)
		c.Extra(fam.name+"_must_fail_at_end", mf)
		c.Extra(fam.name+"_consume_on_success", cs1)
		c.Extra(fam.name+"_always_consume", cs2)
		nloops := 0
		for _, fn := range fam.funcs {
			if c.Prog.IsCanary(fn.Pos()) {
				// canary functions are analysed like any other; their findings are separated by position
			}
			c.Func(core.FnName(fn))
			for _, l := range naturalLoops(fn) {
				key := core.FnName(fn) + "|" + l.ord
				pos := firstPos(l.header)
				if isRangeLoop(l.header) {
					continue
				}
				nloops++
				if isCountedLoop(l.header, l.body) {
					c.Discharge("tok.progress", key, pos, "counted loop: bounded by its own counter")
					c.Discharge("tok.steady", key, pos, "counted loop: bounded by its own counter")
					continue
				}
				if why, ok := reviewedLoops[key]; ok {
					c.Discharge("tok.progress", key, pos, "reviewed: "+why)
					c.Discharge("tok.steady", key, pos, "reviewed: "+why)
					continue
				}
				if path := fam.nonProgressCycle(l); path != nil {
					c.Report("tok.progress", key, pos, fmt.Sprintf("loop #%s of %s can go round without consuming input: a cycle through the loop passes no consume event", l.ord, core.FnName(fn)), blockPath(c.Prog, path)...)
				} else {
					c.Discharge("tok.progress", key, pos, "every cycle consumes")
				}
				if path, ev := fam.steadyCycle(l); path != nil {
					var exits []string
					for b := range l.body {
						for i, s := range b.Succs {
							if !l.body[s] {
								st := "infeasible at end of input"
								if ev.feasible(b, i) {
									st = "feasible"
								}
								exits = append(exits, fmt.Sprintf("exit edge block %d -> %d (%s): %s", b.Index, s.Index, c.Prog.Loc(firstPos(s)), st))
							}
						}
					}
					sort.Strings(exits)
					c.Report("tok.steady", key, pos, fmt.Sprintf("loop #%s of %s has a feasible cycle once the input is exhausted (every stream read in the loop yields the end-of-input value): the %s never returns on an input that ends inside this construct", l.ord, core.FnName(fn), fam.name),
						append(blockPath(c.Prog, path), exits...)...)
				} else {
					c.Discharge("tok.steady", key, pos, "no feasible cycle at end of input")
				}
			}
		}
		c.Extra(fam.name+"_loops", nloops)
		for _, cyc := range fam.leftRecursion() {
			var names []string
			for _, fn := range cyc {
				names = append(names, core.FnName(fn))
			}
			key := strings.Join(names, " -> ")
			// a cycle of helpers that never see the token stream is not a parsing recursion: it terminates when every
			// recursive call descends on the finite syntax tree it was handed (classification of E9)
			if why := astDescendingCycle(cyc); why != "" {
				c.Discharge("tok.recursion", key, cyc[0].Pos(), why)
				continue
			}
			c.Report("tok.recursion", key, cyc[0].Pos(), "recursion cycle in the "+fam.name+" that can be re-entered without consuming input (left recursion): "+key, names...)
		}
		c.Instances("tok.recursion", 1)
	}
	c.Floor("tok.progress", 24)
	c.Floor("tok.steady", 24)

	checkTokenTyped(c)
	checkErrOrigin(c)
	checkSourceAdvance(c)
	checkLastIndex(c)
	checkDispatchErrorToken(c)
	checkNestingDepth(c, "tok.depth", "parser", "Parser")
	if os.Getenv("FV_LIST_SCAN") != "" {
		listScanSteps(c)
	}
}

// (A') the source itself advances: every return of (*Lexer).NextToken that can be reached without a consume event
// returns from the peek queue (which shrinks) or an EOF-typed token.
func checkSourceAdvance(c *core.Ctx) {
	fam := newLexerFamily(c)
	nt := c.Prog.SSAFunc("lexer", "Lexer.NextToken")
	if nt == nil {
		c.MissingAnchor("tok.advance", "lexer.(*Lexer).NextToken")
		return
	}
	ev := fam.edgeEvents(nt)
	reach := map[*ssa.BasicBlock]bool{}
	var work []*ssa.BasicBlock
	work = append(work, nt.Blocks[0])
	for len(work) > 0 {
		b := work[len(work)-1]
		work = work[:len(work)-1]
		if reach[b] {
			continue
		}
		reach[b] = true
		if fam.blockConsumes(b) {
			continue
		}
		for _, s := range b.Succs {
			if !ev[[2]*ssa.BasicBlock{b, s}] {
				work = append(work, s)
			}
		}
	}
	// predicate guards on the unmodified cursor: blocks dominated by the true edge of P(l.char)
	isCharLoad := func(v ssa.Value) bool {
		ld, ok := v.(*ssa.UnOp)
		if !ok || ld.Op != token.MUL {
			return false
		}
		fa, ok := ld.X.(*ssa.FieldAddr)
		return ok && core.FieldOf(fa) != nil && core.FieldOf(fa).Name() == "char" && core.FieldOwner(fa) == lexerPkg+".Lexer"
	}
	guardedBy := func(b *ssa.BasicBlock) map[*ssa.Function]bool {
		out := map[*ssa.Function]bool{}
		for _, blk := range nt.Blocks {
			iff, ok := blk.Instrs[len(blk.Instrs)-1].(*ssa.If)
			if !ok {
				continue
			}
			call, ok := iff.Cond.(*ssa.Call)
			if !ok || call.Common().StaticCallee() == nil || len(call.Common().Args) != 1 || !isCharLoad(call.Common().Args[0]) {
				continue
			}
			if core.EdgeDominates(blk, 0, b) {
				out[call.Common().StaticCallee()] = true
			}
		}
		return out
	}
	// callee loops `for P(l.char) { …consume… }` as its first stream-dependent action
	loopsOn := func(callee *ssa.Function) *ssa.Function {
		for _, l := range naturalLoops(callee) {
			iff, ok := l.header.Instrs[len(l.header.Instrs)-1].(*ssa.If)
			if !ok {
				continue
			}
			call, ok := iff.Cond.(*ssa.Call)
			if !ok || call.Common().StaticCallee() == nil || len(call.Common().Args) != 1 || !isCharLoad(call.Common().Args[0]) {
				continue
			}
			// the header is reached from entry without a consume, and the body consumes
			if fam.nonProgressCycle(l) == nil {
				return call.Common().StaticCallee()
			}
		}
		return nil
	}
	named := map[string]string{
		"readNumber": "entered under isDigit(l.char) = [0-9.] on the unmodified cursor: a digit is eaten by the first digit loop, a '.' by the following `if l.char == '.'` (which reads a char), '0x' by the hex branch",
	}
	for _, rs := range core.ReturnSites(nt) {
		b := rs.Ret.Block()
		key := "NextToken|return"
		if !reach[b] || fam.blockConsumes(b) {
			c.Discharge("tok.advance", key, rs.Ret.Pos(), "every path to this return consumes input")
			continue
		}
		// (1) dequeue from the peek queue
		shrinks := false
		for _, in := range b.Instrs {
			if st, ok := in.(*ssa.Store); ok {
				if fa, ok := st.Addr.(*ssa.FieldAddr); ok && core.FieldOf(fa) != nil && core.FieldOf(fa).Name() == "peeks" {
					if _, ok := st.Val.(*ssa.Slice); ok {
						shrinks = true
					}
				}
			}
		}
		if shrinks {
			c.Discharge("tok.advance", key+"|dequeue", rs.Ret.Pos(), "returns the head of the peek queue and shrinks the queue")
			continue
		}
		// (2) guard-correlated first iteration
		guards := guardedBy(b)
		ok := false
		how := ""
		for _, blk := range nt.Blocks {
			if !reach[blk] || !blk.Dominates(b) {
				continue
			}
			for _, in := range blk.Instrs {
				call, isCall := in.(*ssa.Call)
				if !isCall || call.Common().StaticCallee() == nil || !fam.inFam[call.Common().StaticCallee()] {
					continue
				}
				cal := call.Common().StaticCallee()
				if p := loopsOn(cal); p != nil && guards[p] {
					ok, how = true, fmt.Sprintf("guard-correlated: this arm is entered under %s(l.char) on the unmodified cursor and %s loops on the same predicate, consuming each time", p.Name(), cal.Name())
				}
				if why, has := named[cal.Name()]; has && len(guardedBy(blk)) > 0 {
					ok, how = true, "named exception "+cal.Name()+": "+why
				}
			}
		}
		if ok {
			c.Discharge("tok.advance", key+"|guarded", rs.Ret.Pos(), how)
		} else {
			c.Report("tok.advance", key+"|no-consume@"+b.Comment, rs.Ret.Pos(), "NextToken can return here without consuming any input and without returning EOF or a queued token: the parser would receive the same token forever")
		}
	}
	// the final return (after the switch): every path consumes, except the EOF arm which must type the token EOF: checked by tok.typed/tok.steady
	c.Floor("tok.advance", 6)
}

// E4 defassign: every token leaving NextToken is typed and located.
func checkTokenTyped(c *core.Ctx) {
	prog := c.Prog
	nt := prog.SSAFunc("lexer", "Lexer.NextToken")
	if nt == nil {
		c.MissingAnchor("tok.typed", "lexer.(*Lexer).NextToken")
		return
	}
	// the token cell: an Alloc of token.Token that is loaded for the returns
	var cell *ssa.Alloc
	for _, rs := range core.ReturnSites(nt) {
		for _, r := range rs.Ret.Results {
			if ld, ok := r.(*ssa.UnOp); ok && ld.Op == token.MUL {
				if al, ok := ld.X.(*ssa.Alloc); ok && core.NamedTypePkgName(al.Type()) == tokenPkg+".Token" {
					cell = al
				}
			}
		}
	}
	if cell == nil {
		c.MissingAnchor("tok.typed", "the token cell of NextToken (returned through a load of a local token.Token)")
		return
	}
	// facts: bitmask Type=1, Line=2, Position=4
	const all = 7
	gen := func(in ssa.Instruction) int {
		st, ok := in.(*ssa.Store)
		if !ok {
			return 0
		}
		if st.Addr == ssa.Value(cell) {
			// whole-struct store: from newToken(type const non-empty, …) or from the peek queue
			if call, ok := st.Val.(*ssa.Call); ok {
				if cal := call.Common().StaticCallee(); cal != nil && cal.Name() == "newToken" {
					if k, ok := call.Common().Args[0].(*ssa.Const); ok && k.Value != nil && constant.StringVal(k.Value) != "" {
						return all
					}
					return 6
				}
			}
			return all // dequeued token / other whole value
		}
		if fa, ok := st.Addr.(*ssa.FieldAddr); ok && fa.X == ssa.Value(cell) {
			switch core.FieldOf(fa).Name() {
			case "Type":
				return 1
			case "Line":
				return 2
			case "Position":
				return 4
			}
		}
		return 0
	}
	in := map[*ssa.BasicBlock]int{}
	out := map[*ssa.BasicBlock]int{}
	for _, b := range nt.Blocks {
		in[b], out[b] = all, all
	}
	in[nt.Blocks[0]] = 0
	for changed := true; changed; {
		changed = false
		for _, b := range nt.Blocks {
			v := all
			for _, p := range b.Preds {
				v &= out[p]
			}
			if b == nt.Blocks[0] {
				v = 0
			}
			in[b] = v
			o := v
			for _, i := range b.Instrs {
				o |= gen(i)
			}
			if o != out[b] {
				out[b] = o
				changed = true
			}
		}
	}
	n := 0
	for _, b := range nt.Blocks {
		facts := in[b]
		for _, i := range b.Instrs {
			facts |= gen(i)
			ld, ok := i.(*ssa.UnOp)
			if !ok || ld.Op != token.MUL || ld.X != ssa.Value(cell) {
				continue
			}
			// does this load feed a return?
			feeds := false
			if ld.Referrers() != nil {
				for _, r := range *ld.Referrers() {
					if _, ok := r.(*ssa.Return); ok {
						feeds = true
					}
				}
			}
			if !feeds {
				continue
			}
			n++
			key := fmt.Sprintf("NextToken|return@%s", returnArmLabel(b))
			if facts == all {
				c.Discharge("tok.typed", key, ld.Pos(), "Type, Line and Position assigned on every path to this return")
			} else {
				var miss []string
				for bit, name := range map[int]string{1: "Type", 2: "Line", 4: "Position"} {
					if facts&bit == 0 {
						miss = append(miss, name)
					}
				}
				sort.Strings(miss)
				c.Report("tok.typed", "NextToken|untyped-return", ld.Pos(), fmt.Sprintf("a path through NextToken reaches this return without assigning %s of the token: the parser receives a token with no type / line 0 (lone `|`, `&`, `^`, `*`, `<<`, `>>`)", strings.Join(miss, ", ")), unassignedArms(c, nt, cell, gen)...)
			}
		}
	}
	if n == 0 {
		c.MissingAnchor("tok.typed", "returns of NextToken")
	}
	c.Floor("tok.typed", 5)
}

func returnArmLabel(b *ssa.BasicBlock) string { return b.Comment + fmt.Sprint(len(b.Preds)) }

// unassignedArms lists the predecessor blocks of the join that arrive without a typed token.
func unassignedArms(c *core.Ctx, fn *ssa.Function, cell *ssa.Alloc, gen func(ssa.Instruction) int) []string {
	var out []string
	reach := map[*ssa.BasicBlock]bool{}
	var work []*ssa.BasicBlock
	work = append(work, fn.Blocks[0])
	for len(work) > 0 {
		b := work[len(work)-1]
		work = work[:len(work)-1]
		if reach[b] {
			continue
		}
		g := 0
		for _, i := range b.Instrs {
			g |= gen(i)
		}
		if g&1 != 0 {
			continue
		}
		reach[b] = true
		work = append(work, b.Succs...)
	}
	for b := range reach {
		if len(b.Succs) == 1 && len(b.Succs[0].Preds) > 3 {
			out = append(out, "untyped arrival from "+c.Prog.Loc(firstPos(b))+" ("+b.Comment+")")
		}
	}
	sort.Strings(out)
	if len(out) > 12 {
		out = out[:12]
	}
	return out
}

// checkErrOrigin: R-errorigin + value-used-before-its-error-is-checked.
func checkErrOrigin(c *core.Ctx) {
	prog := c.Prog
	funcs := prog.ModuleFuncs("parser")
	isParseErrorish := func(t types.Type) bool {
		return core.NamedTypePkgName(t) == parserPkg+".ParseError"
	}
	// the family whose errors are located: methods of *Parser and the *ParseError constructors; unexported helpers
	// (string_escape.go) return plain errors that the Parser methods must wrap
	famFn := map[*ssa.Function]bool{}
	isLocated := func(fn *ssa.Function) bool {
		top := fn
		for top.Parent() != nil {
			top = top.Parent()
		}
		if top.Signature.Recv() != nil && core.NamedTypePkgName(top.Signature.Recv().Type()) == parserPkg+".Parser" {
			return true
		}
		res := top.Signature.Results()
		for i := 0; i < res.Len(); i++ {
			if isParseErrorish(res.At(i).Type()) {
				return true
			}
		}
		return false
	}
	for _, fn := range funcs {
		if isLocated(fn) {
			famFn[fn] = true
		}
	}
	var originOK func(v ssa.Value, seen map[ssa.Value]bool) (bool, string)
	originOK = func(v ssa.Value, seen map[ssa.Value]bool) (bool, string) {
		if seen[v] {
			return true, ""
		}
		seen[v] = true
		switch t := v.(type) {
		case *ssa.Const:
			return true, ""
		case *ssa.MakeInterface:
			if isParseErrorish(t.X.Type()) {
				return true, ""
			}
			return false, "a value of type " + t.X.Type().String()
		case *ssa.Phi:
			for _, e := range t.Edges {
				if ok, why := originOK(e, seen); !ok {
					return false, why
				}
			}
			return true, ""
		case *ssa.Extract:
			return originOK(t.Tuple, seen)
		case *ssa.Call:
			cc := t.Common()
			if cal := cc.StaticCallee(); cal != nil {
				if cal.Pkg != nil && cal.Pkg.Pkg.Path() == "github.com/pkg/errors" && (cal.Name() == "WithStack" || cal.Name() == "Cause") {
					return originOK(cc.Args[0], seen)
				}
				if famFn[cal] || (cal.Pkg != nil && cal.Pkg.Pkg.Path() == core.ModPath+"/tester/syntax") {
					return true, ""
				}
				return false, "the result of " + cal.String()
			}
			// dynamic calls: Pratt closures / custom parsers belong to the family
			return true, ""
		case *ssa.UnOp:
			if t.Op == token.MUL {
				if al, ok := t.X.(*ssa.Alloc); ok {
					ok2 := true
					why := ""
					if al.Referrers() != nil {
						for _, r := range *al.Referrers() {
							if st, isSt := r.(*ssa.Store); isSt && st.Addr == ssa.Value(al) {
								if o, w := originOK(st.Val, seen); !o {
									ok2, why = false, w
								}
							}
						}
					}
					return ok2, why
				}
			}
			return true, ""
		}
		return true, ""
	}
	for _, fn := range funcs {
		if fn.Pkg == nil || fn.Pkg.Pkg.Path() != parserPkg || !famFn[fn] {
			continue
		}
		for _, rs := range core.ReturnSites(fn) {
			for _, r := range rs.Results {
				if !core.IsErrorType(r.Type()) || core.IsNilConst(r) {
					continue
				}
				key := core.FnName(fn) + "|error-origin"
				if ok, why := originOK(r, map[ssa.Value]bool{}); ok {
					c.Discharge("err.located", key, rs.Ret.Pos(), "error originates from a *ParseError or a family callee")
				} else {
					c.Report("err.located", key, rs.Ret.Pos(), fmt.Sprintf("%s returns an error that is %s, not a *ParseError: the diagnostic carries no token, so it cannot be located in the input", core.FnName(fn), why))
				}
			}
		}
		// value used before its error is checked
		for _, b := range fn.Blocks {
			for _, in := range b.Instrs {
				call, ok := in.(*ssa.Call)
				if !ok || call.Common().Signature().Results().Len() != 2 || !core.IsErrorType(call.Common().Signature().Results().At(1).Type()) || call.Referrers() == nil {
					continue
				}
				if !nilable(call.Common().Signature().Results().At(0).Type()) {
					continue
				}
				cal := call.Common().StaticCallee()
				if cal == nil || !famFn[cal] {
					continue
				}
				var val, errV ssa.Value
				for _, r := range *call.Referrers() {
					if ex, ok := r.(*ssa.Extract); ok {
						if ex.Index == 0 {
							val = ex
						} else {
							errV = ex
						}
					}
				}
				if val == nil || errV == nil {
					continue
				}
				for _, use := range derefUses(nil, val) {
					if !core.DominatedByNil(errV, use.Block(), true) && !core.DominatedByNil(val, use.Block(), false) {
						c.Report("err.located", core.FnName(fn)+"|use-before-check:"+cal.Name(), use.Pos(), fmt.Sprintf("the value returned by %s is dereferenced before its error is tested: when it fails the value is nil and the parser crashes", cal.Name()))
						break
					}
				}
			}
		}
	}
	c.Floor("err.located", 60)
}

func isBufioReaderCall(in ssa.Instruction, names ...string) bool {
	ci, ok := in.(ssa.CallInstruction)
	if !ok {
		return false
	}
	cal := ci.Common().StaticCallee()
	if cal == nil || cal.Pkg == nil || cal.Pkg.Pkg.Path() != "bufio" || cal.Signature.Recv() == nil || core.NamedTypeName(cal.Signature.Recv().Type()) != "Reader" {
		return false
	}
	for _, n := range names {
		if cal.Name() == n {
			return true
		}
	}
	return false
}

// exhaustedReaderCall: bufio.Reader at end of input: the call fails, and ReadRune/ReadByte return the zero rune/byte.
func exhaustedReaderCall(in ssa.Instruction) (aval, bool) {
	if !isBufioReaderCall(in, "Peek", "ReadRune", "Discard", "ReadByte") {
		return aval{}, false
	}
	call := in.(*ssa.Call)
	n := call.Common().Signature().Results().Len()
	tu := make([]aval, n)
	for i := range tu {
		tu[i] = top
	}
	tu[n-1] = aval{k: avNonNil}
	switch call.Common().StaticCallee().Name() {
	case "ReadRune", "ReadByte":
		tu[0] = aval{k: avConst, c: constant.MakeInt64(0)}
	}
	return aval{k: avTuple, tuple: tu}, true
}

// astDescendingCycle: none of the functions has access to a token stream (no Parser/Lexer/Reader receiver or
// parameter) and every call inside the cycle passes an argument that descends from the caller's AST parameter.
func astDescendingCycle(cyc []*ssa.Function) string {
	in := map[*ssa.Function]bool{}
	for _, fn := range cyc {
		in[fn] = true
		for _, p := range fn.Params {
			switch core.NamedTypeName(derefType(p.Type())) {
			case "Parser", "Lexer", "Reader", "Tokenizer":
				return ""
			}
		}
		if len(fn.FreeVars) > 0 {
			return ""
		}
	}
	n := 0
	for _, fn := range cyc {
		for _, b := range fn.Blocks {
			for _, i := range b.Instrs {
				call, ok := i.(ssa.CallInstruction)
				if !ok {
					continue
				}
				cal := call.Common().StaticCallee()
				if cal == nil || !in[cal] {
					continue
				}
				desc := false
				for _, a := range call.Common().Args {
					switch classifyArg(fn, a) {
					case "descending":
						desc = true
					case "same", "re-entry":
						return ""
					}
				}
				if !desc {
					return ""
				}
				n++
			}
		}
	}
	if n == 0 {
		return ""
	}
	return fmt.Sprintf("helper recursion without stream access: all %d recursive call(s) descend on the syntax tree argument", n)
}
