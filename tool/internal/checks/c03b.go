package checks

import (
	"fmt"
	"go/constant"
	"go/token"
	"go/types"
	"sort"
	"strings"

	"fv/internal/core"

	"golang.org/x/tools/go/ssa"
)

// checkJuxtaposition (fmt.juxta): with explicit_string_concat disabled the formatter omits the `+` of a concatenation.
// The text then re-parses to the same tree only when the parser concatenates implicitly at that point, i.e. when the
// right operand starts with one of the tokens registered for ParseInfixStringConcatExpression(left, false). Decided by
// agreement of two tables extracted on every run:
//   - parser: the tokens t with infixParsers[t] = implicit concatenation, and for each node kind its first token
//     (prefixParsers[t] -> parser function -> result type; FunctionCall / Infix / Postfix start with their left child);
//   - formatter: the `""` that replaces InfixExpression.Operator is control dependent on a predicate over expr.Right,
//     and every `return true` of that predicate lies in a type-switch arm of a kind whose first token is such a t
//     (or recurses on the left child of a kind that starts with its left child).
func checkJuxtaposition(c *core.Ctx) {
	prog := c.Prog
	reg := prog.SSAFunc("parser", "Parser.registerExpressionParsers")
	fie := prog.SSAFunc("formatter", "Formatter.formatInfixExpression")
	if reg == nil || fie == nil {
		c.MissingAnchor("fmt.juxta", "parser.registerExpressionParsers / formatter.formatInfixExpression")
		return
	}
	// ---- parser side
	triggers := map[string]bool{}   // token values that continue an expression by implicit concatenation
	firstTok := map[string]string{} // node kind -> token value it starts with
	for _, b := range reg.Blocks {
		for _, in := range b.Instrs {
			mu, ok := in.(*ssa.MapUpdate)
			if !ok {
				continue
			}
			field := ""
			if mm, ok := mu.Map.(*ssa.MakeMap); ok && mm.Referrers() != nil {
				for _, r := range *mm.Referrers() {
					if st, ok := r.(*ssa.Store); ok {
						if f := core.FieldOf(st.Addr); f != nil {
							field = f.Name()
						}
					}
				}
			}
			k, ok := mu.Key.(*ssa.Const)
			if !ok || k.Value == nil || k.Value.Kind() != constant.String {
				continue
			}
			tok := constant.StringVal(k.Value)
			target, exp := closureTarget(closureFunc(mu.Value))
			switch field {
			case "infixParsers":
				if target == "ParseInfixStringConcatExpression" && exp == "false" {
					triggers[tok] = true
				}
			case "prefixParsers":
				if pf := prog.SSAFunc("parser", "Parser."+target); pf != nil && pf.Signature.Results().Len() > 0 {
					if kind := core.NamedTypeName(derefType(pf.Signature.Results().At(0).Type())); kind != "" {
						if _, dup := firstTok[kind]; !dup || triggers[tok] {
							firstTok[kind+"|"+tok] = tok
						}
					}
				}
			}
		}
	}
	if len(triggers) == 0 {
		c.MissingAnchor("fmt.juxta", "implicit concatenation entries of infixParsers")
		return
	}
	// kinds all of whose first tokens are triggers
	byKind := map[string][]string{}
	for kt, tok := range firstTok {
		kind := strings.SplitN(kt, "|", 2)[0]
		byKind[kind] = append(byKind[kind], tok)
	}
	startsWithTrigger := map[string]bool{}
	for kind, toks := range byKind {
		all := true
		for _, t := range toks {
			if !triggers[t] {
				all = false
			}
		}
		startsWithTrigger[kind] = all
	}
	// a function call is `<ident> (`: it starts like an Ident
	startsWithTrigger["FunctionCallExpression"] = startsWithTrigger["Ident"]
	leftFirst := map[string]bool{"InfixExpression": true, "PostfixExpression": true}
	var allowed []string
	for k, v := range startsWithTrigger {
		if v {
			allowed = append(allowed, k)
		}
	}
	sort.Strings(allowed)
	c.Extra("implicit_concat_kinds", allowed)

	// ---- formatter side: the phi edge / store that replaces the operator by ""
	cd := core.NewCtrlDeps(fie)
	var dropBlocks []*ssa.BasicBlock
	for _, b := range fie.Blocks {
		for _, in := range b.Instrs {
			phi, ok := in.(*ssa.Phi)
			if !ok {
				continue
			}
			if bt, ok := phi.Type().Underlying().(*types.Basic); !ok || bt.Kind() != types.String {
				continue
			}
			hasOp := false
			for _, e := range phi.Edges {
				if ld, ok := e.(*ssa.UnOp); ok && ld.Op == token.MUL {
					if f := core.FieldOf(ld.X); f != nil && f.Name() == "Operator" {
						hasOp = true
					}
				}
				if p2, ok := e.(*ssa.Phi); ok {
					for _, e2 := range p2.Edges {
						if ld, ok := e2.(*ssa.UnOp); ok && ld.Op == token.MUL {
							if f := core.FieldOf(ld.X); f != nil && f.Name() == "Operator" {
								hasOp = true
							}
						}
					}
				}
			}
			if !hasOp {
				continue
			}
			for i, e := range phi.Edges {
				if k, ok := e.(*ssa.Const); ok && k.Value != nil && k.Value.Kind() == constant.String && constant.StringVal(k.Value) == "" {
					dropBlocks = append(dropBlocks, b.Preds[i])
				}
			}
		}
	}
	if len(dropBlocks) == 0 {
		c.Discharge("fmt.juxta", "formatInfixExpression|no-drop", fie.Pos(), "the operator of an infix expression is never replaced by the empty string")
		return
	}
	for i, db := range dropBlocks {
		key := fmt.Sprintf("formatInfixExpression|drop#%d", i+1)
		var pred *ssa.Function
		for _, e := range cd.Transitive(db) {
			cond := core.BranchCond(e.From)
			call, ok := cond.(*ssa.Call)
			if !ok {
				continue
			}
			cal := call.Common().StaticCallee()
			if cal == nil || cal.Blocks == nil {
				continue
			}
			for _, a := range call.Common().Args {
				if _, path := chainOf(a); len(path) > 0 && path[len(path)-1] == "Right" && e.Idx == 0 {
					pred = cal
				}
			}
		}
		if pred == nil {
			c.Report("fmt.juxta", key, db.Instrs[len(db.Instrs)-1].Pos(), "formatInfixExpression omits the `+` of a concatenation without testing what the right operand starts with: `now + 5m`, `1 + -1`, `a + (b)` are printed as text that does not parse (implicit concatenation is only recognised in front of "+strings.Join(allowed, ", ")+")")
			continue
		}
		bad := juxtaPredicateViolations(pred, startsWithTrigger, leftFirst, triggers)
		if len(bad) == 0 {
			c.Discharge("fmt.juxta", key, pred.Pos(), "the plus is omitted only when "+pred.Name()+" holds, and it holds only for kinds that start with an implicit-concatenation token: "+strings.Join(allowed, ", "))
		} else {
			c.Report("fmt.juxta", key, pred.Pos(), fmt.Sprintf("%s, which decides where the formatter omits `+`, answers true for %s: the parser does not concatenate implicitly in front of that (its infix table has no entry for the token it starts with), so the formatted text does not parse or parses to another tree", pred.Name(), strings.Join(bad, ", ")))
		}
	}
}

// juxtaPredicateViolations: the ways the predicate can answer true for an operand that does not start with a trigger.
func juxtaPredicateViolations(pred *ssa.Function, ok map[string]bool, leftFirst map[string]bool, triggers map[string]bool) []string {
	var bad []string
	// arm kinds of a block: the asserted types of the comma-ok TypeAsserts whose true edges lead to it (a `case A, B:`
	// arm is entered from several assertions); found by walking up single-predecessor chains to the arm's head
	taOf := func(blk *ssa.BasicBlock) string {
		iff, isIf := blk.Instrs[len(blk.Instrs)-1].(*ssa.If)
		if !isIf {
			return ""
		}
		ex, isEx := iff.Cond.(*ssa.Extract)
		if !isEx {
			return ""
		}
		ta, isTA := ex.Tuple.(*ssa.TypeAssert)
		if !isTA {
			return ""
		}
		return core.NamedTypeName(derefType(ta.AssertedType))
	}
	var armKinds func(b *ssa.BasicBlock, depth int) []string
	armKinds = func(b *ssa.BasicBlock, depth int) []string {
		if depth > 6 || len(b.Preds) == 0 {
			return nil
		}
		var kinds []string
		all := true
		for _, p := range b.Preds {
			k := taOf(p)
			if k != "" && p.Succs[0] == b {
				kinds = append(kinds, k)
			} else {
				all = false
			}
		}
		if all && len(kinds) > 0 {
			return kinds
		}
		if len(b.Preds) == 1 {
			return armKinds(b.Preds[0], depth+1)
		}
		return nil
	}
	armKind := func(b *ssa.BasicBlock) string {
		ks := armKinds(b, 0)
		if len(ks) == 0 {
			return ""
		}
		// all kinds of a shared arm must be acceptable: report the first that is not
		for _, k := range ks {
			if !ok[k] && !leftFirst[k] {
				return k
			}
		}
		return ks[0]
	}
	for _, rs := range core.ReturnSites(pred) {
		if len(rs.Results) != 1 {
			continue
		}
		r := rs.Results[0]
		kind := armKind(rs.Ret.Block())
		if k, isK := r.(*ssa.Const); isK {
			if k.Value != nil && constant.BoolVal(k.Value) {
				if kind == "" {
					bad = append(bad, "every operand (a `return true` outside the type switch)")
				} else if !ok[kind] {
					bad = append(bad, "*ast."+kind)
				}
			}
			continue
		}
		// return t.Token.Type == token.X: true only when the node's own first token is X
		if bo, isBo := r.(*ssa.BinOp); isBo && bo.Op == token.EQL {
			var kv *ssa.Const
			var other ssa.Value
			if k, isK := bo.Y.(*ssa.Const); isK {
				kv, other = k, bo.X
			} else if k, isK := bo.X.(*ssa.Const); isK {
				kv, other = k, bo.Y
			}
			_, path := chainOf(other)
			if kv != nil && kv.Value != nil && kv.Value.Kind() == constant.String && len(path) >= 2 && path[len(path)-1] == "Type" && path[len(path)-2] == "Token" {
				if !triggers[constant.StringVal(kv.Value)] {
					bad = append(bad, "*ast."+kind+" starting with token "+constant.StringVal(kv.Value))
				}
				continue
			}
		}
		// return pred(t.Left)
		if call, isCall := r.(*ssa.Call); isCall && call.Common().StaticCallee() == pred {
			_, path := chainOf(call.Common().Args[len(call.Common().Args)-1])
			if leftFirst[kind] && len(path) > 0 && path[len(path)-1] == "Left" {
				continue
			}
			bad = append(bad, fmt.Sprintf("*ast.%s through %v (that kind does not start with this child)", kind, path))
			continue
		}
		// a phi of such values: every edge
		if phi, isPhi := r.(*ssa.Phi); isPhi {
			for i, e := range phi.Edges {
				pk := armKind(phi.Block().Preds[i])
				if k, isK := e.(*ssa.Const); isK {
					if k.Value != nil && constant.BoolVal(k.Value) && !ok[pk] {
						bad = append(bad, "*ast."+pk)
					}
					continue
				}
				if call, isCall := e.(*ssa.Call); isCall && call.Common().StaticCallee() == pred {
					_, path := chainOf(call.Common().Args[len(call.Common().Args)-1])
					if leftFirst[pk] && len(path) > 0 && path[len(path)-1] == "Left" {
						continue
					}
				}
				bad = append(bad, "a value the rule cannot classify (phi edge)")
			}
			continue
		}
		bad = append(bad, "a value the rule cannot classify")
	}
	sort.Strings(bad)
	return bad
}
