package checks

// C12, rule ignore.deferred: a diagnostic is filtered by the ignore sets as they are at the moment (*Linter).Error is
// called. The sets describe the statement being linted (lintStatement brackets every statement with Setup/Teardown).
// A diagnostic that is *located* in one statement but *reported* while another one - or none - is set up is therefore
// not removed by an ignore comment on the statement it points at. Two shapes are decided:
//
//  (table)       the location comes out of a context table (types.X.Decl, context.Object.Meta) instead of the node in
//                hand: the unused-declaration family, recursion. The code base's own idiom makes these obey the
//                comment: while the declaration is being linted (its comments are set up) `if l.ignore.IsEnable(R)
//                { elem.IsUsed = true }`, and the reporter skips used elements. Required: for every such report of
//                rule R on element type T the reporter is guarded by T.IsUsed and some function of the linter marks
//                T used under IsEnable(R).
//  (unbracketed) the report is made by a function reached from Lint on a path with no Setup before it (the passes
//                that run before the statement loop: root declaration registration, include resolution, scope
//                inference). Reports without a location (plain errors) are exempt.
//
// Lint is assumed to be entered with the root *ast.VCL (its documentation: bootstrap, called once).

import (
	"fmt"
	"go/constant"
	"go/types"
	"sort"
	"strings"

	"fv/internal/core"

	"golang.org/x/tools/go/ssa"
)

func checkDeferredDiagnostics(c *core.Ctx) {
	prog := c.Prog
	errFn := prog.SSAFunc("linter", "Linter.Error")
	isEnable := prog.SSAFunc("linter", "ignore.IsEnable")
	setup := prog.SSAFunc("linter", "ignore.SetupStatement")
	lintEntry := prog.SSAFunc("linter", "Linter.Lint")
	disp := prog.SSAFunc("linter", "Linter.lint")
	if errFn == nil || isEnable == nil || setup == nil || lintEntry == nil || disp == nil {
		c.MissingAnchor("ignore.deferred", "linter.(*Linter).Error / Lint / lint / (*ignore).IsEnable / SetupStatement")
		return
	}
	var lfuncs []*ssa.Function
	for _, fn := range prog.ModuleFuncs("linter") {
		if fn.Pkg != nil && fn.Pkg.Pkg.Path() == linterPkg {
			lfuncs = append(lfuncs, fn)
		} else if fn.Parent() != nil {
			top := fn
			for top.Parent() != nil {
				top = top.Parent()
			}
			if top.Pkg != nil && top.Pkg.Pkg.Path() == linterPkg {
				lfuncs = append(lfuncs, fn)
			}
		}
	}
	inLinter := map[*ssa.Function]bool{}
	for _, fn := range lfuncs {
		inLinter[fn] = true
	}

	// ---- the rule constant and the location of a reported diagnostic
	// everything the error value is built from, including what is stored into the fields of a literal
	errSlice := func(v ssa.Value) map[ssa.Value]bool {
		out := map[ssa.Value]bool{}
		work := []ssa.Value{v}
		for len(work) > 0 {
			w := work[len(work)-1]
			work = work[:len(work)-1]
			for x := range core.BackSliceLocal(w) {
				if out[x] {
					continue
				}
				out[x] = true
				al, isAl := x.(*ssa.Alloc)
				if !isAl || al.Referrers() == nil {
					continue
				}
				for _, r := range *al.Referrers() {
					fa, isFA := r.(*ssa.FieldAddr)
					if !isFA || fa.Referrers() == nil {
						continue
					}
					for _, r2 := range *fa.Referrers() {
						if st, isSt := r2.(*ssa.Store); isSt && st.Addr == ssa.Value(fa) && !out[st.Val] {
							if f := core.FieldOf(fa); f != nil && f.Name() == "Rule" {
								out[fa] = true
							}
							work = append(work, st.Val)
						}
					}
				}
			}
		}
		return out
	}
	ruleOf := func(v ssa.Value) string {
		sl := errSlice(v)
		for x := range sl {
			// Rule: "…" in a literal
			if fa, ok := x.(*ssa.FieldAddr); ok && fa.Referrers() != nil {
				if f := core.FieldOf(fa); f != nil && f.Name() == "Rule" && core.NamedTypeName(derefType(fa.X.Type())) == "LintError" {
					for _, r := range *fa.Referrers() {
						if st, isSt := r.(*ssa.Store); isSt {
							if k, isK := st.Val.(*ssa.Const); isK && k.Value != nil && k.Value.Kind() == constant.String {
								return constant.StringVal(k.Value)
							}
						}
					}
				}
			}
		}
		for x := range sl {
			call, ok := x.(*ssa.Call)
			if !ok {
				continue
			}
			cal := call.Common().StaticCallee()
			if cal == nil || cal.Name() != "Match" || cal.Signature.Recv() == nil || core.NamedTypeName(derefType(cal.Signature.Recv().Type())) != "LintError" {
				continue
			}
			args := call.Common().Args
			if k, isK := args[len(args)-1].(*ssa.Const); isK && k.Value != nil && k.Value.Kind() == constant.String {
				return constant.StringVal(k.Value)
			}
		}
		return ""
	}
	// the element type whose recorded declaration gives the location: a field Decl / BackendDecl / DirectorDecl of a
	// linter/types struct, or Meta of context.Object, in the data the error is built from
	tableElem := func(v ssa.Value) string {
		for x := range errSlice(v) {
			f := core.FieldOf(x)
			if f == nil {
				continue
			}
			owner := core.FieldOwner(x)
			switch {
			case strings.HasPrefix(owner, core.ModPath+"/linter/types.") && strings.HasSuffix(f.Name(), "Decl"):
				return owner
			case owner == core.ModPath+"/linter/context.Object" && f.Name() == "Meta":
				return owner
			}
		}
		return ""
	}
	located := func(v ssa.Value) bool {
		// a diagnostic has a location when it is built from a node, a Meta or a token; a plain error, or a *LintError
		// made of strings only (externally defined resources), points at no statement
		for x := range errSlice(v) {
			t := derefType(x.Type())
			n := core.NamedTypePkgName(t)
			if n == core.ModPath+"/token.Token" || strings.HasPrefix(n, core.ModPath+"/ast.") {
				return true
			}
		}
		return false
	}

	// ---- who marks which element type used under IsEnable(R)
	setsUsed := map[*ssa.Function]map[string]bool{} // function -> element types whose IsUsed it stores true (2 levels)
	direct := func(fn *ssa.Function) map[string]bool {
		out := map[string]bool{}
		for _, b := range fn.Blocks {
			for _, in := range b.Instrs {
				st, ok := in.(*ssa.Store)
				if !ok {
					continue
				}
				if f := core.FieldOf(st.Addr); f != nil && f.Name() == "IsUsed" {
					if k, isK := st.Val.(*ssa.Const); isK && k.Value != nil && k.Value.Kind() == constant.Bool && constant.BoolVal(k.Value) {
						out[core.FieldOwner(st.Addr)] = true
					}
				}
			}
		}
		return out
	}
	for _, fn := range prog.ModuleFuncs("linter") {
		setsUsed[fn] = direct(fn)
	}
	// a helper that only answers IsEnable(R) for a constant R (`func (l *Linter) isUnusedDeclarationIgnored() bool`)
	// stands for that test
	enableOf := map[*ssa.Function]string{}
	for _, fn := range lfuncs {
		if fn == isEnable || fn.Signature.Results().Len() != 1 {
			continue
		}
		rule, okAll := "", true
		for _, rs := range core.ReturnSites(fn) {
			call, isCall := rs.Results[0].(*ssa.Call)
			if !isCall || call.Common().StaticCallee() != isEnable {
				okAll = false
				break
			}
			k, isK := call.Common().Args[len(call.Common().Args)-1].(*ssa.Const)
			if !isK || k.Value == nil || k.Value.Kind() != constant.String {
				okAll = false
				break
			}
			rule = constant.StringVal(k.Value)
		}
		if okAll && rule != "" {
			enableOf[fn] = rule
		}
	}
	marked := map[string]map[string]bool{} // element type -> rules under whose IsEnable it is marked used
	for _, fn := range lfuncs {
		for _, b := range fn.Blocks {
			for _, in := range b.Instrs {
				call, ok := in.(*ssa.Call)
				if !ok || call.Referrers() == nil {
					continue
				}
				rule := ""
				if call.Common().StaticCallee() == isEnable {
					k, isK := call.Common().Args[len(call.Common().Args)-1].(*ssa.Const)
					if !isK || k.Value == nil || k.Value.Kind() != constant.String {
						continue
					}
					rule = constant.StringVal(k.Value)
				} else if r, isHelper := enableOf[call.Common().StaticCallee()]; isHelper {
					rule = r
				} else {
					continue
				}
				var arms []*ssa.BasicBlock
				for _, blk := range fn.Blocks {
					if core.DominatedByTrue(call, blk) {
						arms = append(arms, blk)
					}
				}
				for _, blk := range arms {
					for _, i2 := range blk.Instrs {
						if st, isSt := i2.(*ssa.Store); isSt {
							if f := core.FieldOf(st.Addr); f != nil && f.Name() == "IsUsed" {
								if kv, isKv := st.Val.(*ssa.Const); isKv && kv.Value != nil && kv.Value.Kind() == constant.Bool && constant.BoolVal(kv.Value) {
									if marked[core.FieldOwner(st.Addr)] == nil {
										marked[core.FieldOwner(st.Addr)] = map[string]bool{}
									}
									marked[core.FieldOwner(st.Addr)][rule] = true
								}
							}
						}
						if cal := core.StaticCallee(i2); cal != nil {
							for t := range setsUsed[cal] {
								if marked[t] == nil {
									marked[t] = map[string]bool{}
								}
								marked[t][rule] = true
							}
						}
					}
				}
			}
		}
	}

	// ---- functions reached from Lint with no statement set up
	arms := map[string][]*ssa.Function{} // asserted node type -> callees of its arm in the dispatcher
	var allArms []*ssa.Function
	for _, b := range disp.Blocks {
		for _, in := range b.Instrs {
			if cal := core.StaticCallee(in); cal != nil && inLinter[cal] {
				allArms = append(allArms, cal)
			}
			ta, ok := in.(*ssa.TypeAssert)
			if !ok || !ta.CommaOk || ta.Referrers() == nil {
				continue
			}
			name := core.NamedTypeName(derefType(ta.AssertedType))
			for _, r := range *ta.Referrers() {
				ex, isEx := r.(*ssa.Extract)
				if !isEx || ex.Index != 1 || ex.Referrers() == nil {
					continue
				}
				for _, rr := range *ex.Referrers() {
					iff, isIf := rr.(*ssa.If)
					if !isIf {
						continue
					}
					for _, blk := range disp.Blocks {
						if !core.EdgeDominates(iff.Block(), 0, blk) {
							continue
						}
						for _, i2 := range blk.Instrs {
							if cal := core.StaticCallee(i2); cal != nil && inLinter[cal] {
								arms[name] = append(arms[name], cal)
							}
						}
					}
				}
			}
		}
	}
	bracketed := func(in ssa.Instruction) bool {
		fn := in.Parent()
		for _, b := range fn.Blocks {
			for _, i2 := range b.Instrs {
				if cal := core.StaticCallee(i2); cal == setup && core.InstrDominates(i2, in) {
					return true
				}
			}
		}
		return false
	}
	unbr := map[*ssa.Function]bool{}
	var visit func(fn *ssa.Function)
	visit = func(fn *ssa.Function) {
		if unbr[fn] {
			return
		}
		unbr[fn] = true
		for _, b := range fn.Blocks {
			for _, in := range b.Instrs {
				if mc, ok := in.(*ssa.MakeClosure); ok {
					if g, isFn := mc.Fn.(*ssa.Function); isFn && !bracketed(in) {
						visit(g)
					}
					continue
				}
				cal := core.StaticCallee(in)
				if cal == nil || !inLinter[cal] || bracketed(in) {
					continue
				}
				if cal != disp {
					visit(cal)
					continue
				}
				// the dispatcher: only the arm of the node handed over
				args := in.(ssa.CallInstruction).Common().Args
				node := args[len(args)-2]
				for {
					if mi, ok := node.(*ssa.MakeInterface); ok {
						node = mi.X
						continue
					}
					if ci, ok := node.(*ssa.ChangeInterface); ok {
						node = ci.X
						continue
					}
					break
				}
				tn := ""
				if _, isIface := node.Type().Underlying().(*types.Interface); !isIface {
					tn = core.NamedTypeName(derefType(node.Type()))
				} else if fn == lintEntry {
					tn = "VCL"
				}
				targets := allArms
				if tn != "" {
					targets = arms[tn]
				}
				for _, t := range targets {
					visit(t)
				}
			}
		}
	}
	visit(lintEntry)
	var unbrNames []string
	for fn := range unbr {
		unbrNames = append(unbrNames, core.FnName(fn))
	}
	sort.Strings(unbrNames)
	c.Extra("ignore_unbracketed_functions", unbrNames)
	if len(arms["VCL"]) == 0 {
		c.MissingAnchor("ignore.deferred", "the *ast.VCL arm of (*Linter).lint")
	}

	// ---- the reports, in source order (the keys carry the rule, not the function: moving a report into a helper keeps it)
	type site struct {
		fn   *ssa.Function
		b    *ssa.BasicBlock
		call *ssa.Call
	}
	var sites []site
	for _, fn := range lfuncs {
		if fn == errFn {
			continue
		}
		for _, b := range fn.Blocks {
			for _, in := range b.Instrs {
				if call, ok := in.(*ssa.Call); ok && call.Common().StaticCallee() == errFn {
					sites = append(sites, site{fn, b, call})
				}
			}
		}
	}
	sort.SliceStable(sites, func(i, j int) bool {
		pi, pj := prog.Fset.Position(sites[i].call.Pos()), prog.Fset.Position(sites[j].call.Pos())
		if pi.Filename != pj.Filename {
			return pi.Filename < pj.Filename
		}
		return pi.Offset < pj.Offset
	})
	// a reporting helper that takes the rule as a parameter (`reportDuplicated(err, meta, rule)`) is judged once per call
	// with a constant rule
	callsOf := func(h *ssa.Function) []*ssa.Call {
		var out []*ssa.Call
		for _, g := range lfuncs {
			for _, gb := range g.Blocks {
				for _, gi := range gb.Instrs {
					if gc, isCall := gi.(*ssa.Call); isCall && gc.Common().StaticCallee() == h {
						out = append(out, gc)
					}
				}
			}
		}
		sort.SliceStable(out, func(i, j int) bool { return out[i].Pos() < out[j].Pos() })
		return out
	}
	ruleParamOf := func(fn *ssa.Function, v ssa.Value) int {
		for x := range errSlice(v) {
			call, ok := x.(*ssa.Call)
			if !ok {
				continue
			}
			cal := call.Common().StaticCallee()
			if cal == nil || cal.Name() != "Match" {
				continue
			}
			args := call.Common().Args
			if p, isP := args[len(args)-1].(*ssa.Parameter); isP {
				for i, q := range fn.Params {
					if q == p {
						return i
					}
				}
			}
		}
		return -1
	}
	ord := map[string]int{}
	for _, st := range sites {
		rulesHere := []string{""}
		if pi := ruleParamOf(st.fn, st.call.Common().Args[len(st.call.Common().Args)-1]); pi >= 0 {
			rulesHere = nil
			for _, gc := range callsOf(st.fn) {
				if k, isK := gc.Common().Args[pi].(*ssa.Const); isK && k.Value != nil && k.Value.Kind() == constant.String {
					rulesHere = append(rulesHere, constant.StringVal(k.Value))
				} else {
					rulesHere = append(rulesHere, "")
				}
			}
		}
		for _, ruleOverride := range rulesHere {
			{
				fn, b, call := st.fn, st.b, st.call
				var in ssa.Instruction = call
				arg := call.Common().Args[len(call.Common().Args)-1]
				rule := ruleOf(arg)
				if ruleOverride != "" {
					rule = ruleOverride
				}
				elem := tableElem(arg)
				top := fn
				for top.Parent() != nil {
					top = top.Parent()
				}
				base := rule
				if base == "" {
					base = "(no rule)"
				}
				switch {
				case elem != "":
					short := elem[strings.LastIndex(elem, "/")+1:]
					key := fmt.Sprintf("table|%s|%s", base, short)
					ord[key]++
					if ord[key] > 1 {
						key = fmt.Sprintf("%s#%d", key, ord[key])
					}
					// reporter guarded by the element's IsUsed
					guarded := false
					for _, blk := range fn.Blocks {
						iff, isIf := blk.Instrs[len(blk.Instrs)-1].(*ssa.If)
						if !isIf {
							continue
						}
						cond := iff.Cond
						neg := false
						if u, isU := cond.(*ssa.UnOp); isU && u.Op.String() == "!" {
							cond, neg = u.X, true
						}
						ld, isLd := cond.(*ssa.UnOp)
						if !isLd || ld.Op.String() != "*" {
							continue
						}
						if f := core.FieldOf(ld.X); f == nil || f.Name() != "IsUsed" || core.FieldOwner(ld.X) != elem {
							continue
						}
						notUsed := 1
						if neg {
							notUsed = 0
						}
						if core.EdgeDominates(blk, notUsed, b) {
							guarded = true
						}
					}
					switch {
					case guarded && rule != "" && marked[elem][rule]:
						c.Discharge("ignore.deferred", key, in.Pos(), fmt.Sprintf("reported for unused %s only; the declaration marks it used under IsEnable(%q) while its own ignore comments are set up", short, rule))
					case guarded:
						c.Report("ignore.deferred", key, in.Pos(), fmt.Sprintf("%s reports %q at the recorded declaration of a %s after the statement has been torn down, and nothing marks the %s used under IsEnable(%q) while the declaration is linted (the idiom of the other unused-declaration reports): an ignore comment on the declaration does not remove this diagnostic", core.FnName(top), rule, short, short, rule))
					default:
						c.Report("ignore.deferred", key, in.Pos(), fmt.Sprintf("%s reports %q at the recorded declaration of a %s, not at the statement in hand: the ignore comments of the statement the diagnostic points at are not set up when it is filtered", core.FnName(top), rule, short))
					}
				case unbr[fn]:
					key := fmt.Sprintf("unbracketed|%s", base)
					ord[key]++
					if ord[key] > 1 {
						key = fmt.Sprintf("%s#%d", key, ord[key])
					}
					if !located(arg) {
						c.Discharge("ignore.deferred", key, in.Pos(), "a plain error without a location: no statement covers it")
						continue
					}
					c.Report("ignore.deferred", key, in.Pos(), fmt.Sprintf("%s reports %q on a path from Lint on which no statement has been set up (it runs before the statement loop): an ignore comment on the statement the diagnostic points at does not remove it", core.FnName(top), rule))
				}
			}
		}
	}
	c.Floor("ignore.deferred", 8)
}
